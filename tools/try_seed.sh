#!/bin/bash
# usage: tools/try_seed.sh <seed-dir-name> [tier]   — run the seed's property check against a scratch worktree carrying
# the patch (BT_REPO), evidence to a scratch directory; for experiments while /repo is busy.  Not a registered check.
s=$1; tier=${2:-quick}
p=${s%%_*}
w=$(mktemp -d /tmp/ts_${s}_XXXX); rmdir $w
git -C /repo worktree add --detach $w HEAD >/dev/null 2>&1 || exit 2
git -C $w apply /verif/seeded/$s/patch.diff || { echo "patch does not apply"; git -C /repo worktree remove --force $w; exit 2; }
ev=$(mktemp -d /tmp/ev_${s}_XXXX)
cd ${VERIF_DIR:-/verif}
BT_REPO=$w BT_VERIF_EVIDENCE_DIR=$ev BT_VERIF_REPLAY_DIR=$ev/replay ./check $p --tier $tier > /tmp/ts_$s.out 2>&1; rc=$?
echo "$s rc=$rc $(grep -c '^VIOLATION' /tmp/ts_$s.out) violations; first: $(grep -m1 '^VIOLATION' /tmp/ts_$s.out | cut -c1-160)"
git -C /repo worktree remove --force $w; rm -rf $ev

#!/usr/bin/env python3
"""Regenerate MANIFEST.json from harness/props.py (claimed checks) and properties.jsonl."""
import json, os, sys
VERIF = os.path.dirname(os.path.dirname(os.path.abspath(__file__)))
sys.path.insert(0, os.path.join(VERIF, "harness"))
import manifest_texts as T
props = [json.loads(l)["id"] for l in open(os.path.join(VERIF, "properties.jsonl"))]
checks = []
for pid in props:
    if pid not in T.CHECKS:
        continue
    t = T.CHECKS[pid]
    checks.append({"property_id": pid, "quick_cmd": "./check %s --tier quick" % pid,
                   "thorough_cmd": "./check %s --tier thorough" % pid, "evidence_file": "evidence/%s.json" % pid,
                   "replay_cmd_template": "./check %s --replay {path}" % pid, "engine": "coq-model",
                   "level_claimed": {"category": t.get("category", "proof"), "text": t["text"], "design_ref": "DESIGN.md section 5 " + pid},
                   "level_note": t["note"], "technique": t.get("technique", "machine-checked proof (Coq/Rocq) + model/implementation correspondence")})
m = {"version": 1, "setup_cmd": "make -C /verif all",
     "hooks": {"guard": "BT_VERIF", "enable": "no source hooks: checks run an interpreted scratch copy of /repo/bt and introspect private state (harness-side wrappers only)",
               "baseline_off_cmd": "cd /repo && /venv/bin/python -m pytest -ra -q -p no:cacheprovider --timeout=900 --continue-on-collection-errors",
               "source_commits": [], "add_only": True},
     "engines": [{"name": "coq-model", "path": "coq/", "serves_properties": [c["property_id"] for c in checks],
                  "kind_free_text": "Gallina model of bt generic in the number type; PrimFloat instance extracted to OCaml for the correspondence check, real-number instance for the theorems"}],
     "checks": checks,
     "not_applicable": [{"property_id": p, "reason": T.NOT_APPLICABLE.get(p, "check not built yet (work in progress; DESIGN.md section 7)")}
                        for p in props if p not in T.CHECKS],
     "notes": "Coq 8.16 model (Num/Engine/Ops/Algos) with theorems under coq/Proofs and coq/Props; every check rebuilds a scratch copy of /repo/bt, runs the model/implementation correspondence suites and the property oracles, and re-checks the property's theorems; see DESIGN.md"}
json.dump(m, open(os.path.join(VERIF, "MANIFEST.json"), "w"), indent=1)
print("claimed:", [c["property_id"] for c in checks])

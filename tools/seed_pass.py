#!/usr/bin/env python3
"""Re-verify every seeded breaking change at /repo's current HEAD and run the property's quick check against it.

For each /verif/seeded/<id>/ (patch.diff, demo.py, meta.json):
  1. in a scratch git worktree of /repo (removed afterwards): demo passes on the unchanged tree, fails with the patch,
     the repository's full test suite (interpreted: the worktree has no compiled extension) passes with the patch;
  2. on /repo itself: git apply, ./check <property> --tier quick, git checkout -- .   (never committed);
  3. meta.json gets a "reverified" record; work/seed_pass.json and the table in DESIGN.md are rewritten.
usage: tools/seed_pass.py [ids...]"""
import json
import os
import re
import subprocess
import sys
import tempfile

VERIF = "/verif"
REPO = "/repo"
PY = "/venv/bin/python"


def sh(cmd, cwd=None, env=None, timeout=3600):
    p = subprocess.run(cmd, shell=True, cwd=cwd, env=env, capture_output=True, text=True, timeout=timeout)
    return p.returncode, p.stdout + p.stderr


def main():
    table_only = "--table-only" in sys.argv
    args = [a for a in sys.argv[1:] if not a.startswith("--")]
    ids = [] if table_only else (args or sorted(os.listdir(os.path.join(VERIF, "seeded"))))
    head = sh("git -C %s log --format=%%h -1" % REPO)[1].strip().splitlines()[-1]
    if sh("git -C %s diff --quiet" % REPO)[0] != 0:
        print("/repo has uncommitted changes")
        return 2
    out_path = os.path.join(VERIF, "work", "seed_pass.json")
    results = json.load(open(out_path)) if os.path.exists(out_path) else {}
    wt = tempfile.mkdtemp(prefix="seedwt_")
    os.rmdir(wt)
    if not table_only:
        rc, o = sh("git -C %s worktree add --detach %s HEAD" % (REPO, wt))
        if rc != 0:
            print(o)
            return 2
    env = dict(os.environ, PYTHONPATH=wt, PYTHONHASHSEED="0", PYTHONDONTWRITEBYTECODE="1")
    try:
        for sid in ids:
            d = os.path.join(VERIF, "seeded", sid)
            patch = os.path.join(d, "patch.diff")
            prop = sid.split("_")[0]
            r = {"head": head, "property": prop}
            rc, o = sh("git -C %s apply --check %s" % (wt, patch))
            r["applies"] = rc == 0
            if rc != 0:
                r["apply_error"] = o.strip()[-300:]
                results[sid] = r
                print(sid, "PATCH DOES NOT APPLY", o.strip()[-200:])
                continue
            rc0, o0 = sh("%s %s" % (PY, os.path.join(d, "demo.py")), cwd=wt, env=env, timeout=900)
            sh("git -C %s apply %s" % (wt, patch))
            rc1, o1 = sh("%s %s" % (PY, os.path.join(d, "demo.py")), cwd=wt, env=env, timeout=900)
            rct, ot = sh("%s -m pytest -q -p no:cacheprovider tests 2>&1 | tail -1" % PY, cwd=wt, env=env, timeout=1800)
            sh("git -C %s checkout -- . && git -C %s clean -fdq" % (wt, wt))
            m = re.search(r"(\d+) passed", ot)
            r.update({"demo_clean_rc": rc0, "demo_patched_rc": rc1, "tests_with_patch": ot.strip().splitlines()[-1] if ot.strip() else "",
                      "tests_passed": int(m.group(1)) if m else None, "tests_failed": "failed" in ot})
            # the property's own check against the patched /repo
            rc, o = sh("git -C %s apply %s" % (REPO, patch))
            try:
                rcc, oc = sh("./check %s --tier quick" % prop, cwd=VERIF, timeout=3600,
                             env=dict(os.environ, BT_VERIF_EVIDENCE_DIR=os.path.join(VERIF, "work", "evidence_patched")))
            finally:
                sh("git -C %s checkout -- ." % REPO)
            lines = oc.splitlines()
            viol = [i for i, l in enumerate(lines) if l.startswith("VIOLATION")]
            r["check_rc"] = rcc
            r["violations"] = len(viol)
            r["first_violation"] = (lines[viol[0] + 1].strip() if viol and viol[0] + 1 < len(lines) else "")[:260]
            r["no_failing_input"] = any("no-failing-input-found" in lines[i] for i in viol)
            results[sid] = r
            print(sid, "demo %d->%d tests=%s check rc=%d viol=%d :: %s" % (rc0, rc1, r["tests_passed"], rcc, len(viol), r["first_violation"][:150]))
            meta_p = os.path.join(d, "meta.json")
            meta = json.load(open(meta_p))
            meta["reverified"] = {"repo_head": head, "demo_passes_on_unchanged_tree": rc0 == 0, "demo_fails_with_patch": rc1 != 0,
                                  "test_suite_with_patch": r["tests_with_patch"],
                                  "commands": ["git worktree add --detach <scratch> HEAD", "python demo.py", "git apply patch.diff", "python demo.py",
                                               "python -m pytest -q tests", "git -C /repo apply patch.diff; ./check %s --tier quick; git -C /repo checkout -- ." % prop],
                                  "check_exit": rcc, "check_first_violation": r["first_violation"]}
            json.dump(meta, open(meta_p, "w"), indent=1)
            json.dump(results, open(out_path, "w"), indent=1)
    finally:
        if not table_only:
            sh("git -C %s worktree remove --force %s" % (REPO, wt))
            sh("git -C %s worktree prune" % REPO)
    # table
    rows = ["| change | demo clean / patched | tests with patch | check | first violation reported |", "|---|---|---|---|---|"]
    for sid in sorted(results):
        r = results[sid]
        if not r.get("applies"):
            rows.append("| %s | patch does not apply at %s | | | |" % (sid, r["head"]))
            continue
        rows.append("| %s | %s / %s | %s | %s | %s |" % (
            sid, "pass" if r["demo_clean_rc"] == 0 else "FAIL", "fail" if r["demo_patched_rc"] != 0 else "PASS",
            r["tests_with_patch"].replace("|", "/"),
            "caught (exit %d, %d)" % (r["check_rc"], r["violations"]) if r["violations"]
            else ("no longer a breaking change at this HEAD: its own demo passes with the patch (see section 8)" if r["demo_patched_rc"] == 0 else "MISSED"),
            r["first_violation"].replace("|", "/")))
    p = os.path.join(VERIF, "DESIGN.md")
    s = open(p).read()
    a, b = s.index("<!-- SEEDED-TABLE-BEGIN -->"), s.index("<!-- SEEDED-TABLE-END -->")
    caught = sum(1 for r in results.values() if r.get("violations"))
    breaking = sum(1 for r in results.values() if r.get("applies") and r.get("demo_patched_rc") != 0)
    heads = sorted({r["head"] for r in results.values()})
    txt = ("<!-- SEEDED-TABLE-BEGIN -->\nRe-verified at /repo HEAD %s by tools/seed_pass.py (scratch worktree for demo and test suite; the check runs on /repo with "
           "the patch applied and reverted; never committed there). %d of the %d changes that still break their property at HEAD are caught by the property's own "
           "quick check.\n\n" % (" / ".join(heads), caught, breaking)) + "\n".join(rows) + "\n"
    open(p, "w").write(s[:a] + txt + s[b:])
    return 0


if __name__ == "__main__":
    sys.exit(main())

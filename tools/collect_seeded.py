#!/usr/bin/env python3
"""Copy verified seeded mutations from the sub-agents' output directories into /verif/seeded/."""
import json, os, shutil, sys
lines = [l.split() for l in open(sys.argv[1]) if l.startswith("C")]
for l in lines:
    pid, x = l[0], l[1]
    ok = "demo_clean=0" in l and "demo_mut=1" in l and "[157" in " ".join(l)
    src = "/tmp/mutout_%s" % pid
    if not ok or not os.path.exists("%s/patch_%s.diff" % (src, x)):
        print("skip", pid, x, l)
        continue
    dst = "/verif/seeded/%s_%s" % (pid, x)
    os.makedirs(dst, exist_ok=True)
    shutil.copy("%s/patch_%s.diff" % (src, x), dst + "/patch.diff")
    shutil.copy("%s/demo_%s.py" % (src, x), dst + "/demo.py")
    meta = json.load(open("%s/meta_%s.json" % (src, x)))
    meta["property"] = pid
    meta["verified_by_me"] = ("in a scratch worktree of /repo at the current HEAD: demo.py exits 0 (PASS) on the unchanged tree, "
                              "exits 1 (FAIL) with patch.diff applied; with the patch applied the full interpreted suite "
                              "`PYTHONPATH=<worktree> /venv/bin/python -m pytest -q tests` reports 157 passed")
    meta["produced_by"] = "independent sub-agent given only the property text and a scratch worktree"
    json.dump(meta, open(dst + "/meta.json", "w"), indent=1)
    print("kept", pid, x)

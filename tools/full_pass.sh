#!/bin/bash
# usage: tools/full_pass.sh quick|thorough [ids...]  — every claimed check on the current /repo tree, sequentially
# (FP_TAG=<suffix> keeps the logs of a second pass running at the same time apart)
tier=${1:-quick}; shift
cd /verif || exit 2
ids=${@:-$(python3 -c "import json; print(' '.join(c['property_id'] for c in json.load(open('MANIFEST.json'))['checks']))")}
mkdir -p work
tag=${FP_TAG:-}
log=work/full_pass_$tier$tag.log; : > $log
for p in $ids; do
  s=$(date +%s)
  ./check $p --tier $tier > work/fp${tag}_$p.out 2>&1; rc=$?
  e=$(date +%s)
  nv=$(grep -c '^VIOLATION' work/fp${tag}_$p.out); nk=$(grep -c '^KNOWN-FINDING' work/fp${tag}_$p.out)
  echo "$p rc=$rc violations=$nv known=$nk secs=$((e-s))" | tee -a $log
done

#!/bin/bash
# usage: tools/full_pass.sh quick|thorough [ids...]  — every claimed check on the current /repo tree, sequentially
tier=${1:-quick}; shift
cd /verif || exit 2
ids=${@:-$(python3 -c "import json; print(' '.join(c['property_id'] for c in json.load(open('MANIFEST.json'))['checks']))")}
mkdir -p work
log=work/full_pass_$tier.log; : > $log
for p in $ids; do
  s=$(date +%s)
  ./check $p --tier $tier > work/fp_$p.out 2>&1; rc=$?
  e=$(date +%s)
  nv=$(grep -c '^VIOLATION' work/fp_$p.out); nk=$(grep -c '^KNOWN-FINDING' work/fp_$p.out)
  echo "$p rc=$rc violations=$nv known=$nk secs=$((e-s))" | tee -a $log
done

#!/bin/bash
# usage: try_patch.sh <patch.diff> <command...>   — applies the patch to /repo, runs the command, always reverts
p=$1; shift
cd /repo || exit 2
git diff --quiet || { echo "/repo has uncommitted changes"; exit 2; }
git apply "$p" || { echo "patch does not apply"; exit 2; }
trap 'git -C /repo checkout -- .' EXIT
cd /verif && "$@"

# Build of the Coq development and of the extracted model driver.
COQDIR=coq
.PHONY: all coq extract clean
all: coq extract
coq/Records.v: coq/gen_records.py
	cd coq && python3 gen_records.py Records.v
coq/Makefile: coq/_CoqProject coq/Records.v
	cd coq && coq_makefile -f _CoqProject -o Makefile
coq: coq/Makefile coq/Records.v
	$(MAKE) -C coq -j16 --no-print-directory
extract: coq
	cd coq/extract && coqc -Q .. BT Extract.v > /dev/null && \
	ocamlfind ocamlopt -rectypes -thread -package coq-core.kernel -linkpkg -w -a model.mli model.ml driver.ml -o btmodel
clean:
	-$(MAKE) -C coq clean
	rm -f coq/Makefile coq/Makefile.conf coq/extract/model.ml coq/extract/model.mli coq/extract/btmodel coq/extract/*.cm* coq/extract/*.o coq/extract/*.vo*

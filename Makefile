# Build of the Coq development and of the extracted model driver.
.PHONY: all model proofs extract clean
all: extract proofs
coq/Records.v: coq/gen_records.py
	cd coq && python3 gen_records.py Records.v
coq/Proofs/Frames.v: coq/gen_frames.py coq/gen_records.py
	cd coq && python3 gen_frames.py Proofs/Frames.v
coq/Makefile: coq/_CoqProject coq/Records.v coq/Proofs/Frames.v
	cd coq && coq_makefile -f _CoqProject -o Makefile
# the executable model only (no proofs): what the correspondence check runs
model: coq/Makefile
	$(MAKE) -C coq -j16 --no-print-directory Algos.vo Reports.vo Session.vo Digest.vo
proofs: coq/Makefile
	$(MAKE) -C coq -j16 --no-print-directory
# the extracted driver: rebuilt only when one of its inputs is newer (the test is in the recipe because the .vo files are
# produced by the sub-make), and moved into place atomically so that a check running at the same time never finds it missing
EXTRACT_INPUTS = Extract.v driver.ml ../Algos.vo ../Reports.vo ../Session.vo ../Digest.vo
extract: model
	@cd coq/extract && stale=0; [ -x btmodel ] || stale=1; \
	for f in $(EXTRACT_INPUTS); do [ $$f -nt btmodel ] && stale=1; done; \
	if [ $$stale = 1 ]; then \
	  echo "extracting and linking coq/extract/btmodel"; \
	  coqc -Q .. BT Extract.v > /dev/null && \
	  ocamlfind ocamlopt -rectypes -thread -package coq-core.kernel -linkpkg -w -a model.mli model.ml driver.ml -o btmodel.new && \
	  mv -f btmodel.new btmodel; \
	fi
clean:
	-$(MAKE) -C coq clean
	rm -f coq/Makefile coq/Makefile.conf coq/extract/model.ml coq/extract/model.mli coq/extract/btmodel coq/extract/*.cm* coq/extract/*.o coq/extract/*.vo*

#!/bin/bash
# usage: goal.sh FILE LINE  -- show the proof state after LINE lines of FILE
f=$1; n=$2
( head -n $n $f; echo "Show."; ) | timeout 120 coqtop -Q /verif/coq BT 2>&1 | grep -v "^Coq <\|conda" | tail -${3:-45}

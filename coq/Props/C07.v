(* C07 — each executed trade books exactly its outlay and its fee, once, on the security's own
   parent, never as a flow.  Statements only; proofs in Proofs/TradeProofs.v. *)
From Coq Require Import Reals.
Require Import BT.Num BT.Base BT.Records BT.Engine BT.Proofs.SecInv BT.Proofs.TradeProofs.
Local Open Scope R_scope.

Theorem C07_trade_booking : forall pnow comm q upd price (s s' : secR) oa,
  sec_transact (N:=RNumI) pnow comm q upd false price s = Ok (s', oa) ->
  q <> 0 ->
  exists p bop,
    s_price s = Some p /\ trade_spread s q price p = Some bop /\
    s_pos s' = s_pos s + q /\
    s_outlay s' = s_outlay s + (q * p * s_mult s + bop) /\
    s_bidoffer_paid s' = s_bidoffer_paid s + bop /\
    s_needupdate s' = true /\
    oa = Some (mkAdj (N:=RNumI) (- (q * p * s_mult s + bop + trade_fee comm s q price p))
                     (trade_fee comm s q price p) upd).
Proof. exact sec_transact_booking. Qed.
Print Assumptions C07_trade_booking.

Theorem C07_parent_books_once_not_as_flow : forall (A : Type) (g : strat RNumI A) amt fee st,
  let g' := apply_adj (Some (mkAdj (N:=RNumI) amt fee st)) g in
  g_capital g' = g_capital g + amt /\ g_last_fee g' = g_last_fee g + fee /\ g_net_flows g' = g_net_flows g.
Proof. exact apply_adj_booking. Qed.
Print Assumptions C07_parent_books_once_not_as_flow.


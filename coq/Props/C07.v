(* C07 — each executed trade books exactly its outlay and its fee, once, on the security's own
   parent, never as a flow.  Statements only; proofs in Proofs/TradeProofs.v. *)
From Coq Require Import Reals.
Require Import BT.Num BT.Base BT.Records BT.Engine BT.Proofs.SecInv BT.Proofs.TradeProofs BT.Proofs.LedgerProofs.
Local Open Scope R_scope.

Theorem C07_trade_booking : forall pnow comm q upd price (s s' : secR) oa,
  sec_transact (N:=RNumI) pnow comm q upd false price s = Ok (s', oa) ->
  q <> 0 ->
  exists p bop,
    s_price s = Some p /\ trade_spread s q price p = Some bop /\
    s_pos s' = s_pos s + q /\
    s_outlay s' = s_outlay s + (q * p * s_mult s + bop) /\
    s_bidoffer_paid s' = s_bidoffer_paid s + bop /\
    s_needupdate s' = true /\
    oa = Some (mkAdj (N:=RNumI) (- (q * p * s_mult s + bop + trade_fee comm s q price p))
                     (trade_fee comm s q price p) upd).
Proof. exact sec_transact_booking. Qed.
Print Assumptions C07_trade_booking.

Theorem C07_parent_books_once_not_as_flow : forall (A : Type) (g : strat RNumI A) amt fee st,
  let g' := apply_adj (Some (mkAdj (N:=RNumI) amt fee st)) g in
  g_capital g' = g_capital g + amt /\ g_last_fee g' = g_last_fee g + fee /\ g_net_flows g' = g_net_flows g.
Proof. exact apply_adj_booking. Qed.
Print Assumptions C07_parent_books_once_not_as_flow.


(* the ledger of a strategy whose children are securities, for one StrategyBase.allocate(amount) — any amount, any
   commission function, spreads, whole or fractional units, the sizing search included: the amount is received as a flow
   and the change in cash is the amount minus the outlays the securities recorded (row + accumulator) minus the fees the
   node recorded; the parent is asked for exactly -amount, not as a flow *)
Theorem C07_allocate_ledger : forall (A : Type) pnow comm amount upd (g g' : strat RNumI A) kids kids' lz pp lz' pp' oa,
  let i := row_of (g_now g) in
  all_secs A i kids ->
  node_allocate pnow comm amount upd (NStrat g kids lz pp) = Ok (NStrat g' kids' lz' pp', oa) ->
  g_capital g' - g_capital g = amount - (outs A i kids' - outs A i kids) - (g_last_fee g' - g_last_fee g) /\
  g_net_flows g' = g_net_flows g + amount /\
  oa = Some (mkAdj (N:=RNumI) (- amount) 0 upd) /\ all_secs A i kids'.
Proof. exact flat_allocate_ledger. Qed.
Print Assumptions C07_allocate_ledger.

(* ... and for one StrategyBase.transact(q): nothing is received, nothing is a flow *)
Theorem C07_transact_ledger : forall (A : Type) pnow comm q upd (g g' : strat RNumI A) kids kids' lz pp lz' pp' oa,
  let i := row_of (g_now g) in
  all_secs A i kids ->
  node_transact pnow comm q upd (NStrat g kids lz pp) = Ok (NStrat g' kids' lz' pp', oa) ->
  g_capital g' - g_capital g = - (outs A i kids' - outs A i kids) - (g_last_fee g' - g_last_fee g) /\
  g_net_flows g' = g_net_flows g /\ oa = None /\ all_secs A i kids'.
Proof. exact flat_transact_ledger. Qed.
Print Assumptions C07_transact_ledger.

(* an update moves the outlay accumulator into the row of the date without changing their sum *)
Theorem C07_update_keeps_recorded_outlay : forall date i (s s' : secR),
  sec_update date i s = Ok s' -> (i < length (h_outlays s))%nat -> out_total i s' = out_total i s.
Proof. exact sec_update_out_total. Qed.
Print Assumptions C07_update_keeps_recorded_outlay.

(* C18 — reports agree with the node histories they summarise.  Statements only; proofs in Proofs/ReportProofs.v.
   The report functions (Reports.v) are compared bit for bit with Backtest.weights / security_weights / positions /
   herfindahl_index / turnover / Result.prices / get_transactions on every run of the report suite. *)
From Coq Require Import List Bool Arith Reals.
Import ListNotations.
Require Import BT.Num BT.Base BT.Records BT.Engine BT.Reports BT.Proofs.ReportProofs.
Local Open Scope R_scope.

Theorem C18_component_weight_is_value_over_root : forall (A : Type) (root : node RNumI A) p n i,
  In (p, n) (all_members root) ->
  (i < length (member_series root n))%nat -> (i < length (root_base root))%nat ->
  row i (root_base root) <> 0 ->
  exists w, In (p, w) (report_weights root) /\ row i w * row i (root_base root) = row i (member_series root n).
Proof. exact weight_times_base. Qed.
Print Assumptions C18_component_weight_is_value_over_root.

Theorem C18_aggregation_by_ticker_keeps_totals : forall (A : Type) i (f : sec RNumI -> list R) (root : node RNumI A),
  Forall (fun s => (i < length (f s))%nat) (secs_of root) ->
  colsum i (agg f root) = fold_right (fun s a => row i (f s) + a) 0 (secs_of root).
Proof. exact agg_total. Qed.
Print Assumptions C18_aggregation_by_ticker_keeps_totals.

Theorem C18_security_weights_and_cash_sum_to_one : forall (A : Type) i (root : node RNumI A),
  root_fi root = false -> RowBS A i root ->
  Forall (fun s : sec RNumI => (i < length (h_values s))%nat) (secs_of root) ->
  (i < length (h_vals root))%nat -> row i (h_vals root) <> 0 ->
  colsum i (report_security_weights root) + total A (cash_row A i) (all_members root) / row i (h_vals root) = 1.
Proof. exact security_weights_and_cash_sum_to_one. Qed.
Print Assumptions C18_security_weights_and_cash_sum_to_one.

Theorem C18_transaction_quantities_cumulate_to_positions : forall (p : list R) i,
  (i < length p)%nat -> prefix_sum i (trades RNumI p) = row i p.
Proof. exact trades_cumulate. Qed.
Print Assumptions C18_transaction_quantities_cumulate_to_positions.

Theorem C18_listed_transactions_are_the_nonzero_trades : forall (A : Type) (root : node RNumI A) tx,
  In tx (report_transactions root) -> tx_qty tx <> 0.
Proof. exact listed_iff_nonzero. Qed.
Print Assumptions C18_listed_transactions_are_the_nonzero_trades.

(* the hypotheses of the sum-to-one theorem are satisfiable (a two-security strategy, row 1) *)
Example C18_sum_to_one_hypotheses_satisfiable : forall (A : Type) (g0 : strat RNumI A) (s0 : sec RNumI),
  let root : node RNumI A :=
      NStrat (set_hg_values (N:=RNumI) ([100; 110] : list R) (set_hg_cash (N:=RNumI) ([100; 40] : list R) (set_g_fi false g0)))
             [NSec (set_h_values (N:=RNumI) ([0; 50] : list R) s0); NSec (set_h_values (N:=RNumI) ([0; 20] : list R) s0)] [] None in
  root_fi root = false /\ RowBS A 1 root /\
  Forall (fun s : sec RNumI => (1 < length (h_values s))%nat) (secs_of root) /\
  (1 < length (h_vals root))%nat /\ row 1 (h_vals root) <> 0.
Proof. exact rowbs_example. Qed.

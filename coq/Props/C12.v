(* C12 — Calendar and counting schedulers fire exactly on their boundaries.
   Statements only; proofs are in Proofs/CalProofs.v and Proofs/SchedProofs.v. *)
From Coq Require Import ZArith List Bool.
Import ListNotations.
Require Import BT.Num BT.Base BT.Cal BT.Records BT.Engine BT.Ops BT.Algos BT.Proofs.CalProofs BT.Proofs.SchedProofs BT.Proofs.SchedProofs2 BT.Proofs.PeriodAt.
Local Open Scope Z_scope.

(* calendar facts, for every timestamp (no range bound) *)
Theorem C12_month_day_range : forall ts, 1 <= month_of ts <= 12 /\ 1 <= dom_of ts <= 31.
Proof. exact month_day_range. Qed.
Print Assumptions C12_month_day_range.

Theorem C12_iso_week_pairs : forall d1 d2,
  (iso_year_of_days d1 = iso_year_of_days d2 /\ iso_week_of_days d1 = iso_week_of_days d2)
  <-> (d1 + 3) / 7 = (d2 + 3) / 7.
Proof. exact iso_pair_spec. Qed.
Print Assumptions C12_iso_week_pairs.

(* RunDaily/Weekly/Monthly/Quarterly/Yearly.compare_dates is true exactly when the two stamps lie in
   different days / ISO weeks / months / quarters / years — any spacing, any pair of stamps *)
Theorem C12_compare_dates : forall k a b, compare_dates k a b = true <-> period_id k a <> period_id k b.
Proof. exact compare_dates_spec. Qed.
Print Assumptions C12_compare_dates.

(* RunPeriod.__call__: never on the synthetic pre-start row *)
Theorem C12_never_on_row0 : forall k f eop l dates, run_period k f eop l dates 0 = false.
Proof. exact run_period_row0. Qed.
Print Assumptions C12_never_on_row0.

Theorem C12_first_date : forall k f eop l dates, run_period k f eop l dates 1 = f.
Proof. exact run_period_first. Qed.
Print Assumptions C12_first_date.

Theorem C12_last_date_partial : forall k f eop l dates (i : nat),
  (2 <= i)%nat -> i = (length dates - 1)%nat -> run_period k f eop l dates i = l.
Proof. exact run_period_last. Qed.
Print Assumptions C12_last_date_partial.

(* an interior date fires iff it is the first date in a new period relative to the previous date *)
Theorem C12_interior_begin : forall k f l dates (i : nat),
  (2 <= i)%nat -> (i < length dates - 1)%nat ->
  (run_period k f false l dates i = true <-> period_id k (dnth dates i) <> period_id k (dnth dates (i - 1))).
Proof. exact run_period_interior_begin. Qed.
Print Assumptions C12_interior_begin.

(* end-of-period mode: iff it is the last date before such a change *)
Theorem C12_interior_end : forall k f l dates (i : nat),
  (2 <= i)%nat -> (i < length dates - 1)%nat ->
  (run_period k f true l dates i = true <-> period_id k (dnth dates i) <> period_id k (dnth dates (S i))).
Proof. exact run_period_interior_end. Qed.
Print Assumptions C12_interior_end.

(* the full statement ("the last date fires when it opens a new period") is false of the code: K11 *)
Theorem C12_last_date_refuted :
  exists dates i, (i = length dates - 1)%nat /\
    period_id PMonthly (dnth dates i) <> period_id PMonthly (dnth dates (i - 1)) /\
    run_period PMonthly true false false dates i = false.
Proof. exact run_period_last_date_refuted. Qed.
Print Assumptions C12_last_date_refuted.

(* RunOnce: True on the first call only; RunAfterDays n: False for exactly the first n calls *)
Theorem C12_run_once : forall N ps e p trs a' bs,
  @calls N ps e p (ARunOnce N false) trs a' bs ->
  bs = match trs with [] => [] | _ :: r => true :: repeat false (length r) end.
Proof. exact run_once_calls. Qed.
Print Assumptions C12_run_once.

Theorem C12_run_after_days : forall N ps e p (n : nat) trs a' bs,
  @calls N ps e p (ARunAfterDays N (Z.of_nat n)) trs a' bs ->
  bs = repeat false (Nat.min n (length trs)) ++ repeat true (length trs - n).
Proof. exact run_after_days_calls. Qed.
Print Assumptions C12_run_after_days.

(* RunOnDate / RunAfterDate: exactly on the listed dates / strictly after the date, whatever the tree *)
Theorem C12_run_on_date : forall N ps e p ds (tr : tree N (astate N)) g kids st i,
  get_astate p tr = Ok (g, kids, st) -> g_now g = Some i ->
  exists b, run_algo ps e p (ARunOnDate N ds) tr = Ok (ARunOnDate N ds, b, tr) /\ (b = true <-> In (ts_of e i) ds).
Proof. exact run_on_date_spec. Qed.
Print Assumptions C12_run_on_date.

Theorem C12_run_after_date : forall N ps e p d (tr : tree N (astate N)) g kids st i,
  get_astate p tr = Ok (g, kids, st) -> g_now g = Some i ->
  exists b, run_algo ps e p (ARunAfterDate N d) tr = Ok (ARunAfterDate N d, b, tr) /\ (b = true <-> (d < ts_of e i)%Z).
Proof. exact run_after_date_spec. Qed.
Print Assumptions C12_run_after_date.

(* RunEveryNPeriods: a repeated call on the same date is ignored and changes nothing; a call on a new date fires iff
   the counter stands at n - 1 and advances it; hence with offset o the k-th distinct date fires iff k = o (mod n) *)
Theorem C12_run_every_n_once_per_date : forall N ps e p n idx (tr : tree N (astate N)) g kids st i,
  get_astate p tr = Ok (g, kids, st) -> g_now g = Some i ->
  run_algo ps e p (ARunEveryNPeriods N n idx (Some i)) tr = Ok (ARunEveryNPeriods N n idx (Some i), false, tr).
Proof. exact run_every_n_same_date. Qed.
Print Assumptions C12_run_every_n_once_per_date.

Theorem C12_run_every_n_new_date : forall N ps e p n idx lcall (tr : tree N (astate N)) g kids st i,
  get_astate p tr = Ok (g, kids, st) -> g_now g = Some i -> lcall <> Some i ->
  run_algo ps e p (ARunEveryNPeriods N n idx lcall) tr =
  Ok (ARunEveryNPeriods N n (every_n_next n idx) (Some i), (idx =? n - 1)%Z, tr).
Proof. exact run_every_n_new_date. Qed.
Print Assumptions C12_run_every_n_new_date.

Theorem C12_run_every_n_fires_every_nth_date : forall n o k,
  (0 < n)%Z -> (0 <= o < n)%Z ->
  ((every_n_iter n (n - o - 1) k =? n - 1)%Z = true <-> (Z.of_nat k mod n = o)%Z).
Proof. exact run_every_n_fires. Qed.
Print Assumptions C12_run_every_n_fires_every_nth_date.

(* "... and never on a date outside the data": RunPeriod.__call__ as a function of the timestamp target.now answers False
   for every timestamp that is not a date of the index, and on a date of the index it is run_period at that date's row
   (so everything above applies), in particular False on the synthetic pre-start row *)
Theorem C12_never_outside_the_data : forall k f e l (dates : list Z) (now : Z),
  ~ In now dates -> run_period_at k f e l dates now = false.
Proof. exact run_period_at_outside. Qed.
Print Assumptions C12_never_outside_the_data.

Theorem C12_on_a_date_of_the_data : forall k f e l (dates : list Z) (i : nat),
  NoDup dates -> (i < length dates)%nat -> run_period_at k f e l dates (nth i dates 0) = run_period k f e l dates i.
Proof. exact run_period_at_row. Qed.
Print Assumptions C12_on_a_date_of_the_data.

Theorem C12_never_on_the_synthetic_row : forall k f e l (d0 : Z) (dates : list Z),
  run_period_at k f e l (d0 :: dates) d0 = false.
Proof. exact run_period_at_first_row. Qed.
Print Assumptions C12_never_on_the_synthetic_row.

(* C12 — Calendar and counting schedulers fire exactly on their boundaries.
   Statements only; proofs are in Proofs/CalProofs.v and Proofs/SchedProofs.v. *)
From Coq Require Import ZArith List Bool.
Import ListNotations.
Require Import BT.Num BT.Base BT.Cal BT.Records BT.Engine BT.Ops BT.Algos BT.Proofs.CalProofs BT.Proofs.SchedProofs.
Local Open Scope Z_scope.

(* calendar facts, for every timestamp (no range bound) *)
Theorem C12_month_day_range : forall ts, 1 <= month_of ts <= 12 /\ 1 <= dom_of ts <= 31.
Proof. exact month_day_range. Qed.
Print Assumptions C12_month_day_range.

Theorem C12_iso_week_pairs : forall d1 d2,
  (iso_year_of_days d1 = iso_year_of_days d2 /\ iso_week_of_days d1 = iso_week_of_days d2)
  <-> (d1 + 3) / 7 = (d2 + 3) / 7.
Proof. exact iso_pair_spec. Qed.
Print Assumptions C12_iso_week_pairs.

(* RunDaily/Weekly/Monthly/Quarterly/Yearly.compare_dates is true exactly when the two stamps lie in
   different days / ISO weeks / months / quarters / years — any spacing, any pair of stamps *)
Theorem C12_compare_dates : forall k a b, compare_dates k a b = true <-> period_id k a <> period_id k b.
Proof. exact compare_dates_spec. Qed.
Print Assumptions C12_compare_dates.

(* RunPeriod.__call__: never on the synthetic pre-start row *)
Theorem C12_never_on_row0 : forall k f eop l dates, run_period k f eop l dates 0 = false.
Proof. exact run_period_row0. Qed.
Print Assumptions C12_never_on_row0.

Theorem C12_first_date : forall k f eop l dates, run_period k f eop l dates 1 = f.
Proof. exact run_period_first. Qed.
Print Assumptions C12_first_date.

Theorem C12_last_date_partial : forall k f eop l dates (i : nat),
  (2 <= i)%nat -> i = (length dates - 1)%nat -> run_period k f eop l dates i = l.
Proof. exact run_period_last. Qed.
Print Assumptions C12_last_date_partial.

(* an interior date fires iff it is the first date in a new period relative to the previous date *)
Theorem C12_interior_begin : forall k f l dates (i : nat),
  (2 <= i)%nat -> (i < length dates - 1)%nat ->
  (run_period k f false l dates i = true <-> period_id k (dnth dates i) <> period_id k (dnth dates (i - 1))).
Proof. exact run_period_interior_begin. Qed.
Print Assumptions C12_interior_begin.

(* end-of-period mode: iff it is the last date before such a change *)
Theorem C12_interior_end : forall k f l dates (i : nat),
  (2 <= i)%nat -> (i < length dates - 1)%nat ->
  (run_period k f true l dates i = true <-> period_id k (dnth dates i) <> period_id k (dnth dates (S i))).
Proof. exact run_period_interior_end. Qed.
Print Assumptions C12_interior_end.

(* the full statement ("the last date fires when it opens a new period") is false of the code: K11 *)
Theorem C12_last_date_refuted :
  exists dates i, (i = length dates - 1)%nat /\
    period_id PMonthly (dnth dates i) <> period_id PMonthly (dnth dates (i - 1)) /\
    run_period PMonthly true false false dates i = false.
Proof. exact run_period_last_date_refuted. Qed.
Print Assumptions C12_last_date_refuted.

(* RunOnce: True on the first call only; RunAfterDays n: False for exactly the first n calls *)
Theorem C12_run_once : forall N ps e p trs a' bs,
  @calls N ps e p (ARunOnce N false) trs a' bs ->
  bs = match trs with [] => [] | _ :: r => true :: repeat false (length r) end.
Proof. exact run_once_calls. Qed.
Print Assumptions C12_run_once.

Theorem C12_run_after_days : forall N ps e p (n : nat) trs a' bs,
  @calls N ps e p (ARunAfterDays N (Z.of_nat n)) trs a' bs ->
  bs = repeat false (Nat.min n (length trs)) ++ repeat true (length trs - n).
Proof. exact run_after_days_calls. Qed.
Print Assumptions C12_run_after_days.

(* C05 — Allocating cash to a security respects the budget, costs included.
   Statements only; proofs in Proofs/TradeProofs.v.  Real-number instance. *)
From Coq Require Import Reals ZArith.
Require Import BT.Num BT.Base BT.Records BT.Engine BT.Proofs.SecInv BT.Proofs.TradeProofs.
Local Open Scope R_scope.

(* a zero amount does nothing *)
Theorem C05_zero_amount_noop : forall pnow comm upd (s : secR),
  s_needupdate s = false -> s_now s = pnow ->
  sec_allocate (N:=RNumI) pnow comm 0 upd s = Ok (s, None).
Proof. exact alloc_zero_noop. Qed.
Print Assumptions C05_zero_amount_noop.

(* a trade at a missing or zero price is refused with an error *)
Theorem C05_bad_price_refused : forall pnow comm amount upd (s : secR),
  s_needupdate s = false -> s_now s = pnow -> amount <> 0 ->
  (s_price s = None \/ s_price s = Some 0) ->
  sec_allocate (N:=RNumI) pnow comm amount upd s = Err EBadPrice.
Proof. exact alloc_bad_price. Qed.
Print Assumptions C05_bad_price_refused.

(* allocating exactly minus the current value closes the position completely — any commission
   function, any spread, integer or fractional *)
Theorem C05_closeout : forall pnow comm upd (s s' : secR) oa amount,
  current pnow s -> amount <> 0 -> amount + s_value s = 0 ->
  sec_allocate (N:=RNumI) pnow comm amount upd s = Ok (s', oa) ->
  s_pos s' = 0.
Proof. exact alloc_closeout. Qed.
Print Assumptions C05_closeout.

(* fractional positions, no costs: the cost equals the amount exactly (either sign, any prior position) *)
Theorem C05_fractional_exact_partial : forall pnow comm upd (s s' : secR) oa amount p,
  current pnow s -> s_intpos s = false -> (forall q x, comm q x = 0) -> s_bidoffer s = Some 0 ->
  s_price s = Some p -> p <> 0 -> s_mult s <> 0 -> amount <> 0 -> amount + s_value s <> 0 ->
  sec_allocate (N:=RNumI) pnow comm amount upd s = Ok (s', oa) ->
  s_pos s' = s_pos s + amount / (p * s_mult s) /\ oa = Some (mkAdj (N:=RNumI) (- amount) 0 upd).
Proof. exact alloc_fractional_exact. Qed.
Print Assumptions C05_fractional_exact_partial.

(* whole units, no costs, buying into a flat or long position: a whole number of units, within the
   budget, and one more unit would not fit (the largest quantity satisfying the rule) *)
Theorem C05_integer_maximal_partial : forall pnow comm upd (s s' : secR) oa amount p,
  current pnow s -> s_intpos s = true -> (forall q x, comm q x = 0) -> s_bidoffer s = Some 0 ->
  s_price s = Some p -> 0 < p -> 0 < s_mult s -> 0 < amount -> 0 <= s_pos s -> amount + s_value s <> 0 ->
  sec_allocate (N:=RNumI) pnow comm amount upd s = Ok (s', oa) ->
  exists q : R,
    (exists z : Z, q = IZR z) /\
    q * (p * s_mult s) <= amount < (q + 1) * (p * s_mult s) /\
    s_pos s' = s_pos s + q /\
    (q <> 0 -> oa = Some (mkAdj (N:=RNumI) (- (q * (p * s_mult s))) 0 upd)).
Proof. exact alloc_integer_long_maximal. Qed.
Print Assumptions C05_integer_maximal_partial.

(* C14 — selection algos select exactly the documented, tradable set.  Statements only;
   proofs in Proofs/AlgoProofs.v.  Real-number instance of the interpreter. *)
From Coq Require Import Reals List Bool Permutation Sorted.
Require Import BT.Num BT.Base BT.Records BT.Engine BT.Ops BT.Algos BT.Proofs.AlgoProofs.
Local Open Scope R_scope.

(* the tradability filter shared by SelectAll / SelectThese / SelectWhere / ResolveOnTheRun: exactly the
   requested names with a present and (by default) positive current price, in the requested order *)
Theorem C14_tradable_filter : forall (g : strat RNumI (astate RNumI)) i neg names sel,
  tradable g i neg names = Ok sel ->
  sel = filter (fun k => match univ_cell g i k with
                         | Some c => present_cell c && (neg || positive_cell c)
                         | None => false
                         end) names /\
  forall k, In k names -> univ_cell g i k <> None.
Proof. exact tradable_spec. Qed.
Print Assumptions C14_tradable_filter.

(* by default never a ticker whose current price is missing, zero or negative *)
Theorem C14_default_selection_is_tradable : forall (g : strat RNumI (astate RNumI)) i names sel,
  tradable g i false names = Ok sel ->
  forall k, In k sel -> exists x, univ_cell g i k = Some (Some x) /\ 0 < x /\ In k names.
Proof. exact tradable_default_positive. Qed.
Print Assumptions C14_default_selection_is_tradable.

(* ranked selection (SelectN / SelectMomentum): the ranking is a permutation of the candidates, sorted by the
   statistic, and the n kept are the n best (worst when ascending) *)
Theorem C14_ranking_is_permutation : forall asc l, Permutation (sort_by RNumI asc l) l.
Proof. exact sort_by_perm. Qed.
Print Assumptions C14_ranking_is_permutation.

Theorem C14_ranking_is_sorted : forall asc l, StronglySorted (ord asc) (sort_by RNumI asc l).
Proof. exact sort_by_sorted. Qed.
Print Assumptions C14_ranking_is_sorted.

Theorem C14_top_n_are_best : forall asc l n x y,
  In x (firstn n (sort_by RNumI asc l)) -> In y (skipn n (sort_by RNumI asc l)) -> ord asc x y.
Proof. exact top_n_best. Qed.
Print Assumptions C14_top_n_are_best.

(* C09 — a sub-strategy's index equals its stand-alone index.  Statements only; proofs in Proofs/PaperProofs.v.
   Partial: the shadow copy starts as the stand-alone backtest's tree and is stepped by the same functions; that
   its price series therefore equals the stand-alone index row by row (for calendar-gated deterministic stacks) is
   decided by the nested-versus-stand-alone suite on the implementation and by the correspondence. *)
From Coq Require Import List.
Import ListNotations.
Require Import BT.Num BT.Base BT.Records BT.Engine BT.Ops BT.Algos BT.Proofs.PaperProofs.

Theorem C09_paper_starts_as_standalone_partial : forall N d ip comm pfi id fi (a : astate N) kids g ns lz p st,
  build_node d ip comm false pfi (SpStrat id fi a kids) = Ok (NStrat g ns lz (Some (p, st))) ->
  exists g0, build_node d ip comm true false (SpStrat id fi a kids) = Ok (NStrat g0 ns lz None) /\
             p = NStrat (g_adjust (npaper N) (n0 N) true g0) ns lz None /\ st = true.
Proof. exact paper_is_standalone_build. Qed.
Print Assumptions C09_paper_starts_as_standalone_partial.

Theorem C09_paper_step_is_backtest_step_partial : forall N (e : env N) (l i : nat) (p p1 : tree N (astate N)),
  root_update (bt_paper_step e l) (Some i) p = Ok p1 ->
  (match fst p1 with NStrat g _ _ _ => g_bankrupt g = false | NSec _ => False end) ->
  bt_paper_step e (S l) (Some i) p =
  bind (bind (strat_run (bt_paper_step e l) depth_fuel e [] p1) (fun p2 => root_update (bt_paper_step e l) (Some i) p2))
       (fun p3 => refresh (bt_paper_step e l) p3).
Proof. exact paper_step_is_backtest_step. Qed.
Print Assumptions C09_paper_step_is_backtest_step_partial.

(* C09 — a sub-strategy's index equals its stand-alone index.  Statements only; proofs in Proofs/PaperProofs.v.
   Partial: the shadow copy starts as the stand-alone backtest's tree and is stepped by the same functions; that
   its price series therefore equals the stand-alone index row by row (for calendar-gated deterministic stacks) is
   decided by the nested-versus-stand-alone suite on the implementation and by the correspondence. *)
From Coq Require Import List.
Import ListNotations.
Require Import BT.Num BT.Base BT.Records BT.Engine BT.Ops BT.Algos BT.Proofs.PaperProofs BT.Proofs.IdemTree.

Theorem C09_paper_starts_as_standalone_partial : forall N d ip comm pfi id fi (a : astate N) kids g ns lz p st,
  build_node d ip comm false pfi (SpStrat id fi a kids) = Ok (NStrat g ns lz (Some (p, st))) ->
  exists g0, build_node d ip comm true false (SpStrat id fi a kids) = Ok (NStrat g0 ns lz None) /\
             p = NStrat (g_adjust (npaper N) (n0 N) true g0) ns lz None /\ st = true.
Proof. exact paper_is_standalone_build. Qed.
Print Assumptions C09_paper_starts_as_standalone_partial.

Theorem C09_paper_step_is_backtest_step_partial : forall N (e : env N) (l i : nat) (p p1 : tree N (astate N)),
  root_update (bt_paper_step e l) (Some i) p = Ok p1 ->
  (match fst p1 with NStrat g _ _ _ => g_bankrupt g = false | NSec _ => False end) ->
  bt_paper_step e (S l) (Some i) p =
  bind (bind (strat_run (bt_paper_step e l) depth_fuel e [] p1) (fun p2 => root_update (bt_paper_step e l) (Some i) p2))
       (fun p3 => refresh (bt_paper_step e l) p3).
Proof. exact paper_step_is_backtest_step. Qed.
Print Assumptions C09_paper_step_is_backtest_step_partial.

(* once the first update of a date flags the copy bankrupt, its stack is not run and it is not updated again on that
   date: the copy stops where a stand-alone backtest stops (Backtest.run's "if not self.strategy.bankrupt") *)
Theorem C09_bankrupt_paper_stops_like_a_backtest : forall N (e : env N) (l i : nat) (p p1 : tree N (astate N)),
  root_update (bt_paper_step e l) (Some i) p = Ok p1 ->
  (match fst p1 with NStrat g _ _ _ => g_bankrupt g = true | NSec _ => False end) ->
  bt_paper_step e (S l) (Some i) p = refresh (bt_paper_step e l) p1.
Proof. exact paper_step_when_bankrupt. Qed.
Print Assumptions C09_bankrupt_paper_stops_like_a_backtest.

(* what the parent records for the child is the copy's price: the child's price and its price row of the date *)
Theorem C09_child_price_is_paper_price : forall (N : num) (A : Type) ps date inow np (g g' : strat N A) kids paper paper',
  strat_finish ps date inow np g kids paper = Ok (g', paper') ->
  g_paper_trade g = true ->
  exists p', paper' = Some p' /\ g_price g' = root_price p' /\
             ((inow < length (hg_prices g))%nat -> nth inow (hg_prices g') (n0 N) = root_price p').
Proof. exact child_price_is_paper_price. Qed.
Print Assumptions C09_child_price_is_paper_price.

(* ... and that price is what the parent publishes in its universe column for the child (sibling names unique) *)
Theorem C09_universe_column_is_child_price : forall (A : Type) inow (ks : list (node RNumI A)) u (gk : strat RNumI A) kk lz pp col,
  In (NStrat gk kk lz pp) ks -> NoDup (map (@node_id RNumI A) ks) ->
  In (g_id gk, col) u -> (inow < length col)%nat ->
  exists col', In (g_id gk, col') (write_ucols inow ks u) /\ nth inow col' None = Some (g_price gk).
Proof. exact universe_column_is_child_price. Qed.
Print Assumptions C09_universe_column_is_child_price.

(* every date: the trajectory of the copy over any list of dates is the trajectory of Backtest.run's loop body (update;
   if not bankrupt: run the stack, update) followed, date by date, by the refresh a price read performs — which does
   nothing on a fresh tree; and Backtest.run's own loop is that same body folded over the dates *)
Theorem C09_paper_trajectory_is_backtest_loop_partial : forall N (e : env N) (l : nat) (rows : list nat) (p : tree N (astate N)),
  fold_dates N (fun i => bt_paper_step e (S l) (Some i)) rows p =
  fold_dates N (fun i q => bind (loop_body N e l i q) (refresh (bt_paper_step e l))) rows p.
Proof. exact paper_run_is_backtest_loop. Qed.
Print Assumptions C09_paper_trajectory_is_backtest_loop_partial.

Theorem C09_backtest_run_is_the_same_loop_body : forall N (e : env N) (rows : list nat) (tr : tree N (astate N)),
  bt_loop e rows tr = fold_dates N (loop_body N e bt_level) rows tr.
Proof. exact bt_loop_is_loop_body. Qed.
Print Assumptions C09_backtest_run_is_the_same_loop_body.

(* C04 — no look-ahead.  Statements only; proofs in Proofs/LookaheadProofs.v and Proofs/EngineLookahead.v.
   Partial: proved are (a) for the ENGINE, trees of any depth and any number instance (floats: bit for bit): any sequence
   of StrategyBase.update / SecurityBase.update calls to dates up to t gives the same tree whatever the prices, bid/offer,
   coupons and holding costs after t are (under the stated commutation hypothesis on the paper step of sub-strategies,
   which a tree of securities never calls); (b) for the ALGOS, that the data reads of the selection / statistic algos
   are confined to rows dated now or earlier.  The whole-run statement over every stock algo is decided by the
   perturbation-pair suite on the implementation and by the correspondence with the model. *)
From Coq Require Import List ZArith.
Import ListNotations.
Require Import BT.Num BT.Base BT.Records BT.Engine BT.Ops BT.Algos BT.Proofs.LookaheadProofs BT.Proofs.EngineLookahead.

Theorem C04_tradable_reads_current_row_partial : forall N (g1 g2 : strat N (astate N)) i neg names,
  cols_agree_upto i (univ_cols g1) (univ_cols g2) -> tradable g1 i neg names = tradable g2 i neg names.
Proof. exact tradable_prefix. Qed.
Print Assumptions C04_tradable_reads_current_row_partial.

Theorem C04_windows_end_at_now_partial : forall N (e : env N) lo hi upto r,
  In r (window_rows e lo hi upto) -> r <= upto.
Proof. exact window_rows_le. Qed.
Print Assumptions C04_windows_end_at_now_partial.

Theorem C04_window_counts_depend_on_prefix_partial : forall N (e : env N) lo hi i (c1 c2 : list (cell N)),
  (forall r, r <= i -> nth r c1 None = nth r c2 None) ->
  length (filter (fun rr => present_cell (nth rr c1 None)) (window_rows e lo hi i)) =
  length (filter (fun rr => present_cell (nth rr c2 None)) (window_rows e lo hi i)).
Proof. exact window_count_prefix. Qed.
Print Assumptions C04_window_counts_depend_on_prefix_partial.

(* SecurityBase.update and its subclasses at row i read row i of their data and nothing else: replacing the five data
   columns by any others with the same row i, before or after the update, gives the same security (every live number,
   every history row) or the same error *)
Theorem C04_security_update_reads_the_current_row_only : forall N date i (s : sec N) D,
  agree N i s D -> sec_update date i (swap N D s) = rmap (swap N D) (sec_update date i s).
Proof. exact sec_update_swap. Qed.
Print Assumptions C04_security_update_reads_the_current_row_only.

Theorem C04_swapping_data_changes_no_recorded_number : forall N (s : sec N) D,
  (s_id (swap N D s), s_now (swap N D s), s_pos (swap N D s), s_lastpos (swap N D s), s_price (swap N D s), s_value (swap N D s),
   s_notl (swap N D s), s_weight (swap N D s), s_needupdate (swap N D s), s_outlay (swap N D s), s_bidoffer (swap N D s),
   s_bidoffer_paid (swap N D s), s_capital (swap N D s), s_coupon (swap N D s), s_holding_cost (swap N D s)) =
  (s_id s, s_now s, s_pos s, s_lastpos s, s_price s, s_value s, s_notl s, s_weight s, s_needupdate s, s_outlay s, s_bidoffer s,
   s_bidoffer_paid s, s_capital s, s_coupon s, s_holding_cost s) /\
  (h_values (swap N D s), h_positions (swap N D s), h_notls (swap N D s), h_outlays (swap N D s), h_bopaid (swap N D s),
   h_coupons (swap N D s), h_hcosts (swap N D s), s_risk (swap N D s)) =
  (h_values s, h_positions s, h_notls s, h_outlays s, h_bopaid s, h_coupons s, h_hcosts s, s_risk s).
Proof. exact swap_observables. Qed.
Print Assumptions C04_swapping_data_changes_no_recorded_number.

(* the same for StrategyBase.update on a whole tree (any depth; the strategies' own records are not touched by swapN) *)
Theorem C04_tree_update_reads_the_current_row_only :
  forall N (A : Type) (F : nat -> cols N) (ps : option nat -> tree N A -> result (tree N A)) date i (n : node N A),
  PS N A F ps date i -> agreeN N A F i n ->
  node_update ps date i (swapN N A F n) = rmap (swapN N A F) (node_update ps date i n).
Proof. exact node_update_swap. Qed.
Print Assumptions C04_tree_update_reads_the_current_row_only.

(* ... and over any sequence of updates to dates up to t, for data that agrees up to t *)
Theorem C04_engine_no_lookahead_partial :
  forall N (A : Type) (F : nat -> cols N) (ps : option nat -> tree N A -> result (tree N A)) t
         (steps : list (option nat * nat)),
  Forall (fun st => PS N A F ps (fst st) (snd st) /\ snd st <= t) steps -> (forall j, j <= t -> PSA N A F ps j) ->
  forall n, agree_upto N A F t n -> updates N A ps steps (swapN N A F n) = rmap (swapN N A F) (updates N A ps steps n).
Proof. exact updates_swap. Qed.
Print Assumptions C04_engine_no_lookahead_partial.

(* trading reads the security's current fields and, for the refresh it may trigger, the current row: transact and
   allocate (the whole-unit sizing search included) commute with the same replacement of the data columns *)
Theorem C04_transact_reads_the_current_row_only : forall N pnow comm q upd us price (s : sec N) D,
  agree N (row_of pnow) s D ->
  sec_transact pnow comm q upd us price (swap N D s) = rmap (swapA N D) (sec_transact pnow comm q upd us price s).
Proof. exact sec_transact_swap. Qed.
Print Assumptions C04_transact_reads_the_current_row_only.

Theorem C04_allocate_reads_the_current_row_only : forall N pnow comm amount upd (s : sec N) D,
  agree N (row_of pnow) s D ->
  sec_allocate pnow comm amount upd (swap N D s) = rmap (swapA N D) (sec_allocate pnow comm amount upd s).
Proof. exact sec_allocate_swap. Qed.
Print Assumptions C04_allocate_reads_the_current_row_only.

(* root.update with the bankruptcy test, the liquidation of the whole tree (allocate down every branch, the sizing search
   included) and the nested refresh *)
Theorem C04_root_update_reads_the_current_row_only :
  forall N (A : Type) (F : nat -> cols N) (ps : option nat -> tree N A -> result (tree N A)) date (tr : tree N A),
  PS N A F ps date (row_of date) -> PSA N A F ps (row_of date) -> agreeN N A F (row_of date) (fst tr) ->
  root_update ps date (swapT N A F tr) = rmap (swapT N A F) (root_update ps date tr).
Proof. exact root_update_swap. Qed.
Print Assumptions C04_root_update_reads_the_current_row_only.

(* the paper copies of nested strategies, at every nesting level: the commutation assumed of the paper step above is a
   theorem once Strategy.run commutes (RUNS) and keeps columns and clock (RUNK) *)
Theorem C04_paper_copies_add_no_lookahead :
  forall N (A : Type) (F : nat -> cols N) (run : (option nat -> tree N A -> result (tree N A)) -> tree N A -> result (tree N A)),
  RUNS N A F run -> RUNK N A F run -> forall l,
  (forall date, PS N A F (paper_step_l run l) date (row_of date)) /\ (forall j, PSA N A F (paper_step_l run l) j).
Proof. exact paper_levels. Qed.
Print Assumptions C04_paper_copies_add_no_lookahead.

(* Backtest.run's date loop: the engine (updates, bankruptcy, paper copies of every level) adds no look-ahead of its own —
   whole-run no-look-ahead with respect to the securities' data follows from the same statement about Strategy.run.
   Scope: swapN replaces the data columns held by the securities; the strategies' universes (read by the algos and copied
   into securities that are created lazily) are left alone, so RUNS can only hold for trees whose securities exist up
   front; swapping the universes as well is the missing piece, together with RUNS itself for the stock algos. *)
Theorem C04_backtest_loop_no_lookahead_given_the_algos_partial :
  forall N (F : nat -> cols N) (e : env N),
  RUNS N (astate N) F (fun ps tr => strat_run ps depth_fuel e [] tr) ->
  RUNK N (astate N) F (fun ps tr => strat_run ps depth_fuel e [] tr) ->
  forall rows (tr : tree N (astate N)),
  (forall i, In i rows -> agreeN N (astate N) F i (fst tr)) ->
  bt_loop e rows (swapT N (astate N) F tr) = rmap (swapT N (astate N) F) (bt_loop e rows tr).
Proof. exact bt_loop_swap. Qed.
Print Assumptions C04_backtest_loop_no_lookahead_given_the_algos_partial.

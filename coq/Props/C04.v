(* C04 — no look-ahead.  Statements only; proofs in Proofs/LookaheadProofs.v.
   Partial: what is proved is that the data reads of the selection / statistic algos are confined to rows
   dated now or earlier; the whole-run statement (results up to t are unchanged by any change of later data)
   is decided by the perturbation-pair suite on the implementation and by the correspondence with the model,
   whose interpreter only ever indexes data at rows <= now. *)
From Coq Require Import List ZArith.
Require Import BT.Num BT.Base BT.Records BT.Engine BT.Ops BT.Algos BT.Proofs.LookaheadProofs.

Theorem C04_tradable_reads_current_row_partial : forall N (g1 g2 : strat N (astate N)) i neg names,
  cols_agree_upto i (univ_cols g1) (univ_cols g2) -> tradable g1 i neg names = tradable g2 i neg names.
Proof. exact tradable_prefix. Qed.
Print Assumptions C04_tradable_reads_current_row_partial.

Theorem C04_windows_end_at_now_partial : forall N (e : env N) lo hi upto r,
  In r (window_rows e lo hi upto) -> r <= upto.
Proof. exact window_rows_le. Qed.
Print Assumptions C04_windows_end_at_now_partial.

Theorem C04_window_counts_depend_on_prefix_partial : forall N (e : env N) lo hi i (c1 c2 : list (cell N)),
  (forall r, r <= i -> nth r c1 None = nth r c2 None) ->
  length (filter (fun rr => present_cell (nth rr c1 None)) (window_rows e lo hi i)) =
  length (filter (fun rr => present_cell (nth rr c2 None)) (window_rows e lo hi i)).
Proof. exact window_count_prefix. Qed.
Print Assumptions C04_window_counts_depend_on_prefix_partial.

(* C02 — value is conserved: trades at the current price change total value only by explicit costs.
   Statements only; proofs in Proofs/TradeProofs.v and Proofs/TreeInv.v. *)
From Coq Require Import Reals List.
Require Import BT.Num BT.Base BT.Records BT.Engine BT.Proofs.SecInv BT.Proofs.TreeInv BT.Proofs.TradeProofs BT.Proofs.LedgerProofs BT.Proofs.ValueProofs.
Local Open Scope R_scope.

(* buying or selling quantity q at the current (or a custom) price: the parent's cash after booking plus the
   position marked at the current price equals what it was before, minus exactly the spread cost and the fee *)
Theorem C02_trade_conserves_value : forall pnow comm q upd price (s s' : secR) oa (capital : R),
  sec_transact (N:=RNumI) pnow comm q upd false price s = Ok (s', oa) -> q <> 0 ->
  exists p bop amt fee st,
    s_price s = Some p /\ oa = Some (mkAdj (N:=RNumI) amt fee st) /\
    trade_spread s q price p = Some bop /\ fee = trade_fee comm s q price p /\
    (capital + amt) + s_pos s' * p * s_mult s = capital + s_pos s * p * s_mult s - (bop + fee).
Proof. exact trade_conserves_value. Qed.
Print Assumptions C02_trade_conserves_value.

(* at every update each strategy's value is its cash plus its children's values (so moving capital
   between a parent and a sub-strategy, which only moves cash between two nodes, leaves the total unchanged) *)
Theorem C02_value_is_cash_plus_children : forall (A : Type) ps date inow (n n' : node RNumI A),
  node_update ps date inow n = Ok n' -> WF n -> BS n' /\ WF n'.
Proof. exact node_update_BS. Qed.
Print Assumptions C02_value_is_cash_plus_children.

(* Strategy level (children = securities on the strategy's date, each with a price): one StrategyBase.allocate(amount)
   — any amount, any commission function, spreads, whole or fractional units incl. the sizing search, any number of
   children traded — changes  cash + sum(position x price x multiplier)  by exactly the amount received minus the
   bid/offer recorded by the securities minus the fees recorded by the node; transact(q) by minus those costs only *)
Theorem C02_allocate_changes_worth_only_by_flow_and_costs :
  forall (A : Type) pnow comm amount upd (g g' : strat RNumI A) kids kids' lz pp lz' pp' oa,
  let i := row_of (g_now g) in
  ready A (g_now g) i kids ->
  node_allocate pnow comm amount upd (NStrat g kids lz pp) = Ok (NStrat g' kids' lz' pp', oa) ->
  worth A g' kids' - worth A g kids =
  amount - (sum_secs A (@s_bidoffer_paid RNumI) kids' - sum_secs A (@s_bidoffer_paid RNumI) kids) - (g_last_fee g' - g_last_fee g).
Proof. exact flat_allocate_value. Qed.
Print Assumptions C02_allocate_changes_worth_only_by_flow_and_costs.

Theorem C02_transact_changes_worth_only_by_costs :
  forall (A : Type) pnow comm q upd (g g' : strat RNumI A) kids kids' lz pp lz' pp' oa,
  let i := row_of (g_now g) in
  ready A (g_now g) i kids ->
  node_transact pnow comm q upd (NStrat g kids lz pp) = Ok (NStrat g' kids' lz' pp', oa) ->
  worth A g' kids' - worth A g kids =
  - (sum_secs A (@s_bidoffer_paid RNumI) kids' - sum_secs A (@s_bidoffer_paid RNumI) kids) - (g_last_fee g' - g_last_fee g).
Proof. exact flat_transact_value. Qed.
Print Assumptions C02_transact_changes_worth_only_by_costs.

(* C02 — value is conserved: trades at the current price change total value only by explicit costs.
   Statements only; proofs in Proofs/TradeProofs.v and Proofs/TreeInv.v. *)
From Coq Require Import Reals List.
Require Import BT.Num BT.Base BT.Records BT.Engine BT.Proofs.SecInv BT.Proofs.TreeInv BT.Proofs.TradeProofs BT.Proofs.LedgerProofs BT.Proofs.ValueProofs BT.Proofs.TreeValue.
Local Open Scope R_scope.

(* buying or selling quantity q at the current (or a custom) price: the parent's cash after booking plus the
   position marked at the current price equals what it was before, minus exactly the spread cost and the fee *)
Theorem C02_trade_conserves_value : forall pnow comm q upd price (s s' : secR) oa (capital : R),
  sec_transact (N:=RNumI) pnow comm q upd false price s = Ok (s', oa) -> q <> 0 ->
  exists p bop amt fee st,
    s_price s = Some p /\ oa = Some (mkAdj (N:=RNumI) amt fee st) /\
    trade_spread s q price p = Some bop /\ fee = trade_fee comm s q price p /\
    (capital + amt) + s_pos s' * p * s_mult s = capital + s_pos s * p * s_mult s - (bop + fee).
Proof. exact trade_conserves_value. Qed.
Print Assumptions C02_trade_conserves_value.

(* at every update each strategy's value is its cash plus its children's values (so moving capital
   between a parent and a sub-strategy, which only moves cash between two nodes, leaves the total unchanged) *)
Theorem C02_value_is_cash_plus_children : forall (A : Type) ps date inow (n n' : node RNumI A),
  node_update ps date inow n = Ok n' -> WF n -> BS n' /\ WF n'.
Proof. exact node_update_BS. Qed.
Print Assumptions C02_value_is_cash_plus_children.

(* Strategy level (children = securities on the strategy's date, each with a price): one StrategyBase.allocate(amount)
   — any amount, any commission function, spreads, whole or fractional units incl. the sizing search, any number of
   children traded — changes  cash + sum(position x price x multiplier)  by exactly the amount received minus the
   bid/offer recorded by the securities minus the fees recorded by the node; transact(q) by minus those costs only *)
Theorem C02_allocate_changes_worth_only_by_flow_and_costs :
  forall (A : Type) pnow comm amount upd (g g' : strat RNumI A) kids kids' lz pp lz' pp' oa,
  let i := row_of (g_now g) in
  ready A (g_now g) i kids ->
  node_allocate pnow comm amount upd (NStrat g kids lz pp) = Ok (NStrat g' kids' lz' pp', oa) ->
  worth A g' kids' - worth A g kids =
  amount - (sum_secs A (@s_bidoffer_paid RNumI) kids' - sum_secs A (@s_bidoffer_paid RNumI) kids) - (g_last_fee g' - g_last_fee g).
Proof. exact flat_allocate_value. Qed.
Print Assumptions C02_allocate_changes_worth_only_by_flow_and_costs.

Theorem C02_transact_changes_worth_only_by_costs :
  forall (A : Type) pnow comm q upd (g g' : strat RNumI A) kids kids' lz pp lz' pp' oa,
  let i := row_of (g_now g) in
  ready A (g_now g) i kids ->
  node_transact pnow comm q upd (NStrat g kids lz pp) = Ok (NStrat g' kids' lz' pp', oa) ->
  worth A g' kids' - worth A g kids =
  - (sum_secs A (@s_bidoffer_paid RNumI) kids' - sum_secs A (@s_bidoffer_paid RNumI) kids) - (g_last_fee g' - g_last_fee g).
Proof. exact flat_transact_value. Qed.
Print Assumptions C02_transact_changes_worth_only_by_costs.

(* Trees of ANY depth.  On a balanced tree the root's value is all the cash held anywhere in the tree plus
   position x price x multiplier over every security of the tree ... *)
Theorem C02_value_is_all_cash_plus_all_holdings : forall (A : Type) (n : node RNumI A),
  BS n -> raw_value n = total_cash A n + total_holdings A n.
Proof. exact BS_value_decomposition. Qed.
Print Assumptions C02_value_is_all_cash_plus_all_holdings.

(* ... so moving capital between a parent and its sub-strategies, which changes neither total, cannot change it *)
Theorem C02_moving_capital_inside_the_tree_keeps_total_value : forall (A : Type) (n n' : node RNumI A),
  BS n -> BS n' -> total_cash A n' = total_cash A n -> total_holdings A n' = total_holdings A n -> raw_value n' = raw_value n.
Proof. exact capital_placement_is_irrelevant. Qed.
Print Assumptions C02_moving_capital_inside_the_tree_keeps_total_value.

(* First sentence, the update between two dates: StrategyBase.update on a balanced well-formed tree of any depth changes
   the root's value by the parked cash it sweeps up (coupons less holding costs accrued on the earlier date) plus the
   mark-to-market change of holdings whose positions and multipliers are exactly the ones held before; no other cash
   moves. *)
Theorem C02_date_change_is_carry_plus_mark_to_market :
  forall (A : Type) (ps : option nat -> tree RNumI A -> result (tree RNumI A)) date inow (n n' : node RNumI A),
  BS n -> WF n -> node_update ps date inow n = Ok n' ->
  raw_value n' - raw_value n = swept A date n + (total_holdings A n' - total_holdings A n) /\ leaf_pm A n' = leaf_pm A n.
Proof. exact date_change_attribution. Qed.
Print Assumptions C02_date_change_is_carry_plus_mark_to_market.

Theorem C02_update_moves_no_cash_but_the_swept_carry :
  forall (A : Type) (ps : option nat -> tree RNumI A -> result (tree RNumI A)) date inow (n n' : node RNumI A),
  node_update ps date inow n = Ok n' -> total_cash A n' = total_cash A n + swept A date n.
Proof. exact node_update_cash. Qed.
Print Assumptions C02_update_moves_no_cash_but_the_swept_carry.

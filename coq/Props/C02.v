(* C02 — value is conserved: trades at the current price change total value only by explicit costs.
   Statements only; proofs in Proofs/TradeProofs.v and Proofs/TreeInv.v. *)
From Coq Require Import Reals List.
Require Import BT.Num BT.Base BT.Records BT.Engine BT.Proofs.SecInv BT.Proofs.TreeInv BT.Proofs.TradeProofs.
Local Open Scope R_scope.

(* buying or selling quantity q at the current (or a custom) price: the parent's cash after booking plus the
   position marked at the current price equals what it was before, minus exactly the spread cost and the fee *)
Theorem C02_trade_conserves_value : forall pnow comm q upd price (s s' : secR) oa (capital : R),
  sec_transact (N:=RNumI) pnow comm q upd false price s = Ok (s', oa) -> q <> 0 ->
  exists p bop amt fee st,
    s_price s = Some p /\ oa = Some (mkAdj (N:=RNumI) amt fee st) /\
    trade_spread s q price p = Some bop /\ fee = trade_fee comm s q price p /\
    (capital + amt) + s_pos s' * p * s_mult s = capital + s_pos s * p * s_mult s - (bop + fee).
Proof. exact trade_conserves_value. Qed.
Print Assumptions C02_trade_conserves_value.

(* at every update each strategy's value is its cash plus its children's values (so moving capital
   between a parent and a sub-strategy, which only moves cash between two nodes, leaves the total unchanged) *)
Theorem C02_value_is_cash_plus_children : forall (A : Type) ps date inow (n n' : node RNumI A),
  node_update ps date inow n = Ok n' -> WF n -> BS n' /\ WF n'.
Proof. exact node_update_BS. Qed.
Print Assumptions C02_value_is_cash_plus_children.

(* C01 — Balance-sheet identity holds at every node of the tree.
   Only statements, each closed by [exact] of a lemma proved under Proofs/, with
   Print Assumptions beneath.  Real-number instance of the model. *)
From Coq Require Import List Reals.
Require Import BT.Num BT.Base BT.Records BT.Engine BT.Proofs.SecInv BT.Proofs.TreeInv.
Local Open Scope R_scope.

(* Whenever StrategyBase.update (SecurityBase.update at the leaves) returns on a well-formed
   tree, every strategy's value is its cash plus its children's values, its notional is the
   sum of absolute child notionals, every security's value is position x price x multiplier
   (0 and flat on a missing price), and every child's weight is value / parent value
   (notional under fixed income; 0 on a zero base) — at every node, for every date, every
   algo-state type and every behaviour of the paper copies. *)
Theorem C01_update_establishes_balance_sheet :
  forall (A : Type) (paper_step : option nat -> tree RNumI A -> result (tree RNumI A))
         (date : option nat) (inow : nat) (n n' : node RNumI A),
    node_update paper_step date inow n = Ok n' -> WF n -> BS n' /\ WF n'.
Proof. exact node_update_BS. Qed.
Print Assumptions C01_update_establishes_balance_sheet.

(* C01 — Balance-sheet identity holds at every node of the tree.
   Only statements, each closed by [exact] of a lemma proved under Proofs/, with
   Print Assumptions beneath.  Real-number instance of the model. *)
From Coq Require Import List Reals.
Require Import BT.Num BT.Base BT.Records BT.Engine BT.Ops BT.Algos BT.Proofs.SecInv BT.Proofs.TreeInv BT.Proofs.WFProofs
        BT.Proofs.AlgoWF.
Local Open Scope R_scope.

(* Whenever StrategyBase.update (SecurityBase.update at the leaves) returns on a well-formed
   tree, every strategy's value is its cash plus its children's values, its notional is the
   sum of absolute child notionals, every security's value is position x price x multiplier
   (0 and flat on a missing price), and every child's weight is value / parent value
   (notional under fixed income; 0 on a zero base) — at every node, for every date, every
   algo-state type and every behaviour of the paper copies. *)
Theorem C01_update_establishes_balance_sheet :
  forall (A : Type) (paper_step : option nat -> tree RNumI A -> result (tree RNumI A))
         (date : option nat) (inow : nat) (n n' : node RNumI A),
    node_update paper_step date inow n = Ok n' -> WF n -> BS n' /\ WF n'.
Proof. exact node_update_BS. Qed.
Print Assumptions C01_update_establishes_balance_sheet.

(* Well-formedness is not an assumption about reachable states: construction establishes it and every operation
   (update, adjust, allocate, transact, rebalance, close, flatten, property reads; lazily created children included)
   preserves it. *)
Theorem C01_every_operation_preserves_well_formedness :
  forall (A : Type) (paper_step : option nat -> tree RNumI A -> result (tree RNumI A))
         (o : op RNumI) (tr tr' : tree RNumI A) c,
    apply_op paper_step o tr = Ok (tr', c) -> WF (fst tr) -> WF (fst tr').
Proof. exact apply_op_WF. Qed.
Print Assumptions C01_every_operation_preserves_well_formedness.

(* Hence, for EVERY reachable state — any declaration tree, any data, any finite sequence of operations — an update
   that leaves the tree fresh establishes the balance sheet at every node.  (The only update that leaves the tree
   stale is the one on which a root goes bankrupt while every position is already flat.) *)
Theorem C01_balance_sheet_at_every_reachable_state :
  forall (A : Type) (paper_step : option nat -> tree RNumI A -> result (tree RNumI A))
         d ip comm (sp : nspec RNumI A) (ops : list (op RNumI)) tr0 tr date tr',
    build d ip comm sp = Ok tr0 -> run_ops A paper_step ops tr0 = Ok tr ->
    root_update paper_step date tr = Ok tr' -> snd tr' = false -> BS (fst tr') /\ WF (fst tr').
Proof. exact reachable_update_BS. Qed.
Print Assumptions C01_balance_sheet_at_every_reachable_state.

(* The same for whole backtests.  Every stock algo of the model (selection, weighing, Rebalance, RebalanceOverTime,
   LimitDeltas, LimitWeights, ClosePositionsAfterDates, RollPositionsAfterDates, ReplayTransactions, HedgeRisks,
   UpdateRisk, ... and every Or / Not / AlgoStack / run_always composition of them) preserves well-formedness, for
   every target strategy, every environment and every behaviour of the paper copies. *)
Theorem C01_every_algo_preserves_well_formedness :
  forall (paper_step : option nat -> tree RNumI (astate RNumI) -> result (tree RNumI (astate RNumI)))
         (e : env RNumI) (a : algo RNumI) (p : list nat) tr tr' a' b,
    run_algo paper_step e p a tr = Ok (a', b, tr') -> WF (fst tr) -> WF (fst tr').
Proof. exact run_algo_WF. Qed.
Print Assumptions C01_every_algo_preserves_well_formedness.

(* Strategy.run: the stack, then every child strategy's run, recursively *)
Theorem C01_strategy_run_preserves_well_formedness :
  forall (paper_step : option nat -> tree RNumI (astate RNumI) -> result (tree RNumI (astate RNumI)))
         (e : env RNumI) (fuel : nat) (p : list nat) tr tr',
    strat_run paper_step fuel e p tr = Ok tr' -> WF (fst tr) -> WF (fst tr').
Proof. exact strat_run_WF. Qed.
Print Assumptions C01_strategy_run_preserves_well_formedness.

(* Backtest.run, any declaration tree, any data, any stacks: at the end of EVERY date (update; run; update — with the
   paper copies of nested strategies stepped by the same loop) the tree is well-formed and, when fresh, balanced at
   every node. *)
Theorem C01_balance_sheet_at_the_end_of_every_backtest_date :
  forall dates prices kw ad intpos comm capital (sp : nspec RNumI (astate RNumI)) tr,
    backtest dates prices kw ad intpos comm capital sp = Ok tr ->
    exists t2, forall pre i post, seq 1 (length (process_dates dates) - 1) = pre ++ i :: post ->
      exists t0 ti, bt_loop (bt_env dates ad) pre t2 = Ok t0 /\ date_step (bt_env dates ad) i t0 = Ok ti /\
                    WF (fst ti) /\ (snd ti = false -> BS (fst ti)).
Proof. exact backtest_every_date. Qed.
Print Assumptions C01_balance_sheet_at_the_end_of_every_backtest_date.

Theorem C01_backtest_result_is_well_formed :
  forall dates prices kw ad intpos comm capital (sp : nspec RNumI (astate RNumI)) tr,
    backtest dates prices kw ad intpos comm capital sp = Ok tr -> WF (fst tr).
Proof. exact backtest_WF. Qed.
Print Assumptions C01_backtest_result_is_well_formed.

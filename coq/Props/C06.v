(* C06 — Rebalance brings a child to its target weight.  Statements only; proofs in Proofs/AlgoProofs.v. *)
From Coq Require Import Reals.
Require Import BT.Num BT.Base BT.Records BT.Engine BT.Proofs.SecInv BT.Proofs.TradeProofs BT.Proofs.AlgoProofs.
Local Open Scope R_scope.

(* one rebalance allocation (weight - current weight) x base with base = the parent's value V, fractional
   positions and no costs: whatever the prior position, the child's marked value becomes exactly w x V, and the
   parent is charged exactly the amount (so V is unchanged and the new weight is w) *)
Theorem C06_rebalance_reaches_target_partial : forall pnow comm upd (s s' : secR) oa p V w,
  current pnow s -> s_intpos s = false -> (forall q x, comm q x = 0) -> s_bidoffer s = Some 0 ->
  s_price s = Some p -> p <> 0 -> s_mult s <> 0 -> V <> 0 ->
  s_value s = s_pos s * p * s_mult s ->
  let amount := (w - s_value s / V) * V in
  amount <> 0 -> amount + s_value s <> 0 ->
  sec_allocate (N:=RNumI) pnow comm amount upd s = Ok (s', oa) ->
  s_pos s' * p * s_mult s = w * V /\ oa = Some (mkAdj (N:=RNumI) (- amount) 0 upd).
Proof. exact rebalance_reaches_target. Qed.
Print Assumptions C06_rebalance_reaches_target_partial.

(* a target of zero / a child not in the targets is closed completely (close goes through the close-out shortcut) *)
Theorem C06_closing_allocation : forall pnow comm upd (s s' : secR) oa amount,
  current pnow s -> amount <> 0 -> amount + s_value s = 0 ->
  sec_allocate (N:=RNumI) pnow comm amount upd s = Ok (s', oa) -> s_pos s' = 0.
Proof. exact alloc_closeout. Qed.
Print Assumptions C06_closing_allocation.

(* C06 — Rebalance brings a child to its target weight.  Statements only; proofs in Proofs/AlgoProofs.v. *)
From Coq Require Import Reals List.
Require Import BT.Num BT.Base BT.Records BT.Engine BT.Proofs.SecInv BT.Proofs.TradeProofs BT.Proofs.AlgoProofs BT.Proofs.RotProofs.
Local Open Scope R_scope.

(* one rebalance allocation (weight - current weight) x base with base = the parent's value V, fractional
   positions and no costs: whatever the prior position, the child's marked value becomes exactly w x V, and the
   parent is charged exactly the amount (so V is unchanged and the new weight is w) *)
Theorem C06_rebalance_reaches_target_partial : forall pnow comm upd (s s' : secR) oa p V w,
  current pnow s -> s_intpos s = false -> (forall q x, comm q x = 0) -> s_bidoffer s = Some 0 ->
  s_price s = Some p -> p <> 0 -> s_mult s <> 0 -> V <> 0 ->
  s_value s = s_pos s * p * s_mult s ->
  let amount := (w - s_value s / V) * V in
  amount <> 0 -> amount + s_value s <> 0 ->
  sec_allocate (N:=RNumI) pnow comm amount upd s = Ok (s', oa) ->
  s_pos s' * p * s_mult s = w * V /\ oa = Some (mkAdj (N:=RNumI) (- amount) 0 upd).
Proof. exact rebalance_reaches_target. Qed.
Print Assumptions C06_rebalance_reaches_target_partial.

(* a target of zero / a child not in the targets is closed completely (close goes through the close-out shortcut) *)
Theorem C06_closing_allocation : forall pnow comm upd (s s' : secR) oa amount,
  current pnow s -> amount <> 0 -> amount + s_value s = 0 ->
  sec_allocate (N:=RNumI) pnow comm amount upd s = Ok (s', oa) -> s_pos s' = 0.
Proof. exact alloc_closeout. Qed.
Print Assumptions C06_closing_allocation.

(* RebalanceOverTime feeds Rebalance the step targets  cur + (target - cur) / days_left  (Algos.v, ARebalanceOverTime);
   when every step is reached exactly these walk from the starting weight to the target in n equal steps *)
Theorem C06_rebalance_over_time_equal_steps_partial : forall n c w k, (k < n)%nat ->
  nth k (rot_path c w n) 0 = c + INR (S k) * (w - c) / INR n.
Proof. exact rot_equal_steps. Qed.
Print Assumptions C06_rebalance_over_time_equal_steps_partial.

Theorem C06_rebalance_over_time_reaches_target_partial : forall n c w, (0 < n)%nat -> nth (n - 1) (rot_path c w n) 0 = w.
Proof. exact rot_reaches_target. Qed.
Print Assumptions C06_rebalance_over_time_reaches_target_partial.

(* C08 — updates are idempotent (whole trees, any depth), history is append-only (security level: all five classes).
   Statements only; proofs in Proofs/IdemProofs.v.  Real-number instance. *)
From Coq Require Import Reals List.
Require Import BT.Num BT.Base BT.Records BT.Engine BT.Proofs.SecInv BT.Proofs.TreeInv BT.Proofs.IdemProofs BT.Proofs.IdemTree.
Local Open Scope R_scope.

(* re-running the update of a security for the same date (any class: plain, fixed income,
   coupon paying, hedge, coupon-paying hedge) returns the very same record *)
Theorem C08_security_update_idempotent : forall date inow (s s1 : secR),
  sec_update date inow s = Ok s1 -> sec_update date inow s1 = Ok s1.
Proof. exact sec_update_idem. Qed.
Print Assumptions C08_security_update_idempotent.

(* an update only writes the row of its own date: every other row of values, positions, outlays,
   bid/offer paid and notional is what it was (append-only once the clock has moved on) *)
Theorem C08_security_rows_append_only : forall date inow (s s' : secR) j,
  sec_update_base date inow s = Ok s' -> j <> inow ->
  nth j (h_values s') 0 = nth j (h_values s) 0 /\
  nth j (h_positions s') 0 = nth j (h_positions s) 0 /\
  nth j (h_outlays s') 0 = nth j (h_outlays s) 0 /\
  nth j (h_bopaid s') 0 = nth j (h_bopaid s) 0 /\
  nth j (h_notls s') 0 = nth j (h_notls s) 0.
Proof. exact sec_update_base_rows. Qed.
Print Assumptions C08_security_rows_append_only.

(* StrategyBase.update for a date already current: a second update of any well-formed tree (any depth, shared
   tickers, fixed income or not, any behaviour of the paper copies) returns the very same tree — values, notionals,
   prices, weights, every history row, the universe columns and the paper copies; the paper copies are not stepped again *)
Theorem C08_tree_update_idempotent :
  forall (A : Type) (paper_step : option nat -> tree RNumI A -> result (tree RNumI A)) i inow (n n1 : node RNumI A),
    WF n -> node_update paper_step (Some i) inow n = Ok n1 -> node_update paper_step (Some i) inow n1 = Ok n1.
Proof. exact node_update_idem. Qed.
Print Assumptions C08_tree_update_idempotent.

(* the update of a node does not read the weight its parent gave it (so re-weighting never invalidates an update) *)
Theorem C08_update_ignores_own_weight :
  forall (A : Type) (paper_step : option nat -> tree RNumI A -> result (tree RNumI A)) date inow w (g : strat RNumI A) kids lz paper,
    node_update paper_step date inow (NStrat (set_g_weight w g) kids lz paper) =
    bind (node_update paper_step date inow (NStrat g kids lz paper)) (fun n' => Ok (set_weight w n')).
Proof. exact node_update_weight. Qed.
Print Assumptions C08_update_ignores_own_weight.

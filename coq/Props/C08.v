(* C08 — updates are idempotent, history is append-only (security level: all five classes).
   Statements only; proofs in Proofs/IdemProofs.v.  Real-number instance. *)
From Coq Require Import Reals List.
Require Import BT.Num BT.Base BT.Records BT.Engine BT.Proofs.SecInv BT.Proofs.IdemProofs.
Local Open Scope R_scope.

(* re-running the update of a security for the same date (any class: plain, fixed income,
   coupon paying, hedge, coupon-paying hedge) returns the very same record *)
Theorem C08_security_update_idempotent : forall date inow (s s1 : secR),
  sec_update date inow s = Ok s1 -> sec_update date inow s1 = Ok s1.
Proof. exact sec_update_idem. Qed.
Print Assumptions C08_security_update_idempotent.

(* an update only writes the row of its own date: every other row of values, positions, outlays,
   bid/offer paid and notional is what it was (append-only once the clock has moved on) *)
Theorem C08_security_rows_append_only : forall date inow (s s' : secR) j,
  sec_update_base date inow s = Ok s' -> j <> inow ->
  nth j (h_values s') 0 = nth j (h_values s) 0 /\
  nth j (h_positions s') 0 = nth j (h_positions s) 0 /\
  nth j (h_outlays s') 0 = nth j (h_outlays s) 0 /\
  nth j (h_bopaid s') 0 = nth j (h_bopaid s) 0 /\
  nth j (h_notls s') 0 = nth j (h_notls s) 0.
Proof. exact sec_update_base_rows. Qed.
Print Assumptions C08_security_rows_append_only.

(* C19 — tree wiring, universe scoping, settings, lazy children: on the model.  Statements only; proofs in
   Proofs/WiringProofs.v.  Parent / root / members / full names are positions in the model's tree (a node has no
   back-pointers to get wrong); that the implementation's pointers agree with the structure, however the tree was
   assembled, is decided by the wiring suite on public attributes. *)
From Coq Require Import List Bool Arith.
Import ListNotations.
Require Import BT.Num BT.Base BT.Records BT.Engine BT.Ops BT.Proofs.WiringProofs.

Theorem C19_universe_is_what_was_declared : forall (N : num) (A : Type) d ip comm r pfi (late : bool) id fi (a : A) kids g ns lz pp,
  build_node (N:=N) d ip comm r pfi (if late then SpLate id fi a kids else SpStrat id fi a kids) = Ok (NStrat g ns lz pp) ->
  g_univ g = strat_universe late d kids /\
  map fst (g_ucols g) = map (@spec_id N A) (filter (@spec_is_strat N A) kids).
Proof. exact built_universe. Qed.
Print Assumptions C19_universe_is_what_was_declared.

Theorem C19_declared_universe_columns : forall (N : num) (A : Type) (d : bdata N) (kids : list (nspec N A)) k,
  kids <> [] ->
  (In k (map fst (strat_universe false d kids)) <-> In k (map fst (d_prices d)) /\ In k (declared_tickers kids)).
Proof. exact declared_universe_columns. Qed.
Print Assumptions C19_declared_universe_columns.

Theorem C19_settings_reach_every_constructed_node : forall (N : num) (A : Type) d ip comm (sp : nspec N A) r pfi n,
  build_node d ip comm r pfi sp = Ok n -> settings_ok ip comm n.
Proof. exact build_pushes_settings. Qed.
Print Assumptions C19_settings_reach_every_constructed_node.

Theorem C19_settings_reach_lazily_created_securities : forall (N : num) (A : Type) ip comm k (n n' : node N A),
  settings_ok ip comm n -> create_child k n = Ok n' -> settings_ok ip comm n'.
Proof. exact create_child_settings. Qed.
Print Assumptions C19_settings_reach_lazily_created_securities.

Theorem C19_lazy_security_reads_the_same_column_partial : forall (N : num) (f : frame N) (tickers : list nat) k,
  mem_nat k tickers = true -> lookup k (filter (fun kc => mem_nat (fst kc) tickers) f) = lookup k f.
Proof. exact lazy_same_column. Qed.
Print Assumptions C19_lazy_security_reads_the_same_column_partial.

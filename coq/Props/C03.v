(* C03 — the price index is a flow-neutral return index starting at 100.
   Statements only; proofs in Proofs/IndexProofs.v.  Real-number instance. *)
From Coq Require Import Reals.
Require Import BT.Num BT.Base BT.Records BT.Engine BT.Ops BT.Proofs.IndexProofs.
Local Open Scope R_scope.

Theorem C03_starts_at_100 : forall (A : Type) id fi ip bo pt comm univ kw nrows ucols (a : A),
  g_price (init_strat (N:=RNumI) id fi ip bo pt comm univ kw nrows ucols a) = 100 /\
  g_last_price (init_strat (N:=RNumI) id fi ip bo pt comm univ kw nrows ucols a) = 100.
Proof. exact init_price_100. Qed.
Print Assumptions C03_starts_at_100.

(* price[t] x (value[t-1] + net flows[t]) = price[t-1] x value[t], at every update of the date *)
Theorem C03_recurrence : forall (A : Type) (g : strat RNumI A) p,
  g_fi g = false -> g_last_value g + g_net_flows g <> 0 ->
  strat_new_price g = Ok p ->
  p * (g_last_value g + g_net_flows g) = g_last_price g * g_value g.
Proof. exact new_price_recurrence. Qed.
Print Assumptions C03_recurrence.

Theorem C03_zero_base : forall (A : Type) (g : strat RNumI A),
  g_fi g = false -> g_last_value g + g_net_flows g = 0 ->
  strat_new_price g = if Req_EM_T (g_value g) 0 then Ok (g_last_price g) else Err EZeroBase.
Proof. exact new_price_zero_base. Qed.
Print Assumptions C03_zero_base.

(* injecting or withdrawing capital as a flow does not move the index — proved when no P&L has
   accrued on the date yet ... *)
Theorem C03_flow_neutral_partial : forall (A : Type) (g : strat RNumI A) amount p p',
  g_fi g = false ->
  g_value g = g_last_value g + g_net_flows g -> g_value g <> 0 -> g_value g + amount <> 0 ->
  strat_new_price g = Ok p ->
  strat_new_price (set_g_value (N:=RNumI) (g_value g + amount) (g_adjust (N:=RNumI) amount 0 true g)) = Ok p' ->
  p = g_last_price g /\ p' = g_last_price g.
Proof. exact flow_neutral_partial. Qed.
Print Assumptions C03_flow_neutral_partial.

(* ... and false in general (known finding K3): flows are credited at the start of the day *)
Theorem C03_flow_neutral_refuted :
  exists (lv fl v a lp : R),
    lv + fl <> 0 /\ lv + fl + a <> 0 /\ lp * (v / (lv + fl)) <> lp * ((v + a) / (lv + fl + a)).
Proof. exact flow_neutral_refuted. Qed.
Print Assumptions C03_flow_neutral_refuted.

(* the index depends on value, last value and flows only through their ratios *)
Theorem C03_scale_invariance_partial : forall (A : Type) (g : strat RNumI A) k p,
  g_fi g = false -> k <> 0 -> g_last_value g + g_net_flows g <> 0 ->
  strat_new_price g = Ok p ->
  strat_new_price (set_g_value (N:=RNumI) (k * g_value g)
                     (set_g_last_value (N:=RNumI) (k * g_last_value g) (set_g_net_flows (N:=RNumI) (k * g_net_flows g) g))) = Ok p.
Proof. exact new_price_scale. Qed.
Print Assumptions C03_scale_invariance_partial.

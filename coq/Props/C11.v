(* C11 — isolation and repeatability, on the model.  Statements only; proofs in Proofs/IsoProofs.v.
   The model has no shared mutable state by construction; that the implementation behaves like it (deep copies of the
   template, re-framed data, no process-wide state, no dependence on hash order) is decided by the isolation
   correspondence suite, which compares every backtest of a multi-backtest session, under several hash seeds and
   orders, with a fresh-process run and with this model. *)
From Coq Require Import List Bool Arith.
Import ListNotations.
Require Import BT.Num BT.Base BT.Records BT.Engine BT.Ops BT.Algos BT.Session BT.Proofs.IsoProofs.

Theorem C11_finished_backtest_does_not_rerun : forall (N : num) (o : btobj N),
  bt_run_obj (bt_run_obj o) = bt_run_obj o /\ (bo_has_run o = true -> bt_run_obj o = o).
Proof. intros N o. split; [exact (run_twice N o) | exact (finished_run_is_noop N o)]. Qed.
Print Assumptions C11_finished_backtest_does_not_rerun.

Theorem C11_result_is_a_function_of_own_inputs : forall (N : num) (cs : list (cmd N)) i b k,
  filter (touches N i) cs = CBuild i b :: repeat (CRun i) (S k) ->
  exec cs (@s_empty N) i = Some {| bo_input := b; bo_has_run := true; bo_result := Some (run_input b) |}.
Proof. exact session_result. Qed.
Print Assumptions C11_result_is_a_function_of_own_inputs.

Theorem C11_independent_of_other_backtests_and_order : forall (N : num) (cs1 cs2 : list (cmd N)) i,
  filter (touches N i) cs1 = filter (touches N i) cs2 ->
  exec cs1 (@s_empty N) i = exec cs2 (@s_empty N) i.
Proof. exact session_independent. Qed.
Print Assumptions C11_independent_of_other_backtests_and_order.

(* non-vacuity: two backtests, built and run in opposite orders, the second one run twice *)
Example C11_script_example : forall (N : num) (b1 b2 : binput N),
  exec [CBuild 1 b1; CBuild 2 b2; CRun 2; CRun 1; CRun 2] (@s_empty N) 1 =
  exec [CBuild 2 b2; CRun 2; CBuild 1 b1; CRun 1] (@s_empty N) 1.
Proof. intros. apply session_independent. reflexivity. Qed.

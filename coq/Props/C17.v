(* C17 — fixed-income strategies account by notional, coupons and carry.  Statements only;
   proofs in Proofs/FiProofs.v, Proofs/IndexProofs.v, Proofs/TreeInv.v. *)
From Coq Require Import Reals List.
Require Import BT.Num BT.Base BT.Records BT.Engine BT.Ops BT.Proofs.SecInv BT.Proofs.TreeInv BT.Proofs.FiProofs BT.Proofs.IndexProofs.
Local Open Scope R_scope.

(* notional value per class: market value / position (par) / zero *)
Theorem C17_security_notional : forall date inow (s s' : secR),
  sec_update date inow s = Ok s' ->
  match s_class s with
  | CSec => sec_early date s = false -> s_notl s' = s_value s'
  | CFixedIncome | CCoupon => s_notl s' = s_pos s'
  | CHedge | CCouponHedge => s_notl s' = 0
  end.
Proof. exact sec_update_notional. Qed.
Print Assumptions C17_security_notional.

(* a strategy's notional is the sum of absolute child notionals, and children's weights are fractions
   of it under fixed income (part of the balance-sheet predicate established by every update) *)
Theorem C17_strategy_notional_and_weights : forall (A : Type) ps date inow (n n' : node RNumI A),
  node_update ps date inow n = Ok n' -> WF n -> BS n' /\ WF n'.
Proof. exact node_update_BS. Qed.
Print Assumptions C17_strategy_notional_and_weights.

(* carry: position x coupon less the long/short holding cost on the absolute position, parked for the parent *)
Theorem C17_carry : forall inow (s s' : secR) cps c,
  s_coupons s = Some cps -> cell_at inow cps = Some c ->
  sec_update_coupon inow s = Ok s' ->
  s_coupon s' = s_pos s * c /\
  s_capital s' = s_coupon s' - s_holding_cost s' /\
  (0 < s_pos s -> forall cl k, s_cost_long s = Some cl -> cell_at inow cl = Some k -> s_holding_cost s' = s_pos s * k) /\
  (s_pos s < 0 -> forall cs k, s_cost_short s = Some cs -> cell_at inow cs = Some k -> s_holding_cost s' = - s_pos s * k) /\
  (s_pos s = 0 -> s_holding_cost s' = 0) /\
  (0 < s_pos s -> s_cost_long s = None -> s_holding_cost s' = 0) /\
  (s_pos s < 0 -> s_cost_short s = None -> s_holding_cost s' = 0).
Proof. exact coupon_carry. Qed.
Print Assumptions C17_carry.

Theorem C17_nan_coupon_open_position_errors : forall inow (s : secR) cps,
  s_coupons s = Some cps -> cell_at inow cps = None -> s_pos s <> 0 ->
  sec_update_coupon inow s = Err ENanCouponOpen.
Proof. exact coupon_nan. Qed.
Print Assumptions C17_nan_coupon_open_position_errors.

(* the index moves additively by 100 x (change in value net of flows) / notional: the previous
   notional, or the current one when the previous is zero; an error when both are zero and pnl is not *)
Theorem C17_index_additive : forall (A : Type) (g : strat RNumI A) p,
  g_fi g = true -> g_last_notl g <> 0 ->
  strat_new_price g = Ok p ->
  p = g_last_price g + 100 * (g_value g - g_last_value g - g_net_flows g) / g_last_notl g.
Proof. exact fi_price_additive. Qed.
Print Assumptions C17_index_additive.

Theorem C17_index_first_notional : forall (A : Type) (g : strat RNumI A) p,
  g_fi g = true -> g_last_notl g = 0 -> g_notl g <> 0 ->
  strat_new_price g = Ok p ->
  p = g_last_price g + 100 * (g_value g - g_last_value g - g_net_flows g) / g_notl g.
Proof. exact fi_price_first_notional. Qed.
Print Assumptions C17_index_first_notional.

Theorem C17_index_zero_notional : forall (A : Type) (g : strat RNumI A),
  g_fi g = true -> g_last_notl g = 0 -> g_notl g = 0 ->
  strat_new_price g =
  if Req_EM_T (g_value g - (g_last_value g + g_net_flows g)) 0 then Ok (g_last_price g) else Err EZeroNotl.
Proof. exact fi_price_zero_notional. Qed.
Print Assumptions C17_index_zero_notional.

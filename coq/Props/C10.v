(* C10 — ill-formed states raise.  Statements only; proofs in Proofs/ErrProofs.v, TradeProofs.v, FiProofs.v, IndexProofs.v.
   The "well-formed runs complete with finite results under the installed library versions" half is decided by the
   completion suite on the implementation (both builds in the thorough tier), not by a theorem about the model. *)
From Coq Require Import Reals List Bool.
Require Import BT.Num BT.Base BT.Records BT.Engine BT.Ops BT.Proofs.SecInv BT.Proofs.TradeProofs BT.Proofs.FiProofs
        BT.Proofs.IndexProofs BT.Proofs.ErrProofs.
Local Open Scope R_scope.

Theorem C10_trade_at_missing_or_zero_price : forall pnow comm amount upd (s : secR),
  s_needupdate s = false -> s_now s = pnow -> amount <> 0 ->
  (s_price s = None \/ s_price s = Some 0) ->
  sec_allocate (N:=RNumI) pnow comm amount upd s = Err EBadPrice.
Proof. exact alloc_bad_price. Qed.
Print Assumptions C10_trade_at_missing_or_zero_price.

Theorem C10_missing_price_on_open_position : forall inow (s : secR),
  s_price s = None -> s_pos s <> 0 -> sec_mark inow s = Err ENanPriceOpen.
Proof. exact nan_price_open_position. Qed.
Print Assumptions C10_missing_price_on_open_position.

Theorem C10_missing_coupon_on_open_position : forall inow (s : secR) cps,
  s_coupons s = Some cps -> cell_at inow cps = None -> s_pos s <> 0 ->
  sec_update_coupon inow s = Err ENanCouponOpen.
Proof. exact coupon_nan. Qed.
Print Assumptions C10_missing_coupon_on_open_position.

Theorem C10_duplicate_tickers : forall (A : Type) d ip comm (sp : nspec RNumI A),
  has_dup (map fst (d_prices d)) = true -> build d ip comm sp = Err EDupColumn.
Proof. exact duplicate_columns. Qed.
Print Assumptions C10_duplicate_tickers.

Theorem C10_return_on_zero_base : forall (A : Type) (g : strat RNumI A),
  g_fi g = false -> g_last_value g + g_net_flows g = 0 ->
  strat_new_price g = if Req_EM_T (g_value g) 0 then Ok (g_last_price g) else Err EZeroBase.
Proof. exact new_price_zero_base. Qed.
Print Assumptions C10_return_on_zero_base.

Theorem C10_return_on_zero_notional : forall (A : Type) (g : strat RNumI A),
  g_fi g = true -> g_last_notl g = 0 -> g_notl g = 0 ->
  strat_new_price g =
  if Req_EM_T (g_value g - (g_last_value g + g_net_flows g)) 0 then Ok (g_last_price g) else Err EZeroNotl.
Proof. exact fi_price_zero_notional. Qed.
Print Assumptions C10_return_on_zero_notional.

Theorem C10_fixed_income_child_of_market_value_parent : forall (A : Type) d ip comm id (a : A) kids,
  build_node (N:=RNumI) d ip comm false false (SpStrat id true a kids) = Err EFiChild.
Proof. exact fi_child_of_mv_parent. Qed.
Print Assumptions C10_fixed_income_child_of_market_value_parent.

Theorem C10_custom_price_without_bidoffer : forall pnow comm q upd cp (s : secR),
  s_bo_set s = false -> q <> 0 ->
  sec_transact (N:=RNumI) pnow comm q upd false (Some cp) s = Err ECustomNoBidoffer.
Proof. exact custom_price_needs_bidoffer. Qed.
Print Assumptions C10_custom_price_without_bidoffer.

(* C15 — weighting algos produce the documented weights.  Statements only; proofs in Proofs/AlgoProofs.v. *)
From Coq Require Import Reals List Bool.
Import ListNotations.
Require Import BT.Num BT.Base BT.Records BT.Engine BT.Ops BT.Algos BT.Proofs.AlgoProofs BT.Proofs.LimitProofs.
Local Open Scope R_scope.

(* WeighEqually: one entry per selected ticker (in order), all equal, summing to one *)
Theorem C15_equal_weights_all_equal : forall (x : R) sel,
  Forall (fun kv => snd kv = x) (fold_left (fun acc k => set_assoc k x acc) sel []).
Proof. exact weigh_equally_all_equal. Qed.
Print Assumptions C15_equal_weights_all_equal.

Theorem C15_equal_weights_keys : forall (x : R) sel, NoDup sel ->
  map fst (fold_left (fun acc k => set_assoc k x acc) sel []) = sel.
Proof. exact weigh_equally_keys. Qed.
Print Assumptions C15_equal_weights_keys.

Theorem C15_equal_weights_sum_to_one : forall (l : list (nat * R)) (n : nat),
  (0 < n)%nat -> length l = n -> Forall (fun kv => snd kv = 1 / INR n) l ->
  fold_right (fun kv a => snd kv + a) 0 l = 1.
Proof. exact equal_weights_sum_one. Qed.
Print Assumptions C15_equal_weights_sum_to_one.

(* LimitDeltas: per-period weight changes no larger than the limit; targets already inside are untouched *)
Theorem C15_limit_deltas_bound : forall lim tgt cur, 0 <= lim -> Rabs (limited lim tgt cur - cur) <= lim.
Proof. exact limit_delta_bound. Qed.
Print Assumptions C15_limit_deltas_bound.

Theorem C15_limit_deltas_unchanged_inside : forall lim tgt cur, Rabs (tgt - cur) <= lim -> limited lim tgt cur = tgt.
Proof. exact limit_delta_unchanged. Qed.
Print Assumptions C15_limit_deltas_unchanged_inside.

(* LimitWeights: infeasible cap (1 / limit > number of weights) -> no weights at all; otherwise the result respects the cap,
   keeps the tickers, and preserves the total whenever each redistribution round has weights below the cap to take
   what it cuts (lw_good: "excess = 0 or the weights below the cap do not sum to zero" in every round) *)
Theorem C15_limit_weights_infeasible_gives_nothing : forall ps e p lim (tr : tree RNumI (astate RNumI)) g kids st x tw,
  get_astate p tr = Ok (g, kids, st) -> t_weights (a_temp st) = Some (x :: tw) ->
  (lim < 1 / INR (length (x :: tw)))%R ->
  run_algo ps e p (ALimitWeights RNumI lim) tr =
  bind (set_temp p (with_weights [] (a_temp st)) tr) (fun tr' => Ok (ALimitWeights RNumI lim, true, tr')).
Proof. exact limit_weights_infeasible. Qed.
Print Assumptions C15_limit_weights_infeasible_gives_nothing.

Theorem C15_limit_weights_cap_keys_total : forall fuel lim (w r : list (nat * R)),
  limit_weights RNumI fuel lim w = Ok r ->
  Forall (fun kv => (snd kv <= lim)%R) r /\ map fst r = map fst w /\ (lw_good fuel lim w -> sumR r = sumR w).
Proof. exact limit_weights_spec. Qed.
Print Assumptions C15_limit_weights_cap_keys_total.

(* C20 — risk sums over the tree, hedges neutralise it, closed / rolled securities stay out of the selection.
   Statements only; proofs in Proofs/RiskProofs.v and Proofs/TradeProofs.v. *)
From Coq Require Import Reals List ZArith.
Require Import BT.Num BT.Base BT.Records BT.Engine BT.Ops BT.Algos BT.Proofs.SecInv BT.Proofs.TradeProofs BT.Proofs.RiskProofs.
Local Open Scope R_scope.

Theorem C20_security_risk : forall m hist fr rnow depth (s : sec RNumI) n' r,
  set_risk m hist fr rnow depth (NSec s : node RNumI (astate RNumI)) = Ok (n', r) ->
  exists u, unit_risk_of fr rnow (s_id s) = Ok u /\
            r = (if Req_EM_T (s_pos s) 0 then 0 else u * s_pos s * s_mult s) /\
            node_risk m n' = Some r.
Proof. exact set_risk_security. Qed.
Print Assumptions C20_security_risk.

Theorem C20_strategy_risk_is_sum : forall m hist fr rnow (n : node RNumI (astate RNumI)) depth n' r,
  set_risk m hist fr rnow depth n = Ok (n', r) ->
  node_risk m n' = Some r /\
  match n' with
  | NStrat _ kids' _ _ => r = fold_right (fun c a => risk_or_0 m c + a) 0 kids'
  | NSec _ => True
  end.
Proof. exact set_risk_strategy. Qed.
Print Assumptions C20_strategy_risk_is_sum.

Theorem C20_hedge_neutralises : forall r u mult : R,
  u * mult <> 0 -> r + u * ((1 / (u * mult)) * (- r)) * mult = 0.
Proof. exact hedge_neutralises. Qed.
Print Assumptions C20_hedge_neutralises.

Theorem C20_hedge_without_multiplier_refuted :
  exists r u mult : R, u <> 0 /\ r + u * ((1 / u) * (- r)) * mult <> 0.
Proof. exact hedge_without_multiplier_refuted. Qed.
Print Assumptions C20_hedge_without_multiplier_refuted.

Theorem C20_select_active_excludes_closed_and_rolled : forall (closed rolled sel : list nat) k,
  In k (filter (fun k => negb (mem_nat k rolled || mem_nat k closed)) sel) ->
  mem_nat k closed = false /\ mem_nat k rolled = false.
Proof. exact select_active_excludes. Qed.
Print Assumptions C20_select_active_excludes_closed_and_rolled.

(* ClosePositionsAfterDates closes through StrategyBase.close: the allocation of minus the value leaves no position *)
Theorem C20_close_leaves_no_position : forall pnow comm upd (s s' : secR) oa amount,
  current pnow s -> amount <> 0 -> amount + s_value s = 0 ->
  sec_allocate (N:=RNumI) pnow comm amount upd s = Ok (s', oa) -> s_pos s' = 0.
Proof. exact alloc_closeout. Qed.
Print Assumptions C20_close_leaves_no_position.

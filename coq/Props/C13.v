(* C13 — Algo stacks short-circuit, run_always runs, Or / Not / Require.
   Statements only; proofs in Proofs/StackProofs.v. *)
From Coq Require Import List Bool.
Import ListNotations.
Require Import BT.Num BT.Base BT.Records BT.Engine BT.Ops BT.Algos BT.Proofs.StackProofs BT.Proofs.RunProofs BT.Proofs.OobProofs.

Section C13.
Variable N : num.
Local Notation algo := (algo N).
Local Notation tree := (tree N (astate N)).

(* For every runner whose algos are observable (return value [resf x], trace [logf x]) and every
   stack [l], in both execution modes: the stack reports the conjunction of its algos' results and
   leaves exactly the traces of the algos in [called ... l], in order. *)
Theorem C13_stack_spec :
  forall (run : algo -> tree -> result (algo * bool * tree)) (next : algo -> algo) (resf : algo -> bool)
         (logf : algo -> tree -> tree) (Inv : tree -> Prop) (P : algo -> Prop),
    (forall x tr, P x -> Inv tr -> run x tr = Ok (next x, resf x, logf x tr) /\ Inv (logf x tr)) ->
    forall has_ra l res tr, Forall P l -> Inv tr ->
      exists l', stack_go run has_ra l res tr =
                 Ok (l', res && forallb resf (if res then l else []),
                     replay logf (called resf has_ra res l) tr).
Proof. exact (@stack_go_spec N). Qed.

(* [called] in the plain mode: everything up to and including the first False, nothing after *)
Theorem C13_called_plain : forall (resf : algo -> bool) l,
  called resf false true l = prefix_to_first_false resf l.
Proof. exact (@called_plain N). Qed.

(* ... in the run_always mode: the same prefix, then the later algos with run_always = True *)
Theorem C13_called_run_always : forall (resf : algo -> bool) l,
  called resf true true l = prefix_to_first_false resf l ++ filter (@always_true N) (after_first_false resf l).
Proof. exact (@called_run_always N). Qed.

Theorem C13_modes_agree : forall (resf : algo -> bool) l,
  existsb (@always_true N) l = false -> called resf true true l = called resf false true l.
Proof. exact (@modes_agree N). Qed.

(* Or: every branch invoked exactly once, in order; reports whether any succeeded *)
Theorem C13_or_spec :
  forall (run : algo -> tree -> result (algo * bool * tree)) (next : algo -> algo) (resf : algo -> bool)
         (logf : algo -> tree -> tree) (Inv : tree -> Prop) (P : algo -> Prop),
    (forall x tr, P x -> Inv tr -> run x tr = Ok (next x, resf x, logf x tr) /\ Inv (logf x tr)) ->
    forall l res tr, Forall P l -> Inv tr ->
      or_go run l res tr = Ok (map next l, res || existsb resf l, replay logf l tr).
Proof. exact (@or_go_spec N). Qed.

Variable ps : option nat -> tree -> result tree.
Variable e : env N.
Variable p : list nat.

(* the interpreter's AlgoStack / Or / Not / Require are these *)
Theorem C13_interp_stack : forall l tr,
  run_algo ps e p (AStack l) tr =
  bind (stack_go (run_algo ps e p) (existsb (@is_always N) l) l true tr)
       (fun r => let '(l', b, tr') := r in Ok (AStack l', b, tr')).
Proof. exact (@run_algo_stack N ps e p). Qed.

Theorem C13_interp_or : forall l tr,
  run_algo ps e p (AOr l) tr =
  bind (or_go (run_algo ps e p) l false tr) (fun r => let '(l', b, tr') := r in Ok (AOr l', b, tr')).
Proof. exact (@run_algo_or N ps e p). Qed.

Theorem C13_not : forall a tr a' b tr',
  run_algo ps e p a tr = Ok (a', b, tr') -> run_algo ps e p (ANot a) tr = Ok (ANot a', negb b, tr').
Proof. exact (@run_algo_not N ps e p). Qed.

(* non-vacuity and the tie to the interpreter: stacks of test doubles with arbitrary scripted
   results and run_always markings, at any existing strategy path *)
Theorem C13_mock_stacks : forall l tr,
  Forall (@mockish N) l -> @m_inv N p tr ->
  exists l', run_algo ps e p (AStack l) tr =
             Ok (AStack l', forallb (@m_res N) l,
                 replay (@m_log N p) (called (@m_res N) (existsb (@is_always N) l) true l) tr).
Proof. exact (@mock_stack_spec N ps e p). Qed.

End C13.

Print Assumptions C13_stack_spec.
Print Assumptions C13_called_plain.
Print Assumptions C13_called_run_always.
Print Assumptions C13_modes_agree.
Print Assumptions C13_or_spec.
Print Assumptions C13_interp_stack.
Print Assumptions C13_interp_or.
Print Assumptions C13_not.
Print Assumptions C13_mock_stacks.

(* Strategy.run: the stack starts from an empty temp; perm (closed / rolled sets) and the stack itself are untouched,
   and nothing else in the tree changes *)
Theorem C13_run_clears_temp_keeps_perm : forall (N : num) (st : astate N),
  a_temp (set_a_temp (empty_temp N) st) = empty_temp N /\
  a_closed (set_a_temp (empty_temp N) st) = a_closed st /\ a_rolled (set_a_temp (empty_temp N) st) = a_rolled st /\
  a_has_closed (set_a_temp (empty_temp N) st) = a_has_closed st /\ a_has_rolled (set_a_temp (empty_temp N) st) = a_has_rolled st /\
  a_stack (set_a_temp (empty_temp N) st) = a_stack st.
Proof. exact run_starts_with_empty_temp_keeps_perm. Qed.
Print Assumptions C13_run_clears_temp_keeps_perm.

Theorem C13_temp_reset_touches_only_that_strategy : forall (N : num) (p : list nat) (tr : tree N (astate N)) g k l pp,
  get_node p (fst tr) = Some (NStrat g k l pp) ->
  exists tr1, set_temp p (empty_temp N) tr = Ok tr1 /\
              get_node p (fst tr1) = Some (NStrat (set_g_algo (set_a_temp (empty_temp N) (g_algo g)) g) k l pp) /\
              snd tr1 = snd tr.
Proof. exact temp_reset_at. Qed.
Print Assumptions C13_temp_reset_touches_only_that_strategy.

(* RunIfOutOfBounds on a fresh tree: True exactly when some child named in the target weights deviates from its target by
   more than the tolerance (|child weight - target| / target), children without a target are ignored; the tree is unchanged.
   (With "cash" in temp the code raises AttributeError — `targets.value` on a dict — which the model mirrors as EAttr.) *)
Theorem C13_run_if_out_of_bounds : forall (N : num) ps e p tol (tr : tree N (astate N)) g kids st targets,
  snd tr = false ->
  get_astate p tr = Ok (g, kids, st) ->
  t_weights (a_temp st) = Some targets -> t_cash (a_temp st) = None ->
  (forall k w, lookup k targets = Some w -> neqb N w (n0 N) && negb (t_wseries (a_temp st)) = false) ->
  run_algo ps e p (ARunIfOutOfBounds N tol) tr =
  Ok (ARunIfOutOfBounds N tol, existsb (deviates N tol targets kids) (kid_ids kids), tr).
Proof. exact out_of_bounds_spec. Qed.
Print Assumptions C13_run_if_out_of_bounds.

(* C16 — Bankruptcy is detected, clean and terminal.  Statements only; proofs in Proofs/BankruptProofs.v. *)
From Coq Require Import Reals List Bool.
Import ListNotations.
Require Import BT.Num BT.Base BT.Records BT.Engine BT.Ops BT.Algos BT.Proofs.TradeProofs BT.Proofs.BankruptProofs BT.Proofs.LiquidProofs.
Local Open Scope R_scope.

(* after root.update the flag is set iff it was set before or the freshly summed value of a
   market-value root is negative; a fixed-income root is never flagged *)
Theorem C16_flag_iff : forall (A : Type) ps date (tr tr' : tree RNumI A) g kids lz paper,
  fst tr = NStrat g kids lz paper ->
  root_update ps date tr = Ok tr' ->
  exists inow newpt g1 kids1 val notl bop,
    strat_update_with (node_update ps date inow) date inow g kids = Ok (newpt, g1, kids1, (val, notl, bop)) /\
    root_bankrupt tr' = g_bankrupt g || ((nltb RNumI val (n0 RNumI)) && negb (g_fi g) && negb (nis_zero RNumI val)).
Proof. exact root_update_flag. Qed.
Print Assumptions C16_flag_iff.

(* sub-strategies are never flagged: the update of a non-root strategy leaves the flag untouched *)
Theorem C16_substrategies_never_flagged : forall (A : Type) ps date inow (g g' : strat RNumI A) kids kids' lz lz' paper paper',
  node_update ps date inow (NStrat g kids lz paper) = Ok (NStrat g' kids' lz' paper') ->
  g_bankrupt g' = g_bankrupt g.
Proof. exact node_update_keeps_flag. Qed.
Print Assumptions C16_substrategies_never_flagged.

(* terminal: on a date whose update leaves the root flagged, Backtest.run neither runs the algos nor updates again *)
Theorem C16_terminal : forall (e : env RNumI) (i : nat) (tr tr1 : tree RNumI (astate RNumI)),
  root_update (bt_paper_step e bt_level) (Some i) tr = Ok tr1 ->
  root_bankrupt tr1 = true ->
  bt_loop e [i] tr = Ok tr1.
Proof. exact bt_loop_skips_when_bankrupt. Qed.
Print Assumptions C16_terminal.

(* clean: the liquidation of a flat market-value strategy closes every position that has a value, for every commission
   function and spread; a position whose value is exactly zero (zero price) is left as it is — known finding K5; for
   nested trees the budget-based liquidation can leave positions open — known finding K13, refuted by witness in the
   bankruptcy suite *)
Theorem C16_liquidation_closes_flat_strategies_partial : forall (A : Type) (ks : list (node RNumI A)) (g : strat RNumI A) ks' g',
  Forall (fun k => exists s, k = NSec s /\ current (g_now g) s) ks ->
  flatten_kids false ks g = Ok (ks', g') ->
  Forall2 (closed_or_worthless A) ks ks'.
Proof. exact flatten_flat_closes. Qed.
Print Assumptions C16_liquidation_closes_flat_strategies_partial.

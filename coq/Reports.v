(* Reports.v — what a finished backtest reports (bt/backtest.py Backtest.weights / security_weights / positions /
   herfindahl_index / turnover, bt/core.py StrategyBase.positions / outlays / get_transactions), as functions of the
   node histories of the final tree. *)
From Coq Require Import List Bool Arith.
Import ListNotations.
Require Import BT.Num BT.Base BT.Records BT.Engine.
Set Implicit Arguments.

Section Reports.
Variable N : num.
Variable A : Type.
Local Notation t := (carrier N).
Local Notation node := (node N A).
Local Notation sec := (sec N).

(* Node.members: the node itself, then the members of each child in order; with the path of ids (full_name) *)
Fixpoint members (path : list nat) (n : node) : list (list nat * node) :=
  (path, n) ::
  match n with
  | NSec _ => []
  | NStrat _ kids _ _ =>
    (fix go (ks : list node) : list (list nat * node) :=
       match ks with
       | [] => []
       | k :: ks' => members (path ++ [node_id k]) k ++ go ks'
       end) kids
  end.

Definition all_members (root : node) := members [node_id root] root.

Definition h_vals (n : node) : list t := match n with NSec s => h_values s | NStrat g _ _ _ => hg_values g end.
Definition h_ntls (n : node) : list t := match n with NSec s => h_notls s | NStrat g _ _ _ => hg_notls g end.

Definition vzip (f : t -> t -> t) (a b : list t) : list t := map (fun p => f (fst p) (snd p)) (combine a b).
Definition vdiv := vzip (ndiv N).
Definition vadd := vzip (nadd N).

Definition root_fi (root : node) : bool := match root with NStrat g _ _ _ => g_fi g | NSec _ => false end.
(* what weights are measured against: the root's values (notional values for a fixed-income root) *)
Definition root_base (root : node) : list t := if root_fi root then h_ntls root else h_vals root.
Definition member_series (root : node) (n : node) : list t := if root_fi root then h_ntls n else h_vals n.

(* Backtest.weights: one column per member, by full name *)
Definition report_weights (root : node) : list (list nat * list t) :=
  map (fun pm => (fst pm, vdiv (member_series root (snd pm)) (root_base root))) (all_members root).

Definition secs_of (root : node) : list sec :=
  flat_map (fun pm => match snd pm with NSec s => [s] | NStrat _ _ _ _ => [] end) (all_members root).

(* "if x.name in vals: vals[x.name] += series else vals[x.name] = series" *)
Fixpoint agg_add (id : nat) (v : list t) (acc : list (nat * list t)) : list (nat * list t) :=
  match acc with
  | [] => [(id, v)]
  | (j, w) :: rest => if Nat.eqb j id then (j, vadd w v) :: rest else (j, w) :: agg_add id v rest
  end.

Definition agg (f : sec -> list t) (root : node) : list (nat * list t) :=
  fold_left (fun acc s => agg_add (s_id s) (f s) acc) (secs_of root) [].

Definition report_security_weights (root : node) : list (nat * list t) :=
  map (fun c => (fst c, vdiv (snd c) (root_base root)))
      (agg (fun s => if root_fi root then h_notls s else h_values s) root).

Definition report_positions (root : node) := agg (@h_positions N) root.
Definition report_outlays (root : node) := agg (@h_outlays N) root.

Definition nrows_of (root : node) : nat := length (h_vals root).
Definition at_row (i : nat) (col : list t) : t := nth i col (n0 N).

(* herfindahl_index: per row, the sum over tickers of squared security weights *)
Definition report_hhi (root : node) : list t :=
  let cols := map snd (report_security_weights root) in
  map (fun i => fold_left (fun acc c => let w := at_row i c in
                                        (* pandas' sum skips NaN cells (a weight over a zero base) *)
                                        if neqb N w w then nadd N acc (nmul N w w) else acc) cols (n0 N))
      (seq 0 (nrows_of root)).

(* turnover: min(sum of positive outlays, |sum of negative outlays|) / NAV, per row *)
Definition report_turnover (root : node) : list t :=
  let cols := map snd (report_outlays root) in
  map (fun i =>
         let pos := fold_left (fun acc c => if nleb N (n0 N) (at_row i c) then nadd N acc (at_row i c) else acc) cols (n0 N) in
         let neg := nabs N (fold_left (fun acc c => if nltb N (at_row i c) (n0 N) then nadd N acc (at_row i c) else acc) cols (n0 N)) in
         ndiv N (if nltb N neg pos then neg else pos) (at_row i (h_vals root)))
      (seq 0 (nrows_of root)).

(* trades: first position, then differences *)
Fixpoint diffs (prev : t) (p : list t) : list t :=
  match p with
  | [] => []
  | x :: p' => nsub N x prev :: diffs x p'
  end.
Definition trades (p : list t) : list t := match p with [] => [] | x :: p' => x :: diffs x p' end.

(* the price / bid-offer-paid column used for a ticker: the last security of that name among the members *)
Definition last_sec (id : nat) (root : node) : option sec :=
  fold_left (fun acc s => if Nat.eqb (s_id s) id then Some s else acc) (secs_of root) None.

Record txn := mkTxn { tx_row : nat; tx_id : nat; tx_qty : t; tx_price : cell N }.

(* bid/offer paid per ticker, per unit of price: each security's history divided by its multiplier, aggregated *)
Definition report_bopaid (root : node) : list (nat * list t) :=
  agg (fun s => map (fun x => ndiv N x (s_mult s)) (h_bopaid s)) root.

Definition col_of (id : nat) (cols : list (nat * list t)) : list t :=
  match find (fun c => Nat.eqb (fst c) id) cols with Some c => snd c | None => [] end.

Definition tx_price_of (root : node) (id : nat) (i : nat) (q : t) : cell N :=
  match last_sec id root with
  | None => None
  | Some s =>
    match s_prices s with
    | None => None
    | Some col =>
      match nth i col None with
      | None => None
      | Some p =>
        if (match root with NStrat g _ _ _ => g_bo_set g | NSec _ => false end)
        then Some (nadd N p (ndiv N (at_row i (col_of id (report_bopaid root))) q))
        else Some p
      end
    end
  end.

(* get_transactions: rows with a non-zero trade, sorted by (date, ticker) *)
Fixpoint insert_by_id (x : nat * list t) (l : list (nat * list t)) :=
  match l with
  | [] => [x]
  | y :: l' => if Nat.leb (fst x) (fst y) then x :: l else y :: insert_by_id x l'
  end.
Definition sort_by_id (l : list (nat * list t)) := fold_right insert_by_id [] l.

Definition report_transactions (root : node) : list txn :=
  let cols := sort_by_id (map (fun c => (fst c, trades (snd c))) (report_positions root)) in
  flat_map (fun i =>
              flat_map (fun c => let q := at_row i (snd c) in
                                 if neqb N q (n0 N) then [] else [mkTxn i (fst c) q (tx_price_of root (fst c) i q)]) cols)
           (seq 0 (nrows_of root)).

(* Result.prices: the strategy's index *)
Definition report_prices (root : node) : list t :=
  match root with NStrat g _ _ _ => hg_prices g | NSec s => [] end.

End Reports.

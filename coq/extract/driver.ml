(* driver.ml — reads cases (s-expressions) on stdin, runs them through the extracted
   float instance of the model, prints the state after every operation.  Hand-written
   glue (trusted base): parsing, conversion of literals, printing. *)
open Model

(* ---------- s-expressions ---------- *)
type sexp = Atom of string | L of sexp list

let read_all ic =
  let b = Buffer.create 65536 in
  (try while true do Buffer.add_channel b ic 1 done with End_of_file -> ());
  Buffer.contents b

let parse_all (s : string) : sexp list =
  let n = String.length s in
  let pos = ref 0 in
  let rec skip () =
    while !pos < n && (match s.[!pos] with ' ' | '\n' | '\t' | '\r' -> true | _ -> false) do incr pos done in
  let rec one () : sexp =
    skip ();
    if !pos >= n then failwith "eof" else
    if s.[!pos] = '(' then begin
      incr pos;
      let items = ref [] in
      let fin = ref false in
      while not !fin do
        skip ();
        if !pos >= n then failwith "unbalanced" else
        if s.[!pos] = ')' then (incr pos; fin := true)
        else items := one () :: !items
      done;
      L (List.rev !items)
    end else begin
      let st = !pos in
      while !pos < n && (match s.[!pos] with ' ' | '\n' | '\t' | '\r' | '(' | ')' -> false | _ -> true) do incr pos done;
      Atom (String.sub s st (!pos - st))
    end in
  let res = ref [] in
  skip ();
  while !pos < n do res := one () :: !res; skip () done;
  List.rev !res

(* ---------- conversions ---------- *)
let rec nat_of_int (i : int) : nat = if i <= 0 then O else S (nat_of_int (i - 1))
let rec int_of_nat (n : nat) : int = match n with O -> 0 | S m -> 1 + int_of_nat m
let fl (x : float) : carrier = Obj.repr x
let unfl (c : carrier) : float = (Obj.obj c : float)
let atom = function Atom a -> a | L _ -> failwith "atom expected"
let lst = function L l -> l | Atom a -> failwith ("list expected, got " ^ a)
let num_of s = fl (float_of_string (atom s))
let int_of s = int_of_string (atom s)
let natx s = nat_of_int (int_of s)
let bool_of s = match atom s with "1" | "T" -> true | "0" | "F" -> false | a -> failwith ("bool " ^ a)
let cell_of s : cell = match atom s with "nan" -> None | a -> Some (fl (float_of_string a))
let opt f s = match s with Atom "none" -> None | x -> Some (f x)
let frame_of s : frame = List.map (fun col -> match lst col with
    | [id; cells] -> (natx id, List.map cell_of (lst cells))
    | _ -> failwith "column") (lst s)
let class_of s = match atom s with
  | "sec" -> CSec | "fi" -> CFixedIncome | "coupon" -> CCoupon | "hedge" -> CHedge
  | "couponhedge" -> CCouponHedge | a -> failwith ("class " ^ a)
let comm_of s : commspec = match lst s with
  | [Atom "none"] -> CmNone
  | [Atom "flat"; c] -> CmFlat (num_of c)
  | [Atom "pershare"; c] -> CmPerShare (num_of c)
  | [Atom "prop"; c] -> CmProp (num_of c)
  | [Atom "maxflat"; a; b] -> CmMaxFlat (num_of a, num_of b)
  | _ -> failwith "comm"
let rec spec_of s : unit nspec = match lst s with
  | [Atom "sec"; id; cls; fi; mult; lz] -> SpSec (natx id, class_of cls, bool_of fi, num_of mult, bool_of lz)
  | [Atom "strat"; id; fi; kids] -> SpStrat (natx id, bool_of fi, (), List.map spec_of (lst kids))
  | _ -> failwith "spec"
let path_of s = List.map natx (lst s)
let date_of s = match atom s with "none" -> None | a -> Some (nat_of_int (int_of_string a))
let field_of s = match atom s with
  | "value" -> RValue | "weight" -> RWeight | "notl" -> RNotl | "price" -> RPrice | a -> failwith ("field " ^ a)
let op_of s : op = match lst s with
  | [Atom "update"; d] -> OUpdate (date_of d)
  | [Atom "adjust"; p; a; u; f; fee] -> OAdjust (path_of p, num_of a, bool_of u, bool_of f, num_of fee)
  | [Atom "allocate"; p; a; c; u] -> OAllocate (path_of p, num_of a, opt natx c, bool_of u)
  | [Atom "transact"; p; q; c; u; pr] -> OTransact (path_of p, num_of q, opt natx c, bool_of u, opt num_of pr)
  | [Atom "rebalance"; p; w; c; b; u] -> ORebalance (path_of p, num_of w, natx c, opt num_of b, bool_of u)
  | [Atom "close"; p; c; u] -> OClose (path_of p, natx c, bool_of u)
  | [Atom "flatten"; p] -> OFlatten (path_of p)
  | [Atom "read"; p; f] -> ORead (path_of p, field_of f)
  | _ -> failwith "op"

(* ---------- printing ---------- *)
let pf (c : carrier) : string = let x = unfl c in if x <> x then "nan" else Printf.sprintf "%h" x
let pcell (c : cell) = match c with None -> "nan" | Some x -> pf x
let pb b = if b then "T" else "F"
let pnow = function None -> "-" | Some n -> string_of_int (int_of_nat n)
let plist f l = String.concat " " (List.map f l)
let err_name (e : err) = match e with
  | EKey -> "EKey" | EBadPrice -> "EBadPrice" | ENanPriceOpen -> "ENanPriceOpen"
  | ENanCouponOpen -> "ENanCouponOpen" | ECouponsMissing -> "ECouponsMissing" | ECouponIdx -> "ECouponIdx"
  | EBidofferIdx -> "EBidofferIdx" | ECustomNoBidoffer -> "ECustomNoBidoffer" | EZeroBase -> "EZeroBase"
  | EZeroNotl -> "EZeroNotl" | EFiChild -> "EFiChild" | EDupChild -> "EDupChild" | EDupColumn -> "EDupColumn"
  | ESizingStuck -> "ESizingStuck" | ESizingDiverged -> "ESizingDiverged" | ESizingLoop -> "ESizingLoop"
  | EParentless -> "EParentless" | EAttr -> "EAttr" | EIndex -> "EIndex" | EType -> "EType"
  | ENanArith -> "ENanArith" | EOutOfFuel -> "EOutOfFuel" | EOther -> "EOther"

let rec dump_node (path : string) (n : unit node) =
  match n with
  | NSec s ->
    Printf.printf "%s kind S\n" path;
    Printf.printf "%s now %s\n" path (pnow s.s_now);
    Printf.printf "%s scal %s %s %s %s %s %s %s %s %s %s %s %s %s\n" path
      (pf s.s_pos) (pf s.s_lastpos) (pcell s.s_price) (pf s.s_value) (pf s.s_notl) (pf s.s_weight)
      (pb s.s_needupdate) (pf s.s_outlay) (pcell s.s_bidoffer) (pf s.s_bidoffer_paid) (pf s.s_capital)
      (pf s.s_coupon) (pf s.s_holding_cost);
    Printf.printf "%s flags %s %s\n" path (pb s.s_intpos) (pb s.s_bo_set);
    (match s.s_prices with
     | None -> Printf.printf "%s priced F\n" path
     | Some _ ->
       Printf.printf "%s priced T\n" path;
       Printf.printf "%s h_values %s\n" path (plist pf s.h_values);
       Printf.printf "%s h_positions %s\n" path (plist pf s.h_positions);
       Printf.printf "%s h_notls %s\n" path (plist pf s.h_notls));
    Printf.printf "%s h_outlays %s\n" path (plist pf s.h_outlays);
    if s.s_bo_set then Printf.printf "%s h_bopaid %s\n" path (plist pf s.h_bopaid);
    if class_coupon s.s_class then begin
      Printf.printf "%s h_coupons %s\n" path (plist pf s.h_coupons);
      Printf.printf "%s h_hcosts %s\n" path (plist pf s.h_hcosts)
    end
  | NStrat (g, kids, lz, paper) ->
    Printf.printf "%s kind G\n" path;
    Printf.printf "%s now %s\n" path (pnow g.g_now);
    Printf.printf "%s scal %s %s %s %s %s %s %s %s %s %s %s %s\n" path
      (pf g.g_capital) (pf g.g_value) (pf g.g_notl) (pf g.g_weight) (pf g.g_price) (pf g.g_net_flows)
      (pf g.g_last_value) (pf g.g_last_notl) (pf g.g_last_price) (pf g.g_last_fee) (pf g.g_bidoffer_paid)
      (pb g.g_bankrupt);
    Printf.printf "%s flags %s %s %s %s\n" path (pb g.g_intpos) (pb g.g_bo_set) (pb g.g_fi) (pb g.g_paper_trade);
    Printf.printf "%s kids %s\n" path (plist (fun k -> string_of_int (int_of_nat (node_id (Obj.magic 0) k))) kids);
    Printf.printf "%s lazy %s\n" path (plist (fun l -> string_of_int (int_of_nat l.lz_id)) lz);
    Printf.printf "%s univ %s\n" path (plist (fun (k, _) -> string_of_int (int_of_nat k)) g.g_univ);
    Printf.printf "%s hg_prices %s\n" path (plist pf g.hg_prices);
    Printf.printf "%s hg_values %s\n" path (plist pf g.hg_values);
    Printf.printf "%s hg_notls %s\n" path (plist pf g.hg_notls);
    Printf.printf "%s hg_cash %s\n" path (plist pf g.hg_cash);
    Printf.printf "%s hg_fees %s\n" path (plist pf g.hg_fees);
    Printf.printf "%s hg_flows %s\n" path (plist pf g.hg_flows);
    if g.g_bo_set then Printf.printf "%s hg_bopaid %s\n" path (plist pf g.hg_bopaid);
    List.iter (fun (k, col) -> Printf.printf "%s ucol.%d %s\n" path (int_of_nat k) (plist pcell col)) g.g_ucols;
    List.iter (fun k -> dump_node (path ^ "." ^ string_of_int (int_of_nat (node_id (Obj.magic 0) k))) k) kids;
    (match paper with
     | None -> ()
     | Some (p, st) ->
       Printf.printf "%s~ stale %s\n" path (pb st);
       dump_node (path ^ "~") p)

let dump_tree (tr : unit tree) =
  Printf.printf "r stale %s\n" (pb (snd tr));
  dump_node "r" (fst tr)

let find key items =
  let rec go = function
    | L (Atom k :: rest) :: _ when k = key -> rest
    | _ :: tl -> go tl
    | [] -> failwith ("missing " ^ key) in
  go items

let run_case (c : sexp) =
  match c with
  | L (Atom "case" :: Atom name :: items) ->
    Printf.printf "CASE %s\n" name;
    let nrows = natx (List.hd (find "nrows" items)) in
    let intpos = bool_of (List.hd (find "intpos" items)) in
    let comm = comm_of (L (find "comm" items)) in
    let prices = frame_of (List.hd (find "prices" items)) in
    let kwf k = opt frame_of (List.hd (find k items)) in
    let kw = { kw_bidoffer = kwf "bidoffer"; kw_coupons = kwf "coupons";
               kw_cost_long = kwf "cost_long"; kw_cost_short = kwf "cost_short" } in
    let d = { d_nrows = nrows; d_prices = prices; d_kw = kw } in
    let spec = spec_of (List.hd (find "tree" items)) in
    let ops = List.map op_of (lst (List.hd (find "ops" items))) in
    let full = (match find "dump" items with [Atom "last"] -> false | _ -> true) in
    (match f_build d intpos (f_comm comm) spec with
     | Err e -> Printf.printf "BUILD err %s\n" (err_name e)
     | Ok tr ->
       Printf.printf "BUILD ok\n";
       if full then dump_tree tr;
       let cur = ref tr in
       let stop = ref false in
       let nops = List.length ops in
       List.iteri (fun i o ->
           if not !stop then
             match f_apply_op o !cur with
             | Err e -> Printf.printf "OP %d err %s\n" i (err_name e); stop := true
             | Ok (tr', ret) ->
               Printf.printf "OP %d ok %s\n" i (pcell ret);
               cur := tr';
               if full || i = nops - 1 then dump_tree tr') ops);
    Printf.printf "END\n"
  | _ -> failwith "case expected"

let () =
  let cases = parse_all (read_all stdin) in
  List.iter run_case cases

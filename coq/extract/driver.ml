(* driver.ml — reads cases (s-expressions) on stdin, runs them through the extracted
   float instance of the model, prints the state after every operation.  Hand-written
   glue (trusted base): parsing, conversion of literals, printing. *)
open Model

(* ---------- s-expressions ---------- *)
type sexp = Atom of string | L of sexp list

let read_all ic =
  let b = Buffer.create 65536 in
  (try while true do Buffer.add_channel b ic 1 done with End_of_file -> ());
  Buffer.contents b

let parse_all (s : string) : sexp list =
  let n = String.length s in
  let pos = ref 0 in
  let rec skip () =
    while !pos < n && (match s.[!pos] with ' ' | '\n' | '\t' | '\r' -> true | _ -> false) do incr pos done in
  let rec one () : sexp =
    skip ();
    if !pos >= n then failwith "eof" else
    if s.[!pos] = '(' then begin
      incr pos;
      let items = ref [] in
      let fin = ref false in
      while not !fin do
        skip ();
        if !pos >= n then failwith "unbalanced" else
        if s.[!pos] = ')' then (incr pos; fin := true)
        else items := one () :: !items
      done;
      L (List.rev !items)
    end else begin
      let st = !pos in
      while !pos < n && (match s.[!pos] with ' ' | '\n' | '\t' | '\r' | '(' | ')' -> false | _ -> true) do incr pos done;
      Atom (String.sub s st (!pos - st))
    end in
  let res = ref [] in
  skip ();
  while !pos < n do res := one () :: !res; skip () done;
  List.rev !res

(* ---------- conversions ---------- *)
let rec nat_of_int (i : int) : nat = if i <= 0 then O else S (nat_of_int (i - 1))
let rec int_of_nat (n : nat) : int = match n with O -> 0 | S m -> 1 + int_of_nat m
let rec pos_of_int (i : int) : positive =
  if i = 1 then XH else if i land 1 = 0 then XO (pos_of_int (i lsr 1)) else XI (pos_of_int (i lsr 1))
let z_of_int (i : int) : z = if i = 0 then Z0 else if i > 0 then Zpos (pos_of_int i) else Zneg (pos_of_int (-i))
let rec int_of_pos (p : positive) : int = match p with XH -> 1 | XO q -> 2 * int_of_pos q | XI q -> 2 * int_of_pos q + 1
let int_of_z (x : z) : int = match x with Z0 -> 0 | Zpos p -> int_of_pos p | Zneg p -> - (int_of_pos p)
let fl (x : float) : carrier = Obj.repr x
let unfl (c : carrier) : float = (Obj.obj c : float)
let atom = function Atom a -> a | L _ -> failwith "atom expected"
let lst = function L l -> l | Atom a -> failwith ("list expected, got " ^ a)
let num_of s = fl (float_of_string (atom s))
let int_of s = int_of_string (atom s)
let natx s = nat_of_int (int_of s)
let bool_of s = match atom s with "1" | "T" -> true | "0" | "F" -> false | a -> failwith ("bool " ^ a)
let cell_of s : cell = match atom s with "nan" -> None | a -> Some (fl (float_of_string a))
let opt f s = match s with Atom "none" -> None | x -> Some (f x)
let frame_of s : frame = List.map (fun col -> match lst col with
    | [id; cells] -> (natx id, List.map cell_of (lst cells))
    | _ -> failwith "column") (lst s)
let class_of s = match atom s with
  | "sec" -> CSec | "fi" -> CFixedIncome | "coupon" -> CCoupon | "hedge" -> CHedge
  | "couponhedge" -> CCouponHedge | a -> failwith ("class " ^ a)
let comm_of s : commspec = match lst s with
  | [Atom "none"] -> CmNone
  | [Atom "flat"; c] -> CmFlat (num_of c)
  | [Atom "pershare"; c] -> CmPerShare (num_of c)
  | [Atom "prop"; c] -> CmProp (num_of c)
  | [Atom "maxflat"; a; b] -> CmMaxFlat (num_of a, num_of b)
  | _ -> failwith "comm"
let zx s = z_of_int (int_of s)
let off_of m d : offset = { o_months = zx m; o_days = zx d }
let pkind_of s = match atom s with
  | "daily" -> PDaily | "weekly" -> PWeekly | "monthly" -> PMonthly | "quarterly" -> PQuarterly
  | "yearly" -> PYearly | a -> failwith ("pkind " ^ a)
let pred_of s = match atom s with
  | "nonempty" -> PNonEmpty | "empty" -> PEmpty | "true" -> PTrue | "false" -> PFalse | a -> failwith ("pred " ^ a)
let titem_of s = match atom s with
  | "selected" -> TSelected | "weights" -> TWeights | "stat" -> TStat | a -> failwith ("titem " ^ a)
let nkind_of s = match atom s with "strategy" -> KStrategy | _ -> KSecClass (class_of s)
let wlist_of s = List.map (fun kv -> match lst kv with [k; v] -> (natx k, num_of v) | _ -> failwith "wlist") (lst s)
let rec algo_of s : algo = match lst s with
  | [Atom "runonce"] -> ARunOnce false
  | [Atom "runperiod"; k; a; b; c] -> ARunPeriod (pkind_of k, bool_of a, bool_of b, bool_of c)
  | [Atom "runondate"; ds] -> ARunOnDate (List.map zx (lst ds))
  | [Atom "runafterdate"; d] -> ARunAfterDate (zx d)
  | [Atom "runafterdays"; d] -> ARunAfterDays (zx d)
  | [Atom "outofbounds"; t] -> ARunIfOutOfBounds (num_of t)
  | [Atom "everyn"; n; off] -> ARunEveryNPeriods (zx n, z_of_int (int_of n - int_of off - 1), None)
  | [Atom "selectall"; a; b] -> ASelectAll (bool_of a, bool_of b)
  | [Atom "selectthese"; tk; a; b] -> ASelectThese (List.map natx (lst tk), bool_of a, bool_of b)
  | [Atom "hasdata"; m; d; mc; a; b] -> ASelectHasData (off_of m d, num_of mc, bool_of a, bool_of b)
  | [Atom "selectn"; n; desc; aon; filt] -> ASelectN (num_of n, not (bool_of desc), bool_of aon, bool_of filt)
  | [Atom "selectwhere"; k; a; b] -> ASelectWhere (natx k, bool_of a, bool_of b)
  | [Atom "selectregex"; _; m] -> ASelectRegex (List.map natx (lst m))
  | [Atom "setstat"; k; m; d] -> ASetStat (natx k, off_of m d)
  | [Atom "totalreturn"; m; d; lm; ld] -> AStatTotalReturn (off_of m d, off_of lm ld)
  | [Atom "weighequally"] -> AWeighEqually
  | [Atom "weighspecified"; w] -> AWeighSpecified (wlist_of w)
  | [Atom "scale"; x] -> AScaleWeights (num_of x)
  | [Atom "weightarget"; k] -> AWeighTarget (natx k)
  | [Atom "limitdeltas"; g; per] -> ALimitDeltas (opt num_of g, wlist_of per)
  | [Atom "limitweights"; l] -> ALimitWeights (num_of l)
  | [Atom "capitalflow"; a] -> ACapitalFlow (num_of a)
  | [Atom "closedead"] -> ACloseDead
  | [Atom "setnotional"; k] -> ASetNotional (natx k)
  | [Atom "rebalance"] -> ARebalance
  | [Atom "rebalanceovertime"; n] -> ARebalanceOverTime (num_of n, None, None)
  | [Atom "require"; p; it; d] -> ARequire (pred_of p, titem_of it, bool_of d)
  | [Atom "not"; a] -> ANot (algo_of a)
  | [Atom "or"; l] -> AOr (List.map algo_of (lst l))
  | [Atom "stack"; l] -> AStack (List.map algo_of (lst l))
  | [Atom "always"; f; a] -> AAlways (bool_of f, algo_of a)
  | [Atom "selecttypes"; i; e] -> ASelectTypes (List.map nkind_of (lst i), List.map nkind_of (lst e))
  | [Atom "selectactive"] -> ASelectActive
  | [Atom "closeafter"; k] -> AClosePositionsAfterDates (natx k)
  | [Atom "rollafter"; k] -> ARollPositionsAfterDates (natx k)
  | [Atom "replay"; k] -> AReplayTransactions (natx k)
  | [Atom "updaterisk"; m; h] -> AUpdateRisk (natx m, natx h)
  | [Atom "hedgerisk1"; m] -> AHedgeRisk1 (natx m)
  | [Atom "useradjust"; a; f; u] -> AUserAdjust (num_of a, bool_of f, bool_of u)
  | [Atom "mock"; id; rs] -> AMock (natx id, List.map bool_of (lst rs))
  | Atom a :: _ -> failwith ("algo " ^ a)
  | _ -> failwith "algo"
let mk_astate is_strategy algos : astate =
  { a_is_strategy = is_strategy; a_stack = algos; a_temp = empty_temp (Obj.magic 0);
    a_closed = []; a_rolled = []; a_has_closed = false; a_has_rolled = false; a_log = []; a_trace = [] }
let adata_of s : adata = match lst s with
  | [Atom "frame"; idx; cols] -> DFrame (List.map zx (lst idx), frame_of cols)
  | [Atom "dates"; l] -> DDates (List.map (fun x -> match lst x with [k; d] -> (natx k, zx d) | _ -> failwith "dates") (lst l))
  | [Atom "roll"; l] -> DRoll (List.map (fun x -> match lst x with
      | [k; d; tg; f] -> (natx k, ((zx d, natx tg), num_of f)) | _ -> failwith "roll") (lst l))
  | [Atom "trans"; l] -> DTrans (List.map (fun x -> match lst x with
      | [d; k; q; pr] -> (((zx d, natx k), num_of q), num_of pr) | _ -> failwith "trans") (lst l))
  | [Atom "risk"; l] -> DRisk (List.map (fun x -> match lst x with
      | [m; idx; cols] -> (natx m, (List.map zx (lst idx), frame_of cols)) | _ -> failwith "risk") (lst l))
  | _ -> failwith "adata"
let rec spec_of s : astate nspec = match lst s with
  | [Atom "strat"; id; fi; kids; algos] ->
    SpStrat (natx id, bool_of fi, mk_astate true (List.map algo_of (lst algos)), List.map spec_of (lst kids))
  | [Atom "late"; id; fi; kids; algos] ->
    SpLate (natx id, bool_of fi, mk_astate true (List.map algo_of (lst algos)), List.map spec_of (lst kids))
  | [Atom "sec"; id; cls; fi; mult; lz] -> SpSec (natx id, class_of cls, bool_of fi, num_of mult, bool_of lz)
  | [Atom "strat"; id; fi; kids] -> SpStrat (natx id, bool_of fi, mk_astate false [], List.map spec_of (lst kids))
  | _ -> failwith "spec"
let path_of s = List.map natx (lst s)
let date_of s = match atom s with "none" -> None | a -> Some (nat_of_int (int_of_string a))
let field_of s = match atom s with
  | "value" -> RValue | "weight" -> RWeight | "notl" -> RNotl | "price" -> RPrice | "series" -> RSeries
  | a -> failwith ("field " ^ a)
let op_of s : op = match lst s with
  | [Atom "update"; d] -> OUpdate (date_of d)
  | [Atom "adjust"; p; a; u; f; fee] -> OAdjust (path_of p, num_of a, bool_of u, bool_of f, num_of fee)
  | [Atom "allocate"; p; a; c; u] -> OAllocate (path_of p, num_of a, opt natx c, bool_of u)
  | [Atom "transact"; p; q; c; u; pr] -> OTransact (path_of p, num_of q, opt natx c, bool_of u, opt num_of pr)
  | [Atom "rebalance"; p; w; c; b; u] -> ORebalance (path_of p, num_of w, natx c, opt num_of b, bool_of u)
  | [Atom "close"; p; c; u] -> OClose (path_of p, natx c, bool_of u)
  | [Atom "flatten"; p] -> OFlatten (path_of p)
  | [Atom "read"; p; f] -> ORead (path_of p, field_of f)
  | _ -> failwith "op"

(* ---------- printing ---------- *)
let pf (c : carrier) : string = let x = unfl c in if x <> x then "nan" else Printf.sprintf "%h" x
let pcell (c : cell) = match c with None -> "nan" | Some x -> pf x
let pb b = if b then "T" else "F"
let pnow = function None -> "-" | Some n -> string_of_int (int_of_nat n)
let plist f l = String.concat " " (List.map f l)
let err_name (e : err) = match e with
  | EKey -> "EKey" | EBadPrice -> "EBadPrice" | ENanPriceOpen -> "ENanPriceOpen"
  | ENanCouponOpen -> "ENanCouponOpen" | ECouponsMissing -> "ECouponsMissing" | ECouponIdx -> "ECouponIdx"
  | EBidofferIdx -> "EBidofferIdx" | ECustomNoBidoffer -> "ECustomNoBidoffer" | EZeroBase -> "EZeroBase"
  | EZeroNotl -> "EZeroNotl" | EFiChild -> "EFiChild" | EDupChild -> "EDupChild" | EDupColumn -> "EDupColumn"
  | ESizingStuck -> "ESizingStuck" | ESizingDiverged -> "ESizingDiverged" | ESizingLoop -> "ESizingLoop"
  | EParentless -> "EParentless" | EAttr -> "EAttr" | EIndex -> "EIndex" | EType -> "EType" | EValue -> "EValue" | ELinAlg -> "ELinAlg" | EZeroDiv -> "EZeroDiv"
  | ENanArith -> "ENanArith" | EOutOfFuel -> "EOutOfFuel" | EOther -> "EOther"

let rec dump_node (path : string) (n : astate node) =
  match n with
  | NSec s ->
    Printf.printf "%s kind S\n" path;
    Printf.printf "%s now %s\n" path (pnow s.s_now);
    Printf.printf "%s scal %s %s %s %s %s %s %s %s %s %s %s %s %s\n" path
      (pf s.s_pos) (pf s.s_lastpos) (pcell s.s_price) (pf s.s_value) (pf s.s_notl) (pf s.s_weight)
      (pb s.s_needupdate) (pf s.s_outlay) (pcell s.s_bidoffer) (pf s.s_bidoffer_paid) (pf s.s_capital)
      (pf s.s_coupon) (pf s.s_holding_cost);
    Printf.printf "%s flags %s %s\n" path (pb s.s_intpos) (pb s.s_bo_set);
    if s.s_risk <> [] then
      Printf.printf "%s risk %s\n" path (plist (fun (k, v) -> string_of_int (int_of_nat k) ^ " " ^ pf v) s.s_risk);
    (match s.s_prices with
     | None -> Printf.printf "%s priced F\n" path
     | Some _ ->
       Printf.printf "%s priced T\n" path;
       Printf.printf "%s h_values %s\n" path (plist pf s.h_values);
       Printf.printf "%s h_positions %s\n" path (plist pf s.h_positions);
       Printf.printf "%s h_notls %s\n" path (plist pf s.h_notls));
    Printf.printf "%s h_outlays %s\n" path (plist pf s.h_outlays);
    if s.s_bo_set then Printf.printf "%s h_bopaid %s\n" path (plist pf s.h_bopaid);
    if class_coupon s.s_class then begin
      Printf.printf "%s h_coupons %s\n" path (plist pf s.h_coupons);
      Printf.printf "%s h_hcosts %s\n" path (plist pf s.h_hcosts)
    end
  | NStrat (g, kids, lz, paper) ->
    Printf.printf "%s kind G\n" path;
    Printf.printf "%s now %s\n" path (pnow g.g_now);
    Printf.printf "%s scal %s %s %s %s %s %s %s %s %s %s %s %s\n" path
      (pf g.g_capital) (pf g.g_value) (pf g.g_notl) (pf g.g_weight) (pf g.g_price) (pf g.g_net_flows)
      (pf g.g_last_value) (pf g.g_last_notl) (pf g.g_last_price) (pf g.g_last_fee) (pf g.g_bidoffer_paid)
      (pb g.g_bankrupt);
    Printf.printf "%s flags %s %s %s %s\n" path (pb g.g_intpos) (pb g.g_bo_set) (pb g.g_fi) (pb g.g_paper_trade);
    if g.g_risk <> [] then
      Printf.printf "%s risk %s\n" path (plist (fun (k, v) -> string_of_int (int_of_nat k) ^ " " ^ pf v) g.g_risk);
    List.iter (fun (k, col) -> Printf.printf "%s risks.%d %s\n" path (int_of_nat k) (plist pcell col)) g.g_risks;
    Printf.printf "%s kids %s\n" path (plist (fun k -> string_of_int (int_of_nat (node_id (Obj.magic 0) k))) kids);
    Printf.printf "%s lazy %s\n" path (plist (fun l -> string_of_int (int_of_nat l.lz_id)) lz);
    Printf.printf "%s univ %s\n" path (plist (fun (k, _) -> string_of_int (int_of_nat k)) g.g_univ);
    Printf.printf "%s hg_prices %s\n" path (plist pf g.hg_prices);
    Printf.printf "%s hg_values %s\n" path (plist pf g.hg_values);
    Printf.printf "%s hg_notls %s\n" path (plist pf g.hg_notls);
    Printf.printf "%s hg_cash %s\n" path (plist pf g.hg_cash);
    Printf.printf "%s hg_fees %s\n" path (plist pf g.hg_fees);
    Printf.printf "%s hg_flows %s\n" path (plist pf g.hg_flows);
    if g.g_bo_set then Printf.printf "%s hg_bopaid %s\n" path (plist pf g.hg_bopaid);
    List.iter (fun (k, col) -> Printf.printf "%s ucol.%d %s\n" path (int_of_nat k) (plist pcell col)) g.g_ucols;
    List.iteri (fun j ((now, b), tm) ->
        let ids l = plist (fun k -> string_of_int (int_of_nat k)) l in
        Printf.printf "%s trace.%d.res %s %s\n" path j (pnow now) (pb b);
        (match tm.t_selected with None -> () | Some l -> Printf.printf "%s trace.%d.selected %s\n" path j (ids l));
        (match tm.t_weights with None -> () | Some l ->
           Printf.printf "%s trace.%d.weights %s\n" path j
             (plist (fun (k, w) -> string_of_int (int_of_nat k) ^ " " ^ pf w) l));
        (match tm.t_stat with None -> () | Some l ->
           Printf.printf "%s trace.%d.stat %s\n" path j
             (plist (fun (k, w) -> string_of_int (int_of_nat k) ^ " " ^ pcell w) l)))
      g.g_algo.a_trace;
    List.iter (fun k -> dump_node (path ^ "." ^ string_of_int (int_of_nat (node_id (Obj.magic 0) k))) k) kids;
    (match paper with
     | None -> ()
     | Some (p, st) ->
       Printf.printf "%s~ stale %s\n" path (pb st);
       dump_node (path ^ "~") p)

let dump_tree (tr : astate tree) =
  Printf.printf "r stale %s\n" (pb (snd tr));
  dump_node "r" (fst tr)

let find key items =
  let rec go = function
    | L (Atom k :: rest) :: _ when k = key -> rest
    | _ :: tl -> go tl
    | [] -> failwith ("missing " ^ key) in
  go items

let run_case (c : sexp) =
  match c with
  | L (Atom "case" :: Atom name :: items) ->
    Printf.printf "CASE %s\n" name;
    let nrows = natx (List.hd (find "nrows" items)) in
    let intpos = bool_of (List.hd (find "intpos" items)) in
    let comm = comm_of (L (find "comm" items)) in
    let prices = frame_of (List.hd (find "prices" items)) in
    let kwf k = opt frame_of (List.hd (find k items)) in
    let kw = { kw_bidoffer = kwf "bidoffer"; kw_coupons = kwf "coupons";
               kw_cost_long = kwf "cost_long"; kw_cost_short = kwf "cost_short" } in
    let d = { d_nrows = nrows; d_prices = prices; d_kw = kw } in
    let spec = spec_of (List.hd (find "tree" items)) in
    let ops = List.map op_of (lst (List.hd (find "ops" items))) in
    let full = (match find "dump" items with [Atom "last"] -> false | _ -> true) in
    (match f_build d intpos (f_comm comm) spec with
     | Err e -> Printf.printf "BUILD err %s\n" (err_name e)
     | Ok tr ->
       Printf.printf "BUILD ok\n";
       if full then dump_tree tr;
       let cur = ref tr in
       let stop = ref false in
       let nops = List.length ops in
       List.iteri (fun i o ->
           if not !stop then
             match f_apply_op o !cur with
             | Err e -> Printf.printf "OP %d err %s\n" i (err_name e); stop := true
             | Ok (tr', ret) ->
               Printf.printf "OP %d ok %s\n" i (pcell ret);
               cur := tr';
               if full || i = nops - 1 then dump_tree tr') ops;
       (* cross-check line: how many operations were applied and every number of the last good tree *)
       (match (try find "digest" items with _ -> []) with
        | [Atom "1"] ->
          let applied = ref 0 in
          let c2 = ref tr in
          let st = ref false in
          List.iter (fun o -> if not !st then match f_apply_op o !c2 with
              | Err _ -> st := true
              | Ok (t', _) -> c2 := t'; incr applied) ops;
          Printf.printf "DIGEST %d %s\n" !applied (plist pcell (f_digest !c2))
        | _ -> ()));
    Printf.printf "END\n"
  | L (Atom "backtest" :: Atom name :: items) ->
    Printf.printf "CASE %s\n" name;
    let dates = List.map zx (lst (List.hd (find "dates" items))) in
    let intpos = bool_of (List.hd (find "intpos" items)) in
    let comm = comm_of (L (find "comm" items)) in
    let prices = frame_of (List.hd (find "prices" items)) in
    let kwf k = opt frame_of (List.hd (find k items)) in
    let kw = { kw_bidoffer = kwf "bidoffer"; kw_coupons = kwf "coupons";
               kw_cost_long = kwf "cost_long"; kw_cost_short = kwf "cost_short" } in
    let ad = List.map (fun x -> match lst x with [k; a] -> (natx k, adata_of a) | _ -> failwith "adata entry")
        (lst (List.hd (find "adata" items))) in
    let capital = num_of (List.hd (find "capital" items)) in
    let spec = spec_of (List.hd (find "tree" items)) in
    (match f_backtest dates prices kw ad intpos (f_comm comm) capital spec with
     | Err e -> Printf.printf "BUILD ok\nOP 0 err %s\n" (err_name e)
     | Ok tr -> Printf.printf "BUILD ok\nOP 0 ok nan\n"; dump_tree tr;
       let want_reports = (try (match find "reports" items with [Atom "1"] -> true | _ -> false) with _ -> false) in
       if want_reports then begin
         let root = fst tr in
         let nm k = Printf.sprintf "n%03d" (int_of_nat k) in
         let full p = String.concat ">" (List.map nm p) in
         List.iter (fun (p, col) -> Printf.printf "RV weights:%s %s\n" (full p) (plist pf col)) (f_report_weights root);
         List.iter (fun (k, col) -> Printf.printf "RV sweights:%s %s\n" (nm k) (plist pf col)) (f_report_security_weights root);
         List.iter (fun (k, col) -> Printf.printf "RV positions:%s %s\n" (nm k) (plist pf col)) (f_report_positions root);
         List.iter (fun (k, col) -> Printf.printf "RV outlays:%s %s\n" (nm k) (plist pf col)) (f_report_outlays root);
         Printf.printf "RV hhi:- %s\n" (plist pf (f_report_hhi root));
         Printf.printf "RV turnover:- %s\n" (plist pf (f_report_turnover root));
         Printf.printf "RV resprice:- %s\n" (plist pf (f_report_prices root));
         List.iteri (fun k tx -> Printf.printf "RT %d %d %s %s %s\n" k (int_of_nat tx.tx_row) (nm tx.tx_id) (pf tx.tx_qty) (pcell tx.tx_price))
           (f_report_transactions root)
       end);
    Printf.printf "END\n"
  | L [Atom "sched"; Atom name; a; dates; calls] ->
    let res = f_sched_run (List.map zx (lst dates)) (algo_of a)
        (List.map (fun c -> match atom c with "none" -> None | x -> Some (nat_of_int (int_of_string x))) (lst calls)) in
    Printf.printf "SCHED %s %s\n" name
      (String.concat " " (List.map (function Ok b -> pb b | Err e -> err_name e) res))
  | L [Atom "periodat"; Atom name; a; dates; stamps] ->
    (* RunPeriod.__call__ on arbitrary timestamps (on or off the index) *)
    (match algo_of a with
     | ARunPeriod (k, f, e, l) ->
       let ds = List.map zx (lst dates) in
       Printf.printf "PERIODAT %s %s\n" name
         (String.concat " " (List.map (fun s -> pb (f_run_period_at k f e l ds (zx s))) (lst stamps)))
     | _ -> Printf.printf "PERIODAT %s err\n" name)
  | L [Atom "stackrun"; Atom name; n; algos] ->
    (match f_stack_runs (natx n) (List.map algo_of (lst algos)) with
     | Ok (log, rs) ->
       Printf.printf "STACK %s log %s res %s\n" name
         (String.concat "," (List.map (fun k -> string_of_int (int_of_nat k)) log))
         (String.concat "," (List.map pb rs))
     | Err e -> Printf.printf "STACK %s err %s\n" name (err_name e))
  | L (Atom "cal" :: tss) ->
    List.iter (fun t -> Printf.printf "%s\n" (String.concat " " (List.map (fun x -> string_of_int (int_of_z x)) (f_cal (zx t))))) tss
  | L [Atom "suboff"; l] ->
    List.iter (fun x -> match lst x with
        | [t; m; d] -> Printf.printf "%d\n" (int_of_z (f_sub_offset (zx t) (zx m) (zx d)))
        | _ -> failwith "suboff") (lst l)
  | _ -> failwith "case expected"

let () =
  let cases = parse_all (read_all stdin) in
  List.iter run_case cases

(* Extraction of the float instance of the model for the volume correspondence check.
   Only the stock directive files are used; no Extract Constant / Extract Inductive of ours. *)
Require Import BT.Num BT.Base BT.Records BT.Engine BT.Ops.
From Coq Require Import ExtrOcamlBasic ExtrOCamlFloats ExtrOCamlInt63.
From Coq Require Import List.
Extraction Language OCaml.

Definition paper_depth : nat := 8.
Definition f_paper_step : option nat -> tree FNumI unit -> result (tree FNumI unit) :=
  paper_step_l (fun _ t => Ok t) paper_depth.
Definition f_build := @build FNumI unit.
Definition f_apply_op := @apply_op FNumI unit f_paper_step.
Definition f_comm := @comm_eval FNumI.

Extraction "model.ml" f_build f_apply_op f_comm f_paper_step.

(* Extraction of the float instance of the model for the volume correspondence check.
   Only the stock directive files are used; no Extract Constant / Extract Inductive of ours. *)
Require Import BT.Num BT.Base BT.Cal BT.Records BT.Engine BT.Reports BT.Ops BT.Algos BT.Digest.
From Coq Require Import ExtrOcamlBasic ExtrOCamlFloats ExtrOCamlInt63.
From Coq Require Import List ZArith.
Import ListNotations.
Local Open Scope Z_scope.
Extraction Language OCaml.

Definition fstate := astate FNumI.
(* engine-level histories: bare StrategyBase nodes, so Strategy.run is a no-op *)
Definition paper_depth : nat := 8%nat.
Definition f_paper_step : option nat -> tree FNumI fstate -> result (tree FNumI fstate) :=
  paper_step_l (fun _ t => Ok t) paper_depth.
Definition f_build := @build FNumI fstate.
Definition f_apply_op := @apply_op FNumI fstate f_paper_step.
Definition f_comm := @comm_eval FNumI.
Definition f_backtest := @backtest FNumI.
Definition f_cal (ts : Z) : list Z :=
  [year_of ts; month_of ts; dom_of ts; quarter_of ts; week_of ts; weekday_of_days (day_of ts);
   iso_year_of_days (day_of ts); day_of ts].
Definition f_sub_offset := sub_offset.
Definition f_sched_run := @sched_run FNumI f_paper_step.
Definition f_stack_runs (n : nat) (stack : list (algo FNumI)) :=
  @stack_runs FNumI f_paper_step n (dummy_root 1 stack None).

Definition f_run_period_at := run_period_at.

Definition f_digest := @digest FNumI fstate.
Definition f_report_weights := @report_weights FNumI fstate.
Definition f_report_security_weights := @report_security_weights FNumI fstate.
Definition f_report_positions := @report_positions FNumI fstate.
Definition f_report_outlays := @report_outlays FNumI fstate.
Definition f_report_hhi := @report_hhi FNumI fstate.
Definition f_report_turnover := @report_turnover FNumI fstate.
Definition f_report_transactions := @report_transactions FNumI fstate.
Definition f_report_prices := @report_prices FNumI fstate.

Extraction "model.ml" f_build f_apply_op f_comm f_paper_step f_backtest f_cal f_sub_offset f_sched_run f_stack_runs empty_temp
  f_report_weights f_report_security_weights f_report_positions f_report_outlays f_report_hhi f_report_turnover
  f_report_transactions f_report_prices f_digest f_run_period_at.

(* Session.v — the life cycle of Backtest objects in one interpreter session (bt/backtest.py Backtest.__init__ / run):
   several backtests are constructed from shared inputs (a strategy template, data frames) and run in any order.
   In the model the shared inputs are immutable values and an object is just (inputs, has_run, result); the
   implementation reaches the same behaviour by deep-copying the template and re-framing the data — that it really
   does so is what the isolation correspondence suite checks (C11). *)
From Coq Require Import List Bool Arith ZArith.
Import ListNotations.
Require Import BT.Num BT.Base BT.Records BT.Engine BT.Ops BT.Algos.

Section Session.
Variable N : num.
Local Notation tree := (tree N (astate N)).

(* everything a Backtest is constructed from *)
Record binput := {
  bi_dates : list Z; bi_prices : frame N; bi_kw : kwargs N; bi_adata : list (nat * adata N);
  bi_intpos : bool; bi_comm : carrier N -> carrier N -> carrier N; bi_capital : carrier N;
  bi_template : nspec N (astate N) }.

Definition run_input (b : binput) : result tree :=
  backtest (bi_dates b) (bi_prices b) (bi_kw b) (bi_adata b) (bi_intpos b) (bi_comm b) (bi_capital b) (bi_template b).

Record btobj := { bo_input : binput; bo_has_run : bool; bo_result : option (result tree) }.

Definition bt_new (b : binput) : btobj := {| bo_input := b; bo_has_run := false; bo_result := None |}.

(* Backtest.run: "if self.has_run: return" *)
Definition bt_run_obj (o : btobj) : btobj :=
  if bo_has_run o then o
  else {| bo_input := bo_input o; bo_has_run := true; bo_result := Some (run_input (bo_input o)) |}.

(* a session: named objects; commands construct (from an input) or run an object *)
Inductive cmd := CBuild (id : nat) (b : binput) | CRun (id : nat).

Definition cmd_id (c : cmd) : nat := match c with CBuild i _ => i | CRun i => i end.

Definition session := nat -> option btobj.

Definition s_empty : session := fun _ => None.

Definition s_set (s : session) (i : nat) (o : btobj) : session :=
  fun j => if Nat.eqb j i then Some o else s j.

Definition step (s : session) (c : cmd) : session :=
  match c with
  | CBuild i b => s_set s i (bt_new b)
  | CRun i => match s i with Some o => s_set s i (bt_run_obj o) | None => s end
  end.

Definition exec (cs : list cmd) (s : session) : session := fold_left step cs s.

End Session.

Arguments bo_input {N}. Arguments bo_has_run {N}. Arguments bo_result {N}.
Arguments run_input {N}. Arguments bt_new {N}. Arguments bt_run_obj {N}.
Arguments CBuild {N}. Arguments CRun {N}. Arguments cmd_id {N}.
Arguments s_set {N}. Arguments step {N}. Arguments exec {N}.

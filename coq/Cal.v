(* Cal.v — the proleptic Gregorian calendar on Z, as pandas.Timestamp exposes it:
   year / month / day / quarter / weekday / ISO year and week, and DateOffset subtraction.
   Timestamps are seconds since 1970-01-01T00:00:00 (any sign).  Total functions. *)
From Coq Require Import ZArith Bool Lia.
Local Open Scope Z_scope.

Definition secs_per_day : Z := 86400.
Definition day_of (ts : Z) : Z := ts / secs_per_day.          (* floor *)
Definition sec_of_day (ts : Z) : Z := ts mod secs_per_day.

(* Howard Hinnant's civil_from_days, with Coq's floor division *)
Definition civil_of_days (z0 : Z) : Z * Z * Z :=
  let z := z0 + 719468 in
  let era := z / 146097 in
  let doe := z - era * 146097 in
  let yoe := (doe - doe / 1460 + doe / 36524 - doe / 146096) / 365 in
  let y := yoe + era * 400 in
  let doy := doe - (365 * yoe + yoe / 4 - yoe / 100) in
  let mp := (5 * doy + 2) / 153 in
  let d := doy - (153 * mp + 2) / 5 + 1 in
  let m := if mp <? 10 then mp + 3 else mp - 9 in
  ((if m <=? 2 then y + 1 else y), m, d).

Definition days_of_civil (y0 m d : Z) : Z :=
  let y := if m <=? 2 then y0 - 1 else y0 in
  let era := y / 400 in
  let yoe := y - era * 400 in
  let mp := if 2 <? m then m - 3 else m + 9 in
  let doy := (153 * mp + 2) / 5 + d - 1 in
  let doe := yoe * 365 + yoe / 4 - yoe / 100 + doy in
  era * 146097 + doe - 719468.

Definition year_of (ts : Z) : Z := let '(y, _, _) := civil_of_days (day_of ts) in y.
Definition month_of (ts : Z) : Z := let '(_, m, _) := civil_of_days (day_of ts) in m.
Definition dom_of (ts : Z) : Z := let '(_, _, d) := civil_of_days (day_of ts) in d.
Definition quarter_of (ts : Z) : Z := (month_of ts - 1) / 3 + 1.

(* Monday = 0 ... Sunday = 6 ; 1970-01-01 was a Thursday *)
Definition weekday_of_days (d : Z) : Z := (d + 3) mod 7.

(* ISO-8601: the week belongs to the year of its Thursday *)
Definition iso_thursday (d : Z) : Z := d - weekday_of_days d + 3.
Definition iso_year_of_days (d : Z) : Z := let '(y, _, _) := civil_of_days (iso_thursday d) in y.
Definition iso_week_of_days (d : Z) : Z :=
  let th := iso_thursday d in
  let y := iso_year_of_days d in
  (th - days_of_civil y 1 1) / 7 + 1.
Definition week_of (ts : Z) : Z := iso_week_of_days (day_of ts).     (* pandas Timestamp.week *)

Definition is_leap (y : Z) : bool :=
  ((y mod 4 =? 0) && negb (y mod 100 =? 0)) || (y mod 400 =? 0).
Definition days_in_month (y m : Z) : Z :=
  if m =? 2 then (if is_leap y then 29 else 28)
  else if (m =? 4) || (m =? 6) || (m =? 9) || (m =? 11) then 30 else 31.

(* ts - pandas.DateOffset(months=mo, days=dy): months first (day clipped to the month's
   length), then days; the time of day is kept *)
Definition sub_offset (ts mo dy : Z) : Z :=
  let '(y, m, d) := civil_of_days (day_of ts) in
  let tm := y * 12 + (m - 1) - mo in
  let y' := tm / 12 in
  let m' := tm mod 12 + 1 in
  let dim := days_in_month y' m' in
  let d' := if dim <? d then dim else d in
  (days_of_civil y' m' d' - dy) * secs_per_day + sec_of_day ts.

(* period identifiers: two timestamps are in the same period iff the identifiers are equal *)
Definition day_id (ts : Z) : Z := day_of ts.
Definition month_id (ts : Z) : Z := year_of ts * 12 + month_of ts.
Definition quarter_id (ts : Z) : Z := year_of ts * 4 + quarter_of ts.
Definition year_id (ts : Z) : Z := year_of ts.
Definition isoweek_id (ts : Z) : Z := (day_of ts + 3) / 7.    (* Monday-based week number since the epoch *)

(* Engine.v — executable model of bt/core.py (Node, StrategyBase, SecurityBase and the
   five security classes), generic in the number type [N : num] and in the per-strategy
   algo state [A].

   Mutation through [self.parent] becomes "the child returns an adjustment, the parent
   applies it, in the same order" so float sums associate as in the code.  [root.stale]
   is the boolean of a [tree].  The shadow ("paper") copy of a sub-strategy is stepped by
   the section variable [paper_step] (open recursion, closed by level in Backtest.v). *)

From Coq Require Import List Bool Arith ZArith.
Import ListNotations.
Require Import BT.Num BT.Base BT.Records.
Set Implicit Arguments.

Section Engine.
Variable N : num.
Variable A : Type.
Local Notation t := (carrier N).
Local Notation cell := (cell N).
Local Notation sec := (sec N).
Local Notation strat := (strat N A).

Declare Scope num_scope.
Local Infix "+" := (nadd N) : num_scope.
Local Infix "-" := (nsub N) : num_scope.
Local Infix "*" := (nmul N) : num_scope.
Local Infix "/" := (ndiv N) : num_scope.
Local Notation "- x" := (nopp N x) : num_scope.
Local Infix "<?" := (nltb N) : num_scope.
Local Infix "<=?" := (nleb N) : num_scope.
Local Infix "=?" := (neqb N) : num_scope.
Local Notation "0" := (n0 N) : num_scope.
Local Notation "1" := (n1 N) : num_scope.
Local Notation is_zero := (nis_zero N).
Local Notation abs := (nabs N).
Local Open Scope num_scope.

(* ------------------------------------------------------------------ *)
(* tree                                                                 *)
(* ------------------------------------------------------------------ *)
Record lazysec := mkLazy { lz_id : nat; lz_class : sclass; lz_fi : bool; lz_mult : t }.

Inductive node :=
| NSec (s : sec)
| NStrat (g : strat) (kids : list node) (lz : list lazysec) (paper : option (node * bool)).

Definition tree := (node * bool)%type.    (* root, root.stale *)

Definition node_id (n : node) : nat := match n with NSec s => s_id s | NStrat g _ _ _ => g_id g end.
Definition is_sec (n : node) : bool := match n with NSec _ => true | _ => false end.
Definition raw_value (n : node) : t := match n with NSec s => s_value s | NStrat g _ _ _ => g_value g end.
Definition raw_notl (n : node) : t := match n with NSec s => s_notl s | NStrat g _ _ _ => g_notl g end.
Definition raw_weight (n : node) : t := match n with NSec s => s_weight s | NStrat g _ _ _ => g_weight g end.
Definition raw_bopaid (n : node) : t :=
  match n with NSec s => s_bidoffer_paid s | NStrat g _ _ _ => g_bidoffer_paid g end.
Definition set_weight (w : t) (n : node) : node :=
  match n with
  | NSec s => NSec (set_s_weight w s)
  | NStrat g k l p => NStrat (set_g_weight w g) k l p
  end.
(* "if c._issec and not c._needupdate: continue" *)
Definition skipped (n : node) : bool :=
  match n with NSec s => negb (s_needupdate s) | _ => false end.

(* an adjustment a child asks its parent to book: parent.adjust(amt, update, flow=False, fee) *)
Record adj := mkAdj { a_amt : t; a_fee : t; a_stale : bool }.

(* ------------------------------------------------------------------ *)
(* securities                                                           *)
(* ------------------------------------------------------------------ *)
Definition cell_at (i : nat) (l : list cell) : cell := nth i l None.

(* SecurityBase.update, split into its phases (each has its own frame lemmas) *)

(* date change: clock, price, bid/offer *)
Definition sec_roll (date : option nat) (inow : nat) (s : sec) : sec :=
  if onat_eqb date (s_now s) then s else
  let s := set_s_now date s in
  let s := match s_prices s with
           | Some ps => set_s_price (cell_at inow ps) s
           | None => s
           end in
  if s_bo_set s
  then set_s_bidoffer_paid 0 (set_s_bidoffer (cell_at inow (s_bidoffers s)) s)
  else s.

(* position row, value, notional *)
Definition sec_mark (inow : nat) (s : sec) : result sec :=
  let s := set_h_positions (upd inow (s_pos s) (h_positions s)) s in
  let s := set_s_lastpos (s_pos s) s in
  v <- match s_price s with
       | None => if is_zero (s_pos s) then Ok 0 else Err ENanPriceOpen
       | Some p => Ok (s_pos s * p * s_mult s)
       end ;;
  let s := set_s_value v s in
  let s := set_s_notl v s in
  let s := set_h_values (upd inow v (h_values s)) s in
  Ok (set_h_notls (upd inow v (h_notls s)) s).

(* "if is_zero(self._weight) and is_zero(self._position): self._needupdate = False" *)
Definition sec_flag (s : sec) : sec :=
  if is_zero (s_weight s) && is_zero (s_pos s) then set_s_needupdate false s else s.

(* flush the outlay accumulator into the row; bid/offer paid row *)
Definition sec_flush (inow : nat) (s : sec) : sec :=
  let s := if negb (s_outlay s =? 0)
           then set_s_outlay 0 (set_h_outlays (upd inow (nth inow (h_outlays s) 0 + s_outlay s) (h_outlays s)) s)
           else s in
  if s_bo_set s then set_h_bopaid (upd inow (s_bidoffer_paid s) (h_bopaid s)) s else s.

Definition sec_early (date : option nat) (s : sec) : bool :=
  onat_eqb date (s_now s) && (s_lastpos s =? s_pos s).

Definition sec_update_base (date : option nat) (inow : nat) (s : sec) : result sec :=
  if sec_early date s then Ok s else
  s <- sec_mark inow (sec_roll date inow s) ;;
  Ok (sec_flush inow (sec_flag s)).

(* the coupon / holding-cost tail of CouponPayingSecurity.update *)
Definition sec_holding_cost (inow : nat) (s : sec) : result t :=
  if 0 <? s_pos s then
    match s_cost_long s with
    | Some cl => match cell_at inow cl with Some c => Ok (s_pos s * c) | None => Err ENanArith end
    | None => Ok 0
    end
  else if s_pos s <? 0 then
    match s_cost_short s with
    | Some cs => match cell_at inow cs with Some c => Ok ((- s_pos s) * c) | None => Err ENanArith end
    | None => Ok 0
    end
  else Ok 0.

Definition sec_set_carry (inow : nat) (cpn hc : t) (s : sec) : sec :=
  let s := set_s_coupon cpn s in
  let s := set_s_holding_cost hc s in
  let s := set_s_capital (cpn - hc) s in
  let s := set_h_coupons (upd inow cpn (h_coupons s)) s in
  set_h_hcosts (upd inow hc (h_hcosts s)) s.

Definition sec_update_coupon (inow : nat) (s : sec) : result sec :=
  match s_coupons s with
  | None => Err ECouponsMissing
  | Some cps =>
    cpn <- match cell_at inow cps with
           | None => if is_zero (s_pos s) then Ok 0 else Err ENanCouponOpen
           | Some c => Ok (s_pos s * c)
           end ;;
    hc <- sec_holding_cost inow s ;;
    Ok (sec_set_carry inow cpn hc s)
  end.

Definition sec_set_notl_pos (inow : nat) (s : sec) : sec :=
  set_h_notls (upd inow (s_pos s) (h_notls s)) (set_s_notl (s_pos s) s).
Definition sec_set_notl_zero (s : sec) : sec :=
  set_h_notls (map (fun _ => 0) (h_notls s)) (set_s_notl 0 s).

(* <class>.update, dispatching on the security class as the method resolution order does *)
(* what the subclasses do after SecurityBase.update returns *)
Definition sec_tail (inow : nat) (s : sec) : result sec :=
  let c := s_class s in      (* the class is static *)
  let s := if class_fi_notl c then sec_set_notl_pos inow s else s in
  s <- (if class_coupon c then sec_update_coupon inow s else Ok s) ;;
  Ok (if class_hedge c then sec_set_notl_zero s else s).

Definition sec_update (date : option nat) (inow : nat) (s : sec) : result sec :=
  if class_coupon (s_class s) && match s_coupons s with None => true | _ => false end
  then Err ECouponsMissing else
  s <- sec_update_base date inow s ;;
  sec_tail inow s.

(* SecurityBase.outlay: (full_outlay, outlay, fee, bidoffer) *)
Definition sec_outlay (comm : t -> t -> t) (s : sec) (q : t) (p : option t) : result (t * t * t * t) :=
  match s_price s with
  | None => Err ENanArith
  | Some pr =>
    match p with
    | None =>
      match s_bidoffer s with
      | None => Err ENanArith
      | Some bo =>
        let fee := comm q (pr * s_mult s) in
        let bop := abs q * nhalf N * bo * s_mult s in
        let o := q * pr * s_mult s + bop in
        Ok (o + fee, o, fee, bop)
      end
    | Some cp =>
      let fee := comm q (cp * s_mult s) in
      let bop := q * (cp - pr) * s_mult s in
      let o := q * pr * s_mult s + bop in
      Ok (o + fee, o, fee, bop)
    end
  end.

(* the "Newton-like" sizing search of SecurityBase.allocate; fuel = 10001 is the code's
   own [i > 1e4] guard *)
Fixpoint size_loop (fuel : nat) (comm : t -> t -> t) (s : sec) (amount pm : t)
         (q fo last_q last_short : t) {struct fuel} : result t :=
  if negb (nisclose N fo amount) && negb (q =? 0) then
    match fuel with
    | O => Err EOutOfFuel
    | S fuel' =>
      let dq := (fo - amount) / pm in
      let q1 := q - dq in
      let q2 := if s_intpos s then nfloor N q1 else q1 in
      '(fo2, _, _, _) <- sec_outlay comm s q2 None ;;
      brk <- (if s_intpos s then
                '(fo1, _, _, _) <- sec_outlay comm s (q2 + 1) None ;;
                Ok ((fo2 <? amount) && (amount <? fo1))
              else Ok false) ;;
      if brk then Ok q2 else
      match fuel' with
      | O => Err ESizingLoop
      | _ =>
        if s_intpos s && (last_q =? q2) then Err ESizingStuck else
        if abs last_short <? abs (fo2 - amount) then Err ESizingDiverged else
        size_loop fuel' comm s amount pm q2 fo2 q2 (fo2 - amount)
      end
    end
  else Ok q.

Definition sizing_fuel : nat := S (100 * 100).

(* SecurityBase.transact(q, update, update_self, price) *)
Definition sec_transact (pnow : option nat) (comm : t -> t -> t) (q : t) (upd_parent update_self : bool)
           (price : option t) (s : sec) : result (sec * option adj) :=
  s <- (if update_self && (s_needupdate s || negb (onat_eqb (s_now s) pnow))
        then sec_update pnow (row_of pnow) s else Ok s) ;;
  if is_zero q then Ok (s, None) else
  if match price with Some _ => negb (s_bo_set s) | None => false end then Err ECustomNoBidoffer else
  let s := set_s_needupdate true s in
  let s := set_s_pos (s_pos s + q) s in
  '(fo, o, fee, bop) <- sec_outlay comm s q price ;;
  let s := set_s_outlay (s_outlay s + o) s in
  let s := set_s_bidoffer_paid (s_bidoffer_paid s + bop) s in
  Ok (s, Some (mkAdj (- fo) fee upd_parent)).

(* SecurityBase.allocate(amount, update) *)
Definition sec_allocate (pnow : option nat) (comm : t -> t -> t) (amount : t) (upd_parent : bool)
           (s : sec) : result (sec * option adj) :=
  s <- (if s_needupdate s || negb (onat_eqb (s_now s) pnow)
        then sec_update pnow (row_of pnow) s else Ok s) ;;
  if is_zero amount then Ok (s, None) else
  match s_price s with
  | None => Err EBadPrice
  | Some pr =>
    if is_zero pr then Err EBadPrice else
    let pm := pr * s_mult s in
    let q :=
      if is_zero (amount + s_value s) then - s_pos s
      else
        let q := amount / pm in
        if s_intpos s then
          if (0 <? s_pos s) || (is_zero (s_pos s) && (0 <? amount)) then nfloor N q else nceil N q
        else q in
    if is_zero q then Ok (s, None) else
    q <- (if q =? - s_pos s then Ok q else
          '(fo, _, _, _) <- sec_outlay comm s q None ;;
          size_loop sizing_fuel comm s amount pm q fo q (fo - amount)) ;;
    sec_transact pnow comm q upd_parent false None s
  end.

(* ------------------------------------------------------------------ *)
(* strategies                                                           *)
(* ------------------------------------------------------------------ *)

(* StrategyBase.adjust without the stale flag *)
Definition g_adjust (amount fee : t) (flow : bool) (g : strat) : strat :=
  let g := set_g_capital (g_capital g + amount) g in
  let g := set_g_last_fee (g_last_fee g + fee) g in
  if flow then set_g_net_flows (g_net_flows g + amount) g else g.

Definition apply_adj (oa : option adj) (g : strat) : strat :=
  match oa with None => g | Some a => g_adjust (a_amt a) (a_fee a) false g end.
Definition adj_stale (oa : option adj) : bool :=
  match oa with None => false | Some a => a_stale a end.

(* the paper (shadow) copy of a sub-strategy: update; run; update; then read its price.
   Open recursion: instantiated by level in Backtest.v. *)
Variable paper_step : option nat -> tree -> result tree.

Definition root_price (tr : tree) : t :=
  match fst tr with NStrat g _ _ _ => g_price g | NSec s => 0 end.

(* --- phase 1 of StrategyBase.update: sweep coupons, update children, sum up --- *)
Section Kids.
Variable upd_kid : node -> result node.
Variable newpt bo_set : bool.

Variable date : option nat.
Variable inow : nat.

Fixpoint upd_kids (ks : list node) (val notl bop cpn : t) : result (list node * (t * t * t * t)) :=
  match ks with
  | [] => Ok ([], (val, notl, bop, cpn))
  | NSec s :: ks' =>
    (* sweep up cash parked on the security (coupons), on a new date only *)
    let '(s, cpn) := if newpt then (set_s_capital 0 s, cpn + s_capital s) else (s, cpn) in
    if negb (s_needupdate s) then
      '(ks'', acc) <- upd_kids ks' val notl bop cpn ;;
      Ok (NSec s :: ks'', acc)
    else
      s <- sec_update date inow s ;;
      let val := val + s_value s in
      let notl := notl + abs (s_notl s) in
      let bop := if bo_set then bop + s_bidoffer_paid s else bop in
      '(ks'', acc) <- upd_kids ks' val notl bop cpn ;;
      Ok (NSec s :: ks'', acc)
  | c :: ks' =>
    c <- upd_kid c ;;
    let val := val + raw_value c in
    let notl := notl + abs (raw_notl c) in
    let bop := if bo_set then bop + raw_bopaid c else bop in
    '(ks'', acc) <- upd_kids ks' val notl bop cpn ;;
    Ok (c :: ks'', acc)
  end.
End Kids.

(* children weights loop (phase 3) *)
Definition kid_weight (fi : bool) (val notl : t) (c : node) : node :=
  if skipped c then c else
  if fi then set_weight (if negb (is_zero notl) then raw_notl c / notl else 0) c
  else set_weight (if negb (is_zero val) then raw_value c / val else 0) c.

Definition set_kid_weights (fi : bool) (val notl : t) (ks : list node) : list node :=
  map (kid_weight fi val notl) ks.

(* phase 2: conditional write of value / notional / price *)
Definition strat_set_value (inow : nat) (val notl bop : t) (g : strat) : strat :=
  let g := set_g_value val g in
  let g := set_hg_values (upd inow val (hg_values g)) g in
  let g := set_g_notl notl g in
  let g := set_hg_notls (upd inow notl (hg_notls g)) g in
  if g_bo_set g
  then set_hg_bopaid (upd inow bop (hg_bopaid g)) (set_g_bidoffer_paid bop g)
  else g.

(* the new index level: additive per unit notional (fixed income) or multiplicative *)
Definition strat_new_price (g : strat) : result t :=
  if g_fi g then
    let pnl := g_value g - (g_last_value g + g_net_flows g) in
    ret <- (if negb (is_zero (g_last_notl g)) then Ok (pnl / g_last_notl g * npar N)
            else if negb (is_zero (g_notl g)) then Ok (pnl / g_notl g * npar N)
            else if is_zero pnl then Ok 0 else Err EZeroNotl) ;;
    Ok (g_last_price g + ret)
  else
    let bottom := g_last_value g + g_net_flows g in
    ret <- (if negb (is_zero bottom) then Ok (g_value g / (g_last_value g + g_net_flows g) - 1)
            else if is_zero (g_value g) then Ok 0 else Err EZeroBase) ;;
    Ok (g_last_price g * (1 + ret)).

Definition strat_set_price (inow : nat) (p : t) (g : strat) : strat :=
  set_hg_prices (upd inow p (hg_prices g)) (set_g_price p g).

Definition strat_changed (newpt : bool) (val notl : t) (g : strat) : bool :=
  newpt || negb (is_zero (g_value g - val)) || negb (is_zero (g_notl g - notl)).

Definition strat_write_value (newpt : bool) (inow : nat) (val notl bop : t) (g : strat) : result strat :=
  if strat_changed newpt val notl g then
    let g := strat_set_value inow val notl bop g in
    p <- strat_new_price g ;;
    Ok (strat_set_price inow p g)
  else Ok g.

(* "self._universe.loc[date, c] = self.children[c].price" for every strategy child *)
Fixpoint write_ucols (inow : nat) (ks : list node) (ucols : list (nat * list cell)) : list (nat * list cell) :=
  match ks with
  | [] => ucols
  | NStrat g _ _ _ :: ks' =>
    write_ucols inow ks'
      (map (fun kc => if Nat.eqb (fst kc) (g_id g) then (fst kc, upd inow (Some (g_price g)) (snd kc)) else kc) ucols)
  | _ :: ks' => write_ucols inow ks' ucols
  end.

Definition has_strat_kids (ks : list node) : bool := existsb (fun c => negb (is_sec c)) ks.
Definition all_skipped (ks : list node) : bool := forallb skipped ks.

(* phase 4: universe columns, cash / fees / flows rows, paper trade *)
Definition strat_set_rows (inow : nat) (g : strat) : strat :=
  let g := set_hg_cash (upd inow (g_capital g) (hg_cash g)) g in
  let g := set_hg_fees (upd inow (g_last_fee g) (hg_fees g)) g in
  set_hg_flows (upd inow (g_net_flows g) (hg_flows g)) g.

Definition strat_finish (date : option nat) (inow : nat) (newpt : bool) (g : strat) (kids : list node)
           (paper : option tree) : result (strat * option tree) :=
  g <- (if has_strat_kids kids then
          match date with
          | None => Err EOther     (* .loc[0, c] would enlarge the frame; never driven *)
          | Some _ => Ok (set_g_ucols (write_ucols inow kids (g_ucols g)) g)
          end
        else Ok g) ;;
  let g := strat_set_rows inow g in
  if g_paper_trade g then
    match paper with
    | None => Err EOther
    | Some p =>
      p <- (if newpt then paper_step date p else Ok p) ;;
      Ok (strat_set_price inow (root_price p) g, Some p)
    end
  else Ok (g, paper).

(* date bookkeeping at the top of StrategyBase.update *)
Definition strat_newpt (date : option nat) (g : strat) : bool :=
  match g_now g with None => true | Some _ => negb (onat_eqb date (g_now g)) end.

Definition strat_roll (date : option nat) (g : strat) : strat :=
  let g :=
    match g_now g with
    | None => g
    | Some _ =>
      if onat_eqb date (g_now g) then g else
      let g := set_g_net_flows 0 g in
      let g := set_g_last_price (g_price g) g in
      let g := set_g_last_value (g_value g) g in
      let g := set_g_last_notl (g_notl g) g in
      set_g_last_fee 0 g
    end in
  set_g_now date g.

(* allocate down the tree: node.allocate(amount, update) for a child of a strategy whose
   clock is [pnow] and commission function [comm] *)
Fixpoint node_allocate (pnow : option nat) (comm : t -> t -> t) (amount : t) (upd_parent : bool)
         (n : node) {struct n} : result (node * option adj) :=
  match n with
  | NSec s =>
    '(s, oa) <- sec_allocate pnow comm amount upd_parent s ;;
    Ok (NSec s, oa)
  | NStrat g kids lz paper =>
    (* parent.adjust(-amount, flow=False) is returned; self.adjust(amount, flow=True) *)
    let g := g_adjust amount 0 true g in
    let fix go (ks : list node) (g : strat) : result (list node * strat) :=
      match ks with
      | [] => Ok ([], g)
      | c :: ks' =>
        '(c, oa) <- node_allocate (g_now g) (g_comm g) (amount * raw_weight c) false c ;;
        let g := apply_adj oa g in
        '(ks'', g) <- go ks' g ;;
        Ok (c :: ks'', g)
      end in
    '(kids, g) <- go kids g ;;
    Ok (NStrat g kids lz paper, Some (mkAdj (- amount) 0 upd_parent))
  end.

(* transact down the tree: node.transact(q, update=False) *)
Fixpoint node_transact (pnow : option nat) (comm : t -> t -> t) (q : t) (upd_parent : bool)
         (n : node) {struct n} : result (node * option adj) :=
  match n with
  | NSec s =>
    '(s, oa) <- sec_transact pnow comm q upd_parent true None s ;;
    Ok (NSec s, oa)
  | NStrat g kids lz paper =>
    let fix go (ks : list node) (g : strat) : result (list node * strat) :=
      match ks with
      | [] => Ok ([], g)
      | c :: ks' =>
        '(c, oa) <- node_transact (g_now g) (g_comm g) (q * raw_weight c) false c ;;
        let g := apply_adj oa g in
        '(ks'', g) <- go ks' g ;;
        Ok (c :: ks'', g)
      end in
    '(kids, g) <- go kids g ;;
    Ok (NStrat g kids lz paper, None)
  end.

Definition raw_position (n : node) : result t :=
  match n with NSec s => Ok (s_pos s) | _ => Err EAttr end.

(* StrategyBase.flatten body (without the stale flag): reads are raw, the caller
   refreshes first when the root is stale *)
Fixpoint flatten_kids (fi : bool) (ks : list node) (g : strat) : result (list node * strat) :=
  match ks with
  | [] => Ok ([], g)
  | c :: ks' =>
    '(c, oa) <-
      (if fi then
         p <- raw_position c ;;
         if negb (p =? 0) then node_transact (g_now g) (g_comm g) (- p) false c else Ok (c, None)
       else
         if negb (raw_value c =? 0) then node_allocate (g_now g) (g_comm g) (- raw_value c) false c
         else Ok (c, None)) ;;
    let g := apply_adj oa g in
    '(ks'', g) <- flatten_kids fi ks' g ;;
    Ok (c :: ks'', g)
  end.

(* StrategyBase.update for the node and everything below it.
   [check_bk]: run the bankruptcy test (root only, and not in the nested refresh). *)
Definition strat_update_with (upd_kid : node -> result node) (date : option nat) (inow : nat)
           (g : strat) (kids : list node) : result (bool * strat * list node * (t * t * t)) :=
  let newpt := strat_newpt date g in
  let g := strat_roll date g in
  '(kids, (val, notl, bop, cpn)) <- upd_kids upd_kid newpt (g_bo_set g) date inow kids (g_capital g) 0 0 0 ;;
  (* "if self.children:" — with no children val is just the capital and coupons are 0 *)
  let g := set_g_capital (g_capital g + cpn) g in
  let val := val + cpn in
  Ok (newpt, g, kids, (val, notl, bop)).

Fixpoint node_update (date : option nat) (inow : nat) (n : node) {struct n} : result node :=
  match n with
  | NSec s => s <- sec_update date inow s ;; Ok (NSec s)
  | NStrat g kids lz paper =>
    '(newpt, g, kids, (val, notl, bop)) <- strat_update_with (node_update date inow) date inow g kids ;;
    g <- strat_write_value newpt inow val notl bop g ;;
    (* children are weighed against the node's recorded value / notional *)
    let kids := set_kid_weights (g_fi g) (g_value g) (g_notl g) kids in
    '(g, paper) <- strat_finish date inow newpt g kids paper ;;
    Ok (NStrat g kids lz paper)
  end.

Definition date_row (nrows : nat) (date : option nat) : result nat :=
  match date with
  | None => Ok O
  | Some i => if Nat.ltb i nrows then Ok i else Err EKey
  end.

(* root.update(date): the bankruptcy test, the liquidation, and the nested refresh that
   the first property read of the weights loop triggers after the liquidation *)
Definition root_update (date : option nat) (tr : tree) : result tree :=
  match fst tr with
  | NSec s => Err EOther
  | NStrat g kids lz paper =>
    inow <- date_row (g_nrows g) date ;;
    '(newpt, g, kids, (val, notl, bop)) <- strat_update_with (node_update date inow) date inow g kids ;;
    if (val <? 0) && negb (g_bankrupt g) && negb (g_fi g) && negb (is_zero val) then
      let g := set_g_bankrupt true g in
      '(kids, g) <- flatten_kids false kids g ;;
      g <- strat_write_value newpt inow val notl bop g ;;
      if all_skipped kids then
        (* nothing reads a property: the tree stays stale *)
        '(g, paper) <- strat_finish date inow newpt g kids paper ;;
        Ok (NStrat g kids lz paper, true)
      else
        (* first c.value read -> self.root.update(self.root.now) *)
        '(_, g, kids, (val2, notl2, bop2)) <- strat_update_with (node_update date inow) date inow g kids ;;
        g <- strat_write_value false inow val2 notl2 bop2 g ;;
        let kids := set_kid_weights false (g_value g) (g_notl g) kids in
        '(g, paper) <- strat_finish date inow false g kids paper ;;
        (* back in the outer call: the weights loop reads the recorded (refreshed) value *)
        let kids := set_kid_weights false (g_value g) (g_notl g) kids in
        '(g, paper) <- strat_finish date inow newpt g kids paper ;;
        Ok (NStrat g kids lz paper, false)
    else
      g <- strat_write_value newpt inow val notl bop g ;;
      let kids := set_kid_weights (g_fi g) (g_value g) (g_notl g) kids in
      '(g, paper) <- strat_finish date inow newpt g kids paper ;;
      Ok (NStrat g kids lz paper, false)
  end.

Definition root_now (tr : tree) : option nat :=
  match fst tr with NStrat g _ _ _ => g_now g | NSec s => s_now s end.

(* "if self.root.stale: self.root.update(self.root.now, None)" *)
Definition refresh (tr : tree) : result tree :=
  if snd tr then root_update (root_now tr) tr else Ok tr.

End Engine.

(* keep tactics from unrolling the fuelled sizing search *)
Global Opaque sizing_fuel.
Arguments size_loop : simpl never.

Arguments NSec {N A} s.
Arguments mkLazy {N} lz_id lz_class lz_fi lz_mult.
Arguments mkAdj {N} a_amt a_fee a_stale.
Arguments NStrat {N A} g kids lz paper.

(* Algos.v — syntax and interpreter of the stock algos of bt/algos.py, AlgoStack / Strategy.run
   of bt/core.py, and Backtest.run of bt/backtest.py, over the engine model.

   An algo is a value [algo] carrying its own mutable state (has_run, counters, ...);
   running it returns the updated algo, its boolean result and the new tree.  The strategy's
   [temp] / [perm] dictionaries and its stack live in the node's algo state [astate]. *)

From Coq Require Import List Bool Arith ZArith.
Import ListNotations.
Require Import BT.Num BT.Base BT.Records BT.Engine BT.Ops BT.Cal.
Set Implicit Arguments.

Section Algos.
Variable N : num.
Local Notation t := (carrier N).
Local Notation cell := (cell N).
Local Notation frame := (frame N).

Declare Scope num_scope.
Local Infix "+" := (nadd N) : num_scope.
Local Infix "-" := (nsub N) : num_scope.
Local Infix "*" := (nmul N) : num_scope.
Local Infix "/" := (ndiv N) : num_scope.
Local Notation "- x" := (nopp N x) : num_scope.
Local Infix "<?" := (nltb N) : num_scope.
Local Infix "<=?" := (nleb N) : num_scope.
Local Infix "=?" := (neqb N) : num_scope.
Local Notation "0" := (n0 N) : num_scope.
Local Notation "1" := (n1 N) : num_scope.
Local Notation is_zero := (nis_zero N).
Local Open Scope num_scope.

(* ------------------------------------------------------------------ *)
(* syntax                                                               *)
(* ------------------------------------------------------------------ *)
Record offset := mkOff { o_months : Z; o_days : Z }.     (* pandas.DateOffset(months=.., days=..) *)

Inductive pkind := PDaily | PWeekly | PMonthly | PQuarterly | PYearly.
Inductive pred := PNonEmpty | PEmpty | PTrue | PFalse.
Inductive titem := TSelected | TWeights | TStat.
Inductive nkind := KStrategy | KSecClass (c : sclass).

Inductive algo :=
| ARunOnce (has_run : bool)
| ARunPeriod (k : pkind) (on_first on_eop on_last : bool)
| ARunOnDate (ds : list Z)
| ARunAfterDate (d : Z)
| ARunAfterDays (days : Z)
| ARunIfOutOfBounds (tol : t)
| ARunEveryNPeriods (n idx : Z) (lcall : option nat)
| ASelectAll (nodata neg : bool)
| ASelectThese (tk : list nat) (nodata neg : bool)
| ASelectHasData (lb : offset) (min_count : t) (nodata neg : bool)
| ASelectN (n : t) (asc all_or_none filt : bool)
| ASelectWhere (key : nat) (nodata neg : bool)
| ASelectRegex (matching : list nat)       (* oracle: the names the regular expression matches *)
| ASetStat (key : nat) (lag : offset)
| AStatTotalReturn (lb lag : offset)
| AWeighEqually
| AWeighSpecified (w : list (nat * t))
| AScaleWeights (s : t)
| AWeighTarget (key : nat)
| ALimitDeltas (glob : option t) (per : list (nat * t))
| ALimitWeights (lim : t)
| ACapitalFlow (a : t)
| ACloseDead
| ASetNotional (key : nat)
| ARebalance
| ARebalanceOverTime (n : t) (w : option (list (nat * t))) (days_left : option t)
| ARequire (p : pred) (item : titem) (if_none : bool)
| ANot (a : algo)
| AOr (l : list algo)
| AStack (l : list algo)
| AAlways (flag : bool) (a : algo)         (* carries a run_always attribute *)
| ASelectTypes (inc exc : list nkind)
| ASelectActive
| AClosePositionsAfterDates (key : nat)
| ARollPositionsAfterDates (key : nat)
| AReplayTransactions (key : nat)
| AUpdateRisk (measure : nat) (history : nat)
| AHedgeRisk1 (measure : nat)     (* HedgeRisks([measure]) with exactly one selected instrument (1x1 solve) *)
| AUserAdjust (amount : t) (flow upd : bool)   (* a user-written algo: target.adjust(amount, update=upd, flow=flow) *)
| AMock (id : nat) (results : list bool).    (* test double: logs its call, returns scripted results (True when exhausted) *)

Record temp := mkTemp {
  t_selected : option (list nat);
  t_weights : option (list (nat * t));
  t_stat : option (list (nat * cell));
  t_cash : option t;
  t_notional : option t;
  t_wseries : bool       (* temp['weights'] is a pandas Series (numpy scalars) rather than a dict of Python floats *)
}.
Definition empty_temp : temp := mkTemp None None None None None false.

Record astate := mkAState {
  a_is_strategy : bool;             (* Strategy (has a stack) vs bare StrategyBase *)
  a_stack : list algo;
  a_temp : temp;
  a_closed : list nat;              (* perm['closed'] *)
  a_rolled : list nat;              (* perm['rolled'] *)
  a_has_closed : bool;              (* "closed" in perm *)
  a_has_rolled : bool;
  a_log : list nat;                 (* ghost: ids of mock algos in invocation order *)
  a_trace : list (option nat * bool * temp)   (* ghost: (now, stack result, temp) at the end of every Strategy.run *)
}.
Definition set_a_temp (tm : temp) (a : astate) : astate :=
  mkAState (a_is_strategy a) (a_stack a) tm (a_closed a) (a_rolled a) (a_has_closed a) (a_has_rolled a) (a_log a) (a_trace a).
Definition set_a_stack (l : list algo) (a : astate) : astate :=
  mkAState (a_is_strategy a) l (a_temp a) (a_closed a) (a_rolled a) (a_has_closed a) (a_has_rolled a) (a_log a) (a_trace a).
Definition add_a_closed (l : list nat) (a : astate) : astate :=
  mkAState (a_is_strategy a) (a_stack a) (a_temp a) (a_closed a ++ l) (a_rolled a) true (a_has_rolled a) (a_log a) (a_trace a).
Definition add_a_rolled (l : list nat) (a : astate) : astate :=
  mkAState (a_is_strategy a) (a_stack a) (a_temp a) (a_closed a) (a_rolled a ++ l) (a_has_closed a) true (a_log a) (a_trace a).
Definition add_a_trace (x : option nat * bool * temp) (a : astate) : astate :=
  mkAState (a_is_strategy a) (a_stack a) (a_temp a) (a_closed a) (a_rolled a) (a_has_closed a) (a_has_rolled a)
           (a_log a) (a_trace a ++ [x]).
Definition add_a_log (x : nat) (a : astate) : astate :=
  mkAState (a_is_strategy a) (a_stack a) (a_temp a) (a_closed a) (a_rolled a) (a_has_closed a) (a_has_rolled a)
           (a_log a ++ [x]) (a_trace a).

Local Notation node := (node N astate).
Local Notation tree := (tree N astate).
Local Notation strat := (strat N astate).

(* additional data handed to Backtest(additional_data=...) *)
Inductive adata :=
| DFrame (idx : list Z) (cols : frame)                     (* DataFrame / Series with its own index *)
| DDates (l : list (nat * Z))                              (* close_dates: security -> date *)
| DRoll (l : list (nat * (Z * nat * t)))                   (* roll_data: security -> (date, target, factor) *)
| DTrans (l : list (Z * nat * t * t))                      (* transactions: (date, security, quantity, price) *)
| DRisk (l : list (nat * (list Z * frame))).               (* unit_risk: measure -> frame with its own index *)

Record env := mkEnv { e_dates : list Z; e_adata : list (nat * adata) }.

Variable paper_step : option nat -> tree -> result tree.

(* ------------------------------------------------------------------ *)
(* helpers                                                              *)
(* ------------------------------------------------------------------ *)
Definition get_astate (p : list nat) (tr : tree) : result (strat * list node * astate) :=
  '(g, kids) <- get_strat p tr ;; Ok (g, kids, g_algo g).

Definition upd_astate (p : list nat) (f : astate -> astate) (tr : tree) : result tree :=
  tree_at p (fun _ n => match n with
                        | NStrat g k l pp => Ok (NStrat (set_g_algo (f (g_algo g)) g) k l pp, None, false)
                        | _ => Err EAttr
                        end) tr.

Definition set_temp (p : list nat) (tm : temp) (tr : tree) : result tree :=
  upd_astate p (set_a_temp tm) tr.

Definition with_selected (s : list nat) (tm : temp) : temp :=
  mkTemp (Some s) (t_weights tm) (t_stat tm) (t_cash tm) (t_notional tm) (t_wseries tm).
(* a fresh dict of Python floats *)
Definition with_weights (w : list (nat * t)) (tm : temp) : temp :=
  mkTemp (t_selected tm) (Some w) (t_stat tm) (t_cash tm) (t_notional tm) false.
(* a pandas Series *)
Definition with_weights_series (w : list (nat * t)) (tm : temp) : temp :=
  mkTemp (t_selected tm) (Some w) (t_stat tm) (t_cash tm) (t_notional tm) true.
(* in-place modification of the existing container *)
Definition with_weights_inplace (w : list (nat * t)) (tm : temp) : temp :=
  mkTemp (t_selected tm) (Some w) (t_stat tm) (t_cash tm) (t_notional tm) (t_wseries tm).
Definition with_stat (s : list (nat * cell)) (tm : temp) : temp :=
  mkTemp (t_selected tm) (t_weights tm) (Some s) (t_cash tm) (t_notional tm) (t_wseries tm).
Definition with_notional (v : t) (tm : temp) : temp :=
  mkTemp (t_selected tm) (t_weights tm) (t_stat tm) (t_cash tm) (Some v) (t_wseries tm).

Definition ts_of (e : env) (i : nat) : Z := nth i (e_dates e) 0%Z.

Fixpoint index_of (x : Z) (l : list Z) : option nat :=
  match l with
  | [] => None
  | y :: l' => if Z.eqb x y then Some O else option_map S (index_of x l')
  end.

(* StrategyBase.universe: the filtered data columns followed by one column per strategy child;
   the caller only ever looks at rows <= now *)
Definition univ_cols (g : strat) : list (nat * list cell) := g_univ g ++ g_ucols g.
Definition univ_ids (g : strat) : list nat := map fst (univ_cols g).
Definition univ_cell (g : strat) (i : nat) (k : nat) : option cell :=   (* None: no such column *)
  match lookup k (univ_cols g) with Some col => Some (nth i col None) | None => None end.

Definition positive_cell (c : cell) : bool := match c with Some x => 0 <? x | None => false end.
Definition present_cell (c : cell) : bool := match c with Some _ => true | None => false end.

(* universe.loc[now, names].dropna() and the "> 0" filter; KeyError on an unknown name *)
Fixpoint tradable (g : strat) (i : nat) (neg : bool) (names : list nat) : result (list nat) :=
  match names with
  | [] => Ok []
  | k :: r =>
    match univ_cell g i k with
    | None => Err EKey
    | Some c =>
      rest <- tradable g i neg r ;;
      Ok (if present_cell c && (neg || positive_cell c) then k :: rest else rest)
    end
  end.

Definition now_row (g : strat) : result nat :=
  match g_now g with Some i => Ok i | None => Err EKey end.

(* rows r with lo <= date(r) <= date(i) *)
Definition window_rows (e : env) (lo : Z) (hi : Z) (upto : nat) : list nat :=
  filter (fun r => Z.leb lo (ts_of e r) && Z.leb (ts_of e r) hi) (seq 0 (S upto)).

Definition sub_off (ts : Z) (o : offset) : Z := sub_offset ts (o_months o) (o_days o).

Definition mem_assoc {B} (k : nat) (l : list (nat * B)) : bool :=
  match lookup k l with Some _ => true | None => false end.

Fixpoint set_assoc {B} (k : nat) (v : B) (l : list (nat * B)) : list (nat * B) :=
  match l with
  | [] => [(k, v)]
  | (k', v') :: l' => if Nat.eqb k k' then (k, v) :: l' else (k', v') :: set_assoc k v l'
  end.

Fixpoint del_assoc {B} (k : nat) (l : list (nat * B)) : list (nat * B) :=
  match l with
  | [] => []
  | (k', v') :: l' => if Nat.eqb k k' then l' else (k', v') :: del_assoc k l'
  end.

Definition kid_ids (kids : list node) : list nat := map (@node_id N astate) kids.

(* insertion sort of (key, value) by value *)
Fixpoint insert_by (asc : bool) (x : nat * t) (l : list (nat * t)) : list (nat * t) :=
  match l with
  | [] => [x]
  | y :: l' =>
    (* stable: on a tie the earlier element stays first (numpy sorts short arrays by insertion) *)
    let before := if asc then negb (snd y <? snd x) else negb (snd x <? snd y) in
    if before then x :: y :: l' else y :: insert_by asc x l'
  end.
Definition sort_by (asc : bool) (l : list (nat * t)) : list (nat * t) :=
  fold_right (insert_by asc) [] l.

Definition sign (x : t) : t := if 0 <? x then 1 else if x <? 0 then nopp N (n1 N) else 0.

(* read c.weight for the child k of the strategy at p (property read: refresh first) *)
Definition read_kid_weight (p : list nat) (k : nat) (tr : tree) : result (tree * option t) :=
  '(_, kids) <- get_strat p tr ;;
  match find_kid k kids with
  | None => Ok (tr, None)
  | Some _ =>
    tr <- refresh paper_step tr ;;
    '(_, kids) <- get_strat p tr ;;
    match find_kid k kids with
    | Some c => Ok (tr, Some (raw_weight c))
    | None => Err EKey
    end
  end.

(* ffn.limit_weights on a weights dict (recursion bounded by the number of weights + 1) *)
Definition sum_w (l : list (nat * t)) : t := fold_left (fun a kv => a + snd kv) l 0.
Fixpoint limit_weights (fuel : nat) (lim : t) (w : list (nat * t)) : result (list (nat * t)) :=
  match fuel with
  | O => Err EOutOfFuel
  | S fuel' =>
    let over := filter (fun kv => lim <? snd kv) w in
    let to_rebalance := fold_left (fun a kv => a + (snd kv - lim)) over 0 in
    let ok := filter (fun kv => snd kv <? lim) w in
    let oksum := sum_w ok in
    let res := map (fun kv =>
                      if lim <? snd kv then (fst kv, lim)
                      else if snd kv <? lim then (fst kv, snd kv + snd kv / oksum * to_rebalance)
                      else kv) w in
    if existsb (fun kv => lim <? snd kv) res then limit_weights fuel' lim res else Ok res
  end.

(* ------------------------------------------------------------------ *)
(* schedulers                                                           *)
(* ------------------------------------------------------------------ *)
Definition compare_dates (k : pkind) (now other : Z) : bool :=
  match k with
  | PDaily => negb (Z.eqb (day_of now) (day_of other))
  | PWeekly => negb (Z.eqb (iso_year_of_days (day_of now)) (iso_year_of_days (day_of other)))
               || negb (Z.eqb (week_of now) (week_of other))
  | PMonthly => negb (Z.eqb (year_of now) (year_of other)) || negb (Z.eqb (month_of now) (month_of other))
  | PQuarterly => negb (Z.eqb (year_of now) (year_of other)) || negb (Z.eqb (quarter_of now) (quarter_of other))
  | PYearly => negb (Z.eqb (year_of now) (year_of other))
  end.

(* RunPeriod.__call__ on row [i] of an index of [n] rows *)
Definition run_period (k : pkind) (on_first on_eop on_last : bool) (dates : list Z) (i : nat) : bool :=
  let n := length dates in
  if Nat.eqb i 0 then false
  else if Nat.eqb i 1 then on_first
  else if Nat.eqb i (n - 1) then on_last
  else
    let other := if on_eop then nth (S i) dates 0%Z else nth (i - 1) dates 0%Z in
    compare_dates k (nth i dates 0%Z) other.

(* RunPeriod.__call__ as a function of the timestamp target.now: "if now not in target.data.index: return False;
   index = target.data.index.get_loc(target.now)" *)
Definition run_period_at (k : pkind) (on_first on_eop on_last : bool) (dates : list Z) (now : Z) : bool :=
  match index_of now dates with
  | None => false
  | Some i => run_period k on_first on_eop on_last dates i
  end.

(* ------------------------------------------------------------------ *)
(* the interpreter                                                      *)
(* ------------------------------------------------------------------ *)
Definition apply_pred (p : pred) (len : nat) : bool :=
  match p with
  | PNonEmpty => negb (Nat.eqb len 0)
  | PEmpty => Nat.eqb len 0
  | PTrue => true
  | PFalse => false
  end.

Definition node_kind (n : node) : nkind :=
  match n with NSec s => KSecClass (s_class s) | NStrat _ _ _ _ => KStrategy end.
Definition sclass_eqb (a b : sclass) : bool :=
  match a, b with
  | CSec, CSec | CFixedIncome, CFixedIncome | CCoupon, CCoupon | CHedge, CHedge | CCouponHedge, CCouponHedge => true
  | _, _ => false
  end.
(* isinstance(node, cls) for cls in the hierarchy: FixedIncomeSecurity covers the coupon classes,
   CouponPayingSecurity covers CouponPayingHedgeSecurity *)
Definition isinstance (n : nkind) (cls : nkind) : bool :=
  match n, cls with
  | KStrategy, KStrategy => true
  | KSecClass a, KSecClass b =>
    sclass_eqb a b ||
    match b, a with
    | CFixedIncome, (CCoupon | CCouponHedge) => true
    | CCoupon, CCouponHedge => true
    | _, _ => false
    end
  | _, _ => false
  end.

(* AlgoStack.__call__ and Or.__call__ over an arbitrary algo runner (AlgoStack has two modes:
   the plain one returns at the first False; the other, taken when any algo carries a
   run_always attribute, keeps going but only calls the algos whose run_always is true) *)
Section StackGo.
Variable run : algo -> tree -> result (algo * bool * tree).
Variable has_ra : bool.

Fixpoint stack_go (l : list algo) (res : bool) (tr : tree) : result (list algo * bool * tree) :=
  match l with
  | [] => Ok ([], res, tr)
  | x :: l' =>
    if res then
      '(x', b, tr) <- run x tr ;;
      if negb b && negb has_ra then Ok (x' :: l', false, tr)
      else
        '(l'', res, tr) <- stack_go l' b tr ;;
        Ok (x' :: l'', res, tr)
    else
      match x with
      | AAlways true _ =>
        '(x', _, tr) <- run x tr ;;
        '(l'', res, tr) <- stack_go l' false tr ;;
        Ok (x' :: l'', res, tr)
      | _ =>
        '(l'', res, tr) <- stack_go l' false tr ;;
        Ok (x :: l'', res, tr)
      end
  end.

Fixpoint or_go (l : list algo) (res : bool) (tr : tree) : result (list algo * bool * tree) :=
  match l with
  | [] => Ok ([], res, tr)
  | x :: l' =>
    '(x', b, tr) <- run x tr ;;
    '(l'', res, tr) <- or_go l' (res || b) tr ;;
    Ok (x' :: l'', res, tr)
  end.
End StackGo.

Definition is_always (x : algo) : bool := match x with AAlways _ _ => true | _ => false end.

(* UpdateRisk._set_risk_recursive: security risk = unit risk x position x multiplier at the root's current row
   (0 when flat or when the security has no unit-risk column), strategy risk = sum over its children;
   history rows are written for strategies at depth < history *)
Definition unit_risk_of (fr : list Z * frame) (rnow : Z) (k : nat) : result t :=
  match index_of rnow (fst fr) with
  | None => Err EKey
  | Some r =>
    match lookup k (snd fr) with
    | Some col => match nth r col None with Some u => Ok u | None => Err ENanArith end
    | None => Ok 0
    end
  end.

Fixpoint set_risk (m : nat) (hist : nat) (fr : list Z * frame) (rnow : Z) (depth : nat) (n : node) {struct n}
  : result (node * t) :=
  match n with
  | NSec s =>
    u <- unit_risk_of fr rnow (s_id s) ;;
    let r := if is_zero (s_pos s) then 0 else u * s_pos s * s_mult s in
    if Nat.ltb depth hist then Err EOther      (* per-security history frames are not modelled *)
    else Ok (NSec (set_s_risk (set_assoc m r (s_risk s)) s), r)
  | NStrat g kids lz paper =>
    let fix go (ks : list node) (acc : t) : result (list node * t) :=
      match ks with
      | [] => Ok ([], acc)
      | c :: ks' =>
        '(c', rc) <- set_risk m hist fr rnow (S depth) c ;;
        '(ks'', acc') <- go ks' (acc + rc) ;;
        Ok (c' :: ks'', acc')
      end in
    '(kids', r) <- go kids 0 ;;
    let g := set_g_risk (set_assoc m r (g_risk g)) g in
    let g := if Nat.ltb depth hist then
               let col := match lookup m (g_risks g) with Some c => c | None => repeat None (g_nrows g) end in
               set_g_risks (set_assoc m (upd (row_of (g_now g)) (Some r) col) (g_risks g)) g
             else g in
    Ok (NStrat g kids' lz paper, r)
  end.

Section RunAlgo.
Variable e : env.
Variable p : list nat.       (* path of the target strategy *)

(* Rebalance.__call__ *)
Definition do_rebalance (tr : tree) : result (bool * tree) :=
  '(g, kids, a) <- get_astate p tr ;;
  match t_weights (a_temp a) with
  | None => Ok (true, tr)
  | Some targets =>
    '(tr, base) <-
      (if g_fi g then
         match t_notional (a_temp a) with
         | Some b => Ok (tr, b)
         | None => tr <- refresh paper_step tr ;; '(g, _) <- get_strat p tr ;; Ok (tr, g_notl g)
         end
       else tr <- refresh paper_step tr ;; '(g, _) <- get_strat p tr ;; Ok (tr, g_value g)) ;;
    let fix dealloc (ks : list nat) (tr : tree) : result tree :=
      match ks with
      | [] => Ok tr
      | k :: ks' =>
        if mem_assoc k targets then dealloc ks' tr else
        tr <- refresh paper_step tr ;;
        '(g, kids) <- get_strat p tr ;;
        match find_kid k kids with
        | None => Err EKey
        | Some c =>
          let v := if g_fi g then raw_notl c else raw_value c in
          tr <- (if negb (v =? 0) then op_close paper_step p k false tr else Ok tr) ;;
          dealloc ks' tr
        end
      end in
    tr <- dealloc (kid_ids kids) tr ;;
    let base := match t_cash (a_temp a) with
                | Some c => if g_fi g then base else base * (1 - c)
                | None => base
                end in
    let fix alloc (ws : list (nat * t)) (tr : tree) : result tree :=
      match ws with
      | [] => Ok tr
      | (k, w) :: ws' =>
        tr <- op_rebalance paper_step p w k (Some base) false tr ;;
        alloc ws' tr
      end in
    tr <- alloc targets tr ;;
    '(g, _) <- get_strat p tr ;;
    tr <- root_update paper_step (g_now g) tr ;;
    Ok (true, tr)
  end.

Fixpoint run_algo (a : algo) (tr : tree) {struct a} : result (algo * bool * tree) :=
  let same (b : bool) (tr : tree) := Ok (a, b, tr) in
  match a with
  | ARunOnce has_run =>
    if has_run then same false tr else Ok (ARunOnce true, true, tr)
  | ARunPeriod k f eop l =>
    '(g, _, _) <- get_astate p tr ;;
    match g_now g with
    | None => same false tr
    | Some i => same (run_period k f eop l (e_dates e) i) tr
    end
  | ARunOnDate ds =>
    '(g, _, _) <- get_astate p tr ;;
    match g_now g with
    | None => same false tr
    | Some i => same (existsb (Z.eqb (ts_of e i)) ds) tr
    end
  | ARunAfterDate d =>
    '(g, _, _) <- get_astate p tr ;;
    match g_now g with
    | None => Err EType
    | Some i => same (Z.ltb d (ts_of e i)) tr
    end
  | ARunAfterDays days =>
    if Z.ltb 0 days then Ok (ARunAfterDays (days - 1)%Z, false, tr) else same true tr
  | ARunEveryNPeriods n idx lcall =>
    '(g, _, _) <- get_astate p tr ;;
    if onat_eqb lcall (g_now g) && match g_now g with Some _ => true | None => false end then same false tr
    else
      if Z.eqb idx (n - 1)%Z then Ok (ARunEveryNPeriods n 0%Z (g_now g), true, tr)
      else Ok (ARunEveryNPeriods n (idx + 1)%Z (g_now g), false, tr)
  | ARunIfOutOfBounds tol =>
    '(_, kids, st) <- get_astate p tr ;;
    match t_weights (a_temp st) with
    | None => same true tr
    | Some targets =>
      let fix go (ks : list nat) (tr : tree) : result (bool * tree) :=
        match ks with
        | [] => Ok (false, tr)
        | k :: ks' =>
          match lookup k targets with
          | None => go ks' tr
          | Some w =>
            '(tr, ow) <- read_kid_weight p k tr ;;
            match ow with
            | None => Err EKey
            | Some cw =>
              (* Python floats: a zero target raises ZeroDivisionError *)
              if (w =? 0) && negb (t_wseries (a_temp st)) then Err EZeroDiv else
              if tol <? nabs N ((cw - w) / w) then Ok (true, tr) else go ks' tr
            end
          end
        end in
      '(b, tr) <- go (kid_ids kids) tr ;;
      if b then same true tr else
      match t_cash (a_temp st) with
      | Some _ => Err EAttr             (* "targets.value": dict has no attribute value *)
      | None => same false tr
      end
    end
  | ASelectAll nodata neg =>
    '(g, _, st) <- get_astate p tr ;;
    if nodata then tr <- set_temp p (with_selected (univ_ids g) (a_temp st)) tr ;; same true tr
    else
      i <- now_row g ;;
      sel <- tradable g i neg (univ_ids g) ;;
      tr <- set_temp p (with_selected sel (a_temp st)) tr ;; same true tr
  | ASelectThese tk nodata neg =>
    '(g, _, st) <- get_astate p tr ;;
    if nodata then tr <- set_temp p (with_selected tk (a_temp st)) tr ;; same true tr
    else
      i <- now_row g ;;
      sel <- tradable g i neg tk ;;
      tr <- set_temp p (with_selected sel (a_temp st)) tr ;; same true tr
  | ASelectHasData lb min_count nodata neg =>
    '(g, _, st) <- get_astate p tr ;;
    i <- now_row g ;;
    let selected := match t_selected (a_temp st) with Some s => s | None => univ_ids g end in
    let lo := sub_off (ts_of e i) lb in
    let rows := window_rows e lo (ts_of e i) i in
    let fix go (names : list nat) : result (list nat) :=
      match names with
      | [] => Ok []
      | k :: r =>
        match lookup k (univ_cols g) with
        | None => Err EKey
        | Some col =>
          rest <- go r ;;
          let cnt := length (filter (fun rr => present_cell (nth rr col None)) rows) in
          let cur := nth i col None in
          let keep := (min_count <=? nofZ N (Z.of_nat cnt)) &&
                      (nodata || (present_cell cur && (neg || positive_cell cur))) in
          Ok (if keep then k :: rest else rest)
        end
      end in
    sel <- go selected ;;
    tr <- set_temp p (with_selected sel (a_temp st)) tr ;; same true tr
  | ASelectN n asc all_or_none filt =>
    '(_, _, st) <- get_astate p tr ;;
    match t_stat (a_temp st) with
    | None => Err EKey
    | Some stat =>
      let stat := flat_map (fun kc => match snd kc with Some v => [(fst kc, v)] | None => [] end) stat in
      let stat := match filt, t_selected (a_temp st) with
                  | true, Some sel => filter (fun kv => mem_nat (fst kv) sel) stat
                  | _, _ => stat
                  end in
      let sorted := sort_by asc stat in
      let keep_n := if n <? 1 then Z.to_nat (nfloorZ N (n * nofZ N (Z.of_nat (length sorted))))
                    else Z.to_nat (nfloorZ N n) in
      let sel := map fst (firstn keep_n sorted) in
      let sel := if all_or_none && Nat.ltb (length sel) keep_n then [] else sel in
      tr <- set_temp p (with_selected sel (a_temp st)) tr ;; same true tr
    end
  | ASelectWhere key nodata neg =>
    '(g, _, st) <- get_astate p tr ;;
    i <- now_row g ;;
    match lookup key (e_adata e) with
    | Some (DFrame idx cols) =>
      match index_of (ts_of e i) idx with
      | None => same true tr
      | Some r =>
        let chosen := map fst (filter (fun kc => match nth r (snd kc) None with
                                                  | Some v => v =? 1
                                                  | None => false
                                                  end) cols) in
        sel <- (if nodata then Ok chosen else tradable g i neg chosen) ;;
        tr <- set_temp p (with_selected sel (a_temp st)) tr ;; same true tr
      end
    | _ => Err EKey
    end
  | ASelectRegex matching =>
    '(_, _, st) <- get_astate p tr ;;
    match t_selected (a_temp st) with
    | None => Err EKey
    | Some sel =>
      tr <- set_temp p (with_selected (filter (fun k => mem_nat k matching) sel) (a_temp st)) tr ;; same true tr
    end
  | ASetStat key lag =>
    '(g, _, st) <- get_astate p tr ;;
    i <- now_row g ;;
    match lookup key (e_adata e) with
    | Some (DFrame idx cols) =>
      match index_of (sub_off (ts_of e i) lag) idx with
      | None => same false tr
      | Some r =>
        tr <- set_temp p (with_stat (map (fun kc => (fst kc, nth r (snd kc) None)) cols) (a_temp st)) tr ;;
        same true tr
      end
    | _ => Err EKey
    end
  | AStatTotalReturn lb lag =>
    '(g, _, st) <- get_astate p tr ;;
    i <- now_row g ;;
    match t_selected (a_temp st) with
    | None => Err EKey
    | Some sel =>
      let t0 := sub_off (ts_of e i) lag in
      if Z.ltb t0 (ts_of e 0) then same false tr else
      let rows := window_rows e (sub_off t0 lb) t0 i in
      match rows with
      | [] => Err EIndex
      | r0 :: _ =>
        let rl := last rows r0 in
        let fix go (names : list nat) : result (list (nat * cell)) :=
          match names with
          | [] => Ok []
          | k :: r =>
            match lookup k (univ_cols g) with
            | None => Err EKey
            | Some col =>
              rest <- go r ;;
              let v := match nth rl col None, nth r0 col None with
                       | Some a1, Some a0 => Some (a1 / a0 - 1)
                       | _, _ => None
                       end in
              Ok ((k, v) :: rest)
            end
          end in
        stat <- go sel ;;
        tr <- set_temp p (with_stat stat (a_temp st)) tr ;; same true tr
      end
    end
  | AWeighEqually =>
    '(_, _, st) <- get_astate p tr ;;
    match t_selected (a_temp st) with
    | None => Err EKey
    | Some sel =>
      let w := match sel with
               | [] => []
               | _ => let x := 1 / nofZ N (Z.of_nat (length sel)) in
                      fold_left (fun acc k => set_assoc k x acc) sel []
               end in
      tr <- set_temp p (with_weights w (a_temp st)) tr ;; same true tr
    end
  | AWeighSpecified w =>
    '(_, _, st) <- get_astate p tr ;;
    tr <- set_temp p (with_weights w (a_temp st)) tr ;; same true tr
  | AScaleWeights s =>
    '(_, _, st) <- get_astate p tr ;;
    match t_weights (a_temp st) with
    | None => Err EKey
    | Some w =>
      tr <- set_temp p (with_weights (map (fun kv => (fst kv, s * snd kv)) w) (a_temp st)) tr ;; same true tr
    end
  | AWeighTarget key =>
    '(g, _, st) <- get_astate p tr ;;
    i <- now_row g ;;
    match lookup key (e_adata e) with
    | Some (DFrame idx cols) =>
      match index_of (ts_of e i) idx with
      | None => same false tr
      | Some r =>
        let w := flat_map (fun kc => match nth r (snd kc) None with Some v => [(fst kc, v)] | None => [] end) cols in
        tr <- set_temp p (with_weights_series w (a_temp st)) tr ;; same true tr
      end
    | _ => Err EKey
    end
  | ALimitDeltas glob per =>
    '(_, kids, st) <- get_astate p tr ;;
    match t_weights (a_temp st) with
    | None => Err EKey
    | Some tw =>
      (* keys: the children, then the targets that are not children (deterministic order) *)
      let keys := kid_ids kids ++ filter (fun k => negb (mem_nat k (kid_ids kids))) (map fst tw) in
      let fix go (ks : list nat) (tw : list (nat * t)) (tr : tree) : result (list (nat * t) * tree) :=
        match ks with
        | [] => Ok (tw, tr)
        | k :: ks' =>
          let tgt := match lookup k tw with Some v => v | None => 0 end in
          '(tr, ow) <- read_kid_weight p k tr ;;
          let cur := match ow with Some v => v | None => 0 end in
          let delta := tgt - cur in
          let olim := match glob with Some l => Some l | None => lookup k per end in
          let tw := match olim with
                    | Some l => if l <? nabs N delta then set_assoc k (cur + l * sign delta) tw else tw
                    | None => tw
                    end in
          go ks' tw tr
        end in
      '(tw, tr) <- go keys tw tr ;;
      '(_, _, st) <- get_astate p tr ;;
      tr <- set_temp p (with_weights_inplace tw (a_temp st)) tr ;; same true tr
    end
  | ALimitWeights lim =>
    '(_, _, st) <- get_astate p tr ;;
    match t_weights (a_temp st) with
    | None => same true tr
    | Some [] => same true tr
    | Some tw =>
      if lim <? 1 / nofZ N (Z.of_nat (length tw)) then
        tr <- set_temp p (with_weights [] (a_temp st)) tr ;; same true tr
      else
            (* ffn.limit_weights: "if np.round(weights.sum(), 1) != 1.0: raise ValueError" *)
        if negb (nrint N (sum_w tw * nofZ N 10) =? nofZ N 10) then Err EValue else
        w <- limit_weights (S (length tw)) lim tw ;;
        tr <- set_temp p (with_weights_series w (a_temp st)) tr ;; same true tr
    end
  | ACapitalFlow amt =>
    tr <- tree_at p (fun _ n => match n with
                                | NStrat g k l pp => Ok (NStrat (g_adjust amt 0 true g) k l pp, None, true)
                                | _ => Err EAttr
                                end) tr ;;
    same true tr
  | ACloseDead =>
    '(g, kids, st) <- get_astate p tr ;;
    match t_weights (a_temp st) with
    | None => same true tr
    | Some _ =>
      i <- now_row g ;;
      let fix go (ks : list nat) (tr : tree) : result tree :=
        match ks with
        | [] => Ok tr
        | k :: ks' =>
          '(g, _, st) <- get_astate p tr ;;
          match univ_cell g i k with
          | None => Err EKey
          | Some c =>
            if match c with Some v => v <=? 0 | None => false end then
              tr <- op_close paper_step p k true tr ;;
              '(_, _, st) <- get_astate p tr ;;
              tr <- (match t_weights (a_temp st) with
                     | Some w => set_temp p (with_weights_inplace (del_assoc k w) (a_temp st)) tr
                     | None => Ok tr
                     end) ;;
              go ks' tr
            else go ks' tr
          end
        end in
      tr <- go (kid_ids kids) tr ;; same true tr
    end
  | ASetNotional key =>
    '(g, _, st) <- get_astate p tr ;;
    i <- now_row g ;;
    match lookup key (e_adata e) with
    | Some (DFrame idx ((_, col) :: _)) =>
      match index_of (ts_of e i) idx with
      | None => same false tr
      | Some r =>
        match nth r col None with
        | Some v => tr <- set_temp p (with_notional v (a_temp st)) tr ;; same true tr
        | None => Err ENanArith
        end
      end
    | _ => Err EKey
    end
  | ARebalance =>
    '(b, tr) <- do_rebalance tr ;; same b tr
  | ARebalanceOverTime n w dleft =>
    '(_, _, st) <- get_astate p tr ;;
    let '(w, dleft) := match t_weights (a_temp st) with
                       | Some tw => (Some tw, Some n)
                       | None => (w, dleft)
                       end in
    match w, dleft with
    | Some ws, Some dl =>
      let fix go (l : list (nat * t)) (acc : list (nat * t)) (tr : tree) : result (list (nat * t) * tree) :=
        match l with
        | [] => Ok (acc, tr)
        | (k, wk) :: l' =>
          '(tr, ow) <- read_kid_weight p k tr ;;
          let cur := match ow with Some v => v | None => 0 end in
          go l' (set_assoc k (cur + (wk - cur) / dl) acc) tr
        end in
      '(tgt, tr) <- go ws [] tr ;;
      '(_, _, st) <- get_astate p tr ;;
      tr <- set_temp p (with_weights tgt (a_temp st)) tr ;;
      '(_, tr) <- do_rebalance tr ;;
      let dl' := dl - 1 in
      if dl' =? 0 then Ok (ARebalanceOverTime n None None, true, tr)
      else Ok (ARebalanceOverTime n (Some ws) (Some dl'), true, tr)
    | _, _ => Ok (ARebalanceOverTime n w dleft, true, tr)
    end
  | ARequire pr item if_none =>
    '(_, _, st) <- get_astate p tr ;;
    let olen := match item with
                | TSelected => option_map (@length nat) (t_selected (a_temp st))
                | TWeights => option_map (@length (nat * t)) (t_weights (a_temp st))
                | TStat => option_map (@length (nat * cell)) (t_stat (a_temp st))
                end in
    match olen with
    | None => same if_none tr
    | Some len => same (apply_pred pr len) tr
    end
  | ANot a1 =>
    '(a1', b, tr) <- run_algo a1 tr ;; Ok (ANot a1', negb b, tr)
  | AOr l =>
    '(l', b, tr) <- or_go run_algo l false tr ;; Ok (AOr l', b, tr)
  | AStack l =>
    '(l', b, tr) <- stack_go run_algo (existsb is_always l) l true tr ;; Ok (AStack l', b, tr)
  | AAlways flag a1 =>
    '(a1', b, tr) <- run_algo a1 tr ;; Ok (AAlways flag a1', b, tr)
  | ASelectTypes inc exc =>
    '(_, kids, st) <- get_astate p tr ;;
    let sel := map (@node_id N astate)
                   (filter (fun c => existsb (isinstance (node_kind c)) inc &&
                                     negb (existsb (isinstance (node_kind c)) exc)) kids) in
    let sel := match t_selected (a_temp st) with
               | Some s0 => filter (fun k => mem_nat k s0) sel
               | None => sel
               end in
    tr <- set_temp p (with_selected sel (a_temp st)) tr ;; same true tr
  | ASelectActive =>
    '(_, _, st) <- get_astate p tr ;;
    match t_selected (a_temp st) with
    | None => Err EKey
    | Some sel =>
      let sel := filter (fun k => negb (mem_nat k (a_rolled st) || mem_nat k (a_closed st))) sel in
      tr <- set_temp p (with_selected sel (a_temp st)) tr ;; same true tr
    end
  | AClosePositionsAfterDates key =>
    '(g, kids, st) <- get_astate p tr ;;
    i <- now_row g ;;
    match lookup key (e_adata e) with
    | Some (DDates cd) =>
      let cands := filter (fun k => mem_assoc k cd && negb (mem_nat k (a_closed st)))
                          (map (@node_id N astate) (filter (@is_sec N astate) kids)) in
      let due := filter (fun k => match lookup k cd with Some d => Z.leb d (ts_of e i) | None => false end) cands in
      let fix go (ks : list nat) (tr : tree) : result tree :=
        match ks with
        | [] => Ok tr
        | k :: ks' => tr <- op_close paper_step p k false tr ;; go ks' tr
        end in
      tr <- go due tr ;;
      tr <- upd_astate p (add_a_closed due) tr ;;
      '(g, _) <- get_strat p tr ;;
      tr <- root_update paper_step (g_now g) tr ;;
      same true tr
    | _ => Err EKey
    end
  | ARollPositionsAfterDates key =>
    '(g, kids, st) <- get_astate p tr ;;
    i <- now_row g ;;
    match lookup key (e_adata e) with
    | Some (DRoll rd) =>
      let cands := filter (fun k => mem_assoc k rd && negb (mem_nat k (a_rolled st)))
                          (map (@node_id N astate) (filter (@is_sec N astate) kids)) in
      (* roll_data.loc[sec_names].iterrows(): in sec_names order *)
      let fix go (ks : list nat) (trans : list (nat * t)) (rolled : list nat) (tr : tree)
        : result (list (nat * t) * list nat * tree) :=
        match ks with
        | [] => Ok (trans, rolled, tr)
        | k :: ks' =>
          match lookup k rd with
          | Some (d, tgt, factor) =>
            if Z.leb d (ts_of e i) then
              '(_, kids) <- get_strat p tr ;;
              match find_kid k kids with
              | Some c =>
                pos <- raw_position c ;;
                let q := factor * pos in
                let trans := match lookup tgt trans with
                             | Some q0 => set_assoc tgt (q0 + q) trans
                             | None => set_assoc tgt q trans
                             end in
                tr <- op_close paper_step p k false tr ;;
                go ks' trans (rolled ++ [k]) tr
              | None => Err EKey
              end
            else go ks' trans rolled tr
          | None => go ks' trans rolled tr
          end
        end in
      '(trans, rolled, tr) <- go cands [] [] tr ;;
      let fix doit (l : list (nat * t)) (tr : tree) : result tree :=
        match l with
        | [] => Ok tr
        | (k, q) :: l' =>
          '(tr, _) <- apply_op paper_step (@OTransact N p q (Some k) false None) tr ;;
          doit l' tr
        end in
      tr <- doit trans tr ;;
      tr <- upd_astate p (add_a_rolled rolled) tr ;;
      '(g, _) <- get_strat p tr ;;
      tr <- root_update paper_step (g_now g) tr ;;
      same true tr
    | _ => Err EKey
    end
  | AReplayTransactions key =>
    '(g, _, _) <- get_astate p tr ;;
    i <- now_row g ;;
    match lookup key (e_adata e) with
    | Some (DTrans txs) =>
      let hi := ts_of e i in
      let due := filter (fun x => let '(d, _, _, _) := x in
                                  (match i with O => true | S j => Z.ltb (ts_of e j) d end) && Z.leb d hi) txs in
      let fix go (l : list (Z * nat * t * t)) (tr : tree) : result tree :=
        match l with
        | [] => Ok tr
        | (_, k, q, pr) :: l' =>
          '(_, kids) <- get_strat p tr ;;
          match find_kid k kids with
          | None => Err EKey
          | Some _ =>
            tr <- tree_at (p ++ [k]) (op_transact_self q false (Some pr)) tr ;;
            go l' tr
          end
        end in
      tr <- go due tr ;;
      '(g, _) <- get_strat p tr ;;
      tr <- root_update paper_step (g_now g) tr ;;
      same true tr
    | _ => Err EKey
    end
  | AUpdateRisk m hist =>
    match lookup 0%nat (e_adata e) with           (* key 0 is reserved for "unit_risk" *)
    | Some (DRisk frames) =>
      match lookup m frames with
      | None => Err EKey
      | Some fr =>
        match root_now tr with
        | None => Err EKey
        | Some ri =>
          '(n, _, _) <- at_path p (fun _ n => '(n', _) <- set_risk m hist fr (ts_of e ri) 0 n ;; Ok (n', None, false))
                                None (fst tr) ;;
          same true (n, snd tr)
        end
      end
    | _ => Err EKey
    end
  | AHedgeRisk1 m =>
    match get_node p (fst tr) with
    | Some (NStrat g kids lz _) =>
      i <- now_row g ;;
      match t_selected (a_temp (g_algo g)) with
      | Some [k] =>
        match lookup m (g_risk g) with
        | None => Err EValue                      (* "measure ... not set on target" *)
        | Some r =>
          match lookup 0%nat (e_adata e) with
          | Some (DRisk frames) =>
            match lookup m frames with
            | None => Err EValue
            | Some fr =>
              u <- unit_risk_of fr (ts_of e i) k ;;
              let mult := match find_kid k kids with
                          | Some (NSec s) => s_mult s
                          | Some _ => 1
                          | None => match fst (pop_lazy k lz) with Some l => lz_mult l | None => 1 end
                          end in
              let j := u * mult in
              if j =? 0 then Err ELinAlg else
              (* numpy: inv([[j]]) = [[1/j]]; notionals = inv @ (-risk) *)
              let q := (1 / j) * (- r) in
              '(tr, _) <- apply_op paper_step (@OTransact N p q (Some k) true None) tr ;;
              same true tr
            end
          | _ => Err EKey
          end
        end
      | _ => Err EOther      (* only the one-instrument, one-measure solve is modelled *)
      end
    | _ => Err EKey
    end
  | AUserAdjust amt flow upd =>
    tr <- tree_at p (fun _ n => match n with
                                | NStrat g k l pp => Ok (NStrat (g_adjust amt 0 flow g) k l pp, None, upd)
                                | _ => Err EAttr
                                end) tr ;;
    same true tr
  | AMock id rs =>
    tr <- upd_astate p (add_a_log id) tr ;;
    match rs with
    | [] => Ok (AMock id [], true, tr)
    | b :: rs' => Ok (AMock id rs', b, tr)
    end
  end.
End RunAlgo.

(* Strategy.run on the strategy at path p: clear temp, run the stack, run the children *)
Definition set_stack (p : list nat) (l : list algo) (tr : tree) : result tree :=
  upd_astate p (set_a_stack l) tr.

Fixpoint strat_run (fuel : nat) (e : env) (p : list nat) (tr : tree) {struct fuel} : result tree :=
  match fuel with
  | O => Err EOutOfFuel
  | S fuel' =>
    '(_, _, a) <- get_astate p tr ;;
    if negb (a_is_strategy a) then Ok tr else
    tr <- set_temp p empty_temp tr ;;
    '(st', b, tr) <- run_algo e p (AStack (a_stack a)) tr ;;
    tr <- (match st' with AStack l => set_stack p l tr | _ => Err EOther end) ;;
    '(g1, _, a1) <- get_astate p tr ;;
    tr <- upd_astate p (add_a_trace (g_now g1, b, a_temp a1)) tr ;;
    '(_, kids) <- get_strat p tr ;;
    let fix go (ks : list node) (tr : tree) : result tree :=
      match ks with
      | [] => Ok tr
      | NStrat g _ _ _ :: ks' => tr <- strat_run fuel' e (p ++ [g_id g]) tr ;; go ks' tr
      | _ :: ks' => go ks' tr
      end in
    go kids tr
  end.


(* ---- small drivers for the scheduler / stack correspondence suites ---- *)
Definition dummy_root (nrows : nat) (stack : list algo) (now : option nat) : tree :=
  (NStrat (set_g_now now
            (init_strat 0 false false false false (fun _ _ => 0) [] (mkKw None None None None) nrows []
                        (mkAState true stack empty_temp [] [] false false [] [])))
          [] [] None, false).

(* call one algo repeatedly with target.now taking the given rows (stops at the first error) *)
Definition sched_run (dates : list Z) (a : algo) (calls : list (option nat)) : list (result bool) :=
  snd (fold_left
         (fun (st : option algo * list (result bool)) (c : option nat) =>
            match fst st with
            | None => st
            | Some a =>
              match run_algo (mkEnv dates []) [] a (dummy_root (length dates) [] c) with
              | Ok (a', b, _) => (Some a', snd st ++ [Ok b])
              | Err er => (None, snd st ++ [Err er])
              end
            end) calls (Some a, [])).

(* Strategy.run with the given stack, [n] times: (log of mock invocations, result of every run) *)
Definition stack_runs (n : nat) (tr : tree) : result (list nat * list bool) :=
  tr <- Nat.iter n (fun r => tr <- r ;; strat_run 3 (mkEnv [] []) [] tr) (Ok tr) ;;
  '(_, _, a) <- get_astate [] tr ;;
  Ok (a_log a, map (fun x => snd (fst x)) (a_trace a)).
End Algos.

(* ------------------------------------------------------------------ *)
(* Backtest                                                             *)
(* ------------------------------------------------------------------ *)
Section Backtest.
Variable N : num.
Local Notation tree := (tree N (astate N)).

Definition depth_fuel : nat := 12.

(* the paper step of level l: update; run; update; refresh, with the level below for nested papers *)
Definition bt_paper_step (e : env N) : nat -> option nat -> tree -> result tree :=
  paper_step_l (fun ps tr => strat_run ps depth_fuel e [] tr).

Definition bt_level : nat := 6.

(* Backtest.run after setup: adjust(initial_capital); update(dates[0]); per date update, run, update *)
Fixpoint bt_loop (e : env N) (rows : list nat) (tr : tree) : result tree :=
  match rows with
  | [] => Ok tr
  | i :: rows' =>
    let ps := bt_paper_step e bt_level in
    tr <- root_update ps (Some i) tr ;;
    tr <- (match fst tr with
           | NStrat g _ _ _ =>
             if g_bankrupt g then Ok tr
             else
               tr <- strat_run ps depth_fuel e [] tr ;;
               root_update ps (Some i) tr
           | _ => Err EOther
           end) ;;
    bt_loop e rows' tr
  end.

(* Backtest._process_data: a synthetic first row one day before the first date, NaN everywhere;
   additional data frames indexed like the data get the same extra row *)
Definition prepend_row (f : frame N) : frame N := map (fun kc => (fst kc, None :: snd kc)) f.
Definition zlist_eqb (a b : list Z) : bool :=
  Nat.eqb (length a) (length b) && forallb (fun xy => Z.eqb (fst xy) (snd xy)) (combine a b).
Definition process_dates (dates : list Z) : list Z :=
  match dates with [] => [] | d0 :: _ => (d0 - 86400)%Z :: dates end.
Definition process_adata (dates : list Z) (a : adata N) : adata N :=
  match a with
  | DFrame idx cols =>
    if zlist_eqb idx dates then DFrame (process_dates idx) (prepend_row cols) else a
  | _ => a
  end.
Definition process_kw (kw : kwargs N) : kwargs N :=
  mkKw (option_map prepend_row (kw_bidoffer kw)) (option_map prepend_row (kw_coupons kw))
       (option_map prepend_row (kw_cost_long kw)) (option_map prepend_row (kw_cost_short kw)).

(* Backtest(strategy, data, initial_capital, commissions, integer_positions, additional_data).run() *)
Definition backtest (dates : list Z) (prices : frame N) (kw : kwargs N) (ad : list (nat * adata N))
           (intpos : bool) (comm : carrier N -> carrier N -> carrier N) (capital : carrier N)
           (sp : nspec N (astate N)) : result tree :=
  let dates' := process_dates dates in
  let d := mkData (length dates') (prepend_row prices) (process_kw kw) in
  let e := mkEnv dates' (map (fun ka => (fst ka, process_adata dates (snd ka))) ad) in
  tr <- build d intpos comm sp ;;
  let ps := bt_paper_step e bt_level in
  '(tr, _) <- apply_op ps (@OAdjust N [] capital true true (n0 N)) tr ;;
  tr <- root_update ps (Some 0) tr ;;
  tr <- bt_loop e (seq 1 (length dates' - 1)) tr ;;
  refresh ps tr.

Definition bt_run (e : env N) (capital : carrier N) (tr : tree) : result tree :=
  let ps := bt_paper_step e bt_level in
  '(tr, _) <- apply_op ps (@OAdjust N [] capital true true (n0 N)) tr ;;
  tr <- root_update ps (Some 0) tr ;;
  tr <- bt_loop e (seq 1 (length (e_dates e) - 1)) tr ;;
  (* strategy.prices is read afterwards (calc_perf_stats): a stale tree is refreshed *)
  refresh ps tr.

End Backtest.

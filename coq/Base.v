(* Base.v — error enum (image of the Python exceptions), result monad, list helpers. *)
From Coq Require Import List Bool Arith.
Import ListNotations.

Inductive err :=
| EKey                (* KeyError: unknown date / child / column *)
| EBadPrice           (* allocate at a NaN or zero price *)
| ENanPriceOpen       (* NaN price with an open position *)
| ENanCouponOpen      (* NaN coupon with an open position *)
| ECouponsMissing     (* coupon-paying security without coupons data *)
| ECouponIdx          (* coupons index mismatch *)
| EBidofferIdx        (* bidoffer index mismatch *)
| ECustomNoBidoffer   (* custom-price trade without bid/offer data *)
| EZeroBase           (* return on a zero base, market-value strategy *)
| EZeroNotl           (* return on zero notional, fixed-income strategy *)
| EFiChild            (* fixed-income strategy under a market-value parent *)
| EDupChild           (* duplicate child name *)
| EDupColumn          (* duplicate data columns *)
| ESizingStuck | ESizingDiverged | ESizingLoop
| EParentless         (* allocate on a parentless security *)
| EAttr               (* AttributeError *)
| EIndex              (* IndexError *)
| EType               (* TypeError *)
| EZeroDiv            (* ZeroDivisionError: Python float division by zero *)
| ELinAlg             (* numpy.linalg.LinAlgError: singular Jacobian *)
| EValue              (* ValueError raised by a numerical kernel's input check *)
| ENanArith           (* a NaN would enter the books (model refuses; Python records NaN) *)
| EOutOfFuel          (* model artefact: recursion level exhausted; must never be observed *)
| EOther.

Inductive result (A : Type) := Ok (a : A) | Err (e : err).
Arguments Ok {A} a.
Arguments Err {A} e.

Definition bind {A B} (r : result A) (f : A -> result B) : result B :=
  match r with Ok a => f a | Err e => Err e end.
Notation "x <- r ;; k" := (bind r (fun x => k)) (at level 61, r at next level, right associativity).
Notation "' p <- r ;; k" := (bind r (fun p => k)) (at level 61, p pattern, r at next level, right associativity).

Definition is_ok {A} (r : result A) : bool := match r with Ok _ => true | Err _ => false end.

(* functional update of row i *)
Fixpoint upd {A} (i : nat) (v : A) (l : list A) : list A :=
  match l, i with
  | [], _ => []
  | _ :: l', O => v :: l'
  | x :: l', S i' => x :: upd i' v l'
  end.

Lemma upd_length {A} i (v : A) l : length (upd i v l) = length l.
Proof. revert i; induction l as [|x l IH]; intros [|i]; simpl; auto. Qed.

Lemma nth_upd_same {A} i (v d : A) l : i < length l -> nth i (upd i v l) d = v.
Proof. revert i; induction l as [|x l IH]; intros [|i] H; simpl in *; auto; try (exfalso; inversion H; fail).
  apply IH. apply Nat.succ_lt_mono. exact H. Qed.

Lemma nth_upd_other {A} i j (v d : A) l : i <> j -> nth j (upd i v l) d = nth j l d.
Proof. revert i j; induction l as [|x l IH]; intros [|i] [|j] H; simpl; auto; try congruence. Qed.

Definition onat_eqb (a b : option nat) : bool :=
  match a, b with
  | None, None => true
  | Some x, Some y => Nat.eqb x y
  | _, _ => false
  end.

Lemma onat_eqb_eq a b : onat_eqb a b = true <-> a = b.
Proof. destruct a, b; simpl; split; intros H; try discriminate; auto.
  - apply Nat.eqb_eq in H; congruence.
  - inversion H; apply Nat.eqb_refl. Qed.

(* row number of a date; date None is the Python integer 0 ("never updated") *)
Definition row_of (d : option nat) : nat := match d with None => 0 | Some i => i end.

Fixpoint lookup {B} (k : nat) (l : list (nat * B)) : option B :=
  match l with
  | [] => None
  | (k', v) :: l' => if Nat.eqb k k' then Some v else lookup k l'
  end.

Fixpoint mem_nat (k : nat) (l : list nat) : bool :=
  match l with [] => false | x :: l' => Nat.eqb k x || mem_nat k l' end.

(* the five security classes of bt.core *)
Inductive sclass := CSec | CFixedIncome | CCoupon | CHedge | CCouponHedge.
Definition class_fi_notl (c : sclass) : bool :=   (* derives from FixedIncomeSecurity *)
  match c with CFixedIncome | CCoupon | CCouponHedge => true | _ => false end.
Definition class_coupon (c : sclass) : bool :=
  match c with CCoupon | CCouponHedge => true | _ => false end.
Definition class_hedge (c : sclass) : bool :=
  match c with CHedge | CCouponHedge => true | _ => false end.

(* Digest.v — a flat list of every number a tree holds (live fields and history rows of every node, in Node.members
   order) and a runner that keeps the last good state of a history.  Used to cross-check the extracted OCaml binary
   against the kernel's own evaluation (vm_compute) of the same definitions on a sample of every run's cases. *)
From Coq Require Import List Bool Arith.
Import ListNotations.
Require Import BT.Num BT.Base BT.Records BT.Engine BT.Reports BT.Ops.
Set Implicit Arguments.

Section Digest.
Variable N : num.
Variable A : Type.
Local Notation t := (carrier N).

Definition sec_digest (s : sec N) : list (cell N) :=
  [Some (s_pos s); Some (s_lastpos s); s_price s; Some (s_value s); Some (s_notl s); Some (s_weight s);
   Some (s_outlay s); s_bidoffer s; Some (s_bidoffer_paid s); Some (s_capital s); Some (s_coupon s); Some (s_holding_cost s)]
  ++ map (@Some t) (h_values s ++ h_positions s ++ h_notls s ++ h_outlays s ++ h_bopaid s ++ h_coupons s ++ h_hcosts s).

Definition strat_digest (g : strat N A) : list (cell N) :=
  map (@Some t) ([g_capital g; g_value g; g_notl g; g_weight g; g_price g; g_net_flows g; g_last_value g; g_last_notl g;
                  g_last_price g; g_last_fee g; g_bidoffer_paid g]
                 ++ hg_prices g ++ hg_values g ++ hg_notls g ++ hg_cash g ++ hg_fees g ++ hg_flows g ++ hg_bopaid g)
  ++ flat_map (fun kc => snd kc) (g_ucols g).

Definition digest (tr : tree N A) : list (cell N) :=
  flat_map (fun pm => match snd pm with
                      | NSec s => sec_digest s
                      | NStrat g _ _ _ => strat_digest g
                      end) (all_members (fst tr)).

Variable paper_step : option nat -> tree N A -> result (tree N A).

(* apply a history; stop at the first operation that errors and keep the state before it; also the number of
   operations applied *)
Definition run_keep (ops : list (op N)) (tr : tree N A) : tree N A * nat :=
  let r := fold_left (fun (st : tree N A * nat * bool) o =>
                        let '(cur, k, stopped) := st in
                        if stopped then st else
                        match apply_op paper_step o cur with
                        | Ok (tr', _) => (tr', S k, false)
                        | Err _ => (cur, k, true)
                        end) ops (tr, O, false) in
  (fst (fst r), snd (fst r)).

End Digest.

(* EngineLookahead.v — C04 for the engine: SecurityBase.update (and the coupon / holding-cost tails of its subclasses)
   at row i reads its data columns (prices, bid/offer, coupons, long / short holding costs) at row i only.  Stated as a
   commutation: replacing the five columns by any others that agree with them at row i, before or after the update,
   gives the same security — every live number, every history row, the same error when it fails.  Any number instance. *)
From Coq Require Import List Bool Arith ZArith Lia.
Import ListNotations.
Require Import BT.Num BT.Base BT.Records BT.Engine BT.Ops BT.Proofs.Tac BT.Proofs.Frames.

Section EL.
Variable N : num.
Notation sec := (sec N).
Notation cell := (cell N).

Record cols := mkCols {
  c_prices : option (list cell); c_bidoffers : list cell; c_coupons : option (list cell);
  c_cost_long : option (list cell); c_cost_short : option (list cell) }.

Definition swap (D : cols) (s : sec) : sec :=
  set_s_prices (c_prices D) (set_s_bidoffers (c_bidoffers D) (set_s_coupons (c_coupons D)
    (set_s_cost_long (c_cost_long D) (set_s_cost_short (c_cost_short D) s)))).

Definition ocol_agree (i : nat) (a b : option (list cell)) : Prop :=
  match a, b with
  | Some x, Some y => cell_at i x = cell_at i y
  | None, None => True
  | _, _ => False
  end.

(* the alternative columns have the same shape and the same row i *)
Definition agree (i : nat) (s : sec) (D : cols) : Prop :=
  ocol_agree i (s_prices s) (c_prices D) /\ cell_at i (s_bidoffers s) = cell_at i (c_bidoffers D) /\
  ocol_agree i (s_coupons s) (c_coupons D) /\ ocol_agree i (s_cost_long s) (c_cost_long D) /\
  ocol_agree i (s_cost_short s) (c_cost_short D).

Definition rmap {X Y} (f : X -> Y) (r : result X) : result Y := match r with Ok x => Ok (f x) | Err e => Err e end.

Lemma sec_roll_swap date i (s : sec) D : agree i s D -> sec_roll date i (swap D s) = swap D (sec_roll date i s).
Proof.
  intros (H1 & H2 & _). destruct s, D. unfold swap, sec_roll, ocol_agree in *. cbn in *.
  destruct (onat_eqb date s_now); [reflexivity|].
  destruct s_prices as [ps|], c_prices0 as [ps'|]; try contradiction; cbn; rewrite <- ?H1, <- ?H2; destruct s_bo_set; reflexivity.
Qed.

Lemma sec_mark_swap i (s : sec) D : sec_mark i (swap D s) = rmap (swap D) (sec_mark i s).
Proof.
  destruct s, D. unfold swap, sec_mark. cbn.
  destruct s_price; cbn; [reflexivity|]. destruct (nis_zero N s_pos); reflexivity.
Qed.

Lemma sec_flag_swap (s : sec) D : sec_flag (swap D s) = swap D (sec_flag s).
Proof. destruct s, D. unfold swap, sec_flag. cbn. destruct (_ && _); reflexivity. Qed.

Lemma sec_flush_swap i (s : sec) D : sec_flush i (swap D s) = swap D (sec_flush i s).
Proof. destruct s, D. unfold swap, sec_flush. cbn. destruct (negb _); cbn; destruct s_bo_set; reflexivity. Qed.

Lemma agree_frame i (s s' : sec) D :
  s_prices s' = s_prices s -> s_bidoffers s' = s_bidoffers s -> s_coupons s' = s_coupons s ->
  s_cost_long s' = s_cost_long s -> s_cost_short s' = s_cost_short s -> agree i s D -> agree i s' D.
Proof. unfold agree. intros -> -> -> -> ->. auto. Qed.

Lemma sec_update_base_swap date i (s : sec) D :
  agree i s D -> sec_update_base date i (swap D s) = rmap (swap D) (sec_update_base date i s).
Proof.
  intros H. unfold sec_update_base.
  assert (E : sec_early date (swap D s) = sec_early date s) by (destruct s, D; reflexivity). rewrite E.
  destruct (sec_early date s); [reflexivity|].
  rewrite (sec_roll_swap _ _ _ _ H), sec_mark_swap. destruct (sec_mark i (sec_roll date i s)) as [m|er]; cbn; [|reflexivity].
  rewrite sec_flag_swap, sec_flush_swap. reflexivity.
Qed.

Lemma sec_holding_cost_swap i (s : sec) D : agree i s D -> sec_holding_cost i (swap D s) = sec_holding_cost i s.
Proof.
  intros (_ & _ & _ & H4 & H5). destruct s, D. unfold swap, sec_holding_cost, ocol_agree in *. cbn in *.
  destruct (nltb N (n0 N) s_pos).
  - destruct s_cost_long, c_cost_long0; try contradiction; [rewrite H4|]; reflexivity.
  - destruct (nltb N s_pos (n0 N)); [|reflexivity].
    destruct s_cost_short, c_cost_short0; try contradiction; [rewrite H5|]; reflexivity.
Qed.

Lemma sec_set_carry_swap i c h (s : sec) D : sec_set_carry i c h (swap D s) = swap D (sec_set_carry i c h s).
Proof. destruct s, D. reflexivity. Qed.

Lemma sec_update_coupon_swap i (s : sec) D :
  agree i s D -> sec_update_coupon i (swap D s) = rmap (swap D) (sec_update_coupon i s).
Proof.
  intros H. pose proof (sec_holding_cost_swap _ _ _ H) as Hh. destruct H as (_ & _ & H3 & _).
  unfold sec_update_coupon. unfold sec_update_coupon in *.
  assert (Ec : s_coupons (swap D s) = c_coupons D) by (destruct s, D; reflexivity).
  assert (Ep : s_pos (swap D s) = s_pos s) by (destruct s, D; reflexivity).
  rewrite Ec, Ep, Hh. unfold ocol_agree in H3.
  destruct (s_coupons s) as [cp|], (c_coupons D) as [cp'|]; try contradiction; [|reflexivity].
  rewrite <- H3. destruct (cell_at i cp) as [c|]; cbn.
  - destruct (sec_holding_cost i s); cbn; [rewrite sec_set_carry_swap|]; reflexivity.
  - destruct (nis_zero N (s_pos s)); cbn; [|reflexivity].
    destruct (sec_holding_cost i s); cbn; [rewrite sec_set_carry_swap|]; reflexivity.
Qed.

Lemma notl_pos_swap i (s : sec) D : sec_set_notl_pos i (swap D s) = swap D (sec_set_notl_pos i s).
Proof. destruct s, D. reflexivity. Qed.
Lemma notl_zero_swap (s : sec) D : sec_set_notl_zero (swap D s) = swap D (sec_set_notl_zero s).
Proof. destruct s, D. reflexivity. Qed.
Lemma notl_pos_agree i (s : sec) D : agree i s D -> agree i (sec_set_notl_pos i s) D.
Proof. destruct s. exact (fun H => H). Qed.

Lemma sec_tail_swap i (s : sec) D : agree i s D -> sec_tail i (swap D s) = rmap (swap D) (sec_tail i s).
Proof.
  intros H. unfold sec_tail.
  assert (Ec : s_class (swap D s) = s_class s) by (destruct s, D; reflexivity). rewrite Ec.
  destruct (class_fi_notl (s_class s)).
  - rewrite notl_pos_swap. destruct (class_coupon (s_class s)).
    + rewrite (sec_update_coupon_swap _ _ _ (notl_pos_agree _ _ _ H)).
      destruct (sec_update_coupon i (sec_set_notl_pos i s)); cbn; [|reflexivity].
      destruct (class_hedge (s_class s)); [rewrite notl_zero_swap|]; reflexivity.
    + cbn. destruct (class_hedge (s_class s)); [rewrite notl_zero_swap|]; reflexivity.
  - destruct (class_coupon (s_class s)).
    + rewrite (sec_update_coupon_swap _ _ _ H). destruct (sec_update_coupon i s); cbn; [|reflexivity].
      destruct (class_hedge (s_class s)); [rewrite notl_zero_swap|]; reflexivity.
    + cbn. destruct (class_hedge (s_class s)); [rewrite notl_zero_swap|]; reflexivity.
Qed.

Lemma rmap_bind {X Y} (f : X -> X) (r : result X) (k k' : X -> result Y) (g : Y -> Y) :
  (forall x, r = Ok x -> k' (f x) = rmap g (k x)) -> bind (rmap f r) k' = rmap g (bind r k).
Proof. destruct r as [x|e]; cbn; intros H; [apply H|]; reflexivity. Qed.

(* SecurityBase.update and its subclasses' tails: only row i of the data is read *)
Theorem sec_update_swap date i (s : sec) D :
  agree i s D -> sec_update date i (swap D s) = rmap (swap D) (sec_update date i s).
Proof.
  intros H. unfold sec_update.
  assert (Ec : s_class (swap D s) = s_class s) by (destruct s, D; reflexivity).
  assert (Ecp : match s_coupons (swap D s) with None => true | _ => false end = match s_coupons s with None => true | _ => false end).
  { destruct H as (_ & _ & H3 & _). unfold ocol_agree in H3. destruct s, D; cbn in *. destruct s_coupons, c_coupons0; try contradiction; reflexivity. }
  rewrite Ec, Ecp. destruct (_ && _); [reflexivity|].
  rewrite (sec_update_base_swap _ _ _ _ H). apply rmap_bind. intros x Ex. apply sec_tail_swap.
  (* the base update does not touch the columns *)
  eapply agree_frame; [| | | | |exact H].
  - eapply sec_update_base_s_prices; eassumption.
  - eapply sec_update_base_s_bidoffers; eassumption.
  - eapply sec_update_base_s_coupons; eassumption.
  - eapply sec_update_base_s_cost_long; eassumption.
  - eapply sec_update_base_s_cost_short; eassumption.
Qed.

Lemma sec_update_agree date i j (s s' : sec) D : sec_update date i s = Ok s' -> agree j s D -> agree j s' D.
Proof.
  intros H. apply agree_frame.
  - eapply sec_update_s_prices; eassumption.
  - eapply sec_update_s_bidoffers; eassumption.
  - eapply sec_update_s_coupons; eassumption.
  - eapply sec_update_s_cost_long; eassumption.
  - eapply sec_update_s_cost_short; eassumption.
Qed.

(* ---------- trading: outlay, sizing, transact, allocate read the security's current fields and row i only ---------- *)
Lemma sec_outlay_swap comm (s : sec) D q p : sec_outlay comm (swap D s) q p = sec_outlay comm s q p.
Proof. destruct s, D. reflexivity. Qed.

Lemma size_loop_unfold_gen fuel comm (s : sec) amount pm q fo last_q last_short :
  size_loop fuel comm s amount pm q fo last_q last_short =
  if negb (nisclose N fo amount) && negb (neqb N q (n0 N)) then
    match fuel with
    | O => Err EOutOfFuel
    | S fuel' =>
      let dq := ndiv N (nsub N fo amount) pm in
      let q1 := nsub N q dq in
      let q2 := if s_intpos s then nfloor N q1 else q1 in
      bind (sec_outlay comm s q2 None) (fun r =>
      let '(fo2, _, _, _) := r in
      bind (if s_intpos s then
              bind (sec_outlay comm s (nadd N q2 (n1 N)) None) (fun r1 =>
              let '(fo1, _, _, _) := r1 in Ok (nltb N fo2 amount && nltb N amount fo1))
            else Ok false) (fun brk =>
      if brk then Ok q2 else
      match fuel' with
      | O => Err ESizingLoop
      | _ =>
        if s_intpos s && neqb N last_q q2 then Err ESizingStuck else
        if nltb N (nabs N last_short) (nabs N (nsub N fo2 amount)) then Err ESizingDiverged else
        size_loop fuel' comm s amount pm q2 fo2 q2 (nsub N fo2 amount)
      end))
    end
  else Ok q.
Proof. destruct fuel; reflexivity. Qed.

Lemma size_loop_swap comm (s : sec) D : forall fuel amount pm q fo lq ls,
  size_loop fuel comm (swap D s) amount pm q fo lq ls = size_loop fuel comm s amount pm q fo lq ls.
Proof.
  assert (Ei : s_intpos (swap D s) = s_intpos s) by (destruct s, D; reflexivity).
  induction fuel as [|fuel IH]; intros amount pm q fo lq ls; rewrite !size_loop_unfold_gen; [reflexivity|].
  destruct (negb _ && negb _); [|reflexivity]. cbv zeta. rewrite Ei, !sec_outlay_swap.
  destruct (sec_outlay comm s _ None) as [[[[fo2 o2] f2] b2]|]; cbn [bind]; [|reflexivity].
  destruct (if s_intpos s then _ else _) as [brk|]; cbn [bind]; [|reflexivity].
  destruct brk; [reflexivity|]. destruct fuel; [reflexivity|].
  destruct (s_intpos s && _); [reflexivity|]. destruct (nltb N _ _); [reflexivity|]. apply IH.
Qed.

Definition swapA (D : cols) (r : sec * option (adj N)) : sec * option (adj N) := (swap D (fst r), snd r).

Lemma opt_update_swap (b : bool) date i (s : sec) D :
  agree i s D -> (if b then sec_update date i (swap D s) else Ok (swap D s)) = rmap (swap D) (if b then sec_update date i s else Ok s).
Proof. intros H. destruct b; [apply sec_update_swap; exact H | reflexivity]. Qed.

Lemma opt_update_agree (b : bool) date i j (s s' : sec) D :
  (if b then sec_update date i s else Ok s) = Ok s' -> agree j s D -> agree j s' D.
Proof. destruct b; intros H; [eapply sec_update_agree; eauto | inversion H; subst; auto]. Qed.

(* SecurityBase.transact *)
Theorem sec_transact_swap pnow comm q upd us price (s : sec) D :
  agree (row_of pnow) s D ->
  sec_transact pnow comm q upd us price (swap D s) = rmap (swapA D) (sec_transact pnow comm q upd us price s).
Proof.
  intros H. unfold sec_transact.
  assert (Eb : (us && (s_needupdate (swap D s) || negb (onat_eqb (s_now (swap D s)) pnow))) = (us && (s_needupdate s || negb (onat_eqb (s_now s) pnow))))
    by (destruct s, D; reflexivity).
  rewrite Eb, (opt_update_swap _ _ _ _ _ H).
  destruct (if us && _ then sec_update pnow (row_of pnow) s else Ok s) as [s1|]; cbn [rmap bind]; [|reflexivity].
  destruct (nis_zero N q); [reflexivity|].
  assert (Ebo : s_bo_set (swap D s1) = s_bo_set s1) by (destruct s1, D; reflexivity). rewrite Ebo.
  destruct (match price with Some _ => negb (s_bo_set s1) | None => false end); [reflexivity|].
  assert (E1 : set_s_pos (nadd N (s_pos (set_s_needupdate true (swap D s1))) q) (set_s_needupdate true (swap D s1)) =
               swap D (set_s_pos (nadd N (s_pos (set_s_needupdate true s1)) q) (set_s_needupdate true s1))) by (destruct s1, D; reflexivity).
  rewrite E1, sec_outlay_swap.
  destruct (sec_outlay comm _ q price) as [[[[fo o] fee] bop]|]; cbn [bind rmap]; [|reflexivity].
  unfold swapA; cbn [fst snd]. reflexivity.
Qed.

(* SecurityBase.allocate, the sizing search included *)
Theorem sec_allocate_swap pnow comm amount upd (s : sec) D :
  agree (row_of pnow) s D ->
  sec_allocate pnow comm amount upd (swap D s) = rmap (swapA D) (sec_allocate pnow comm amount upd s).
Proof.
  intros H. unfold sec_allocate.
  assert (Eb : (s_needupdate (swap D s) || negb (onat_eqb (s_now (swap D s)) pnow)) = (s_needupdate s || negb (onat_eqb (s_now s) pnow)))
    by (destruct s, D; reflexivity).
  rewrite Eb, (opt_update_swap _ _ _ _ _ H).
  destruct (if s_needupdate s || _ then sec_update pnow (row_of pnow) s else Ok s) as [s1|] eqn:E1; cbn [rmap bind]; [|reflexivity].
  pose proof (opt_update_agree _ _ _ (row_of pnow) _ _ _ E1 H) as H1.
  destruct (nis_zero N amount); [reflexivity|].
  assert (Ef : s_price (swap D s1) = s_price s1 /\ s_mult (swap D s1) = s_mult s1 /\ s_value (swap D s1) = s_value s1 /\
               s_pos (swap D s1) = s_pos s1 /\ s_intpos (swap D s1) = s_intpos s1) by (destruct s1, D; cbn; auto).
  destruct Ef as (F1 & F2 & F3 & F4 & F5). rewrite F1. destruct (s_price s1) as [pr|]; [|reflexivity].
  destruct (nis_zero N pr); [reflexivity|]. cbv zeta. rewrite F2, F3, F4, F5.
  match goal with |- (if nis_zero N ?qq then _ else _) = _ => set (q0 := qq) end.
  destruct (nis_zero N q0); [reflexivity|].
  destruct (neqb N q0 (nopp N (s_pos s1))); cbn [bind]; [apply sec_transact_swap; exact H1|].
  rewrite sec_outlay_swap. destruct (sec_outlay comm s1 q0 None) as [[[[fo o] fe] bp]|]; cbn [bind]; [|reflexivity].
  rewrite size_loop_swap. destruct (size_loop sizing_fuel comm s1 amount _ q0 fo q0 _) as [q1|]; cbn [bind]; [|reflexivity].
  apply sec_transact_swap. exact H1.
Qed.

Lemma sec_transact_agree pnow comm q upd us price j (s s' : sec) oa D :
  sec_transact pnow comm q upd us price s = Ok (s', oa) -> agree j s D -> agree j s' D.
Proof.
  intros H Ha. unfold sec_transact in H. apply bind_ok in H. destruct H as (s1 & E1 & H).
  pose proof (opt_update_agree _ _ _ j _ _ _ E1 Ha) as H1.
  destruct (nis_zero N q); [inversion H; subst; exact H1|].
  destruct (match price with Some _ => negb (s_bo_set s1) | None => false end); [discriminate|].
  apply bind_ok in H. destruct H as ([[[fo o] fee] bop] & Eo & H). inversion H; subst. exact H1.
Qed.

Lemma sec_allocate_agree pnow comm amount upd j (s s' : sec) oa D :
  sec_allocate pnow comm amount upd s = Ok (s', oa) -> agree j s D -> agree j s' D.
Proof.
  intros H Ha. unfold sec_allocate in H. apply bind_ok in H. destruct H as (s1 & E1 & H).
  pose proof (opt_update_agree _ _ _ j _ _ _ E1 Ha) as H1.
  destruct (nis_zero N amount); [inversion H; subst; exact H1|].
  destruct (s_price s1) as [pr|]; [|discriminate]. destruct (nis_zero N pr); [discriminate|]. cbv zeta in H.
  match type of H with (if nis_zero N ?qq then _ else _) = _ => destruct (nis_zero N qq) end; [inversion H; subst; exact H1|].
  apply bind_ok in H. destruct H as (q1 & _ & H). eapply sec_transact_agree; eauto.
Qed.

(* the swap touches nothing but the five data columns *)
Lemma swap_observables (s : sec) D :
  (s_id (swap D s), s_now (swap D s), s_pos (swap D s), s_lastpos (swap D s), s_price (swap D s), s_value (swap D s),
   s_notl (swap D s), s_weight (swap D s), s_needupdate (swap D s), s_outlay (swap D s), s_bidoffer (swap D s),
   s_bidoffer_paid (swap D s), s_capital (swap D s), s_coupon (swap D s), s_holding_cost (swap D s)) =
  (s_id s, s_now s, s_pos s, s_lastpos s, s_price s, s_value s, s_notl s, s_weight s, s_needupdate s, s_outlay s, s_bidoffer s,
   s_bidoffer_paid s, s_capital s, s_coupon s, s_holding_cost s) /\
  (h_values (swap D s), h_positions (swap D s), h_notls (swap D s), h_outlays (swap D s), h_bopaid (swap D s),
   h_coupons (swap D s), h_hcosts (swap D s), s_risk (swap D s)) =
  (h_values s, h_positions s, h_notls s, h_outlays s, h_bopaid s, h_coupons s, h_hcosts s, s_risk s).
Proof. destruct s, D. split; reflexivity. Qed.

(* ---------- whole trees ---------- *)
Variable A : Type.
Notation node := (node N A).
Notation strat := (strat N A).
Notation tree := (tree N A).
Variable F : nat -> cols.                 (* alternative columns per ticker *)

Fixpoint swapN (n : node) : node :=
  match n with
  | NSec s => NSec (swap (F (s_id s)) s)
  | NStrat g kids lz paper =>
    NStrat g (map swapN kids) lz (match paper with Some (pn, st) => Some (swapN pn, st) | None => None end)
  end.
Definition swapT (tr : tree) : tree := (swapN (fst tr), snd tr).

(* every security of the tree, the paper copies included, agrees with its alternative at row i *)
Fixpoint agreeN (i : nat) (n : node) : Prop :=
  match n with
  | NSec s => agree i s (F (s_id s))
  | NStrat _ kids _ paper =>
    fold_right (fun k a => agreeN i k /\ a) True kids /\ match paper with Some (pn, _) => agreeN i pn | None => True end
  end.

Variable ps : option nat -> tree -> result tree.
(* the paper step (update; run; update of the copy) commutes with the swap: the engine part is the theorem below one
   level down, the algo part is the subject of LookaheadProofs.v *)
Definition PS (date : option nat) (i : nat) : Prop :=
  forall p, agreeN i (fst p) -> ps date (swapT p) = rmap swapT (ps date p).

Lemma swap_id (s : sec) D : s_id (swap D s) = s_id s.
Proof. destruct s, D; reflexivity. Qed.

Lemma raw_swap (k : node) :
  raw_value (swapN k) = raw_value k /\ raw_notl (swapN k) = raw_notl k /\ raw_weight (swapN k) = raw_weight k /\
  raw_bopaid (swapN k) = raw_bopaid k /\ skipped (swapN k) = skipped k /\ is_sec (swapN k) = is_sec k /\ node_id (swapN k) = node_id k.
Proof. destruct k as [s|g kk lz pp]; cbn; [generalize (F (s_id s)); intros D; destruct s, D; cbn; auto 10 | auto 10]. Qed.

Lemma set_weight_swap w (k : node) : set_weight w (swapN k) = swapN (set_weight w k).
Proof.
  destruct k as [s|g kk lz pp]; cbn; reflexivity.
Qed.

Lemma kid_weight_swap fi v nl (k : node) : kid_weight fi v nl (swapN k) = swapN (kid_weight fi v nl k).
Proof.
  unfold kid_weight. destruct (raw_swap k) as (Hv & Hn & _ & _ & Hs & _). rewrite Hs, Hv, Hn.
  destruct (skipped k); [reflexivity|]. destruct fi; apply set_weight_swap.
Qed.

Lemma set_kid_weights_swap fi v nl (ks : list node) :
  set_kid_weights fi v nl (map swapN ks) = map swapN (set_kid_weights fi v nl ks).
Proof. unfold set_kid_weights. rewrite !map_map. apply map_ext. intros k. apply kid_weight_swap. Qed.

Lemma write_ucols_swap i (ks : list node) : forall u, write_ucols i (map swapN ks) u = write_ucols i ks u.
Proof. induction ks as [|k ks IH]; intros u; [reflexivity|]. destruct k as [s|g kk lz pp]; cbn; apply IH. Qed.

Lemma has_strat_kids_swap (ks : list node) : has_strat_kids (map swapN ks) = has_strat_kids ks.
Proof.
  unfold has_strat_kids. induction ks as [|k ks IH]; [reflexivity|]. cbn [map existsb].
  destruct (raw_swap k) as (_ & _ & _ & _ & _ & Hi & _). rewrite Hi, IH. reflexivity.
Qed.

Definition swapKA (r : list node * (carrier N * carrier N * carrier N * carrier N)) := (map swapN (fst r), snd r).

Lemma upd_kids_swap (upd : node -> result node) np bo date i : forall (ks : list node) val notl bop cpn,
  Forall (fun k => agreeN i k /\ upd (swapN k) = rmap swapN (upd k)) ks ->
  upd_kids upd np bo date i (map swapN ks) val notl bop cpn = rmap swapKA (upd_kids upd np bo date i ks val notl bop cpn).
Proof.
  induction ks as [|k ks IH]; intros val notl bop cpn HF; [reflexivity|].
  inversion HF as [|? ? [Ha Hu] HF']; subst. destruct k as [s|g kk lz pp].
  - cbn [map swapN upd_kids].
    set (D := F (s_id s)).
    assert (Q : forall (s0 : sec) c0, agree i s0 D -> s_id s0 = s_id s ->
      (if negb (s_needupdate (swap D s0))
       then ' (ks'', acc) <- upd_kids upd np bo date i (map swapN ks) val notl bop c0;; Ok (NSec (swap D s0) :: ks'', acc)
       else ' s1 <- sec_update date i (swap D s0);;
            ' (ks'', acc) <- upd_kids upd np bo date i (map swapN ks) (nadd N val (s_value s1)) (nadd N notl (nabs N (s_notl s1)))
                                      (if bo then nadd N bop (s_bidoffer_paid s1) else bop) c0;;
            Ok (NSec s1 :: ks'', acc)) =
      rmap swapKA
      (if negb (s_needupdate s0)
       then ' (ks'', acc) <- upd_kids upd np bo date i ks val notl bop c0;; Ok (NSec s0 :: ks'', acc)
       else ' s1 <- sec_update date i s0;;
            ' (ks'', acc) <- upd_kids upd np bo date i ks (nadd N val (s_value s1)) (nadd N notl (nabs N (s_notl s1)))
                                      (if bo then nadd N bop (s_bidoffer_paid s1) else bop) c0;;
            Ok (NSec s1 :: ks'', acc))).
    { intros s0 c0 Ha0 Hid.
      assert (En : s_needupdate (swap D s0) = s_needupdate s0) by (destruct s0, D; reflexivity). rewrite En.
      destruct (negb (s_needupdate s0)).
      - rewrite (IH _ _ _ _ HF'). destruct (upd_kids upd np bo date i ks val notl bop c0) as [[ks2 a2]|]; cbn; [|reflexivity].
        unfold swapKA; cbn. rewrite Hid. reflexivity.
      - rewrite (sec_update_swap _ _ _ _ Ha0). destruct (sec_update date i s0) as [s1|] eqn:Es; cbn; [|reflexivity].
        assert (Ev : s_value (swap D s1) = s_value s1 /\ s_notl (swap D s1) = s_notl s1 /\ s_bidoffer_paid (swap D s1) = s_bidoffer_paid s1)
          by (destruct s1, D; cbn; auto).
        destruct Ev as (E1 & E2 & E3). rewrite ?E1, ?E2, ?E3, (IH _ _ _ _ HF').
        destruct (upd_kids upd np bo date i ks _ _ _ c0) as [[ks2 a2]|]; cbn; [|reflexivity].
        unfold swapKA; cbn. erewrite sec_update_s_id by eassumption. rewrite Hid. reflexivity. }
    fold D. destruct np.
    + assert (Esc : set_s_capital (n0 N) (swap D s) = swap D (set_s_capital (n0 N) s)) by (destruct s, D; reflexivity).
      assert (Ecap : s_capital (swap D s) = s_capital s) by (destruct s, D; reflexivity).
      cbn zeta. rewrite Esc, Ecap. apply Q; [destruct s; exact Ha | destruct s; reflexivity].
    + apply Q; [exact Ha|reflexivity].
  - cbn [map upd_kids]. change (swapN (NStrat g kk lz pp)) with (swapN (NStrat g kk lz pp)).
    assert (Hns : forall x : node, match swapN (NStrat g kk lz pp) with NSec _ => True | _ => True end) by (intros; cbn; exact I).
    cbn [swapN]. cbn [swapN] in Hu. rewrite Hu.
    destruct (upd (NStrat g kk lz pp)) as [c1|] eqn:Ec; cbn; [|reflexivity].
    destruct (raw_swap c1) as (Hv & Hn & _ & Hb & _). rewrite Hv, Hn, Hb, (IH _ _ _ _ HF').
    destruct (upd_kids upd np bo date i ks _ _ _ cpn) as [[ks2 a2]|]; cbn; reflexivity.
Qed.

Fixpoint node_ind2 (P : node -> Prop)
         (Hs : forall s, P (NSec s))
         (Hg : forall g kids lz paper, Forall P kids -> P (NStrat g kids lz paper))
         (n : node) : P n :=
  match n with
  | NSec s => Hs s
  | NStrat g kids lz paper =>
    Hg g kids lz paper
       ((fix go (ks : list node) : Forall P ks :=
           match ks with
           | [] => Forall_nil _
           | k :: ks' => Forall_cons _ (node_ind2 P Hs Hg k) (go ks')
           end) kids)
  end.

Definition swapP (paper : option (node * bool)) : option (node * bool) :=
  match paper with Some (pn, st) => Some (swapN pn, st) | None => None end.

Lemma strat_finish_swap date i np (g : strat) (ks : list node) paper :
  PS date i -> match paper with Some (pn, _) => agreeN i pn | None => True end ->
  strat_finish ps date i np g (map swapN ks) (swapP paper) =
  rmap (fun gp => (fst gp, swapP (snd gp))) (strat_finish ps date i np g ks paper).
Proof.
  intros HPS Hp. unfold strat_finish. rewrite has_strat_kids_swap, write_ucols_swap.
  destruct (if has_strat_kids ks then match date with Some _ => Ok (set_g_ucols (write_ucols i ks (g_ucols g)) g) | None => Err EOther end else Ok g)
    as [g1|] eqn:E1; cbn [bind]; [|reflexivity].
  destruct (g_paper_trade (strat_set_rows i g1)); [|reflexivity].
  destruct paper as [[pn st]|]; cbn [swapP]; [|reflexivity].
  destruct np.
  - change (swapN pn, st) with (swapT (pn, st)). rewrite (HPS (pn, st) Hp).
    destruct (ps date (pn, st)) as [[pn1 st1]|]; cbn; [|reflexivity].
    unfold root_price. cbn. destruct pn1 as [s|g2 k2 l2 p2]; reflexivity.
  - cbn. unfold root_price. cbn. destruct pn as [s|g2 k2 l2 p2]; reflexivity.
Qed.

Lemma agree_kids_Forall i (ks : list node) : fold_right (fun k a => agreeN i k /\ a) True ks -> Forall (agreeN i) ks.
Proof. induction ks as [|k ks IH]; intros H; [constructor|]. destruct H as [H1 H2]. constructor; auto. Qed.

(* StrategyBase.update on a tree of any depth reads row i of the data only *)
Theorem node_update_swap date i (n : node) :
  PS date i -> agreeN i n -> node_update ps date i (swapN n) = rmap swapN (node_update ps date i n).
Proof.
  intros HPS. induction n as [s | g kids lz paper IH] using node_ind2; intros Ha.
  - cbn [swapN node_update]. rewrite (sec_update_swap _ _ _ _ Ha).
    destruct (sec_update date i s) as [s1|] eqn:Es; cbn; [|reflexivity].
    rewrite (sec_update_s_id _ _ _ Es). reflexivity.
  - destruct Ha as [Hk Hp]. cbn [swapN node_update]. fold (swapP paper). unfold strat_update_with.
    assert (HF : Forall (fun k => agreeN i k /\ node_update ps date i (swapN k) = rmap swapN (node_update ps date i k)) kids).
    { pose proof (agree_kids_Forall _ _ Hk) as Hk'. clear Hk. induction kids as [|k ks IHk]; [constructor|].
      inversion IH; subst. inversion Hk'; subst. constructor; [split; auto|auto]. }
    rewrite (upd_kids_swap _ _ _ _ _ _ _ _ _ _ HF).
    destruct (upd_kids (node_update ps date i) (strat_newpt date g) (g_bo_set (strat_roll date g)) date i kids
                       (g_capital (strat_roll date g)) (n0 N) (n0 N) (n0 N)) as [[ks1 [[[v1 n1] b1] c1]]|]; cbn; [|reflexivity].
    destruct (strat_write_value (strat_newpt date g) i (nadd N v1 c1) n1 b1 _) as [g2|]; cbn; [|reflexivity].
    change (map (kid_weight (g_fi g2) (g_value g2) (g_notl g2)) (map swapN ks1)) with (set_kid_weights (g_fi g2) (g_value g2) (g_notl g2) (map swapN ks1)).
    rewrite set_kid_weights_swap.
    rewrite (strat_finish_swap _ _ _ _ _ _ HPS Hp).
    destruct (strat_finish ps date i (strat_newpt date g) g2 _ paper) as [[g3 p3]|]; cbn; reflexivity.
Qed.

(* ---------- allocate / transact down a tree ---------- *)
(* every strategy of the tree (paper copies aside) stands on row i *)
Fixpoint clocked (i : nat) (n : node) : Prop :=
  match n with
  | NSec _ => True
  | NStrat g kids _ _ => row_of (g_now g) = i /\ fold_right (fun k a => clocked i k /\ a) True kids
  end.

Definition swapNA (r : node * option (adj N)) : node * option (adj N) := (swapN (fst r), snd r).

Lemma clocked_kids_Forall i (ks : list node) : fold_right (fun k a => clocked i k /\ a) True ks -> Forall (clocked i) ks.
Proof. induction ks as [|k ks IH]; intros H; [constructor|]. destruct H as [H1 H2]. constructor; auto. Qed.

(* the children loop of StrategyBase.allocate, named *)
Section AK.
Variable amount : carrier N.
Fixpoint alloc_kids (ks : list node) (g : strat) {struct ks} : result (list node * strat) :=
  match ks with
  | [] => Ok ([], g)
  | c :: ks' =>
    bind (node_allocate (g_now g) (g_comm g) (nmul N amount (raw_weight c)) false c) (fun r =>
    let '(c, oa) := r in
    let g := apply_adj oa g in
    bind (alloc_kids ks' g) (fun r2 => let '(ks'', g) := r2 in Ok (c :: ks'', g)))
  end.
End AK.

Lemma node_allocate_strat pnow comm amount upd (g : strat) kids lz paper :
  node_allocate pnow comm amount upd (NStrat g kids lz paper) =
  bind (alloc_kids amount kids (g_adjust amount (n0 N) true g)) (fun r =>
  let '(kids, g) := r in Ok (NStrat g kids lz paper, Some (mkAdj (nopp N amount) (n0 N) upd))).
Proof. reflexivity. Qed.

Lemma sec_allocate_id pnow comm amount upd (s s1 : sec) oa : sec_allocate pnow comm amount upd s = Ok (s1, oa) -> s_id s1 = s_id s.
Proof.
  intros E. unfold sec_allocate in E. apply bind_ok in E. destruct E as (s0 & E0 & E).
  assert (I0 : s_id s0 = s_id s) by (destruct (s_needupdate s || _); [eapply sec_update_s_id; eassumption | inversion E0; reflexivity]).
  assert (I1 : forall q u p' (x : sec) oa', sec_transact pnow comm q upd u p' s0 = Ok (x, oa') -> s_id x = s_id s0).
  { intros q u p' x oa' Ht. unfold sec_transact in Ht. apply bind_ok in Ht. destruct Ht as (y & Ey & Ht).
    assert (Iy : s_id y = s_id s0) by (destruct (u && _); [eapply sec_update_s_id; eassumption | inversion Ey; reflexivity]).
    destruct (nis_zero N q); [inversion Ht; subst; exact Iy|].
    destruct (match p' with Some _ => negb (s_bo_set y) | None => false end); [discriminate|].
    apply bind_ok in Ht. destruct Ht as ([[[fo o] fe] bp] & _ & Ht). inversion Ht; subst. destruct y; exact Iy. }
  destruct (nis_zero N amount); [inversion E; subst; exact I0|].
  destruct (s_price s0) as [pr|]; [|discriminate]. destruct (nis_zero N pr); [discriminate|]. cbv zeta in E.
  match type of E with (if nis_zero N ?qq then _ else _) = _ => destruct (nis_zero N qq) end; [inversion E; subst; exact I0|].
  apply bind_ok in E. destruct E as (q1 & _ & E). rewrite (I1 _ _ _ _ _ E). exact I0.
Qed.

Definition PAlloc (i : nat) (k : node) : Prop :=
  forall pnow comm amount upd, row_of pnow = i -> clocked i k -> agreeN i k ->
    node_allocate pnow comm amount upd (swapN k) = rmap swapNA (node_allocate pnow comm amount upd k).

Lemma alloc_kids_swap i amount : forall (ks : list node) (gg : strat),
  Forall (PAlloc i) ks -> Forall (clocked i) ks -> Forall (agreeN i) ks -> row_of (g_now gg) = i ->
  alloc_kids amount (map swapN ks) gg = rmap (fun r => (map swapN (fst r), snd r)) (alloc_kids amount ks gg).
Proof.
  induction ks as [|c ks IHk]; intros gg HF HC HA Hgg; [reflexivity|].
  pose proof (Forall_inv HF) as Hc0. pose proof (Forall_inv_tail HF) as HF'. pose proof (Forall_inv HC) as Cc.
  pose proof (Forall_inv_tail HC) as HC'. pose proof (Forall_inv HA) as Ac. pose proof (Forall_inv_tail HA) as HA'.
  cbn [map alloc_kids]. destruct (raw_swap c) as (_ & _ & Hw & _). rewrite Hw.
  rewrite (Hc0 _ _ _ _ Hgg Cc Ac).
  destruct (node_allocate (g_now gg) (g_comm gg) (nmul N amount (raw_weight c)) false c) as [[c1 oa1]|]; cbn [rmap bind swapNA fst snd]; [|reflexivity].
  assert (Hgg1 : row_of (g_now (apply_adj oa1 gg)) = i)
    by (destruct oa1 as [a1|]; [unfold apply_adj, g_adjust; destruct gg; exact Hgg | exact Hgg]).
  rewrite (IHk _ HF' HC' HA' Hgg1).
  destruct (alloc_kids amount ks (apply_adj oa1 gg)) as [[ks2 g2]|]; cbn; reflexivity.
Qed.

Theorem node_allocate_swap i (n : node) : PAlloc i n.
Proof.
  induction n as [s | g kids lz paper IH] using node_ind2; intros pnow comm amount upd Hp Hc Ha.
  - cbn [swapN node_allocate]. rewrite <- Hp in Ha. rewrite (sec_allocate_swap _ _ _ _ _ _ Ha).
    destruct (sec_allocate pnow comm amount upd s) as [[s1 oa]|] eqn:E; cbn; [|reflexivity].
    unfold swapNA; cbn. rewrite (sec_allocate_id _ _ _ _ _ _ _ E). reflexivity.
  - destruct Hc as [Hg Hk]. destruct Ha as [Hak Hap]. cbn [swapN]. fold (swapP paper). rewrite !node_allocate_strat.
    assert (Hg0 : row_of (g_now (g_adjust amount (n0 N) true g)) = i) by (unfold g_adjust; destruct g; exact Hg).
    rewrite (alloc_kids_swap i amount kids _ IH (clocked_kids_Forall _ _ Hk) (agree_kids_Forall _ _ Hak) Hg0).
    destruct (alloc_kids amount kids (g_adjust amount (n0 N) true g)) as [[ks2 g2]|]; cbn; reflexivity.
Qed.

(* allocate keeps every clock and every column *)
Lemma apply_adj_now (oa : option (adj N)) (g : strat) : g_now (apply_adj oa g) = g_now g.
Proof. destruct oa as [a|]; [unfold apply_adj, g_adjust; destruct g; reflexivity | reflexivity]. Qed.

Definition PKeep (k : node) : Prop :=
  forall pnow comm amount upd k' oa, node_allocate pnow comm amount upd k = Ok (k', oa) ->
    (forall i, clocked i k -> clocked i k') /\ (forall j, agreeN j k -> agreeN j k').

Lemma alloc_kids_keep amount : forall (ks : list node) (gg : strat) ks' g',
  Forall PKeep ks -> alloc_kids amount ks gg = Ok (ks', g') ->
  g_now g' = g_now gg /\
  (forall i, fold_right (fun k a => clocked i k /\ a) True ks -> fold_right (fun k a => clocked i k /\ a) True ks') /\
  (forall j, fold_right (fun k a => agreeN j k /\ a) True ks -> fold_right (fun k a => agreeN j k /\ a) True ks').
Proof.
  induction ks as [|c ks IHk]; intros gg ks' g' HF H.
  - cbn in H. inversion H; subst. repeat split; auto.
  - pose proof (Forall_inv HF) as Hc0. pose proof (Forall_inv_tail HF) as HF'. cbn [alloc_kids] in H.
    apply bind_ok in H. destruct H as ([c1 oa1] & Ec & H). apply bind_ok in H. destruct H as ([ks2 g2] & Ek & H). inversion H; subst.
    destruct (IHk _ _ _ HF' Ek) as (N1 & C1 & A1). destruct (Hc0 _ _ _ _ _ _ Ec) as [Cc Ac].
    rewrite N1, apply_adj_now. split; [reflexivity|]. split.
    + intros i [H1 H2]. cbn [fold_right]. split; [apply Cc; exact H1 | apply C1; exact H2].
    + intros j [H1 H2]. cbn [fold_right]. split; [apply Ac; exact H1 | apply A1; exact H2].
Qed.

Theorem node_allocate_keep (n : node) : PKeep n.
Proof.
  induction n as [s | g kids lz paper IH] using node_ind2; intros pnow comm amount upd k' oa H.
  - cbn [node_allocate] in H. apply bind_ok in H. destruct H as ([s1 oa1] & E & H). inversion H; subst. split; [intros; exact I|].
    intros j Ha. cbn [agreeN] in *. rewrite (sec_allocate_id _ _ _ _ _ _ _ E). eapply sec_allocate_agree; eauto.
  - rewrite node_allocate_strat in H. apply bind_ok in H. destruct H as ([ks2 g2] & Ek & H). inversion H; subst.
    destruct (alloc_kids_keep _ _ _ _ _ IH Ek) as (N1 & C1 & A1).
    split.
    + intros i [Hg Hk]. cbn [clocked]. split; [|apply C1; exact Hk]. rewrite N1. unfold g_adjust; destruct g; exact Hg.
    + intros j [Hk Hp]. cbn [agreeN]. split; [apply A1; exact Hk | exact Hp].
Qed.

(* StrategyBase.flatten's loop (market-value branch), named *)
Lemma flatten_kids_swap i : forall (ks : list node) (g : strat),
  Forall (clocked i) ks -> Forall (agreeN i) ks -> row_of (g_now g) = i ->
  flatten_kids false (map swapN ks) g = rmap (fun r => (map swapN (fst r), snd r)) (flatten_kids false ks g).
Proof.
  induction ks as [|c ks IHk]; intros g HC HA Hg; [reflexivity|].
  pose proof (Forall_inv HC) as Cc. pose proof (Forall_inv_tail HC) as HC'. pose proof (Forall_inv HA) as Ac. pose proof (Forall_inv_tail HA) as HA'.
  cbn [map flatten_kids]. destruct (raw_swap c) as (Hv & _). rewrite Hv.
  destruct (negb (neqb N (raw_value c) (n0 N))).
  - rewrite (node_allocate_swap i c _ _ _ _ Hg Cc Ac).
    destruct (node_allocate (g_now g) (g_comm g) (nopp N (raw_value c)) false c) as [[c1 oa1]|]; cbn [rmap bind swapNA fst snd]; [|reflexivity].
    assert (Hg1 : row_of (g_now (apply_adj oa1 g)) = i) by (rewrite apply_adj_now; exact Hg).
    rewrite (IHk _ HC' HA' Hg1). destruct (flatten_kids false ks (apply_adj oa1 g)) as [[ks2 g2]|]; cbn; reflexivity.
  - cbn [bind]. assert (Hg1 : row_of (g_now (apply_adj None g)) = i) by exact Hg.
    rewrite (IHk _ HC' HA' Hg1). destruct (flatten_kids false ks (apply_adj None g)) as [[ks2 g2]|]; cbn; reflexivity.
Qed.

Lemma flatten_kids_keep : forall (ks : list node) (g : strat) ks' g',
  flatten_kids false ks g = Ok (ks', g') ->
  g_now g' = g_now g /\
  (forall i, Forall (clocked i) ks -> Forall (clocked i) ks') /\ (forall j, Forall (agreeN j) ks -> Forall (agreeN j) ks').
Proof.
  induction ks as [|c ks IHk]; intros g ks' g' H.
  - cbn in H. inversion H; subst. repeat split; auto.
  - cbn [flatten_kids] in H. apply bind_ok in H. destruct H as ([c1 oa1] & Ec & H).
    apply bind_ok in H. destruct H as ([ks2 g2] & Ek & H). inversion H; subst.
    destruct (IHk _ _ _ Ek) as (N1 & C1 & A1). rewrite N1, apply_adj_now. split; [reflexivity|].
    assert (K : (forall i, clocked i c -> clocked i c1) /\ (forall j, agreeN j c -> agreeN j c1)).
    { destruct (negb (neqb N (raw_value c) (n0 N))); [exact (node_allocate_keep c _ _ _ _ _ _ Ec) | inversion Ec; subst; split; auto]. }
    destruct K as [Kc Ka]. split.
    + intros i HC. constructor; [apply Kc; exact (Forall_inv HC) | apply C1; exact (Forall_inv_tail HC)].
    + intros j HA. constructor; [apply Ka; exact (Forall_inv HA) | apply A1; exact (Forall_inv_tail HA)].
Qed.

(* an update puts every strategy of the tree on its date *)
Lemma strat_roll_now date (g : strat) : g_now (strat_roll date g) = date.
Proof. unfold strat_roll. destruct (g_now g); [destruct (onat_eqb date _)|]; destruct g; reflexivity. Qed.

Lemma swv_now_gen np i v nl b (g g' : strat) : strat_write_value np i v nl b g = Ok g' -> g_now g' = g_now g.
Proof.
  unfold strat_write_value. destruct (strat_changed _ _ _ _); intros H; [|inversion H; reflexivity].
  apply bind_ok in H. destruct H as (p & _ & H). inversion H; subst.
  unfold strat_set_price, strat_set_value. destruct (g_bo_set _); destruct g; reflexivity.
Qed.

Lemma sfin_now_gen date i np (g g' : strat) kids paper paper' :
  strat_finish ps date i np g kids paper = Ok (g', paper') -> g_now g' = g_now g.
Proof.
  unfold strat_finish. intros H. apply bind_ok in H. destruct H as (g1 & E1 & H).
  assert (C1 : g_now g1 = g_now g).
  { destruct (has_strat_kids kids); [|inversion E1; reflexivity]. destruct date; [|discriminate]. inversion E1; subst. destruct g; reflexivity. }
  destruct (g_paper_trade _).
  - destruct paper as [p|]; [|discriminate]. apply bind_ok in H. destruct H as (p1 & _ & H). inversion H; subst.
    rewrite <- C1. unfold strat_set_price, strat_set_rows. destruct g1; reflexivity.
  - inversion H; subst. rewrite <- C1. unfold strat_set_rows. destruct g1; reflexivity.
Qed.

Lemma clocked_set_weight i w (k : node) : clocked i k -> clocked i (set_weight w k).
Proof. destruct k as [s|g kk lz pp]; cbn; [auto | destruct g; auto]. Qed.

Lemma clocked_kid_weights i fi v nl (ks : list node) : Forall (clocked i) ks -> Forall (clocked i) (set_kid_weights fi v nl ks).
Proof.
  unfold set_kid_weights. induction ks as [|k ks IH]; intros H; [constructor|]. cbn [map].
  constructor; [|apply IH; exact (Forall_inv_tail H)]. pose proof (Forall_inv H) as Hk.
  unfold kid_weight. destruct (skipped k); [exact Hk|]. destruct fi; apply clocked_set_weight; exact Hk.
Qed.

Lemma upd_kids_clocked (upd : node -> result node) np bo date inow i : forall (ks : list node) val notl bop cpn ks' acc,
  Forall (fun k => forall k', upd k = Ok k' -> clocked i k') ks ->
  upd_kids upd np bo date inow ks val notl bop cpn = Ok (ks', acc) -> Forall (clocked i) ks'.
Proof.
  induction ks as [|k ks IH]; intros val notl bop cpn ks' acc HF H.
  - cbn in H. inversion H; subst. constructor.
  - pose proof (Forall_inv HF) as Hk. pose proof (Forall_inv_tail HF) as HF'. destruct k as [s|g kk lz pp].
    + cbn [upd_kids] in H.
      assert (Q : forall (s0 : sec) c0,
                (if negb (s_needupdate s0)
                 then ' (ks'', acc0) <- upd_kids upd np bo date inow ks val notl bop c0;; Ok (NSec s0 :: ks'', acc0)
                 else ' s1 <- sec_update date inow s0;;
                      ' (ks'', acc0) <- upd_kids upd np bo date inow ks (nadd N val (s_value s1)) (nadd N notl (nabs N (s_notl s1)))
                                                (if bo then nadd N bop (s_bidoffer_paid s1) else bop) c0;;
                      Ok (NSec s1 :: ks'', acc0)) = Ok (ks', acc) -> Forall (clocked i) ks').
      { intros s0 c0 H0. destruct (negb (s_needupdate s0)).
        - apply bind_ok in H0. destruct H0 as ([ks2 a2] & E & H0). inversion H0; subst. constructor; [exact I | eapply IH; eauto].
        - apply bind_ok in H0. destruct H0 as (s1 & Es & H0). apply bind_ok in H0. destruct H0 as ([ks2 a2] & E & H0).
          inversion H0; subst. constructor; [exact I | eapply IH; eauto]. }
      destruct np; [exact (Q _ _ H) | exact (Q _ _ H)].
    + cbn [upd_kids] in H. apply bind_ok in H. destruct H as (c1 & Ec & H).
      apply bind_ok in H. destruct H as ([ks2 a2] & E & H). inversion H; subst.
      constructor; [eapply Hk; eauto | eapply IH; eauto].
Qed.

Lemma Forall_clocked_fold i (ks : list node) : Forall (clocked i) ks -> fold_right (fun k a => clocked i k /\ a) True ks.
Proof. induction ks as [|k ks IH]; intros H; [exact I|]. split; [exact (Forall_inv H) | apply IH; exact (Forall_inv_tail H)]. Qed.

Theorem node_update_clocked date i (n : node) : forall n', node_update ps date i n = Ok n' -> clocked (row_of date) n'.
Proof.
  induction n as [s | g kids lz paper IH] using node_ind2; intros n' H.
  - cbn [node_update] in H. apply bind_ok in H. destruct H as (s1 & _ & H). inversion H; subst. exact I.
  - cbn [node_update] in H. apply bind_ok in H. destruct H as ([[[np g1] kids1] [[val notl] bop]] & E0 & H).
    unfold strat_update_with in E0. apply bind_ok in E0. destruct E0 as ([kids0 [[[v0 nn0] b0] c0]] & Eu & E0).
    inversion E0; subst; clear E0.
    apply bind_ok in H. destruct H as (g2 & Ew & H). apply bind_ok in H. destruct H as ([g3 p3] & Ef & H). inversion H; subst.
    cbn [clocked]. split.
    + rewrite (sfin_now_gen _ _ _ _ _ _ _ _ Ef), (swv_now_gen _ _ _ _ _ _ _ Ew).
      match goal with |- row_of (g_now (set_g_capital ?v ?gg)) = _ =>
        change (g_now (set_g_capital v gg)) with (g_now gg) end.
      rewrite strat_roll_now. reflexivity.
    + apply Forall_clocked_fold. apply clocked_kid_weights. eapply upd_kids_clocked; [|exact Eu]. exact IH.
Qed.

(* ---------- the columns never change, so agreement on any row is kept ---------- *)
Definition PSA (j : nat) : Prop := forall date p p', ps date p = Ok p' -> agreeN j (fst p) -> agreeN j (fst p').


Lemma agree_set_weight j w (k : node) : agreeN j k -> agreeN j (set_weight w k).
Proof. destruct k as [s|g kk lz pp]; cbn; [destruct s; exact (fun H => H) | exact (fun H => H)]. Qed.

Lemma agree_kid_weight j fi v nl (k : node) : agreeN j k -> agreeN j (kid_weight fi v nl k).
Proof. unfold kid_weight. destruct (skipped k); [auto|]. destruct fi; apply agree_set_weight. Qed.

Lemma agree_kid_weights j fi v nl (ks : list node) :
  fold_right (fun k a => agreeN j k /\ a) True ks ->
  fold_right (fun k a => agreeN j k /\ a) True (set_kid_weights fi v nl ks).
Proof.
  unfold set_kid_weights. induction ks as [|k ks IH]; intros H; [exact I|]. destruct H as [H1 H2]. cbn [map fold_right].
  split; [apply agree_kid_weight; exact H1 | apply IH; exact H2].
Qed.

Lemma upd_kids_agree (upd : node -> result node) np bo date i j : forall (ks : list node) val notl bop cpn ks' acc,
  Forall (fun k => forall k', upd k = Ok k' -> agreeN j k -> agreeN j k') ks ->
  upd_kids upd np bo date i ks val notl bop cpn = Ok (ks', acc) ->
  fold_right (fun k a => agreeN j k /\ a) True ks -> fold_right (fun k a => agreeN j k /\ a) True ks'.
Proof.
  induction ks as [|k ks IH]; intros val notl bop cpn ks' acc HF H Ha.
  - cbn in H. inversion H; subst. exact I.
  - inversion HF as [|? ? Hk HF']; subst. destruct Ha as [Ha1 Ha2]. destruct k as [s|g kk lz pp].
    + cbn [upd_kids] in H.
      assert (Q : forall (s0 : sec) c0, agree j s0 (F (s_id s0)) ->
                (if negb (s_needupdate s0)
                 then ' (ks'', acc0) <- upd_kids upd np bo date i ks val notl bop c0;; Ok (NSec s0 :: ks'', acc0)
                 else ' s1 <- sec_update date i s0;;
                      ' (ks'', acc0) <- upd_kids upd np bo date i ks (nadd N val (s_value s1)) (nadd N notl (nabs N (s_notl s1)))
                                                (if bo then nadd N bop (s_bidoffer_paid s1) else bop) c0;;
                      Ok (NSec s1 :: ks'', acc0)) = Ok (ks', acc) ->
                fold_right (fun k a => agreeN j k /\ a) True ks').
      { intros s0 c0 Ha0 H0. destruct (negb (s_needupdate s0)).
        - apply bind_ok in H0. destruct H0 as ([ks2 a2] & E & H0). inversion H0; subst. cbn [fold_right agreeN].
          split; [exact Ha0 | eapply IH; eauto].
        - apply bind_ok in H0. destruct H0 as (s1 & Es & H0). apply bind_ok in H0. destruct H0 as ([ks2 a2] & E & H0).
          inversion H0; subst. cbn [fold_right agreeN]. split; [|eapply IH; eauto].
          rewrite (sec_update_s_id _ _ _ Es). eapply sec_update_agree; eauto. }
      destruct np; [|exact (Q _ _ Ha1 H)]. refine (Q (set_s_capital (n0 N) s) _ _ H). destruct s; exact Ha1.
    + cbn [upd_kids] in H. apply bind_ok in H. destruct H as (c1 & Ec & H).
      apply bind_ok in H. destruct H as ([ks2 a2] & E & H). inversion H; subst. cbn [fold_right].
      split; [eapply Hk; eauto | eapply IH; eauto].
Qed.

Theorem node_update_agree date i j (n : node) : PSA j -> forall n',
  node_update ps date i n = Ok n' -> agreeN j n -> agreeN j n'.
Proof.
  intros HP. induction n as [s | g kids lz paper IH] using node_ind2; intros n' H Ha.
  - cbn [node_update] in H. apply bind_ok in H. destruct H as (s1 & Es & H). inversion H; subst. cbn [agreeN] in *.
    rewrite (sec_update_s_id _ _ _ Es). eapply sec_update_agree; eauto.
  - destruct Ha as [Hk Hp]. cbn [node_update] in H. apply bind_ok in H. destruct H as ([[[np g1] kids1] [[val notl] bop]] & E0 & H).
    unfold strat_update_with in E0. apply bind_ok in E0. destruct E0 as ([kids0 [[[v0 nn0] b0] c0]] & Eu & E0).
    inversion E0; subst; clear E0.
    apply bind_ok in H. destruct H as (g2 & Ew & H). apply bind_ok in H. destruct H as ([g3 p3] & Ef & H). inversion H; subst.
    cbn [agreeN]. split.
    + apply agree_kid_weights. eapply upd_kids_agree; [|exact Eu|exact Hk].
      eapply Forall_impl; [|exact IH]. intros k Hk0 k' Hu Hak. eapply Hk0; eauto.
    + unfold strat_finish in Ef. apply bind_ok in Ef. destruct Ef as (g4 & _ & Ef).
      destruct (g_paper_trade _).
      * destruct paper as [[pn st]|]; [|discriminate]. apply bind_ok in Ef. destruct Ef as ([pn1 st1] & Ep & Ef). inversion Ef; subst.
        destruct (strat_newpt date g); [exact (HP _ _ _ Ep Hp) | inversion Ep; subst; exact Hp].
      * inversion Ef; subst. exact Hp.
Qed.

(* ---------- root.update: the bankruptcy test, the liquidation, the nested refresh ---------- *)
Lemma Forall_agree_fold j (ks : list node) : Forall (agreeN j) ks -> fold_right (fun k a => agreeN j k /\ a) True ks.
Proof. induction ks as [|k ks IH]; intros H; [exact I|]. split; [exact (Forall_inv H) | apply IH; exact (Forall_inv_tail H)]. Qed.

Definition swapSU (r : bool * strat * list node * (carrier N * carrier N * carrier N)) :=
  let '(np, g, ks, acc) := r in (np, g, map swapN ks, acc).

Lemma suw_swap date i (g : strat) (kids : list node) :
  PS date i -> Forall (agreeN i) kids ->
  strat_update_with (node_update ps date i) date i g (map swapN kids) =
  rmap swapSU (strat_update_with (node_update ps date i) date i g kids).
Proof.
  intros HPS HA. unfold strat_update_with.
  assert (HF : Forall (fun k => agreeN i k /\ node_update ps date i (swapN k) = rmap swapN (node_update ps date i k)) kids).
  { eapply Forall_impl; [|exact HA]. intros k Hk. split; [exact Hk | apply node_update_swap; assumption]. }
  rewrite (upd_kids_swap _ _ _ _ _ _ _ _ _ _ HF).
  destruct (upd_kids (node_update ps date i) (strat_newpt date g) (g_bo_set (strat_roll date g)) date i kids
                     (g_capital (strat_roll date g)) (n0 N) (n0 N) (n0 N)) as [[ks1 [[[v1 n1] b1] c1]]|]; cbn; reflexivity.
Qed.

Lemma suw_keep date i j (g g1 : strat) (kids kids1 : list node) np acc :
  PSA j -> strat_update_with (node_update ps date i) date i g kids = Ok (np, g1, kids1, acc) ->
  g_now g1 = date /\ Forall (clocked (row_of date)) kids1 /\ (Forall (agreeN j) kids -> Forall (agreeN j) kids1).
Proof.
  intros HP H. unfold strat_update_with in H. apply bind_ok in H. destruct H as ([kids0 [[[v0 nn0] b0] c0]] & Eu & H).
  inversion H; subst; clear H. split; [|split].
  - match goal with |- g_now (set_g_capital ?v ?gg) = _ => change (g_now (set_g_capital v gg)) with (g_now gg) end. apply strat_roll_now.
  - eapply upd_kids_clocked; [|exact Eu]. apply Forall_forall. intros k _ k' Hk. eapply node_update_clocked; eauto.
  - intros HA. apply agree_kids_Forall. eapply upd_kids_agree; [|exact Eu|apply Forall_agree_fold; exact HA].
    apply Forall_forall. intros k _ k' Hu Hak. eapply node_update_agree; eauto.
Qed.

Lemma all_skipped_swap (ks : list node) : all_skipped (map swapN ks) = all_skipped ks.
Proof.
  unfold all_skipped. induction ks as [|k ks IH]; [reflexivity|]. cbn [map forallb].
  destruct (raw_swap k) as (_ & _ & _ & _ & Hs & _). rewrite Hs, IH. reflexivity.
Qed.

Lemma date_row_row nrows date i : date_row nrows date = Ok i -> i = row_of date.
Proof. unfold date_row. destruct date as [d|]; [destruct (Nat.ltb d nrows); [|discriminate]|]; intros H; inversion H; reflexivity. Qed.

Theorem root_update_swap date (tr : tree) :
  PS date (row_of date) -> PSA (row_of date) -> agreeN (row_of date) (fst tr) ->
  root_update ps date (swapT tr) = rmap swapT (root_update ps date tr).
Proof.
  intros HPS HPA Ha. unfold root_update, swapT. destruct tr as [n st]. cbn [fst snd] in *.
  destruct n as [s|g kids lz paper]; [reflexivity|]. destruct Ha as [Hak Hap]. cbn [swapN]. fold (swapP paper).
  destruct (date_row (g_nrows g) date) as [i|] eqn:Ed; cbn [bind]; [|reflexivity].
  pose proof (date_row_row _ _ _ Ed) as Hi. subst i.
  pose proof (agree_kids_Forall _ _ Hak) as HA.
  rewrite (suw_swap _ _ _ _ HPS HA).
  destruct (strat_update_with (node_update ps date (row_of date)) date (row_of date) g kids) as [[[[np g1] kids1] [[val notl] bop]]|] eqn:E1;
    cbn [rmap bind swapSU]; [|reflexivity].
  destruct (suw_keep _ _ (row_of date) _ _ _ _ _ _ HPA E1) as (Hn1 & HC1 & HA1). specialize (HA1 HA).
  destruct (nltb N val (n0 N) && negb (g_bankrupt g1) && negb (g_fi g1) && negb (nis_zero N val)).
  - (* the bankruptcy branch *)
    assert (Hgb : row_of (g_now (set_g_bankrupt true g1)) = row_of date) by (rewrite <- Hn1; destruct g1; reflexivity).
    rewrite (flatten_kids_swap _ _ _ HC1 HA1 Hgb).
    destruct (flatten_kids false kids1 (set_g_bankrupt true g1)) as [[kids2 g2]|] eqn:E2; cbn [rmap bind fst snd]; [|reflexivity].
    destruct (flatten_kids_keep _ _ _ _ E2) as (Hn2 & HC2 & HA2). specialize (HC2 _ HC1). specialize (HA2 _ HA1).
    destruct (strat_write_value np (row_of date) val notl bop g2) as [g3|]; cbn [bind]; [|reflexivity].
    rewrite all_skipped_swap. destruct (all_skipped kids2).
    + rewrite (strat_finish_swap _ _ _ _ _ _ HPS Hap).
      destruct (strat_finish ps date (row_of date) np g3 kids2 paper) as [[g4 p4]|]; cbn; reflexivity.
    + rewrite (suw_swap _ _ _ _ HPS HA2).
      destruct (strat_update_with (node_update ps date (row_of date)) date (row_of date) g3 kids2) as [[[[np5 g5] kids5] [[val5 notl5] bop5]]|] eqn:E5;
        cbn [rmap bind swapSU]; [|reflexivity].
      destruct (strat_write_value false (row_of date) val5 notl5 bop5 g5) as [g6|]; cbn [bind]; [|reflexivity].
      change (map (kid_weight false (g_value g6) (g_notl g6)) (map swapN kids5)) with (set_kid_weights false (g_value g6) (g_notl g6) (map swapN kids5)).
      rewrite set_kid_weights_swap.
      rewrite (strat_finish_swap _ _ _ _ _ _ HPS Hap).
      destruct (strat_finish ps date (row_of date) false g6 (set_kid_weights false (g_value g6) (g_notl g6) kids5) paper) as [[g7 p7]|] eqn:E7;
        cbn [rmap bind fst snd]; [|reflexivity].
      change (map (kid_weight false (g_value g7) (g_notl g7)) (map swapN (set_kid_weights false (g_value g6) (g_notl g6) kids5)))
        with (set_kid_weights false (g_value g7) (g_notl g7) (map swapN (set_kid_weights false (g_value g6) (g_notl g6) kids5))).
      rewrite set_kid_weights_swap.
      assert (Hp7 : match p7 with Some (pn, _) => agreeN (row_of date) pn | None => True end).
      { unfold strat_finish in E7. apply bind_ok in E7. destruct E7 as (g8 & _ & E7). destruct (g_paper_trade _).
        - destruct paper as [[pn0 st0]|]; [|discriminate]. cbn [bind] in E7. inversion E7; subst. exact Hap.
        - inversion E7; subst. exact Hap. }
      rewrite (strat_finish_swap _ _ _ _ _ _ HPS Hp7).
      destruct (strat_finish ps date (row_of date) np g7 _ p7) as [[g9 p9]|]; cbn; reflexivity.
  - destruct (strat_write_value np (row_of date) val notl bop g1) as [g2|]; cbn [bind]; [|reflexivity].
    change (map (kid_weight (g_fi g2) (g_value g2) (g_notl g2)) (map swapN kids1)) with (set_kid_weights (g_fi g2) (g_value g2) (g_notl g2) (map swapN kids1)).
    rewrite set_kid_weights_swap, (strat_finish_swap _ _ _ _ _ _ HPS Hap).
    destruct (strat_finish ps date (row_of date) np g2 _ paper) as [[g3 p3]|]; cbn; reflexivity.
Qed.

Definition paper_agree (j : nat) (paper : option (node * bool)) : Prop :=
  match paper with Some (pn, _) => agreeN j pn | None => True end.

Lemma sfin_paper_agree date i j np (g g' : strat) kids paper paper' :
  PSA j -> strat_finish ps date i np g kids paper = Ok (g', paper') -> paper_agree j paper -> paper_agree j paper'.
Proof.
  intros HP H Hp. unfold strat_finish in H. apply bind_ok in H. destruct H as (g1 & _ & H). destruct (g_paper_trade _).
  - destruct paper as [[pn st]|]; [|discriminate]. apply bind_ok in H. destruct H as ([pn1 st1] & Ep & H). inversion H; subst.
    destruct np; [exact (HP _ _ _ Ep Hp) | inversion Ep; subst; exact Hp].
  - inversion H; subst. exact Hp.
Qed.

Lemma agree_kid_weights_F j fi v nl (ks : list node) : Forall (agreeN j) ks -> Forall (agreeN j) (set_kid_weights fi v nl ks).
Proof. intros H. apply agree_kids_Forall. apply agree_kid_weights. apply Forall_agree_fold. exact H. Qed.

Theorem root_update_agree date j (tr tr' : tree) :
  PSA j -> root_update ps date tr = Ok tr' -> agreeN j (fst tr) -> agreeN j (fst tr').
Proof.
  intros HP H Ha. unfold root_update in H. destruct tr as [n st]. cbn [fst snd] in *.
  destruct n as [s|g kids lz paper]; [discriminate|]. destruct Ha as [Hak Hap]. fold (paper_agree j paper) in Hap.
  apply bind_ok in H. destruct H as (i & Ed & H).
  apply bind_ok in H. destruct H as ([[[np g1] kids1] [[val notl] bop]] & E1 & H).
  destruct (suw_keep _ _ j _ _ _ _ _ _ HP E1) as (_ & _ & HA1). specialize (HA1 (agree_kids_Forall _ _ Hak)).
  destruct (nltb N val (n0 N) && negb (g_bankrupt g1) && negb (g_fi g1) && negb (nis_zero N val)).
  - apply bind_ok in H. destruct H as ([kids2 g2] & E2 & H).
    destruct (flatten_kids_keep _ _ _ _ E2) as (_ & _ & HA2). specialize (HA2 _ HA1).
    apply bind_ok in H. destruct H as (g3 & _ & H). destruct (all_skipped kids2).
    + apply bind_ok in H. destruct H as ([g4 p4] & Ef & H). inversion H; subst. cbn [fst agreeN].
      split; [apply Forall_agree_fold; exact HA2 | exact (sfin_paper_agree _ _ _ _ _ _ _ _ _ HP Ef Hap)].
    + apply bind_ok in H. destruct H as ([[[np5 g5] kids5] [[val5 notl5] bop5]] & E5 & H).
      destruct (suw_keep _ _ j _ _ _ _ _ _ HP E5) as (_ & _ & HA5). specialize (HA5 HA2).
      apply bind_ok in H. destruct H as (g6 & _ & H). apply bind_ok in H. destruct H as ([g7 p7] & E7 & H).
      apply bind_ok in H. destruct H as ([g9 p9] & E9 & H). inversion H; subst. cbn [fst agreeN].
      split; [apply Forall_agree_fold; do 2 apply agree_kid_weights_F; exact HA5|].
      exact (sfin_paper_agree _ _ _ _ _ _ _ _ _ HP E9 (sfin_paper_agree _ _ _ _ _ _ _ _ _ HP E7 Hap)).
  - apply bind_ok in H. destruct H as (g2 & _ & H). apply bind_ok in H. destruct H as ([g3 p3] & Ef & H). inversion H; subst.
    cbn [fst agreeN]. split; [apply Forall_agree_fold; apply agree_kid_weights_F; exact HA1 | exact (sfin_paper_agree _ _ _ _ _ _ _ _ _ HP Ef Hap)].
Qed.

(* "if self.root.stale: self.root.update(self.root.now)" *)
Lemma root_now_swap (tr : tree) : root_now (swapT tr) = root_now tr.
Proof. destruct tr as [n st]. destruct n as [s|g k l p]; cbn; [generalize (F (s_id s)); intros D; destruct s, D; reflexivity | reflexivity]. Qed.

Theorem refresh_swap (tr : tree) :
  PS (root_now tr) (row_of (root_now tr)) -> PSA (row_of (root_now tr)) -> agreeN (row_of (root_now tr)) (fst tr) ->
  refresh ps (swapT tr) = rmap swapT (refresh ps tr).
Proof.
  intros H1 H2 H3. unfold refresh. rewrite root_now_swap. change (snd (swapT tr)) with (snd tr).
  destruct (snd tr); [apply root_update_swap; assumption | reflexivity].
Qed.

Theorem refresh_agree j (tr tr' : tree) : PSA j -> refresh ps tr = Ok tr' -> agreeN j (fst tr) -> agreeN j (fst tr').
Proof. unfold refresh. intros HP H Ha. destruct (snd tr); [eapply root_update_agree; eauto | inversion H; subst; exact Ha]. Qed.

Lemma root_update_now date (tr tr' : tree) : root_update ps date tr = Ok tr' -> root_now tr' = date.
Proof.
  intros H. unfold root_update in H. destruct tr as [n st]. cbn [fst snd] in *.
  destruct n as [s|g kids lz paper]; [discriminate|].
  apply bind_ok in H. destruct H as (i & Ed & H).
  apply bind_ok in H. destruct H as ([[[np g1] kids1] [[val notl] bop]] & E1 & H).
  assert (Hn1 : g_now g1 = date).
  { unfold strat_update_with in E1. apply bind_ok in E1. destruct E1 as ([kids0 [[[v0 nn0] b0] c0]] & _ & E1). inversion E1; subst.
    match goal with |- g_now (set_g_capital ?v ?gg) = _ => change (g_now (set_g_capital v gg)) with (g_now gg) end. apply strat_roll_now. }
  destruct (nltb N val (n0 N) && negb (g_bankrupt g1) && negb (g_fi g1) && negb (nis_zero N val)).
  - apply bind_ok in H. destruct H as ([kids2 g2] & E2 & H). destruct (flatten_kids_keep _ _ _ _ E2) as (Hn2 & _ & _).
    assert (Hb : g_now (set_g_bankrupt true g1) = g_now g1) by (destruct g1; reflexivity).
    apply bind_ok in H. destruct H as (g3 & Ew & H). pose proof (swv_now_gen _ _ _ _ _ _ _ Ew) as Hn3. destruct (all_skipped kids2).
    + apply bind_ok in H. destruct H as ([g4 p4] & Ef & H). inversion H; subst. cbn.
      rewrite (sfin_now_gen _ _ _ _ _ _ _ _ Ef), Hn3, Hn2, Hb. reflexivity.
    + apply bind_ok in H. destruct H as ([[[np5 g5] kids5] [[val5 notl5] bop5]] & E5 & H).
      apply bind_ok in H. destruct H as (g6 & Ew6 & H). apply bind_ok in H. destruct H as ([g7 p7] & E7 & H).
      apply bind_ok in H. destruct H as ([g9 p9] & E9 & H). inversion H; subst. cbn.
      rewrite (sfin_now_gen _ _ _ _ _ _ _ _ E9), (sfin_now_gen _ _ _ _ _ _ _ _ E7), (swv_now_gen _ _ _ _ _ _ _ Ew6).
      unfold strat_update_with in E5. apply bind_ok in E5. destruct E5 as ([kids0 [[[v0 nn0] b0] c0]] & _ & E5). inversion E5; subst.
      match goal with |- g_now (set_g_capital ?v ?gg) = _ => change (g_now (set_g_capital v gg)) with (g_now gg) end. apply strat_roll_now.
  - apply bind_ok in H. destruct H as (g2 & Ew & H). apply bind_ok in H. destruct H as ([g3 p3] & Ef & H). inversion H; subst. cbn.
    rewrite (sfin_now_gen _ _ _ _ _ _ _ _ Ef), (swv_now_gen _ _ _ _ _ _ _ Ew). first [exact Hn1 | reflexivity].
Qed.

(* ---------- every date up to t ---------- *)
Definition agree_upto (t : nat) (n : node) : Prop := forall j, j <= t -> agreeN j n.

Fixpoint updates (steps : list (option nat * nat)) (n : node) : result node :=
  match steps with
  | [] => Ok n
  | (date, i) :: rest => bind (node_update ps date i n) (updates rest)
  end.

(* No look-ahead in the engine.  Any tree (any depth), any alternative data set that agrees with the tree's data on rows
   0..t, any sequence of updates to rows <= t: running on the alternative data gives the tree run on the original data
   with the columns swapped — the same values, positions, cash, weights, histories, the same error if it fails.  Any number
   instance, so in the float instance "the same" is bit for bit. *)
Theorem updates_swap t (steps : list (option nat * nat)) :
  Forall (fun st => PS (fst st) (snd st) /\ snd st <= t) steps -> (forall j, j <= t -> PSA j) ->
  forall n, agree_upto t n -> updates steps (swapN n) = rmap swapN (updates steps n).
Proof.
  intros Hs HP. induction steps as [|[date i] rest IH]; intros n Ha; [reflexivity|].
  inversion Hs as [|? ? [Hps Hi] Hs']; subst. cbn in Hi, Hps. cbn [updates].
  rewrite (node_update_swap date i n Hps (Ha i Hi)).
  destruct (node_update ps date i n) as [n1|] eqn:E1; cbn; [|reflexivity].
  apply IH; [exact Hs'|]. intros j Hj. eapply node_update_agree; [exact (HP j Hj) | exact E1 | exact (Ha j Hj)].
Qed.
End EL.

(* ---------- the paper copies, level by level, and Backtest.run's loop ---------- *)
Section Levels.
Variable N : num.
Variable A : Type.
Variable F : nat -> cols N.
Notation tree := (tree N A).
Variable run : (option nat -> tree -> result tree) -> tree -> result tree.

(* what is assumed of Strategy.run (the algos): on a tree standing on [date] it commutes with the swap of the securities'
   off-row data, given that the paper step below does; it keeps every column and the clock *)
Definition RUNS : Prop :=
  forall psb (p : tree), PS N A F psb (root_now p) (row_of (root_now p)) -> PSA N A F psb (row_of (root_now p)) ->
    agreeN N A F (row_of (root_now p)) (fst p) -> run psb (swapT N A F p) = rmap (swapT N A F) (run psb p).
Definition RUNK : Prop :=
  forall psb (p p' : tree), run psb p = Ok p' ->
    root_now p' = root_now p /\ forall j, PSA N A F psb j -> agreeN N A F j (fst p) -> agreeN N A F j (fst p').

Lemma bankrupt_swap (p : tree) :
  match fst (swapT N A F p) with NStrat g _ _ _ => g_bankrupt g | NSec _ => false end =
  match fst p with NStrat g _ _ _ => g_bankrupt g | NSec _ => false end.
Proof. destruct p as [n st]. destruct n; reflexivity. Qed.

Theorem paper_levels : RUNS -> RUNK -> forall l,
  (forall date, PS N A F (paper_step_l run l) date (row_of date)) /\ (forall j, PSA N A F (paper_step_l run l) j).
Proof.
  intros HRS HRK. induction l as [|l [IHs IHa]].
  - split; [intros date p _; reflexivity | intros j date p p' H; discriminate].
  - split.
    + intros date p Ha. cbn [paper_step_l].
      rewrite (root_update_swap N A F _ date p (IHs date) (IHa _) Ha).
      destruct (root_update (paper_step_l run l) date p) as [p1|] eqn:E1; cbn [rmap bind]; [|reflexivity].
      pose proof E1 as Hn1; eapply root_update_now in Hn1; [|exact F].
      pose proof (root_update_agree N A F _ date (row_of date) _ _ (IHa _) E1 Ha) as Ha1.
      rewrite bankrupt_swap.
      destruct (match fst p1 with NStrat g _ _ _ => g_bankrupt g | NSec _ => false end).
      * apply refresh_swap; rewrite Hn1; auto.
      * assert (R : run (paper_step_l run l) (swapT N A F p1) = rmap (swapT N A F) (run (paper_step_l run l) p1))
          by (apply HRS; rewrite Hn1; auto).
        rewrite R. destruct (run (paper_step_l run l) p1) as [p2|] eqn:E2; cbn [rmap bind]; [|reflexivity].
        destruct (HRK _ _ _ E2) as [Hn2 Hk2]. pose proof (Hk2 _ (IHa _) Ha1) as Ha2.
        rewrite (root_update_swap N A F _ date p2 (IHs date) (IHa _) Ha2).
        destruct (root_update (paper_step_l run l) date p2) as [p3|] eqn:E3; cbn [rmap bind]; [|reflexivity].
        pose proof E3 as Hn3; eapply root_update_now in Hn3; [|exact F].
        pose proof (root_update_agree N A F _ date (row_of date) _ _ (IHa _) E3 Ha2) as Ha3.
        apply refresh_swap; rewrite Hn3; auto.
    + intros j date p p' H Ha. cbn [paper_step_l] in H.
      apply bind_ok in H. destruct H as (p1 & E1 & H).
      pose proof (root_update_agree N A F _ date j _ _ (IHa _) E1 Ha) as Ha1.
      destruct (match fst p1 with NStrat g _ _ _ => g_bankrupt g | NSec _ => false end).
      * eapply refresh_agree; [exact (IHa j) | exact H | exact Ha1].
      * apply bind_ok in H. destruct H as (p2 & E2 & H). destruct (HRK _ _ _ E2) as [_ Hk2]. pose proof (Hk2 _ (IHa _) Ha1) as Ha2.
        apply bind_ok in H. destruct H as (p3 & E3 & H).
        pose proof (root_update_agree N A F _ date j _ _ (IHa _) E3 Ha2) as Ha3.
        eapply refresh_agree; [exact (IHa j) | exact H | exact Ha3].
Qed.
End Levels.

(* the hypotheses on the paper step are satisfiable (a tree without paper-trading sub-strategies never calls it), and a
   security's own columns agree with themselves *)
Example ps_identity_ok (N : num) (A : Type) (F : nat -> cols N) date j :
  PS N A F (fun _ p => Ok p) date j /\ PSA N A F (fun _ p => Ok p) j.
Proof. split; [intros p _; reflexivity | intros d p p' H Ha; inversion H; subst; exact Ha]. Qed.

Example agree_self (N : num) i (s : sec N) :
  agree N i s (mkCols N (s_prices s) (s_bidoffers s) (s_coupons s) (s_cost_long s) (s_cost_short s)).
Proof. unfold agree, ocol_agree; cbn. destruct (s_prices s), (s_coupons s), (s_cost_long s), (s_cost_short s); auto 10. Qed.

(* ---------- Backtest.run's loop ---------- *)
Require Import BT.Algos.
Section Loop.
Variable N : num.
Notation A := (astate N).
Variable F : nat -> cols N.
Variable e : env N.
Notation tree := (tree N A).
Let run := fun (ps : option nat -> tree -> result tree) (tr : tree) => strat_run ps depth_fuel e [] tr.
Let ps := bt_paper_step e bt_level.

(* The whole date loop of Backtest.run — update, Strategy.run, update on every date, bankruptcy and liquidation, the
   paper copies of every nesting level — commutes with replacing the securities' data by any data that agrees with it
   on the rows the loop visits, PROVIDED Strategy.run (the algos) does: the engine adds no look-ahead of its own. *)
Theorem bt_loop_swap : RUNS N A F run -> RUNK N A F run -> forall rows (tr : tree),
  (forall i, In i rows -> agreeN N A F i (fst tr)) ->
  bt_loop e rows (swapT N A F tr) = rmap (swapT N A F) (bt_loop e rows tr).
Proof.
  intros HRS HRK. destruct (paper_levels N A F run HRS HRK bt_level) as [HPS HPA]. fold run in HPS, HPA.
  change (paper_step_l run bt_level) with ps in HPS, HPA.
  induction rows as [|i rows IH]; intros tr Ha; [reflexivity|].
  cbn [bt_loop]. fold ps.
  assert (Hi : agreeN N A F (row_of (Some i)) (fst tr)) by (apply Ha; left; reflexivity).
  rewrite (root_update_swap N A F ps (Some i) tr (HPS _) (HPA _) Hi).
  destruct (root_update ps (Some i) tr) as [t1|] eqn:E1; cbn [rmap bind]; [|reflexivity].
  assert (K1 : forall j, agreeN N A F j (fst tr) -> agreeN N A F j (fst t1)) by (intros j Hj; eapply root_update_agree; eauto).
  pose proof E1 as Hn1; eapply root_update_now in Hn1; [|exact F].
  assert (Hsame : match fst (swapT N A F t1) with NStrat g _ _ _ => g_bankrupt g | NSec _ => false end =
                  match fst t1 with NStrat g _ _ _ => g_bankrupt g | NSec _ => false end) by apply bankrupt_swap.
  destruct t1 as [n1 st1]. destruct n1 as [s1|g1 k1 lz1 pp1]; [reflexivity|].
  cbn [swapT fst snd swapN] in *. destruct (g_bankrupt g1).
  - cbn [bind]. apply IH. intros j Hj. apply (K1 j). apply Ha. right. exact Hj.
  - change (NStrat g1 (map (swapN N A F) k1) lz1 match pp1 with Some (pn, st) => Some (swapN N A F pn, st) | None => None end, st1)
      with (swapT N A F (NStrat g1 k1 lz1 pp1, st1)).
    assert (R : strat_run ps depth_fuel e [] (swapT N A F (NStrat g1 k1 lz1 pp1, st1)) =
                rmap (swapT N A F) (strat_run ps depth_fuel e [] (NStrat g1 k1 lz1 pp1, st1))).
    { apply (HRS ps (NStrat g1 k1 lz1 pp1, st1)); rewrite Hn1; [apply HPS | apply HPA | apply (K1 _ Hi)]. }
    rewrite R. destruct (strat_run ps depth_fuel e [] (NStrat g1 k1 lz1 pp1, st1)) as [t2|] eqn:E2; cbn [rmap bind]; [|reflexivity].
    destruct (HRK ps _ _ E2) as [Hn2 Hk2].
    rewrite (root_update_swap N A F ps (Some i) t2 (HPS _) (HPA _) (Hk2 _ (HPA _) (K1 _ Hi))).
    destruct (root_update ps (Some i) t2) as [t3|] eqn:E3; cbn [rmap bind]; [|reflexivity].
    apply IH. intros j Hj. eapply root_update_agree; [apply HPA | exact E3 |]. apply Hk2; [apply HPA|]. apply K1. apply Ha. right. exact Hj.
Qed.
End Loop.

(* the hypotheses on Strategy.run are satisfiable: a tree of bare StrategyBase nodes (run is a no-op: the engine-level
   histories of the correspondence suites) meets them *)
Example runs_noop_ok (N : num) (A : Type) (F : nat -> cols N) :
  RUNS N A F (fun _ t => Ok t) /\ RUNK N A F (fun _ t => Ok t).
Proof.
  split; [intros psb p _ _ _; reflexivity|]. intros psb p p' H. inversion H; subst. split; [reflexivity | intros j _ Ha; exact Ha].
Qed.

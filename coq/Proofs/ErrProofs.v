(* ErrProofs.v — C10: each enumerated ill-formed situation makes the model return the matching error
   (the image of the Python exception) instead of a state. *)
From Coq Require Import List Bool Arith Reals Lra.
Import ListNotations.
Require Import BT.Num BT.Base BT.Records BT.Engine BT.Ops BT.Proofs.Tac BT.Proofs.Frames BT.Proofs.SecInv.
Local Open Scope R_scope.

(* a missing price on an open position: the update refuses *)
Theorem nan_price_open_position inow (s : secR) :
  s_price s = None -> s_pos s <> 0 -> sec_mark inow s = Err ENanPriceOpen.
Proof.
  intros Hp Hq. unfold sec_mark. cbn [s_price s_pos set_s_lastpos set_h_positions]. rewrite Hp.
  rops. unfold RNum.is_zero. destruct (Req_EM_T (s_pos s) 0); [contradiction|reflexivity].
Qed.

(* a custom-price trade without bid/offer data *)
Theorem custom_price_needs_bidoffer pnow comm q upd cp (s : secR) :
  s_bo_set s = false -> q <> 0 ->
  sec_transact (N:=RNumI) pnow comm q upd false (Some cp) s = Err ECustomNoBidoffer.
Proof.
  intros Hb Hq. unfold sec_transact. cbn [andb bind]. rops.
  unfold RNum.is_zero. destruct (Req_EM_T q 0); [contradiction|]. rewrite Hb. reflexivity.
Qed.

Section Build.
Variable A : Type.

(* a fixed-income strategy under a market-value parent *)
Theorem fi_child_of_mv_parent d ip comm id (a : A) kids :
  build_node (N:=RNumI) d ip comm false false (SpStrat id true a kids) = Err EFiChild.
Proof. reflexivity. Qed.

(* duplicate column names in the data *)
Theorem duplicate_columns d ip comm (sp : nspec RNumI A) :
  has_dup (map fst (d_prices d)) = true -> build d ip comm sp = Err EDupColumn.
Proof. intros H. unfold build. rewrite H. reflexivity. Qed.

(* duplicate sibling names *)
Theorem duplicate_children d ip comm r pfi id fi (a : A) kids :
  fi && negb pfi && negb r = false ->
  has_dup (map (@spec_id RNumI A) kids) = true ->
  build_node (N:=RNumI) d ip comm r pfi (SpStrat id fi a kids) = Err EDupChild.
Proof. intros H1 H2. cbn [build_node]. rewrite H1, H2. reflexivity. Qed.
End Build.

(* AlgoProofs.v — selection and weighting algos (C14, C15) and the rebalance delta (C06). *)
From Coq Require Import List Bool Arith Reals Lra Lia Permutation Sorted.
Import ListNotations.
Require Import BT.Num BT.Base BT.Records BT.Engine BT.Ops BT.Algos BT.Proofs.Tac.
Local Open Scope R_scope.

Section Sel.
Notation stratR := (strat RNumI (astate RNumI)).

(* ---------- the tradability filter used by SelectAll / SelectThese / SelectWhere / ... ---------- *)
(* exactly the requested names whose current cell is present and (unless include_negative) positive,
   in the requested order; a name outside the strategy's universe is an error, never selected *)
Theorem tradable_spec (g : stratR) i neg : forall names sel,
  tradable g i neg names = Ok sel ->
  sel = filter (fun k => match univ_cell g i k with
                         | Some c => present_cell c && (neg || positive_cell c)
                         | None => false
                         end) names /\
  forall k, In k names -> univ_cell g i k <> None.
Proof.
  induction names as [|k r IH]; intros sel H; cbn in H.
  - inversion H; subst. split; [reflexivity| intros k []].
  - destruct (univ_cell g i k) as [c|] eqn:Ec; [|discriminate].
    apply bind_ok in H. destruct H as (rest & Hr & H). inversion H; subst; clear H.
    destruct (IH _ Hr) as [Hf Hin]. split.
    + cbn. rewrite Ec. destruct (present_cell c && (neg || positive_cell c)); rewrite Hf; reflexivity.
    + intros k' [->|Hk']; [rewrite Ec; discriminate | auto].
Qed.

(* with the default flags nothing selected has a missing, zero or negative current price *)
Corollary tradable_default_positive (g : stratR) i names sel :
  tradable g i false names = Ok sel ->
  forall k, In k sel -> exists x, univ_cell g i k = Some (Some x) /\ 0 < x /\ In k names.
Proof.
  intros H k Hk. destruct (tradable_spec g i false names sel H) as [Hf _]. subst sel.
  apply filter_In in Hk. destruct Hk as [Hin Hc].
  destruct (univ_cell g i k) as [[x|]|]; try discriminate.
  cbn in Hc. exists x. split; [reflexivity|]. split; [|exact Hin].
  unfold positive_cell in Hc. cbn in Hc. apply R_ltb_true in Hc. exact Hc.
Qed.

(* ---------- ranking (SelectN): insertion sort by the statistic ---------- *)
Definition ord (asc : bool) (x y : nat * R) : Prop := if asc then snd x <= snd y else snd y <= snd x.

Lemma insert_by_perm asc x l : Permutation (insert_by RNumI asc x l) (x :: l).
Proof.
  induction l as [|y l IH]; cbn; [reflexivity|].
  match goal with |- Permutation (if ?b then _ else _) _ => destruct b end.
  - reflexivity.
  - rewrite IH. apply perm_swap.
Qed.

Theorem sort_by_perm asc l : Permutation (sort_by RNumI asc l) l.
Proof.
  induction l as [|x l IH]; cbn; [reflexivity|].
  unfold sort_by in *. cbn. rewrite insert_by_perm. constructor. exact IH.
Qed.

Lemma insert_by_sorted asc x l :
  StronglySorted (ord asc) l -> StronglySorted (ord asc) (insert_by RNumI asc x l).
Proof.
  induction l as [|y l IH]; intros Hs; cbn.
  - constructor; constructor.
  - inversion Hs as [|? ? Hs' Hall]; subst.
    destruct asc; cbn [insert_by];
      match goal with |- context [if negb ?b then _ else _] => destruct b eqn:E end; cbn [negb]; rops; rbool;
      unfold RNum.t in *; change (carrier RNumI) with R in *.
    + constructor; [apply IH; exact Hs'|].
      apply Forall_forall. intros z Hz.
      apply (Permutation_in _ (insert_by_perm true x l)) in Hz. destruct Hz as [<-|Hz].
      * unfold ord. cbn. lra.
      * rewrite Forall_forall in Hall. apply Hall. exact Hz.
    + constructor; [exact Hs|]. constructor.
      * unfold ord. cbn. lra.
      * rewrite Forall_forall in *. intros z Hz. specialize (Hall z Hz). unfold ord in *. cbn in *. lra.
    + constructor; [apply IH; exact Hs'|].
      apply Forall_forall. intros z Hz.
      apply (Permutation_in _ (insert_by_perm false x l)) in Hz. destruct Hz as [<-|Hz].
      * unfold ord. cbn. lra.
      * rewrite Forall_forall in Hall. apply Hall. exact Hz.
    + constructor; [exact Hs|]. constructor.
      * unfold ord. cbn. lra.
      * rewrite Forall_forall in *. intros z Hz. specialize (Hall z Hz). unfold ord in *. cbn in *. lra.
Qed.

Theorem sort_by_sorted asc l : StronglySorted (ord asc) (sort_by RNumI asc l).
Proof.
  induction l as [|x l IH]; cbn; [constructor|]. unfold sort_by in *. cbn. apply insert_by_sorted. exact IH.
Qed.

Lemma In_skipn {B} n (l : list B) x : In x (skipn n l) -> In x l.
Proof. revert l. induction n as [|n IH]; intros [|a l] H; cbn in *; auto. Qed.

(* the first n of the ranking are the n best: every kept statistic is at least (descending) /
   at most (ascending) every statistic that was not kept *)
Theorem top_n_best asc l n x y :
  In x (firstn n (sort_by RNumI asc l)) -> In y (skipn n (sort_by RNumI asc l)) -> ord asc x y.
Proof.
  pose proof (sort_by_sorted asc l) as Hs. remember (sort_by RNumI asc l) as sl. clear Heqsl.
  revert n. induction Hs as [|a sl Hs IH Hall]; intros n Hx Hy.
  - destruct n; cbn in *; contradiction.
  - destruct n as [|n]; cbn in *; [contradiction|].
    destruct Hx as [<-|Hx].
    + rewrite Forall_forall in Hall. apply Hall. eapply In_skipn; eauto.
    + eapply IH; eauto.
Qed.
End Sel.

(* ---------- weighting (C15) ---------- *)
Section Weigh.

(* LimitDeltas, per ticker: the new target is within [limit] of the current weight, and untouched when
   it already was *)
Definition limited (lim tgt cur : R) : R :=
  if nltb RNumI lim (nabs RNumI (nsub RNumI tgt cur)) then nadd RNumI cur (nmul RNumI lim (sign RNumI (nsub RNumI tgt cur))) else tgt.

Theorem limit_delta_bound lim tgt cur : 0 <= lim -> Rabs (limited lim tgt cur - cur) <= lim.
Proof.
  intros Hl. unfold limited, sign. rops. unfold RNum.sub, RNum.add, RNum.mul, RNum.abs, RNum.opp, RNum.one, RNum.zero.
  destruct (RNum.ltb lim (Rabs (tgt - cur))) eqn:E; rbool.
  - destruct (RNum.ltb 0 (tgt - cur)) eqn:E1; rbool.
    + replace (cur + lim * 1 - cur) with lim by lra. rewrite Rabs_pos_eq; lra.
    + destruct (RNum.ltb (tgt - cur) 0) eqn:E2; rbool.
      * replace (cur + lim * - (1) - cur) with (- lim) by lra. rewrite Rabs_Ropp, Rabs_pos_eq; lra.
      * assert (tgt - cur = 0) by lra. rewrite H in E. rewrite Rabs_R0 in E. lra.
  - exact E.
Qed.

Theorem limit_delta_unchanged lim tgt cur : Rabs (tgt - cur) <= lim -> limited lim tgt cur = tgt.
Proof.
  intros H. unfold limited. rops. unfold RNum.sub, RNum.abs.
  destruct (RNum.ltb lim (Rabs (tgt - cur))) eqn:E; rbool; [lra|reflexivity].
Qed.

(* WeighEqually: every selected ticker gets the same weight x; built by inserting into a dict *)
Lemma set_assoc_all (x : R) k (acc : list (nat * R)) :
  Forall (fun kv => snd kv = x) acc -> Forall (fun kv => snd kv = x) (set_assoc k x acc).
Proof.
  induction acc as [|[k' v'] acc IH]; intros H; cbn.
  - constructor; [reflexivity|constructor].
  - inversion H; subst. destruct (Nat.eqb k k'); constructor; cbn in *; auto.
Qed.

Theorem weigh_equally_all_equal (x : R) sel :
  Forall (fun kv => snd kv = x) (fold_left (fun acc k => set_assoc k x acc) sel []).
Proof.
  assert (G : forall acc, Forall (fun kv : nat * R => snd kv = x) acc ->
                          Forall (fun kv => snd kv = x) (fold_left (fun acc k => set_assoc k x acc) sel acc)).
  { induction sel as [|k sel IH]; intros acc H; cbn; auto. apply IH. apply set_assoc_all. exact H. }
  apply G. constructor.
Qed.

Lemma set_assoc_keys_new (x : R) k (acc : list (nat * R)) :
  ~ In k (map fst acc) -> map fst (set_assoc k x acc) = map fst acc ++ [k].
Proof.
  induction acc as [|[k' v'] acc IH]; intros H; cbn; [reflexivity|].
  cbn in H. destruct (Nat.eqb_spec k k') as [->|Hne]; [exfalso; apply H; left; reflexivity|].
  cbn. f_equal. apply IH. intros Hin. apply H. right. exact Hin.
Qed.

Theorem weigh_equally_keys (x : R) sel : NoDup sel ->
  map fst (fold_left (fun acc k => set_assoc k x acc) sel []) = sel.
Proof.
  assert (G : forall acc, NoDup (map fst acc ++ sel) ->
            map fst (fold_left (fun acc k => set_assoc k x acc) sel acc) = map fst acc ++ sel).
  { induction sel as [|k sel IH]; intros acc H; cbn.
    - rewrite app_nil_r. reflexivity.
    - rewrite IH.
      + rewrite set_assoc_keys_new.
        * rewrite <- app_assoc. reflexivity.
        * apply NoDup_remove_2 in H. intros Hin. apply H. apply in_or_app. left. exact Hin.
      + rewrite set_assoc_keys_new.
        * rewrite <- app_assoc. exact H.
        * apply NoDup_remove_2 in H. intros Hin. apply H. apply in_or_app. left. exact Hin. }
  intros H. apply (G []). exact H.
Qed.

(* n equal weights 1/n sum to one *)
Theorem equal_weights_sum_one (l : list (nat * R)) (n : nat) :
  (0 < n)%nat -> length l = n -> Forall (fun kv => snd kv = 1 / INR n) l ->
  fold_right (fun kv a => snd kv + a) 0 l = 1.
Proof.
  intros Hn Hl Hall.
  assert (G : forall l0 : list (nat * R), Forall (fun kv => snd kv = 1 / INR n) l0 ->
              fold_right (fun kv a => snd kv + a) 0 l0 = INR (length l0) * (1 / INR n)).
  { induction l0 as [|kv l0 IH]; intros H0.
    - cbn. lra.
    - inversion H0; subst. cbn [fold_right length]. rewrite IH by assumption. rewrite S_INR.
      match goal with H : snd kv = _ |- _ => rewrite H end. lra. }
  rewrite (G l Hall), Hl. field. apply not_0_INR. lia.
Qed.

End Weigh.

(* ---------- C06: one rebalance allocation lands the child exactly on its target ---------- *)
Require Import BT.Proofs.SecInv BT.Proofs.TradeProofs.

Theorem rebalance_reaches_target pnow comm upd (s s' : secR) oa p V w :
  current pnow s -> s_intpos s = false -> (forall q x, comm q x = 0) -> s_bidoffer s = Some 0 ->
  s_price s = Some p -> p <> 0 -> s_mult s <> 0 -> V <> 0 ->
  s_value s = s_pos s * p * s_mult s ->
  let amount := (w - s_value s / V) * V in
  amount <> 0 -> amount + s_value s <> 0 ->
  sec_allocate (N:=RNumI) pnow comm amount upd s = Ok (s', oa) ->
  s_pos s' * p * s_mult s = w * V /\ oa = Some (mkAdj (N:=RNumI) (- amount) 0 upd).
Proof.
  intros Hc Hint Hcomm Hbo Hp Hp0 Hm0 HV Hval amount Ha Hv H.
  destruct (alloc_fractional_exact _ _ _ _ _ _ _ _ Hc Hint Hcomm Hbo Hp Hp0 Hm0 Ha Hv H) as [Hpos Hoa].
  split; [|exact Hoa]. rewrite Hpos. unfold amount. rewrite Hval. field. repeat split; assumption.
Qed.

(* Tac.v — proof tactics shared by the proof files (real-number instance). *)
From Coq Require Import List Bool Arith Reals Lra Lia.
Require Import BT.Num BT.Base.

(* invert monadic binds that returned Ok *)
Lemma bind_ok {A B} (r : result A) (f : A -> result B) b :
  bind r f = Ok b -> exists a, r = Ok a /\ f a = Ok b.
Proof. destruct r; simpl; intros H; [eauto | discriminate]. Qed.

Ltac inv_bind H :=
  let a := fresh "x" in let H1 := fresh "E" in let H2 := fresh H in
  apply bind_ok in H; destruct H as (a & H1 & H2).

Ltac ok_inv :=
  repeat match goal with
         | H : Ok _ = Ok _ |- _ => inversion H; subst; clear H
         | H : Err _ = Ok _ |- _ => discriminate H
         | H : (_, _) = (_, _) |- _ => inversion H; subst; clear H
         end.

(* turn boolean tests of the real instance into propositions *)
Ltac rbool :=
  repeat match goal with
         | H : RNum.ltb _ _ = true |- _ => apply R_ltb_true in H
         | H : RNum.ltb _ _ = false |- _ => apply R_ltb_false in H
         | H : RNum.leb _ _ = true |- _ => apply R_leb_true in H
         | H : RNum.leb _ _ = false |- _ => apply R_leb_false in H
         | H : RNum.eqb _ _ = true |- _ => apply R_eqb_true in H
         | H : RNum.eqb _ _ = false |- _ => apply R_eqb_false in H
         | H : RNum.is_zero _ = true |- _ => apply R_is_zero_true in H
         | H : RNum.is_zero _ = false |- _ => apply R_is_zero_false in H
         | H : RNum.isclose _ _ = true |- _ => apply R_isclose_true in H
         | H : RNum.isclose _ _ = false |- _ => apply R_isclose_false in H
         | H : negb _ = true |- _ => apply negb_true_iff in H
         | H : negb _ = false |- _ => apply negb_false_iff in H
         | H : _ && _ = true |- _ => apply andb_true_iff in H; destruct H
         | H : _ || _ = false |- _ => apply orb_false_iff in H; destruct H
         end.

Ltac rops :=
  cbn [carrier n0 n1 nhalf npar npaper nadd nsub nmul ndiv nopp nabs nofZ nltb nleb neqb nis_zero nisclose
       nfloor nceil RNumI] in *.

(* BankruptProofs.v — C16: when the bankrupt flag is raised, that it is never raised below the root or
   for fixed-income strategies, and that Backtest.run stops running the algos once it is set. *)
From Coq Require Import List Bool Arith Reals Lra Lia.
Import ListNotations.
Require Import BT.Num BT.Base BT.Records BT.Engine BT.Ops BT.Algos BT.Proofs.Tac BT.Proofs.Frames.
Local Open Scope R_scope.

Section Bankrupt.
Variable A : Type.
Notation nodeR := (node RNumI A).
Notation treeR := (tree RNumI A).
Variable ps : option nat -> treeR -> result treeR.

Definition root_bankrupt (tr : treeR) : bool :=
  match fst tr with NStrat g _ _ _ => g_bankrupt g | NSec _ => false end.
Definition root_fi (tr : treeR) : bool :=
  match fst tr with NStrat g _ _ _ => g_fi g | NSec _ => false end.

(* frames of the strategy phases on the flag *)
Lemma strat_write_value_bankrupt newpt inow val notl bop (g g' : strat RNumI A) :
  strat_write_value newpt inow val notl bop g = Ok g' -> g_bankrupt g' = g_bankrupt g /\ g_fi g' = g_fi g.
Proof.
  unfold strat_write_value. intros H. destruct (strat_changed newpt val notl g).
  - inv_bind H. inversion H0; subst. autorewrite with frames. split; reflexivity.
  - inversion H; subst. split; reflexivity.
Qed.

Lemma strat_finish_bankrupt date inow newpt (g g' : strat RNumI A) kids paper paper' :
  strat_finish ps date inow newpt g kids paper = Ok (g', paper') -> g_bankrupt g' = g_bankrupt g /\ g_fi g' = g_fi g.
Proof.
  unfold strat_finish. intros H. inv_bind H.
  assert (Hx : g_bankrupt x = g_bankrupt g /\ g_fi x = g_fi g).
  { destruct (has_strat_kids kids); [destruct date; [|discriminate]|]; inversion E; subst; cbn; auto. }
  destruct Hx as [Hx1 Hx2].
  destruct (g_paper_trade (strat_set_rows inow x)).
  - destruct paper as [p|]; [|discriminate]. inv_bind H0. inversion H1; subst. autorewrite with frames. auto.
  - inversion H0; subst. autorewrite with frames. auto.
Qed.

Lemma strat_update_with_bankrupt upd_kid date inow (g g1 : strat RNumI A) kids kids1 newpt val notl bop :
  strat_update_with upd_kid date inow g kids = Ok (newpt, g1, kids1, (val, notl, bop)) ->
  g_bankrupt g1 = g_bankrupt g /\ g_fi g1 = g_fi g.
Proof.
  unfold strat_update_with. intros H. inv_bind H. destruct x as [ks [[[a b] c] d]].
  injection H0 as _ Hg _ _ _ _. subst g1. unfold set_g_capital. cbn [g_bankrupt g_fi]. autorewrite with frames. auto.
Qed.

(* sub-strategies (and every strategy updated below the root) are never flagged: StrategyBase.update of a
   non-root node leaves the flag as it was *)
Theorem node_update_keeps_flag date inow (g g' : strat RNumI A) kids kids' lz lz' paper paper' :
  node_update ps date inow (NStrat g kids lz paper) = Ok (NStrat g' kids' lz' paper') ->
  g_bankrupt g' = g_bankrupt g.
Proof.
  intros H. cbn [node_update] in H.
  apply bind_ok in H. destruct H as ([[[newpt g1] kids1] [[val notl] bop]] & E & H).
  apply bind_ok in H. destruct H as (g2 & E0 & H).
  apply bind_ok in H. destruct H as ([g3 paper3] & E1 & H).
  injection H as H1 H2 H3 H4. subst.
  destruct (strat_update_with_bankrupt _ _ _ _ _ _ _ _ _ _ _ E) as [B1 _].
  destruct (strat_write_value_bankrupt _ _ _ _ _ _ _ E0) as [B2 _].
  destruct (strat_finish_bankrupt _ _ _ _ _ _ _ _ E1) as [B3 _].
  congruence.
Qed.

(* the flag after root.update: it was set, or the freshly summed value is negative (market-value root) *)
Theorem root_update_flag date (tr tr' : treeR) g kids lz paper :
  fst tr = NStrat g kids lz paper ->
  root_update ps date tr = Ok tr' ->
  exists inow newpt g1 kids1 val notl bop,
    strat_update_with (node_update ps date inow) date inow g kids = Ok (newpt, g1, kids1, (val, notl, bop)) /\
    root_bankrupt tr' = g_bankrupt g || ((nltb RNumI val (n0 RNumI)) && negb (g_fi g) && negb (nis_zero RNumI val)).
Proof.
  intros Hr H. unfold root_update in H. rewrite Hr in H.
  apply bind_ok in H. destruct H as (inow & Ei & H).
  apply bind_ok in H. destruct H as ([[[newpt g1] kids1] [[val notl] bop]] & E & H).
  exists inow, newpt, g1, kids1, val, notl, bop. split; [exact E|].
  destruct (strat_update_with_bankrupt _ _ _ _ _ _ _ _ _ _ _ E) as [B1 F1].
  rewrite B1, F1 in H.
  destruct (nltb RNumI val (n0 RNumI) && negb (g_bankrupt g) && negb (g_fi g) && negb (nis_zero RNumI val)) eqn:Ec.
  - (* the bankruptcy branch: whichever way it ends, the flag is set *)
    apply andb_true_iff in Ec. destruct Ec as [Ec Ez]. apply andb_true_iff in Ec. destruct Ec as [Ec Efi].
    apply andb_true_iff in Ec. destruct Ec as [Elt Eb].
    rewrite Elt, Efi, Ez. cbn. rewrite orb_true_r.
    apply bind_ok in H. destruct H as ([kids2 g2] & Ef & H).
    assert (Bf : forall (ks : list nodeR) (gg : strat RNumI A) ks' (gg' : strat RNumI A), flatten_kids false ks gg = Ok (ks', gg') -> g_bankrupt gg' = g_bankrupt gg).
    { induction ks as [|c ks IHk]; intros gg ks' gg' Hf; cbn in Hf.
      - inversion Hf; subst. reflexivity.
      - apply bind_ok in Hf. destruct Hf as ([c' oa] & _ & Hf). apply bind_ok in Hf. destruct Hf as ([ks2 g3] & Hk & Hf).
        inversion Hf; subst. apply IHk in Hk. rewrite Hk. autorewrite with frames. reflexivity. }
    apply Bf in Ef. cbn in Ef.
    apply bind_ok in H. destruct H as (g3 & Ew & H).
    destruct (strat_write_value_bankrupt _ _ _ _ _ _ _ Ew) as [B3 _].
    destruct (all_skipped kids2).
    + apply bind_ok in H. destruct H as ([g4 p4] & Efin & H). inversion H; subst. cbn.
      destruct (strat_finish_bankrupt _ _ _ _ _ _ _ _ Efin) as [B4 _]. congruence.
    + apply bind_ok in H. destruct H as ([[[np g4] kids4] [[v2 n2] b2]] & E2 & H).
      destruct (strat_update_with_bankrupt _ _ _ _ _ _ _ _ _ _ _ E2) as [B4 _].
      apply bind_ok in H. destruct H as (g5 & Ew2 & H).
      destruct (strat_write_value_bankrupt _ _ _ _ _ _ _ Ew2) as [B5 _].
      apply bind_ok in H. destruct H as ([g6 p6] & Efin & H).
      destruct (strat_finish_bankrupt _ _ _ _ _ _ _ _ Efin) as [B6 _].
      apply bind_ok in H. destruct H as ([g7 p7] & Efin2 & H).
      destruct (strat_finish_bankrupt _ _ _ _ _ _ _ _ Efin2) as [B7 _].
      inversion H; subst. cbn. congruence.
  - apply bind_ok in H. destruct H as (g2 & Ew & H).
    destruct (strat_write_value_bankrupt _ _ _ _ _ _ _ Ew) as [B2 _].
    apply bind_ok in H. destruct H as ([g3 p3] & Efin & H).
    destruct (strat_finish_bankrupt _ _ _ _ _ _ _ _ Efin) as [B3 _].
    inversion H; subst. cbn. rewrite B3, B2, B1.
    destruct (g_bankrupt g); [reflexivity|]. cbn in *. rewrite andb_true_r in Ec.
    destruct (nltb RNumI val (n0 RNumI)); destruct (g_fi g); destruct (nis_zero RNumI val); cbn in *; congruence.
Qed.

End Bankrupt.

Arguments root_bankrupt {A} tr.
Arguments root_fi {A} tr.

(* Backtest.run: on a date whose update leaves the root flagged, the strategy's algos are not run and no
   further update is made; hence once bankrupt the stack is never invoked again *)
Theorem bt_loop_skips_when_bankrupt (e : env RNumI) (i : nat) (tr tr1 : tree RNumI (astate RNumI)) :
  root_update (bt_paper_step e bt_level) (Some i) tr = Ok tr1 ->
  root_bankrupt tr1 = true ->
  bt_loop e [i] tr = Ok tr1.
Proof.
  intros Hu Hb. cbn [bt_loop]. rewrite Hu. cbn [bind].
  unfold root_bankrupt in Hb. destruct (fst tr1) as [s|g kids lz paper] eqn:Ef; [discriminate|].
  rewrite Hb. reflexivity.
Qed.

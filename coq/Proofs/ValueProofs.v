(* ValueProofs.v — C02, second sentence, for a strategy whose children are securities: buying / selling through
   StrategyBase.allocate / transact at the current price changes  cash + sum(position x price x multiplier)  only by the
   capital received and by the explicit costs (fees recorded by the node, bid/offer recorded by the securities).
   Real-number instance; any commission function; whole or fractional units (sizing search included). *)
From Coq Require Import List Bool Arith Reals Lra Lia.
Import ListNotations.
Require Import BT.Num BT.Base BT.Records BT.Engine BT.Ops BT.Proofs.Tac BT.Proofs.Frames BT.Proofs.SecInv BT.Proofs.TradeProofs
        BT.Proofs.IdemProofs BT.Proofs.LedgerProofs.
Local Open Scope R_scope.

(* a security that is on the parent's date and has a price *)
Definition aligned (pnow : option nat) (p : R) (s : secR) : Prop := s_now s = pnow /\ s_price s = Some p.

(* recorded outlay that is neither position at the current price nor bid/offer paid: constant under trading *)
Definition jq (i : nat) (p : R) (s : secR) : R := out_total i s - s_pos s * p * s_mult s - s_bidoffer_paid s.

Lemma same_date_update pnow i (s s1 : secR) :
  sec_update pnow i s = Ok s1 -> s_now s = pnow ->
  s_price s1 = s_price s /\ s_pos s1 = s_pos s /\ s_bidoffer_paid s1 = s_bidoffer_paid s /\ s_mult s1 = s_mult s /\ s_now s1 = pnow.
Proof.
  unfold sec_update. intros H Hn. destruct (class_coupon (s_class s) && _); [discriminate|].
  apply bind_ok in H. destruct H as (y & E & H).
  assert (Y : s_price y = s_price s /\ s_pos y = s_pos s /\ s_bidoffer_paid y = s_bidoffer_paid s /\ s_mult y = s_mult s /\ s_now y = pnow).
  { unfold sec_update_base in E. destruct (sec_early pnow s); [inversion E; subst; auto|].
    apply bind_ok in E. destruct E as (m & Em & E). inversion E; subst.
    assert (Hroll : sec_roll (s_now s) i s = s).
    { unfold sec_roll. destruct (s_now s); cbn [onat_eqb]; rewrite ?Nat.eqb_refl; reflexivity. }
    rewrite Hroll in Em.
    rewrite sec_flush_s_price, sec_flush_s_bidoffer_paid. autorewrite with frames.
    erewrite sec_mark_s_price, sec_mark_s_pos, sec_mark_s_bidoffer_paid, sec_mark_s_mult, sec_mark_s_now by eassumption. auto. }
  destruct Y as (Y1 & Y2 & Y3 & Y4 & Y5).
  erewrite sec_tail_s_price, sec_tail_s_pos, sec_tail_s_bidoffer_paid, sec_tail_s_mult, sec_tail_s_now by eassumption. auto.
Qed.

Lemma opt_update_j (b : bool) pnow i p (s s1 : secR) :
  row_of pnow = i -> (i < length (h_outlays s))%nat -> aligned pnow p s ->
  (if b then sec_update pnow (row_of pnow) s else Ok s) = Ok s1 ->
  jq i p s1 = jq i p s /\ aligned pnow p s1 /\ s_mult s1 = s_mult s /\ length (h_outlays s1) = length (h_outlays s).
Proof.
  intros Hr Hl [Hn Hp] H. destruct b; [|injection H as E1; subst s1; repeat split; auto].
  rewrite Hr in H.
  destruct (same_date_update _ _ _ _ H Hn) as (P1 & P2 & P3 & P4 & P5).
  pose proof (sec_update_out_total _ _ _ _ H Hl) as T. pose proof (sec_update_outlays_length _ _ _ _ H) as L.
  unfold jq, aligned. rewrite T, P2, P3, P4, P1, P5. repeat split; auto.
Qed.

Lemma sec_transact_j pnow i p comm q upd us price (s s' : secR) oa :
  row_of pnow = i -> (i < length (h_outlays s))%nat -> aligned pnow p s ->
  sec_transact (N:=RNumI) pnow comm q upd us price s = Ok (s', oa) ->
  jq i p s' = jq i p s /\ aligned pnow p s' /\ s_mult s' = s_mult s /\ length (h_outlays s') = length (h_outlays s).
Proof.
  intros Hr Hl Ha H. unfold sec_transact in H. apply bind_ok in H. destruct H as (s1 & E & H).
  destruct (opt_update_j _ _ _ _ _ _ Hr Hl Ha E) as (J1 & [N1 P1] & M1 & L1).
  destruct (nis_zero RNumI q); [injection H as E1 E2; subst s' oa; repeat split; auto|].
  destruct (match price with Some _ => negb (s_bo_set s1) | None => false end); [discriminate|].
  apply bind_ok in H. destruct H as ([[[fo o] fee] bop] & Eo & H). injection H as E1 E2. subst s' oa.
  destruct (sec_outlay_spec _ _ _ _ _ _ _ _ Eo) as (p0 & Hp0 & _ & Ho & _ & _).
  cbn in Hp0. rewrite P1 in Hp0. inversion Hp0; subst p0. cbn in Ho.
  unfold jq, aligned, out_total in *. cbn. rops. unfold RNum.add in *. rewrite <- J1.
  repeat split; auto. rewrite Ho. lra.
Qed.

Lemma sec_allocate_j pnow i p comm amount upd (s s' : secR) oa :
  row_of pnow = i -> (i < length (h_outlays s))%nat -> aligned pnow p s ->
  sec_allocate (N:=RNumI) pnow comm amount upd s = Ok (s', oa) ->
  jq i p s' = jq i p s /\ aligned pnow p s' /\ s_mult s' = s_mult s /\ length (h_outlays s') = length (h_outlays s).
Proof.
  intros Hr Hl Ha H. unfold sec_allocate in H. apply bind_ok in H. destruct H as (s1 & E & H).
  destruct (opt_update_j _ _ _ _ _ _ Hr Hl Ha E) as (J1 & A1 & M1 & L1).
  destruct (nis_zero RNumI amount); [injection H as E1 E2; subst s' oa; destruct A1; repeat split; auto|].
  destruct (s_price s1) as [pr|]; [|discriminate].
  destruct (nis_zero RNumI pr); [discriminate|].
  match type of H with (if ?c then _ else _) = _ => destruct c end; [injection H as E1 E2; subst s' oa; destruct A1; repeat split; auto|].
  apply bind_ok in H. destruct H as (q & Eq & H).
  assert (Hl1 : (i < length (h_outlays s1))%nat) by (rewrite L1; exact Hl).
  destruct (sec_transact_j pnow i p comm q upd false None s1 s' oa Hr Hl1 A1 H) as (J2 & A2 & M2 & L2).
  destruct A2 as [A2a A2b]. split; [rewrite J2; exact J1|]. split; [split; assumption|]. split; [rewrite M2; exact M1 | rewrite L2; exact L1].
Qed.

Section Value.
Variable A : Type.
Notation nodeR := (node RNumI A).
Notation stratR := (strat RNumI A).

Definition mark (s : secR) : R := match s_price s with Some p => s_pos s * p * s_mult s | None => 0 end.
Definition mu (i : nat) (s : secR) : R := out_total i s - mark s - s_bidoffer_paid s.
Definition sum_secs (f : secR -> R) (ks : list nodeR) : R :=
  fold_right (fun k a => match k with NSec s => f s | NStrat _ _ _ _ => 0 end + a) 0 ks.
Lemma sum_secs_cons f (s : secR) ks : sum_secs f (NSec s :: ks) = f s + sum_secs f ks.
Proof. reflexivity. Qed.

Definition ready (pnow : option nat) (i : nat) (ks : list nodeR) : Prop :=
  Forall (fun k => exists s p, k = NSec s /\ aligned pnow p s /\ (i < length (h_outlays s))%nat) ks.

Lemma mu_jq i p (s : secR) : s_price s = Some p -> mu i s = jq i p s.
Proof. intros H. unfold mu, jq, mark. rewrite H. reflexivity. Qed.

(* the children loop keeps the sum of mu and the readiness of every child *)
Lemma go_mu i (F : option nat -> (R -> R -> R) -> nodeR -> result (nodeR * option (adj RNumI)))
      (HF : forall pnow comm (s : secR) p c' oa, row_of pnow = i -> (i < length (h_outlays s))%nat -> aligned pnow p s ->
              F pnow comm (NSec s) = Ok (c', oa) ->
              exists s', c' = NSec s' /\ jq i p s' = jq i p s /\ aligned pnow p s' /\ length (h_outlays s') = length (h_outlays s)) :
  forall (ks : list nodeR) (g : stratR) ks' g'
         (go : list nodeR -> stratR -> result (list nodeR * stratR)),
  (forall ks0 g0, go ks0 g0 = match ks0 with
                             | [] => Ok ([], g0)
                             | c :: ks1 => bind (F (g_now g0) (g_comm g0) c)
                                                (fun r => let '(c1, oa) := r in
                                                          bind (go ks1 (apply_adj oa g0)) (fun r2 => let '(ks2, g2) := r2 in Ok (c1 :: ks2, g2)))
                             end) ->
  ready (g_now g) i ks -> row_of (g_now g) = i ->
  go ks g = Ok (ks', g') ->
  sum_secs (mu i) ks' = sum_secs (mu i) ks /\ ready (g_now g) i ks'.
Proof.
  induction ks as [|c ks IH]; intros g ks' g' go Hgo Hs Hr H; rewrite Hgo in H.
  - injection H as E1 E2. subst ks' g'. split; [reflexivity|constructor].
  - inversion Hs as [|c0 ks0 [s [p [Ec [Ha Hl]]]] Hs' Eq0]. subst c.
    apply bind_ok in H. destruct H as ([c1 oa] & E1 & H). apply bind_ok in H. destruct H as ([ks2 g2] & E2 & H).
    injection H as Ek Eg. subst ks' g'.
    destruct (HF _ _ _ _ _ _ Hr Hl Ha E1) as (s' & Ec' & J' & A' & L'). subst c1.
    assert (Hn2 : g_now (apply_adj oa g) = g_now g) by apply apply_adj_g_now.
    assert (Hs2 : ready (g_now (apply_adj oa g)) i ks) by (rewrite Hn2; exact Hs').
    assert (Hr2 : row_of (g_now (apply_adj oa g)) = i) by (rewrite Hn2; exact Hr).
    destruct (IH _ _ _ go Hgo Hs2 Hr2 E2) as (S2 & R2). rewrite Hn2 in R2.
    rewrite !sum_secs_cons. destruct Ha as [Hna Hpa]. destruct A' as [Hna' Hpa'].
    rewrite (mu_jq i p s' Hpa'), (mu_jq i p s Hpa), J', S2. split; [reflexivity|].
    constructor; [|exact R2]. exists s', p. split; [reflexivity|]. split; [split; assumption | rewrite L'; exact Hl].
Qed.

Lemma ready_all_secs pnow i ks : ready pnow i ks -> all_secs A i ks.
Proof.
  unfold ready, all_secs. intros H. eapply Forall_impl; [|exact H]. intros k (s & p & E & _ & L). exists s. split; assumption.
Qed.

Lemma outs_sum i ks : outs A i ks = sum_secs (out_total i) ks.
Proof. reflexivity. Qed.

Lemma sum_mu i ks : sum_secs (mu i) ks = sum_secs (out_total i) ks - sum_secs mark ks - sum_secs (@s_bidoffer_paid RNumI) ks.
Proof.
  unfold sum_secs. induction ks as [|k ks IH]; cbn [fold_right]; [lra|]. rewrite IH.
  destruct k as [s|g kk lz pp]; [unfold mu|]; lra.
Qed.

(* what a strategy of securities is worth at the current prices *)
Definition worth (g : stratR) (ks : list nodeR) : R := g_capital g + sum_secs mark ks.

(* StrategyBase.allocate(amount): worth changes by the amount received minus the bid/offer the securities recorded
   minus the fees the node recorded — nothing else, whatever is bought or sold *)
Theorem flat_allocate_value pnow comm amount upd (g g' : stratR) kids kids' lz pp lz' pp' oa :
  let i := row_of (g_now g) in
  ready (g_now g) i kids ->
  node_allocate pnow comm amount upd (NStrat g kids lz pp) = Ok (NStrat g' kids' lz' pp', oa) ->
  worth g' kids' - worth g kids =
  amount - (sum_secs (@s_bidoffer_paid RNumI) kids' - sum_secs (@s_bidoffer_paid RNumI) kids) - (g_last_fee g' - g_last_fee g).
Proof.
  intros i Hs H. assert (Hr : row_of (g_now g) = i) by reflexivity. clearbody i.
  destruct (flat_allocate_ledger A pnow comm amount upd g g' kids kids' lz pp lz' pp' oa) as (C & _ & _ & _);
    [rewrite Hr; apply (ready_all_secs (g_now g)); exact Hs | exact H |]. rewrite Hr in C.
  cbn [node_allocate] in H.
  match type of H with bind (?GO kids ?G0) _ = _ => set (go := GO) in H; set (ga := G0) in H end.
  apply bind_ok in H. destruct H as ([ks1 g1] & E & H). injection H as E1 E2 E3 E4 E5. subst g1 ks1 lz' pp' oa.
  assert (Hgo : forall ks0 g0, go ks0 g0 = match ks0 with
                             | [] => Ok ([], g0)
                             | c :: ks1 => bind (node_allocate (g_now g0) (g_comm g0) (nmul RNumI amount (raw_weight c)) false c)
                                                (fun r => let '(c1, oa) := r in
                                                          bind (go ks1 (apply_adj oa g0)) (fun r2 => let '(ks2, g2) := r2 in Ok (c1 :: ks2, g2)))
                             end).
  { intros ks0 g0. destruct ks0; reflexivity. }
  pose (F := fun (pn : option nat) (cm : R -> R -> R) (c : nodeR) => node_allocate (N:=RNumI) pn cm (nmul RNumI amount (raw_weight c)) false c).
  assert (Hna : g_now ga = g_now g) by (unfold ga; apply g_adjust_g_now).
  assert (HF : forall pn cm (s : secR) p c' oa0, row_of pn = i -> (i < length (h_outlays s))%nat -> aligned pn p s ->
              F pn cm (NSec s) = Ok (c', oa0) ->
              exists s', c' = NSec s' /\ jq i p s' = jq i p s /\ aligned pn p s' /\ length (h_outlays s') = length (h_outlays s)).
  { intros pn cm s p c' oa0 Hr0 Hl0 Ha0 HF. unfold F in HF. cbn [node_allocate] in HF.
    apply bind_ok in HF. destruct HF as ([s1 oa1] & Et & HF). injection HF as Ea Eb. subst c' oa1.
    destruct (sec_allocate_j pn i p cm _ false s s1 oa0 Hr0 Hl0 Ha0 Et) as (J & Al & _ & L).
    exists s1. repeat split; try assumption; apply Al. }
  assert (Hs2 : ready (g_now ga) i kids) by (rewrite Hna; exact Hs).
  assert (Hr2 : row_of (g_now ga) = i) by (rewrite Hna; exact Hr).
  destruct (go_mu i F HF kids ga kids' g' go Hgo Hs2 Hr2 E) as (M & _).
  rewrite !sum_mu in M. rewrite !outs_sum in C. unfold worth. lra.
Qed.

(* StrategyBase.transact(q): nothing is received; worth falls exactly by the explicit costs *)
Theorem flat_transact_value pnow comm q upd (g g' : stratR) kids kids' lz pp lz' pp' oa :
  let i := row_of (g_now g) in
  ready (g_now g) i kids ->
  node_transact pnow comm q upd (NStrat g kids lz pp) = Ok (NStrat g' kids' lz' pp', oa) ->
  worth g' kids' - worth g kids =
  - (sum_secs (@s_bidoffer_paid RNumI) kids' - sum_secs (@s_bidoffer_paid RNumI) kids) - (g_last_fee g' - g_last_fee g).
Proof.
  intros i Hs H. assert (Hr : row_of (g_now g) = i) by reflexivity. clearbody i.
  destruct (flat_transact_ledger A pnow comm q upd g g' kids kids' lz pp lz' pp' oa) as (C & _ & _ & _);
    [rewrite Hr; apply (ready_all_secs (g_now g)); exact Hs | exact H |]. rewrite Hr in C.
  cbn [node_transact] in H.
  match type of H with bind (?GO kids g) _ = _ => set (go := GO) in H end.
  apply bind_ok in H. destruct H as ([ks1 g1] & E & H). injection H as E1 E2 E3 E4 E5. subst g1 ks1 lz' pp' oa.
  assert (Hgo : forall ks0 g0, go ks0 g0 = match ks0 with
                             | [] => Ok ([], g0)
                             | c :: ks1 => bind (node_transact (g_now g0) (g_comm g0) (nmul RNumI q (raw_weight c)) false c)
                                                (fun r => let '(c1, oa) := r in
                                                          bind (go ks1 (apply_adj oa g0)) (fun r2 => let '(ks2, g2) := r2 in Ok (c1 :: ks2, g2)))
                             end).
  { intros ks0 g0. destruct ks0; reflexivity. }
  pose (F := fun (pn : option nat) (cm : R -> R -> R) (c : nodeR) => node_transact (N:=RNumI) pn cm (nmul RNumI q (raw_weight c)) false c).
  assert (HF : forall pn cm (s : secR) p c' oa0, row_of pn = i -> (i < length (h_outlays s))%nat -> aligned pn p s ->
              F pn cm (NSec s) = Ok (c', oa0) ->
              exists s', c' = NSec s' /\ jq i p s' = jq i p s /\ aligned pn p s' /\ length (h_outlays s') = length (h_outlays s)).
  { intros pn cm s p c' oa0 Hr0 Hl0 Ha0 HF. unfold F in HF. cbn [node_transact] in HF.
    apply bind_ok in HF. destruct HF as ([s1 oa1] & Et & HF). injection HF as Ea Eb. subst c' oa1.
    destruct (sec_transact_j pn i p cm _ false true None s s1 oa0 Hr0 Hl0 Ha0 Et) as (J & Al & _ & L).
    exists s1. repeat split; try assumption; apply Al. }
  destruct (go_mu i F HF kids g kids' g' go Hgo Hs Hr E) as (M & _).
  rewrite !sum_mu in M. rewrite !outs_sum in C. unfold worth. lra.
Qed.

End Value.

(* ReportProofs.v — C18 on the model (real-number instance): what the reports say follows from the node histories. *)
From Coq Require Import List Bool Arith Reals Lra Lia.
Import ListNotations.
Require Import BT.Num BT.Base BT.Records BT.Engine BT.Reports BT.Proofs.Tac BT.Proofs.TreeInv.
Local Open Scope R_scope.

Section Rep.
Variable A : Type.
Notation nodeR := (node RNumI A).
Notation secR := (sec RNumI).

Definition row (i : nat) (col : list R) : R := nth i col 0.

Lemma at_row_row i (col : list R) : at_row RNumI i col = row i col.
Proof. reflexivity. Qed.

(* ---------- element-wise operations ---------- *)
Lemma vzip_nth (f : R -> R -> R) a b i :
  (i < length a)%nat -> (i < length b)%nat -> row i (vzip RNumI f a b) = f (row i a) (row i b).
Proof.
  unfold row, vzip. revert b i. induction a as [|x a IH]; intros b i Ha Hb; [cbn in Ha; lia|].
  destruct b as [|y b]; [cbn in Hb; lia|]. destruct i as [|i]; cbn; [reflexivity|].
  apply IH; cbn in *; lia.
Qed.

Lemma vzip_length (f : R -> R -> R) a b : length (vzip RNumI f a b) = Nat.min (length a) (length b).
Proof. unfold vzip. rewrite map_length, combine_length. reflexivity. Qed.

(* ---------- weights ---------- *)
(* every member's weight times the root's value (notional) is the member's value (notional) *)
Theorem weight_times_base (root : nodeR) p n i :
  In (p, n) (all_members root) ->
  (i < length (member_series root n))%nat -> (i < length (root_base root))%nat ->
  row i (root_base root) <> 0 ->
  exists w, In (p, w) (report_weights root) /\ row i w * row i (root_base root) = row i (member_series root n).
Proof.
  intros Hin Hl Hb Hnz. exists (vdiv RNumI (member_series root n) (root_base root)). split.
  - unfold report_weights. apply in_map_iff. exists (p, n). split; [reflexivity|exact Hin].
  - unfold vdiv. rewrite vzip_nth by assumption. cbn [ndiv RNumI]. unfold RNum.div. field. exact Hnz.
Qed.

(* ---------- transactions: quantities cumulate to the positions ---------- *)
Fixpoint prefix_sum (i : nat) (l : list R) : R :=
  match l with
  | [] => 0
  | x :: l' => match i with O => x | S j => x + prefix_sum j l' end
  end.

Lemma diffs_prefix prev (p : list R) i :
  (i < length p)%nat -> prev + prefix_sum i (diffs RNumI prev p) = row i p.
Proof.
  unfold row. revert prev i. induction p as [|x p IH]; intros prev i H; [cbn in H; lia|].
  cbn [diffs]. cbn [nsub RNumI]. unfold RNum.sub.
  destruct i as [|i]; cbn [nth prefix_sum]; [lra|].
  assert (Hi : (i < length p)%nat) by (cbn in H; lia).
  specialize (IH x i Hi). lra.
Qed.

(* the trade series of a position series: its running total is the position on every date *)
Theorem trades_cumulate (p : list R) i :
  (i < length p)%nat -> prefix_sum i (trades RNumI p) = row i p.
Proof.
  intros H. destruct p as [|x p]; [cbn in H; lia|]. cbn [trades].
  destruct i as [|i]; cbn [prefix_sum]; [reflexivity|]. unfold row. cbn [nth].
  assert (Hi : (i < length p)%nat) by (cbn in H; lia).
  exact (diffs_prefix x p i Hi).
Qed.

(* rows left out of the transaction list are exactly those with a zero trade: they add nothing to the total *)
Theorem listed_iff_nonzero (root : nodeR) tx :
  In tx (report_transactions root) -> tx_qty tx <> 0.
Proof.
  unfold report_transactions. intros H. apply in_flat_map in H. destruct H as [i [_ H]].
  apply in_flat_map in H. destruct H as [c [_ H]]. cbn zeta in H.
  destruct (neqb RNumI (at_row RNumI i (snd c)) (n0 RNumI)) eqn:E; [contradiction|].
  destruct H as [H|[]]. subst tx. cbn [tx_qty]. cbn [neqb RNumI n0] in E.
  apply R_eqb_false in E. exact E.
Qed.

(* ---------- value decomposition: securities + cash = root value ---------- *)
Definition cash_row (i : nat) (n : nodeR) : R :=
  match n with NStrat g _ _ _ => row i (hg_cash g) | NSec _ => 0 end.
Definition secv_row (i : nat) (n : nodeR) : R :=
  match n with NSec s => row i (h_values s) | NStrat _ _ _ _ => 0 end.
Definition total (f : nodeR -> R) (l : list (list nat * nodeR)) : R :=
  fold_right (fun pm a => f (snd pm) + a) 0 l.

Lemma total_app f l1 l2 : total f (l1 ++ l2) = total f l1 + total f l2.
Proof. unfold total. induction l1 as [|x l1 IH]; cbn; [lra|]. rewrite IH. lra. Qed.

(* the balance sheet recorded on row i of the histories: value = cash + children's values, at every strategy *)
Inductive RowBS (i : nat) : nodeR -> Prop :=
| RowBS_sec (s : secR) : RowBS i (NSec s)
| RowBS_strat (g : strat RNumI A) (kids : list nodeR) lz paper :
    row i (hg_values g) = row i (hg_cash g) + fold_right (fun (k : nodeR) a => row i (h_vals k) + a) 0 kids ->
    Forall (RowBS i) kids ->
    RowBS i (NStrat g kids lz paper).

Definition kids_members (path : list nat) (kids : list nodeR) : list (list nat * nodeR) :=
  flat_map (fun k => members (path ++ [node_id k]) k) kids.

Lemma members_strat path g (kids : list nodeR) lz paper :
  members path (NStrat g kids lz paper) = (path, NStrat g kids lz paper) :: kids_members path kids.
Proof.
  reflexivity.
Qed.

Theorem value_decomposition i (n : nodeR) : forall path,
  RowBS i n ->
  row i (h_vals n) = total (cash_row i) (members path n) + total (secv_row i) (members path n).
Proof.
  induction n as [s | g kids lz paper IH] using (node_ind' A); intros path H.
  - cbn. unfold total, row. cbn. lra.
  - rewrite members_strat. inversion H as [| ? ? ? ? Hv Hk]; subst.
    unfold total at 1 2. cbn [fold_right snd cash_row secv_row h_vals]. fold (total (cash_row i)). fold (total (secv_row i)).
    rewrite Hv.
    assert (G : fold_right (fun (k : nodeR) a => row i (h_vals k) + a) 0 kids =
                total (cash_row i) (kids_members path kids) + total (secv_row i) (kids_members path kids)).
    { clear Hv H. unfold kids_members. induction kids as [|k ks IHk]; cbn [fold_right flat_map]; [unfold total; cbn; lra|].
      inversion IH as [|? ? Pk Pks]; subst. inversion Hk as [|? ? Rk Rks]; subst.
      rewrite !total_app. rewrite (Pk (path ++ [node_id k]) Rk). rewrite (IHk Pks Rks). lra. }
    rewrite G. unfold total. lra.
Qed.

(* ---------- security weights and cash fractions sum to one ---------- *)
Definition colsum (i : nat) (cols : list (nat * list R)) : R :=
  fold_right (fun c a => row i (snd c) + a) 0 cols.
Definition cols_ok (i : nat) (cols : list (nat * list R)) : Prop :=
  Forall (fun c => (i < length (snd c))%nat) cols.

Lemma agg_add_sum i id v acc :
  cols_ok i acc -> (i < length v)%nat ->
  colsum i (agg_add RNumI id v acc) = colsum i acc + row i v /\ cols_ok i (agg_add RNumI id v acc).
Proof.
  intros Hok Hv. induction acc as [|[j w] rest IH]; cbn [agg_add].
  - split; [unfold colsum, row; cbn; lra | constructor; [exact Hv | constructor]].
  - inversion Hok as [|? ? Hw Hrest]; subst. cbn [snd] in Hw. destruct (Nat.eqb j id).
    + split.
      * unfold colsum. cbn [fold_right snd]. unfold vadd. rewrite vzip_nth by assumption. cbn [nadd RNumI]. unfold RNum.add. lra.
      * constructor; [|exact Hrest]. cbn [snd]. unfold vadd. rewrite vzip_length. change (carrier RNumI) with R in *. lia.
    + destruct (IH Hrest) as [E O]. split.
      * unfold colsum in *. cbn [fold_right snd]. rewrite E. lra.
      * constructor; assumption.
Qed.

Lemma agg_fold_sum i (f : secR -> list R) (ss : list secR) acc :
  cols_ok i acc -> Forall (fun s => (i < length (f s))%nat) ss ->
  colsum i (fold_left (fun a s => agg_add RNumI (s_id s) (f s) a) ss acc) =
    colsum i acc + fold_right (fun s a => row i (f s) + a) 0 ss
  /\ cols_ok i (fold_left (fun a s => agg_add RNumI (s_id s) (f s) a) ss acc).
Proof.
  revert acc. induction ss as [|s ss IH]; intros acc Hok Hs; cbn [fold_left fold_right].
  - split; [lra | exact Hok].
  - inversion Hs as [|? ? H1 H2]; subst.
    destruct (agg_add_sum i (s_id s) (f s) acc Hok H1) as [E O].
    destruct (IH _ O H2) as [E2 O2]. split; [rewrite E2, E; lra | exact O2].
Qed.

(* aggregating by ticker keeps the total of every row *)
Theorem agg_total i (f : secR -> list R) (root : nodeR) :
  Forall (fun s => (i < length (f s))%nat) (secs_of root) ->
  colsum i (agg f root) = fold_right (fun s a => row i (f s) + a) 0 (secs_of root).
Proof.
  intros H. unfold agg. destruct (agg_fold_sum i f (secs_of root) [] (Forall_nil _) H) as [E _].
  etransitivity; [exact E|]. unfold colsum. cbn. lra.
Qed.

Lemma secs_total i (l : list (list nat * nodeR)) :
  fold_right (fun (s : secR) a => row i (h_values s) + a) 0
             (flat_map (fun pm => match snd pm with NSec s => [s] | NStrat _ _ _ _ => [] end) l)
  = total (secv_row i) l.
Proof.
  induction l as [|[p n] l IH]; cbn [flat_map fold_right total]; [reflexivity|].
  unfold total in *. cbn [fold_right snd]. destruct n as [s|g ks lz pp]; cbn [app fold_right secv_row]; rewrite IH; lra.
Qed.

Lemma colsum_div i (cols : list (nat * list R)) (base : list R) :
  cols_ok i cols -> (i < length base)%nat ->
  colsum i (map (fun c => (fst c, vdiv RNumI (snd c) base)) cols) = colsum i cols / row i base.
Proof.
  intros Hok Hb. induction cols as [|c cols IH]; cbn [map]; unfold colsum in *; cbn [fold_right snd].
  - unfold Rdiv. ring.
  - inversion Hok as [|? ? H1 H2]; subst. rewrite (IH H2). unfold vdiv. rewrite vzip_nth by assumption.
    cbn [ndiv RNumI]. unfold RNum.div, Rdiv, RNum.t. change (carrier RNumI) with R. ring.
Qed.

(* market-value root: on every row where the recorded balance sheet holds and the root's value is not zero,
   the security weights (same-named securities aggregated) and all strategies' cash fractions sum to one *)
Theorem security_weights_and_cash_sum_to_one i (root : nodeR) :
  root_fi root = false -> RowBS i root ->
  Forall (fun s : secR => (i < length (h_values s))%nat) (secs_of root) ->
  (i < length (h_vals root))%nat -> row i (h_vals root) <> 0 ->
  colsum i (report_security_weights root)
  + total (cash_row i) (all_members root) / row i (h_vals root) = 1.
Proof.
  intros Hfi Hbs Hlen Hb Hnz. unfold report_security_weights, root_base. rewrite Hfi.
  assert (Hok : cols_ok i (agg (fun s : secR => h_values s) root)).
  { unfold agg. exact (proj2 (agg_fold_sum i (fun s : secR => h_values s) (secs_of root) [] (Forall_nil _) Hlen)). }
  rewrite (colsum_div i _ _ Hok Hb). rewrite (agg_total i (fun s : secR => h_values s) root Hlen).
  unfold secs_of. rewrite secs_total.
  pose proof (value_decomposition i root [node_id root] Hbs) as D. unfold all_members in *.
  unfold Rdiv. rewrite <- Rmult_plus_distr_r. rewrite Rplus_comm, <- D. field. exact Hnz.
Qed.

(* non-vacuity: a two-security strategy whose recorded row 1 satisfies the hypotheses of the theorem above *)
Example rowbs_example (g0 : strat RNumI A) (s0 : secR) :
  let root : nodeR :=
      NStrat (set_hg_values (N:=RNumI) ([100; 110] : list R) (set_hg_cash (N:=RNumI) ([100; 40] : list R) (set_g_fi false g0)))
             [NSec (set_h_values (N:=RNumI) ([0; 50] : list R) s0); NSec (set_h_values (N:=RNumI) ([0; 20] : list R) s0)] [] None in
  root_fi root = false /\ RowBS 1 root /\
  Forall (fun s : secR => (1 < length (h_values s))%nat) (secs_of root) /\
  (1 < length (h_vals root))%nat /\ row 1 (h_vals root) <> 0.
Proof.
  cbv zeta. split; [|split; [|split; [|split]]].
  - destruct g0; reflexivity.
  - constructor; [|repeat constructor].
    destruct g0, s0. cbn. unfold row. cbn. lra.
  - destruct s0. cbn. repeat constructor; cbn; lia.
  - destruct g0. cbn. lia.
  - destruct g0. cbn. unfold row. cbn. lra.
Qed.

End Rep.

(* RiskProofs.v — C20: risk aggregation over the tree (UpdateRisk), the one-instrument hedge (HedgeRisks),
   SelectActive after ClosePositionsAfterDates / RollPositionsAfterDates. *)
From Coq Require Import List Bool Arith ZArith Reals Lra Lia.
Import ListNotations.
Require Import BT.Num BT.Base BT.Records BT.Engine BT.Ops BT.Algos BT.Proofs.Tac BT.Proofs.TreeInv.
Local Open Scope R_scope.

Section Risk.
Notation nodeR := (node RNumI (astate RNumI)).
Variable m : nat.
Variable hist : nat.
Variable fr : list Z * frame RNumI.
Variable rnow : Z.

Definition node_risk (n : nodeR) : option R :=
  match n with NSec s => lookup m (s_risk s) | NStrat g _ _ _ => lookup m (g_risk g) end.
Definition risk_or_0 (n : nodeR) : R := match node_risk n with Some r => r | None => 0 end.

Lemma lookup_set_assoc_same {B} k (v : B) l : lookup k (set_assoc k v l) = Some v.
Proof.
  induction l as [|[k' v'] l IH]; cbn.
  - rewrite Nat.eqb_refl. reflexivity.
  - destruct (Nat.eqb k k') eqn:E; cbn; rewrite ?Nat.eqb_refl, ?E; auto.
Qed.

(* a security's risk is unit risk x position x multiplier (zero when flat) and is what UpdateRisk records *)
Theorem set_risk_security depth (s : sec RNumI) n' r :
  set_risk m hist fr rnow depth (NSec s : nodeR) = Ok (n', r) ->
  exists u, unit_risk_of fr rnow (s_id s) = Ok u /\
            r = (if Req_EM_T (s_pos s) 0 then 0 else u * s_pos s * s_mult s) /\
            node_risk n' = Some r.
Proof.
  cbn [set_risk]. intros H. apply bind_ok in H. destruct H as (u & Eu & H).
  destruct (Nat.ltb depth hist); [discriminate|]. inversion H; subst; clear H.
  exists u. split; [exact Eu|]. split.
  - rops. unfold RNum.is_zero. destruct (Req_EM_T (s_pos s) 0); reflexivity.
  - cbn. apply lookup_set_assoc_same.
Qed.

(* a strategy's risk is the sum of its children's (freshly recorded) risks *)
Theorem set_risk_strategy (n : nodeR) : forall depth n' r,
  set_risk m hist fr rnow depth n = Ok (n', r) ->
  node_risk n' = Some r /\
  match n' with
  | NStrat _ kids' _ _ => r = fold_right (fun c a => risk_or_0 c + a) 0 kids'
  | NSec _ => True
  end.
Proof.
  induction n as [s | g kids lz paper IH] using (node_ind' (astate RNumI)); intros depth n' r H.
  - destruct (set_risk_security _ _ _ _ H) as (u & _ & _ & Hr).
    cbn [set_risk] in H. apply bind_ok in H. destruct H as (u' & _ & H).
    destruct (Nat.ltb depth hist); [discriminate|]. inversion H; subst. split; [exact Hr|exact I].
  - cbn [set_risk] in H.
    set (go := fix go (ks : list nodeR) (acc : carrier RNumI) {struct ks} : result (list nodeR * carrier RNumI) :=
                 match ks with
                 | [] => Ok ([], acc)
                 | c :: ks' =>
                   bind (set_risk m hist fr rnow (S depth) c) (fun p =>
                   let '(c', rc) := p in
                   bind (go ks' (nadd RNumI acc rc)) (fun p' => let '(ks'', acc') := p' in Ok (c' :: ks'', acc')))
                 end) in H.
    assert (G : forall ks acc ks' acc',
               Forall (fun c => forall d c' rc, set_risk m hist fr rnow d c = Ok (c', rc) -> node_risk c' = Some rc /\
                                 match c' with NStrat _ k2 _ _ => rc = fold_right (fun c a => risk_or_0 c + a) 0 k2 | NSec _ => True end) ks ->
               go ks acc = Ok (ks', acc') -> acc' = acc + fold_right (fun c a => risk_or_0 c + a) 0 ks').
    { induction ks as [|c ks IHk]; intros acc ks' acc' HF Hgo; cbn in Hgo.
      - inversion Hgo; subst. cbn. lra.
      - inversion HF as [|? ? Hc HF']; subst.
        apply bind_ok in Hgo. destruct Hgo as ([c' rc] & Ec & Hgo).
        apply bind_ok in Hgo. destruct Hgo as ([ks2 acc2] & Ek & Hgo). inversion Hgo; subst; clear Hgo.
        destruct (Hc _ _ _ Ec) as [Hrc _].
        rewrite (IHk _ _ _ HF' Ek). cbn [fold_right]. unfold risk_or_0 at 2. rewrite Hrc. rops. unfold RNum.add. lra. }
    apply bind_ok in H. destruct H as ([kids' r0] & Eg & H).
    inversion H; subst; clear H. split.
    + unfold node_risk. destruct (Nat.ltb depth hist); cbn [g_risk set_g_risks set_g_risk]; apply lookup_set_assoc_same.
    + rewrite (G _ _ _ _ IH Eg). rops. unfold RNum.zero. lra.
Qed.

End Risk.

(* the one-instrument hedge: trading q = (1 / (unit risk x multiplier)) x (-risk) of the hedge instrument changes the
   measure by unit risk x q x multiplier = -risk, so the strategy's risk in the hedged measure becomes zero *)
Theorem hedge_neutralises (r u mult : R) :
  u * mult <> 0 -> r + u * ((1 / (u * mult)) * (- r)) * mult = 0.
Proof. intros H. field. split; intros E; apply H; rewrite E; ring. Qed.

(* without the multiplier in the Jacobian (the code before the repair) the hedge misses whenever multiplier <> 1 *)
Theorem hedge_without_multiplier_refuted :
  exists r u mult : R, u <> 0 /\ r + u * ((1 / u) * (- r)) * mult <> 0.
Proof. exists 50, 2, 3. split; lra. Qed.

(* SelectActive never returns a ticker that ClosePositionsAfterDates / RollPositionsAfterDates has recorded *)
Theorem select_active_excludes (closed rolled sel : list nat) k :
  In k (filter (fun k => negb (mem_nat k rolled || mem_nat k closed)) sel) ->
  mem_nat k closed = false /\ mem_nat k rolled = false.
Proof.
  intros H. apply filter_In in H. destruct H as [_ H]. apply negb_true_iff in H. apply orb_false_iff in H. tauto.
Qed.

(* RotProofs.v — C06, RebalanceOverTime: the step targets  cur + (target - cur) / days_left  walk from the starting weight
   to the target in n equal steps (when every step is reached exactly, i.e. fractional positions, no costs, no drift). *)
From Coq Require Import List Arith Reals Lra Lia.
Import ListNotations.
Local Open Scope R_scope.

(* the weights after each of the remaining [dl] steps, starting from weight c, target w *)
Fixpoint rot_path (c w : R) (dl : nat) : list R :=
  match dl with
  | O => []
  | S d => let c' := c + (w - c) / INR (S d) in c' :: rot_path c' w d
  end.

Theorem rot_equal_steps : forall n c w k, (k < n)%nat ->
  nth k (rot_path c w n) 0 = c + INR (S k) * (w - c) / INR n.
Proof.
  induction n as [|d IH]; intros c w k Hk; [lia|].
  assert (Hd : INR (S d) <> 0) by (apply not_0_INR; lia).
  destruct k as [|k]; cbn [rot_path nth].
  - change (INR 1) with 1. field. exact Hd.
  - assert (Hk' : (k < d)%nat) by lia. rewrite (IH _ _ _ Hk').
    assert (Hd0 : INR d <> 0) by (apply not_0_INR; lia).
    rewrite (S_INR (S k)), (S_INR k), (S_INR d) in *. field. split; assumption.
Qed.

Corollary rot_reaches_target : forall n c w, (0 < n)%nat -> nth (n - 1) (rot_path c w n) 0 = w.
Proof.
  intros n c w Hn. rewrite rot_equal_steps by lia. replace (S (n - 1)) with n by lia.
  assert (INR n <> 0) by (apply not_0_INR; lia). field. assumption.
Qed.

(* CalProofs.v — facts about the calendar functions that hold for every timestamp. *)
From Coq Require Import ZArith Bool Lia List.
Require Import BT.Cal.
Local Open Scope Z_scope.

Ltac Zify.zify_post_hook ::= Z.to_euclidean_division_equations.

(* the month / day part of civil_of_days only depends on the day within the 400-year era *)
Definition md_of_doe (doe : Z) : Z * Z :=
  let yoe := (doe - doe / 1460 + doe / 36524 - doe / 146096) / 365 in
  let doy := doe - (365 * yoe + yoe / 4 - yoe / 100) in
  let mp := (5 * doy + 2) / 153 in
  let d := doy - (153 * mp + 2) / 5 + 1 in
  let m := if mp <? 10 then mp + 3 else mp - 9 in
  (m, d).

Lemma civil_md (z0 : Z) :
  let '(_, m, d) := civil_of_days z0 in
  (m, d) = md_of_doe ((z0 + 719468) mod 146097).
Proof.
  unfold civil_of_days, md_of_doe.
  assert (H : (z0 + 719468) - (z0 + 719468) / 146097 * 146097 = (z0 + 719468) mod 146097).
  { rewrite Z.mod_eq by lia. ring. }
  cbv zeta. rewrite H. reflexivity.
Qed.

(* finite check over one whole era: 146097 days *)
Definition md_ok (doe : Z) : bool :=
  let '(m, d) := md_of_doe doe in (1 <=? m) && (m <=? 12) && (1 <=? d) && (d <=? 31).

Fixpoint all_upto (f : Z -> bool) (n : nat) (from : Z) : bool :=
  match n with
  | O => true
  | S n' => f from && all_upto f n' (from + 1)
  end.

Lemma all_upto_spec f n from :
  all_upto f n from = true -> forall z, from <= z < from + Z.of_nat n -> f z = true.
Proof.
  revert from. induction n as [|n IH]; intros from H z Hz.
  - simpl in Hz. lia.
  - cbn [all_upto] in H. apply andb_true_iff in H. destruct H as [H0 H1].
    destruct (Z.eq_dec z from) as [->|Hne]; [exact H0|].
    apply (IH (from + 1)); [exact H1|]. rewrite Nat2Z.inj_succ in Hz. lia.
Qed.

Lemma md_ok_era : all_upto md_ok (Z.to_nat 146097) 0 = true.
Proof. vm_compute. reflexivity. Qed.

(* for EVERY timestamp (no bound): month in 1..12 and day of month in 1..31 *)
Theorem month_day_range (ts : Z) :
  1 <= month_of ts <= 12 /\ 1 <= dom_of ts <= 31.
Proof.
  unfold month_of, dom_of.
  pose proof (civil_md (day_of ts)) as H.
  destruct (civil_of_days (day_of ts)) as [[y m] d].
  assert (Hr : 0 <= (day_of ts + 719468) mod 146097 < 0 + Z.of_nat (Z.to_nat 146097)).
  { rewrite Z2Nat.id by lia. pose proof (Z.mod_pos_bound (day_of ts + 719468) 146097). lia. }
  pose proof (all_upto_spec md_ok _ 0 md_ok_era _ Hr) as Hok.
  unfold md_ok in Hok. rewrite <- H in Hok.
  repeat (apply andb_true_iff in Hok; destruct Hok as [Hok ?]).
  lia.
Qed.

Theorem quarter_range (ts : Z) : 1 <= quarter_of ts <= 4.
Proof. unfold quarter_of. pose proof (month_day_range ts). lia. Qed.

(* (year, month) pairs are equal iff the month identifiers are equal *)
Theorem month_id_spec (a b : Z) :
  (year_of a = year_of b /\ month_of a = month_of b) <-> month_id a = month_id b.
Proof.
  unfold month_id. pose proof (month_day_range a). pose proof (month_day_range b). lia.
Qed.

Theorem quarter_id_spec (a b : Z) :
  (year_of a = year_of b /\ quarter_of a = quarter_of b) <-> quarter_id a = quarter_id b.
Proof.
  unfold quarter_id. pose proof (quarter_range a). pose proof (quarter_range b). lia.
Qed.

(* the ISO Thursday of a day is the Monday-based week number times 7 *)
Lemma iso_thursday_week (d : Z) : iso_thursday d = 7 * ((d + 3) / 7).
Proof. unfold iso_thursday, weekday_of_days. lia. Qed.

(* ISO (year, week) pairs are equal iff the two days lie in the same Monday-to-Sunday week;
   holds for every pair of days, years apart or not *)
Theorem iso_pair_spec (d1 d2 : Z) :
  (iso_year_of_days d1 = iso_year_of_days d2 /\ iso_week_of_days d1 = iso_week_of_days d2)
  <-> (d1 + 3) / 7 = (d2 + 3) / 7.
Proof.
  unfold iso_week_of_days, iso_year_of_days. rewrite !iso_thursday_week.
  split.
  - intros [Hy Hw].
    set (y1 := let '(y, _, _) := civil_of_days (7 * ((d1 + 3) / 7)) in y) in *.
    set (y2 := let '(y, _, _) := civil_of_days (7 * ((d2 + 3) / 7)) in y) in *.
    rewrite <- Hy in Hw. lia.
  - intros H. rewrite H. split; reflexivity.
Qed.

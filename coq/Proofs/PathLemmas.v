(* PathLemmas.v — navigation by path: what at_path / tree_at do to the addressed node and that
   they leave every other aspect of the addressing intact (any number instance). *)
From Coq Require Import List Bool Arith Lia.
Import ListNotations.
Require Import BT.Num BT.Base BT.Records BT.Engine BT.Ops BT.Proofs.Tac.

Section Path.
Variable N : num.
Variable A : Type.
Local Notation node := (node N A).
Local Notation tree := (tree N A).
Local Notation strat := (strat N A).

(* a node-local strategy rewrite: keeps the node a strategy with the same id, books nothing *)
Definition strat_map (f : strat -> strat) : option (pctx N) -> node -> result (node * option (adj N) * bool) :=
  fun _ n => match n with
             | NStrat g k l pp => Ok (NStrat (f g) k l pp, None, false)
             | NSec _ => Err EAttr
             end.

Lemma at_kid_found k (F : node -> result (node * option (adj N) * bool)) ks c c' :
  find_kid k ks = Some c -> F c = Ok (c', None, false) -> node_id c' = node_id c ->
  exists ks', at_kid k F ks = Ok (ks', None, false) /\ find_kid k ks' = Some c' /\
              map (@node_id N A) ks' = map (@node_id N A) ks.
Proof.
  induction ks as [|x ks IH]; cbn; intros Hf HF Hid; [discriminate|].
  destruct (Nat.eqb (node_id x) k) eqn:E.
  - inversion Hf; subst. rewrite HF. cbn [bind]. eexists. split; [reflexivity|].
    cbn [find_kid map]. rewrite Hid, E. split; reflexivity.
  - destruct (IH Hf HF Hid) as (ks' & H1 & H2 & H3). rewrite H1. cbn [bind]. eexists. split; [reflexivity|].
    cbn [find_kid map]. rewrite E. split; [exact H2|]. rewrite H3. reflexivity.
Qed.

Lemma find_kid_id k ks (c : node) : find_kid k ks = Some c -> node_id c = k.
Proof.
  induction ks as [|x ks IH]; cbn; [discriminate|]. destruct (Nat.eqb (node_id x) k) eqn:E; intros H.
  - inversion H; subst. apply Nat.eqb_eq. exact E.
  - auto.
Qed.

Theorem at_path_strat_map (f : strat -> strat) (Hid : forall g, g_id (f g) = g_id g) :
  forall p ctx n g k l pp,
    get_node p n = Some (NStrat g k l pp) ->
    exists n', at_path p (strat_map f) ctx n = Ok (n', None, false) /\
               get_node p n' = Some (NStrat (f g) k l pp) /\ node_id n' = node_id n.
Proof.
  induction p as [|k0 p IH]; intros ctx n g k l pp H.
  - cbn in H. inversion H; subst. cbn. eexists. split; [reflexivity|]. split; [reflexivity|]. cbn. apply Hid.
  - cbn in H. destruct n as [s|g0 kids lz paper]; [discriminate|].
    destruct (find_kid k0 kids) as [c|] eqn:Ef; [|discriminate].
    destruct (IH (Some (@mkCtx N (g_now g0) (g_comm g0) (g_fi g0))) c g k l pp H) as (c' & H1 & H2 & H3).
    destruct (at_kid_found k0 _ kids c c' Ef H1 H3) as (ks' & K1 & K2 & K3).
    cbn [at_path]. rewrite K1. cbn. eexists. split; [reflexivity|]. cbn. rewrite K2. split; [exact H2|reflexivity].
Qed.

End Path.

(* TreeInv.v — the well-formedness invariant WF of a node tree, the balance-sheet predicate BS,
   and the theorem that StrategyBase.update / SecurityBase.update establish BS on every
   well-formed tree (real-number instance; any algo-state type; any paper step). *)
From Coq Require Import List Bool Arith Reals Lra Lia.
Import ListNotations.
Require Import BT.Num BT.Base BT.Records BT.Engine BT.Proofs.Tac BT.Proofs.Frames BT.Proofs.SecInv.
Local Open Scope R_scope.

Section Tree.
Variable A : Type.
Notation nodeR := (node RNumI A).
Notation stratR := (strat RNumI A).
Notation treeR := (tree RNumI A).
Variable paper_step : option nat -> treeR -> result treeR.

(* induction principle for the nested type (no hypothesis on the paper copy) *)
Fixpoint node_ind' (P : nodeR -> Prop)
         (Hs : forall s, P (NSec s))
         (Hg : forall g kids lz paper, Forall P kids -> P (NStrat g kids lz paper))
         (n : nodeR) : P n :=
  match n with
  | NSec s => Hs s
  | NStrat g kids lz paper =>
    Hg g kids lz paper
       ((fix go (ks : list nodeR) : Forall P ks :=
           match ks with
           | [] => Forall_nil _
           | k :: ks' => Forall_cons _ (node_ind' P Hs Hg k) (go ks')
           end) kids)
  end.

Inductive WF : nodeR -> Prop :=
| WF_sec (s : secR) : SI s -> SW s -> WF (NSec s)
| WF_strat (g : stratR) (kids : list nodeR) lz paper : Forall WF kids -> WF (NStrat g kids lz paper).

Definition sum_values (ks : list nodeR) : R := fold_right (fun (k : nodeR) (a : R) => raw_value k + a) 0 ks.
Definition sum_notls (ks : list nodeR) : R := fold_right (fun (k : nodeR) (a : R) => Rabs (raw_notl k) + a) 0 ks.

Lemma sum_values_cons k ks : sum_values (k :: ks) = raw_value k + sum_values ks.
Proof. reflexivity. Qed.
Lemma sum_notls_cons k ks : sum_notls (k :: ks) = Rabs (raw_notl k) + sum_notls ks.
Proof. reflexivity. Qed.
Ltac sums :=
  rewrite ?sum_values_cons, ?sum_notls_cons; cbn [raw_value raw_notl]; rops;
  unfold RNum.add, RNum.abs, RNum.zero, RNum.t in *; try lra.

(* every child's weight is its value over the parent's value (notional under fixed income),
   and zero when that base is zero *)
Definition kid_weight_ok (fi : bool) (val notl : R) (k : nodeR) : Prop :=
  if fi then (notl <> 0 -> raw_weight k = raw_notl k / notl) /\ (notl = 0 -> raw_weight k = 0)
  else (val <> 0 -> raw_weight k = raw_value k / val) /\ (val = 0 -> raw_weight k = 0).

Inductive BS : nodeR -> Prop :=
| BS_sec (s : secR) : sec_balanced s -> BS (NSec s)
| BS_strat (g : stratR) (kids : list nodeR) lz paper :
    g_value g = g_capital g + sum_values kids ->
    g_notl g = sum_notls kids ->
    Forall (kid_weight_ok (g_fi g) (g_value g) (g_notl g)) kids ->
    Forall BS kids ->
    BS (NStrat g kids lz paper).

(* ---------- phase 1: the children loop ---------- *)
Lemma skipped_sec_balanced (s : secR) : SI s -> SW s -> s_needupdate s = false -> sec_balanced s.
Proof.
  intros HSI HSW Hn. destruct (HSW Hn) as (Hp & Hl & _ & Hv & _).
  unfold sec_balanced, SI in *. destruct (s_price s); rewrite Hp; rewrite Hl in HSI; auto.
Qed.

Lemma upd_kids_spec (upd_kid : nodeR -> result nodeR) newpt bo date inow :
  forall ks val notl bop cpn ks' val' notl' bop' cpn',
  Forall (fun k => forall k', upd_kid k = Ok k' -> WF k -> BS k' /\ WF k') ks ->
  Forall WF ks ->
  upd_kids upd_kid newpt bo date inow ks val notl bop cpn = Ok (ks', (val', notl', bop', cpn')) ->
  Forall WF ks' /\ Forall BS ks' /\ val' = val + sum_values ks' /\ notl' = notl + sum_notls ks'.
Proof.
  induction ks as [|k ks IH]; intros val notl bop cpn ks' val' notl' bop' cpn' Hupd Hwf H.
  - cbn in H. inversion H; subst. cbn. repeat split; auto; lra.
  - inversion Hupd as [|? ? Hk Hupd']; subst. inversion Hwf as [|? ? Hwk Hwf']; subst.
    destruct k as [s | g kids lz paper].
    + (* a security child *)
      inversion Hwk as [? HSI HSW|]; subst.
      cbn [upd_kids] in H.
      set (sc := if newpt then (set_s_capital (n0 RNumI) s, nadd RNumI cpn (s_capital s)) else (s, cpn)) in H.
      assert (Hsc : SI (fst sc) /\ SW (fst sc)).
      { unfold sc. destruct newpt; cbn; auto. }
      destruct sc as [s1 cpn1]. cbn [fst] in Hsc. destruct Hsc as [HSI1 HSW1].
      destruct (s_needupdate s1) eqn:Enu; cbn [negb] in H.
      * inv_bind H. rename x into s2. inv_bind H0. destruct x as [ks2 acc]. destruct acc as [[[a b] c] d].
        inversion H1; subst; clear H1.
        destruct (sec_update_inv _ _ _ _ E HSI1 HSW1) as (HSI2 & HSW2 & _).
        assert (Hb2 := sec_update_balanced _ _ _ _ E HSI1 HSW1).
        destruct (IH _ _ _ _ _ _ _ _ _ Hupd' Hwf' E0) as (W & B & V & Nn).
        repeat split.
        -- constructor; auto. constructor; auto.
        -- constructor; auto. constructor; auto.
        -- sums.
        -- sums.
      * inv_bind H. destruct x as [ks2 acc]. destruct acc as [[[a b] c] d].
        inversion H0; subst; clear H0.
        destruct (IH _ _ _ _ _ _ _ _ _ Hupd' Hwf' E) as (W & B & V & Nn).
        destruct (HSW1 Enu) as (_ & _ & _ & Hv0 & Hn0).
        repeat split.
        -- constructor; auto. constructor; auto.
        -- constructor; auto. constructor. apply skipped_sec_balanced; auto.
        -- sums.
        -- rewrite sum_notls_cons; cbn [raw_notl]; rewrite Hn0, Rabs_R0; sums.
    + (* a sub-strategy child *)
      cbn [upd_kids] in H. inv_bind H. rename x into k2. inv_bind H0.
      destruct x as [ks2 acc]. destruct acc as [[[a b] c] d]. inversion H1; subst; clear H1.
      destruct (Hk _ E Hwk) as (Bk & Wk).
      destruct (IH _ _ _ _ _ _ _ _ _ Hupd' Hwf' E0) as (W & B & V & Nn).
      repeat split.
      * constructor; auto.
      * constructor; auto.
      * sums.
      * sums.
Qed.

(* ---------- phase 2: value / notional / price write ---------- *)
Lemma strat_write_value_spec newpt inow val notl bop (g g' : stratR) :
  strat_write_value newpt inow val notl bop g = Ok g' ->
  g_value g' = val /\ g_notl g' = notl /\ g_capital g' = g_capital g /\ g_fi g' = g_fi g.
Proof.
  unfold strat_write_value. intros H.
  destruct (strat_changed newpt val notl g) eqn:Ec.
  - inv_bind H. inversion H0; subst; clear H0. autorewrite with frames.
    unfold strat_set_value. destruct (g_bo_set _); cbn; auto.
  - inversion H; subst; clear H. unfold strat_changed in Ec.
    apply orb_false_iff in Ec. destruct Ec as [Ec1 Ec2]. apply orb_false_iff in Ec1. destruct Ec1 as [_ Ec1].
    rops. rbool. unfold RNum.sub in *. repeat split; auto; lra.
Qed.

Lemma set_weight_WF_BS w (k : nodeR) :
  WF k -> BS k -> (skipped k = false) ->
  WF (set_weight w k) /\ BS (set_weight w k) /\
  raw_value (set_weight w k) = raw_value k /\ raw_notl (set_weight w k) = raw_notl k /\
  raw_weight (set_weight w k) = w.
Proof.
  intros Hw Hb Hs. destruct k as [s | g kids lz paper]; cbn in *.
  - inversion Hw as [? HSI HSW|]; subst. inversion Hb as [? Hbal|]; subst.
    apply negb_false_iff in Hs.
    repeat split; try constructor; auto.
    unfold SW. cbn. rewrite Hs. discriminate.
  - inversion Hw; subst. inversion Hb; subst. repeat split; try constructor; auto.
Qed.

Lemma kid_weight_spec fi val notl (k : nodeR) :
  WF k -> BS k ->
  WF (kid_weight fi val notl k) /\ BS (kid_weight fi val notl k) /\
  raw_value (kid_weight fi val notl k) = raw_value k /\
  raw_notl (kid_weight fi val notl k) = raw_notl k /\
  kid_weight_ok fi val notl (kid_weight fi val notl k).
Proof.
  intros Hw Hb. unfold kid_weight. destruct (skipped k) eqn:Es.
  - (* skipped security: flat, weightless *)
    destruct k as [s|]; [|discriminate]. cbn in Es. apply negb_true_iff in Es.
    inversion Hw as [? HSI HSW|]; subst. destruct (HSW Es) as (_ & _ & Hw0 & Hv0 & Hn0).
    split; [exact Hw | split; [exact Hb | split; [reflexivity | split; [reflexivity|]]]].
    unfold kid_weight_ok. cbn. rewrite Hw0, Hv0, Hn0. destruct fi; split; intros; unfold Rdiv; lra.
  - destruct fi.
    + destruct (set_weight_WF_BS (if negb (nis_zero RNumI notl) then ndiv RNumI (raw_notl k) notl else n0 RNumI) k Hw Hb Es)
        as (W1 & B1 & V1 & N1 & Wt).
      split; [exact W1 | split; [exact B1 | split; [exact V1| split; [exact N1|]]]].
      unfold kid_weight_ok. rewrite Wt, N1. rops.
      destruct (RNum.is_zero notl) eqn:Ez; rbool; cbn; split; intros; try reflexivity; try contradiction; try lra.
    + destruct (set_weight_WF_BS (if negb (nis_zero RNumI val) then ndiv RNumI (raw_value k) val else n0 RNumI) k Hw Hb Es)
        as (W1 & B1 & V1 & N1 & Wt).
      split; [exact W1 | split; [exact B1 | split; [exact V1| split; [exact N1|]]]].
      unfold kid_weight_ok. rewrite Wt, V1. rops.
      destruct (RNum.is_zero val) eqn:Ez; rbool; cbn; split; intros; try reflexivity; try contradiction; try lra.
Qed.

Lemma set_kid_weights_spec fi val notl (ks : list nodeR) :
  Forall WF ks -> Forall BS ks ->
  Forall WF (set_kid_weights fi val notl ks) /\ Forall BS (set_kid_weights fi val notl ks) /\
  sum_values (set_kid_weights fi val notl ks) = sum_values ks /\
  sum_notls (set_kid_weights fi val notl ks) = sum_notls ks /\
  Forall (kid_weight_ok fi val notl) (set_kid_weights fi val notl ks).
Proof.
  induction ks as [|k ks IH]; intros Hw Hb.
  - cbn. repeat split; constructor.
  - inversion Hw as [|? ? Hwk Hw']; subst. inversion Hb as [|? ? Hbk Hb']; subst.
    destruct (IH Hw' Hb') as (W & B & V & Nn & K).
    destruct (kid_weight_spec fi val notl k Hwk Hbk) as (W1 & B1 & V1 & N1 & K1).
    unfold set_kid_weights in *. cbn [map].
    repeat split; try (constructor; auto).
    + rewrite !sum_values_cons, V1, V. reflexivity.
    + rewrite !sum_notls_cons, N1, Nn. reflexivity.
Qed.

(* ---------- phase 4 ---------- *)
Lemma strat_finish_spec date inow newpt (g g' : stratR) kids paper paper' :
  strat_finish paper_step date inow newpt g kids paper = Ok (g', paper') ->
  g_value g' = g_value g /\ g_notl g' = g_notl g /\ g_capital g' = g_capital g /\ g_fi g' = g_fi g.
Proof.
  unfold strat_finish. intros H. inv_bind H.
  assert (Hx : g_value x = g_value g /\ g_notl x = g_notl g /\ g_capital x = g_capital g /\ g_fi x = g_fi g).
  { destruct (has_strat_kids kids); [destruct date; [|discriminate]|]; inversion E; subst; cbn; auto. }
  destruct Hx as (a & b & c & d).
  destruct (g_paper_trade (strat_set_rows inow x)).
  - destruct paper as [p|]; [|discriminate]. inv_bind H0. inversion H1; subst; clear H1.
    autorewrite with frames. auto.
  - inversion H0; subst; clear H0. autorewrite with frames. auto.
Qed.

(* ---------- phase 1 as a whole ---------- *)
Lemma strat_update_with_spec (upd_kid : nodeR -> result nodeR) date inow (g g1 : stratR) kids kids1 newpt val notl bop :
  Forall (fun k => forall k', upd_kid k = Ok k' -> WF k -> BS k' /\ WF k') kids ->
  Forall WF kids ->
  strat_update_with upd_kid date inow g kids = Ok (newpt, g1, kids1, (val, notl, bop)) ->
  Forall WF kids1 /\ Forall BS kids1 /\ val = g_capital g1 + sum_values kids1 /\ notl = sum_notls kids1 /\
  g_fi g1 = g_fi g.
Proof.
  intros IH Hwk H. unfold strat_update_with in H.
  assert (Hrf := strat_roll_g_fi date g).
  remember (strat_roll date g) as gr eqn:Hgr. clear Hgr.
  remember (strat_newpt date g) as np eqn:Hnp. clear Hnp.
  apply bind_ok in H. destruct H as ([kids0 [[[v0 nn0] b0] c0]] & E2 & H).
  injection H as Hn Hg Hk Hv Hnn Hb. subst.
  destruct (upd_kids_spec _ _ _ _ _ _ _ _ _ _ _ _ _ _ _ IH Hwk E2) as (W & B & V & Nn).
  repeat split; auto.
  - cbn [g_capital set_g_capital]. rewrite V. rops. unfold RNum.add. lra.
  - rewrite Nn. rops. unfold RNum.zero. lra.
Qed.

(* ---------- StrategyBase.update establishes the balance sheet ---------- *)
Theorem node_update_BS date inow (n : nodeR) :
  forall n', node_update paper_step date inow n = Ok n' -> WF n -> BS n' /\ WF n'.
Proof.
  induction n as [s | g kids lz paper IH] using node_ind'; intros n' H Hwf.
  - cbn in H. inv_bind H. inversion H0; subst; clear H0.
    inversion Hwf as [? HSI HSW|]; subst.
    destruct (sec_update_inv _ _ _ _ E HSI HSW) as (HSI' & HSW' & _).
    split; constructor; auto. eapply sec_update_balanced; eauto.
  - inversion Hwf as [|? ? ? ? Hwk]; subst.
    cbn [node_update] in H.
    apply bind_ok in H. destruct H as ([[[newpt g1] kids1] [[val notl] bop]] & E & H).
    apply bind_ok in H. destruct H as (g2 & E0 & H).
    apply bind_ok in H. destruct H as ([g3 paper3] & E1 & H).
    injection H as Hn'. subst n'.
    destruct (strat_update_with_spec _ _ _ _ _ _ _ _ _ _ _ IH Hwk E) as (W & B & V & Nn & Hfi1).
    destruct (strat_write_value_spec _ _ _ _ _ _ _ E0) as (Hv & Hn & Hc & Hfi).
    destruct (set_kid_weights_spec (g_fi g2) (g_value g2) (g_notl g2) kids1 W B) as (W2 & B2 & V2 & N2 & K2).
    destruct (strat_finish_spec _ _ _ _ _ _ _ _ E1) as (Fv & Fn & Fc & Ffi).
    split; constructor; auto.
    + rewrite V2, Fv, Fc, Hv, Hc. exact V.
    + rewrite N2, Fn, Hn. exact Nn.
    + rewrite Ffi, Fv, Fn. exact K2.
Qed.

End Tree.

Arguments WF {A} n.
Arguments BS {A} n.
Arguments sum_values {A} ks.
Arguments sum_notls {A} ks.
Arguments kid_weight_ok {A} fi val notl k.

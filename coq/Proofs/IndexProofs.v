(* IndexProofs.v — the price index of a strategy (C03, C17): strat_new_price / strat_write_value. *)
From Coq Require Import List Bool Arith Reals Lra Lia.
Import ListNotations.
Require Import BT.Num BT.Base BT.Records BT.Engine BT.Ops BT.Proofs.Tac BT.Proofs.Frames.
Local Open Scope R_scope.

Section Index.
Variable A : Type.
Notation stratR := (strat RNumI A).

(* market-value strategies: price[t] x (value[t-1] + net flows[t]) = price[t-1] x value[t] *)
Theorem new_price_recurrence (g : stratR) p :
  g_fi g = false -> g_last_value g + g_net_flows g <> 0 ->
  strat_new_price g = Ok p ->
  p * (g_last_value g + g_net_flows g) = g_last_price g * g_value g.
Proof.
  intros Hfi Hb H. unfold strat_new_price in H. rewrite Hfi in H. rops.
  unfold RNum.is_zero, RNum.add in H. destruct (Req_EM_T (g_last_value g + g_net_flows g) 0); [contradiction|].
  cbn in H. inversion H; subst. unfold RNum.mul, RNum.add, RNum.sub, RNum.div, RNum.one. field. exact Hb.
Qed.

(* zero base: the index stays put when the value is zero too, otherwise the update refuses *)
Theorem new_price_zero_base (g : stratR) :
  g_fi g = false -> g_last_value g + g_net_flows g = 0 ->
  strat_new_price g = if Req_EM_T (g_value g) 0 then Ok (g_last_price g) else Err EZeroBase.
Proof.
  intros Hfi Hb. unfold strat_new_price. rewrite Hfi. rops.
  unfold RNum.is_zero, RNum.add. destruct (Req_EM_T (g_last_value g + g_net_flows g) 0); [|contradiction].
  cbn. destruct (Req_EM_T (g_value g) 0); cbn; [|reflexivity].
  unfold RNum.mul, RNum.add, RNum.one, RNum.zero. f_equal. ring.
Qed.

(* a new strategy starts at 100 *)
Theorem init_price_100 id fi ip bo pt comm univ kw nrows ucols (a : A) :
  g_price (init_strat (N:=RNumI) id fi ip bo pt comm univ kw nrows ucols a) = 100 /\
  g_last_price (init_strat (N:=RNumI) id fi ip bo pt comm univ kw nrows ucols a) = 100.
Proof. split; reflexivity. Qed.

(* a capital flow of any size and sign leaves the index unchanged as long as no P&L has accrued on
   the date (value = last value + flows so far): before and after the flow the index equals the last price *)
Theorem flow_neutral_partial (g : stratR) amount p p' :
  g_fi g = false ->
  g_value g = g_last_value g + g_net_flows g -> g_value g <> 0 -> g_value g + amount <> 0 ->
  strat_new_price g = Ok p ->
  strat_new_price (set_g_value (N:=RNumI) (g_value g + amount) (g_adjust (N:=RNumI) amount 0 true g)) = Ok p' ->
  p = g_last_price g /\ p' = g_last_price g.
Proof.
  intros Hfi Hv H0 H1 Hp Hp'.
  assert (Hb : g_last_value g + g_net_flows g <> 0) by (rewrite <- Hv; exact H0).
  pose proof (new_price_recurrence g p Hfi Hb Hp) as R1. rewrite <- Hv in R1.
  split. { apply (Rmult_eq_reg_r (g_value g)); auto. }
  set (g2 := set_g_value (N:=RNumI) (g_value g + amount) (g_adjust (N:=RNumI) amount 0 true g)) in *.
  assert (F1 : g_fi g2 = false) by (unfold g2, g_adjust; cbn; exact Hfi).
  assert (F2 : g_last_value g2 = g_last_value g) by reflexivity.
  assert (F3 : g_net_flows g2 = g_net_flows g + amount) by reflexivity.
  assert (F4 : g_value g2 = g_value g + amount) by reflexivity.
  assert (F5 : g_last_price g2 = g_last_price g) by reflexivity.
  assert (Hb2 : g_last_value g2 + g_net_flows g2 <> 0) by (rewrite F2, F3; lra).
  pose proof (new_price_recurrence g2 p' F1 Hb2 Hp') as R2. rewrite F2, F3, F4, F5 in R2.
  replace (g_last_value g + (g_net_flows g + amount)) with (g_value g + amount) in R2 by lra.
  apply (Rmult_eq_reg_r (g_value g + amount)); auto.
Qed.

(* ... but not in general: with P&L already accrued on the date a flow moves the index (K3) *)
Theorem flow_neutral_refuted :
  exists (lv fl v a lp : R),
    lv + fl <> 0 /\ lv + fl + a <> 0 /\
    lp * (v / (lv + fl)) <> lp * ((v + a) / (lv + fl + a)).
Proof. exists 100, 0, 110, 50, 100. repeat split; lra. Qed.

(* the index only depends on ratios: scaling value, last value and flows by k leaves it unchanged *)
Theorem new_price_scale (g : stratR) k p :
  g_fi g = false -> k <> 0 -> g_last_value g + g_net_flows g <> 0 ->
  strat_new_price g = Ok p ->
  strat_new_price (set_g_value (N:=RNumI) (k * g_value g) (set_g_last_value (N:=RNumI) (k * g_last_value g) (set_g_net_flows (N:=RNumI) (k * g_net_flows g) g))) = Ok p.
Proof.
  intros Hfi Hk Hb H. unfold strat_new_price in *. cbn. rewrite Hfi in *. rops.
  unfold RNum.is_zero, RNum.add in *.
  destruct (Req_EM_T (g_last_value g + g_net_flows g) 0); [contradiction|].
  destruct (Req_EM_T (k * g_last_value g + k * g_net_flows g) 0) as [e|e].
  { exfalso. apply Hb. apply (Rmult_eq_reg_l k); [|exact Hk]. lra. }
  cbn in *. inversion H; subst. apply f_equal.
  unfold RNum.mul, RNum.add, RNum.sub, RNum.div, RNum.one. unfold RNum.t. field. split; assumption.
Qed.

(* fixed-income strategies: additive index per unit of notional *)
Theorem fi_price_additive (g : stratR) p :
  g_fi g = true -> g_last_notl g <> 0 ->
  strat_new_price g = Ok p ->
  p = g_last_price g + 100 * (g_value g - g_last_value g - g_net_flows g) / g_last_notl g.
Proof.
  intros Hfi Hn H. unfold strat_new_price in H. rewrite Hfi in H. rops.
  unfold RNum.is_zero in H. destruct (Req_EM_T (g_last_notl g) 0); [contradiction|].
  cbn in H. inversion H; subst. unfold RNum.mul, RNum.add, RNum.sub, RNum.div, RNum.par, RNum.t. field. exact Hn.
Qed.

Theorem fi_price_first_notional (g : stratR) p :
  g_fi g = true -> g_last_notl g = 0 -> g_notl g <> 0 ->
  strat_new_price g = Ok p ->
  p = g_last_price g + 100 * (g_value g - g_last_value g - g_net_flows g) / g_notl g.
Proof.
  intros Hfi Hl Hn H. unfold strat_new_price in H. rewrite Hfi in H. rops.
  unfold RNum.is_zero in H. destruct (Req_EM_T (g_last_notl g) 0); [|contradiction].
  destruct (Req_EM_T (g_notl g) 0); [contradiction|].
  cbn in H. inversion H; subst. unfold RNum.mul, RNum.add, RNum.sub, RNum.div, RNum.par, RNum.t. field. exact Hn.
Qed.

Theorem fi_price_zero_notional (g : stratR) :
  g_fi g = true -> g_last_notl g = 0 -> g_notl g = 0 ->
  strat_new_price g =
  if Req_EM_T (g_value g - (g_last_value g + g_net_flows g)) 0 then Ok (g_last_price g) else Err EZeroNotl.
Proof.
  intros Hfi Hl Hn. unfold strat_new_price. rewrite Hfi. rops.
  unfold RNum.is_zero. destruct (Req_EM_T (g_last_notl g) 0); [|contradiction].
  destruct (Req_EM_T (g_notl g) 0); [|contradiction]. cbn.
  unfold RNum.sub, RNum.add. destruct (Req_EM_T (g_value g - (g_last_value g + g_net_flows g)) 0); cbn; [|reflexivity].
  f_equal. unfold RNum.zero. ring.
Qed.

End Index.

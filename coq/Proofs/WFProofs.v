(* WFProofs.v — well-formedness (the security invariants SI and SW at every leaf) is established by construction and
   preserved by every operation of the engine, so the balance-sheet theorem (C01) applies to every reachable state.
   Real-number instance; any algo-state type; any behaviour of the paper copies. *)
From Coq Require Import List Bool Arith Reals Lra Lia.
Import ListNotations.
Require Import BT.Num BT.Base BT.Records BT.Engine BT.Ops BT.Proofs.Tac BT.Proofs.Frames BT.Proofs.SecInv BT.Proofs.TreeInv
        BT.Proofs.WiringProofs.
Local Open Scope R_scope.

Section WFP.
Variable A : Type.
Notation nodeR := (node RNumI A).
Notation stratR := (strat RNumI A).
Notation treeR := (tree RNumI A).
Notation adjR := (adj RNumI).
Variable paper_step : option nat -> treeR -> result treeR.

(* ---------- securities ---------- *)
Lemma opt_update_WF (b : bool) date inow (s s' : secR) :
  (if b then sec_update date inow s else Ok s) = Ok s' -> SI s -> SW s -> SI s' /\ SW s'.
Proof.
  destruct b; intros H HSI HSW.
  - destruct (sec_update_inv _ _ _ _ H HSI HSW) as (a & b & _). split; assumption.
  - inversion H; subst. split; assumption.
Qed.

Lemma sec_transact_WF pnow comm q upd us price (s s' : secR) oa :
  sec_transact (N:=RNumI) pnow comm q upd us price s = Ok (s', oa) -> SI s -> SW s -> SI s' /\ SW s'.
Proof.
  unfold sec_transact. intros H HSI HSW. inv_bind H. rename x into s1.
  destruct (opt_update_WF _ _ _ _ _ E HSI HSW) as [HSI1 HSW1].
  destruct (nis_zero RNumI q); [inversion H0; subst; split; assumption|].
  destruct (match price with Some _ => negb (s_bo_set s1) | None => false end); [discriminate|].
  inv_bind H0. destruct x as [[[fo o] fee] bop]. inversion H1; subst; clear H1.
  split.
  - unfold SI in *. cbn. exact HSI1.
  - unfold SW. cbn. intros C. discriminate.
Qed.

Lemma sec_allocate_WF pnow comm amount upd (s s' : secR) oa :
  sec_allocate (N:=RNumI) pnow comm amount upd s = Ok (s', oa) -> SI s -> SW s -> SI s' /\ SW s'.
Proof.
  unfold sec_allocate. intros H HSI HSW. inv_bind H. rename x into s1.
  destruct (opt_update_WF _ _ _ _ _ E HSI HSW) as [HSI1 HSW1].
  destruct (nis_zero RNumI amount); [inversion H0; subst; split; assumption|].
  destruct (s_price s1) as [pr|]; [|discriminate].
  destruct (nis_zero RNumI pr); [discriminate|].
  match type of H0 with (if ?c then _ else _) = _ => destruct c end; [inversion H0; subst; split; assumption|].
  inv_bind H0. eapply sec_transact_WF; eauto.
Qed.

(* ---------- allocate / transact down the tree ---------- *)
Lemma node_allocate_WF (n : nodeR) : forall pnow comm amount upd n' oa,
  node_allocate pnow comm amount upd n = Ok (n', oa) -> WF n -> WF n'.
Proof.
  induction n as [s | g kids lz paper IH] using (node_ind' A); intros pnow comm amount upd n' oa H Hwf.
  - cbn [node_allocate] in H. inv_bind H. destruct x as [s1 oa1]. inversion H0; subst.
    inversion Hwf as [? HSI HSW|]; subst. destruct (sec_allocate_WF _ _ _ _ _ _ _ E HSI HSW). constructor; assumption.
  - inversion Hwf as [|? ? ? ? Hk]; subst. cbn [node_allocate] in H. inv_bind H. destruct x as [kids1 g1].
    inversion H0; subst; clear H0. constructor.
    clear Hwf. revert kids1 g1 E. generalize (g_adjust (N:=RNumI) amount (n0 RNumI) true g) as g0.
    induction kids as [|c ks IHk]; intros g0 kids1 g1 E.
    + inversion E; subst. constructor.
    + inversion IH as [|? ? Pc Pks]; subst. inversion Hk as [|? ? Wc Wks]; subst.
      inv_bind E. destruct x as [c1 oa1]. inv_bind E1. destruct x as [ks1 g2]. inversion E2; subst; clear E2.
      constructor; [eapply Pc; eauto | eapply IHk; eauto].
Qed.

Lemma node_transact_WF (n : nodeR) : forall pnow comm q upd n' oa,
  node_transact pnow comm q upd n = Ok (n', oa) -> WF n -> WF n'.
Proof.
  induction n as [s | g kids lz paper IH] using (node_ind' A); intros pnow comm q upd n' oa H Hwf.
  - cbn [node_transact] in H. inv_bind H. destruct x as [s1 oa1]. inversion H0; subst.
    inversion Hwf as [? HSI HSW|]; subst. destruct (sec_transact_WF _ _ _ _ _ _ _ _ _ E HSI HSW). constructor; assumption.
  - inversion Hwf as [|? ? ? ? Hk]; subst. cbn [node_transact] in H. inv_bind H. destruct x as [kids1 g1].
    inversion H0; subst; clear H0. constructor.
    clear Hwf. revert kids1 g1 E. generalize g as g0.
    induction kids as [|c ks IHk]; intros g0 kids1 g1 E.
    + inversion E; subst. constructor.
    + inversion IH as [|? ? Pc Pks]; subst. inversion Hk as [|? ? Wc Wks]; subst.
      inv_bind E. destruct x as [c1 oa1]. inv_bind E1. destruct x as [ks1 g2]. inversion E2; subst; clear E2.
      constructor; [eapply Pc; eauto | eapply IHk; eauto].
Qed.

Lemma flatten_kids_WF fi (ks : list nodeR) : forall (g : stratR) ks' g',
  flatten_kids fi ks g = Ok (ks', g') -> Forall WF ks -> Forall WF ks'.
Proof.
  induction ks as [|c ks IH]; intros g ks' g' H Hw.
  - inversion H; subst. constructor.
  - inversion Hw as [|? ? Wc Wks]; subst. cbn [flatten_kids] in H. inv_bind H. destruct x as [c1 oa1].
    inv_bind H0. destruct x as [ks1 g2]. inversion H1; subst; clear H1.
    constructor; [|eapply IH; eauto].
    destruct fi.
    + inv_bind E. destruct (negb _); [eapply node_transact_WF; eauto |].
      match goal with H : Ok (c, None) = Ok _ |- _ => inversion H; subst end. exact Wc.
    + destruct (negb _); [eapply node_allocate_WF; eauto |].
      match goal with H : Ok (c, None) = Ok _ |- _ => inversion H; subst end. exact Wc.
Qed.

(* ---------- weights ---------- *)
Lemma kid_weight_WF fi val notl (c : nodeR) : WF c -> WF (kid_weight fi val notl c).
Proof.
  intros Hw. unfold kid_weight. destruct (skipped c) eqn:Es; [exact Hw|].
  assert (G : forall w, WF (set_weight w c)).
  { intros w. destruct c as [s|g k l p]; cbn [set_weight].
    - inversion Hw as [? HSI HSW|]; subst. cbn [skipped] in Es. apply negb_false_iff in Es. constructor.
      + unfold SI in *. cbn. exact HSI.
      + unfold SW. cbn. intros C. congruence.
    - inversion Hw; subst. constructor. assumption. }
  destruct fi; apply G.
Qed.

Lemma set_kid_weights_WF fi val notl (ks : list nodeR) : Forall WF ks -> Forall WF (set_kid_weights fi val notl ks).
Proof. unfold set_kid_weights. intros H. induction H; cbn; constructor; auto using kid_weight_WF. Qed.

(* ---------- root.update and the refresh ---------- *)
Lemma suw_WF date inow (g g1 : stratR) kids kids1 newpt acc :
  Forall WF kids -> strat_update_with (node_update paper_step date inow) date inow g kids = Ok (newpt, g1, kids1, acc) ->
  Forall WF kids1.
Proof.
  intros Hk H. destruct acc as [[val notl] bop].
  refine (proj1 (strat_update_with_spec A (node_update paper_step date inow) date inow g g1 kids kids1 newpt val notl bop _ Hk H)).
  apply Forall_forall. intros k _ k' Hu Hwk. exact (node_update_BS A paper_step date inow k k' Hu Hwk).
Qed.

Theorem root_update_WF date (tr tr' : treeR) :
  root_update paper_step date tr = Ok tr' -> WF (fst tr) -> WF (fst tr').
Proof.
  unfold root_update. destruct (fst tr) as [s|g kids lz paper]; [discriminate|]. intros H Hwf.
  inversion Hwf as [|? ? ? ? Hk]; subst.
  inv_bind H. rename x into inow. inv_bind H0. destruct x as [[[newpt g1] kids1] [[val notl] bop]].
  pose proof (suw_WF _ _ _ _ _ _ _ _ Hk E0) as W1.
  match type of H1 with (if ?c then _ else _) = _ => destruct c end.
  - inv_bind H1. destruct x as [kids2 g2]. pose proof (flatten_kids_WF _ _ _ _ _ E1 W1) as W2.
    inv_bind H0. rename x into g3.
    destruct (all_skipped kids2).
    + inv_bind H1. destruct x as [g4 paper4]. inversion H0; subst. cbn. constructor. exact W2.
    + inv_bind H1. destruct x as [[[np5 g5] kids5] [[val5 notl5] bop5]].
      pose proof (suw_WF _ _ _ _ _ _ _ _ W2 E3) as W5.
      inv_bind H0. rename x into g6. inv_bind H1. destruct x as [g7 paper7].
      inv_bind H0. destruct x as [g8 paper8]. inversion H1; subst. cbn. constructor.
      apply set_kid_weights_WF. apply set_kid_weights_WF. exact W5.
  - inv_bind H1. rename x into g3. inv_bind H0. destruct x as [g4 paper4]. inversion H1; subst. cbn. constructor.
    apply set_kid_weights_WF. exact W1.
Qed.

Theorem refresh_WF (tr tr' : treeR) : refresh paper_step tr = Ok tr' -> WF (fst tr) -> WF (fst tr').
Proof.
  unfold refresh. destruct (snd tr); intros H Hw; [eapply root_update_WF; eauto | inversion H; subst; exact Hw].
Qed.

(* ---------- navigation ---------- *)
Definition WFpres (f : option (pctx RNumI) -> nodeR -> result (nodeR * option adjR * bool)) : Prop :=
  forall ctx n n' oa st, f ctx n = Ok (n', oa, st) -> WF n -> WF n'.

Lemma at_kid_WF k (F : nodeR -> result (nodeR * option adjR * bool)) :
  (forall n n' oa st, F n = Ok (n', oa, st) -> WF n -> WF n') ->
  forall ks ks' oa st, at_kid k F ks = Ok (ks', oa, st) -> Forall WF ks -> Forall WF ks'.
Proof.
  intros HF. induction ks as [|c ks IH]; intros ks' oa st H Hw; [discriminate|].
  inversion Hw as [|? ? Wc Wks]; subst. cbn [at_kid] in H. destruct (Nat.eqb (node_id c) k).
  - inv_bind H. destruct x as [[c1 oa1] st1]. inversion H0; subst. constructor; [eapply HF; eauto | exact Wks].
  - inv_bind H. destruct x as [[ks1 oa1] st1]. inversion H0; subst. constructor; [exact Wc | eapply IH; eauto].
Qed.

Lemma at_path_WF f : WFpres f -> forall p ctx (n : nodeR) n' oa st,
  at_path p f ctx n = Ok (n', oa, st) -> WF n -> WF n'.
Proof.
  intros Hf. induction p as [|k p IH]; intros ctx n n' oa st H Hw.
  - cbn in H. eapply Hf; eauto.
  - cbn [at_path] in H. destruct n as [s|g kids lz paper]; [discriminate|].
    inversion Hw as [|? ? ? ? Hk]; subst. inv_bind H. destruct x as [[kids1 oa1] st1]. inversion H0; subst.
    constructor. eapply at_kid_WF; [|exact E|exact Hk]. intros n0 n0' oa0 st0 H1 Hw0. eapply IH; eauto.
Qed.

Lemma tree_at_WF f p (tr tr' : treeR) : WFpres f -> tree_at p f tr = Ok tr' -> WF (fst tr) -> WF (fst tr').
Proof.
  intros Hf H Hw. unfold tree_at in H. inv_bind H. destruct x as [[n oa] st]. inversion H0; subst. cbn.
  eapply at_path_WF; eauto.
Qed.

(* ---------- node-level operations ---------- *)
Lemma lift2_inv (r : result (nodeR * option adjR)) st0 n oa st :
  lift2 r st0 = Ok (n, oa, st) -> r = Ok (n, oa).
Proof. unfold lift2. destruct r as [[n1 oa1]|]; cbn; intros H; [inversion H; subst; reflexivity | discriminate]. Qed.

Lemma op_allocate_self_WF amount upd : WFpres (op_allocate_self amount upd).
Proof.
  intros ctx n n' oa st H Hw. unfold op_allocate_self in H.
  destruct n as [s|g kids lz paper]; destruct ctx as [c|]; try discriminate.
  - apply lift2_inv in H. eapply node_allocate_WF; eauto.
  - apply lift2_inv in H. eapply node_allocate_WF; eauto.
  - inv_bind H. destruct x as [n1 oa1]. inversion H0; subst. eapply node_allocate_WF; [exact E|].
    inversion Hw; subst. constructor. assumption.
Qed.

Lemma op_transact_self_WF q upd price : WFpres (op_transact_self q upd price).
Proof.
  intros ctx n n' oa st H Hw. unfold op_transact_self in H.
  destruct n as [s|g kids lz paper]; destruct ctx as [c|]; try discriminate.
  - inv_bind H. destruct x as [s1 oa1]. inversion H0; subst. inversion Hw as [? HSI HSW|]; subst.
    destruct (sec_transact_WF _ _ _ _ _ _ _ _ _ E HSI HSW). constructor; assumption.
  - apply lift2_inv in H. eapply node_transact_WF; eauto.
  - apply lift2_inv in H. eapply node_transact_WF; eauto.
Qed.

Lemma sec_setup_WF u kw n ip id cls fi m (s : secR) : sec_setup (N:=RNumI) u kw n ip id cls fi m = Ok s -> SI s /\ SW s.
Proof.
  unfold sec_setup. destruct (kw_bidoffer kw) as [f|]; cbn zeta;
    (destruct (class_coupon cls); [destruct (kw_coupons kw) as [cf|]; [destruct (lookup id cf)|]|]);
    cbn [bind]; intros H; inversion H; subst; (split; [unfold SI; cbn; rops; unfold RNum.mul, RNum.zero, RNum.t; change (carrier RNumI) with R in *; ring | unfold SW; cbn; intros C; discriminate]).
Qed.

Lemma create_child_WF k (n n' : nodeR) : create_child k n = Ok n' -> WF n -> WF n'.
Proof.
  intros H Hw. destruct n as [s|g kids lz pp]; [discriminate|]. cbn [create_child] in H.
  destruct (find_kid k kids); [inversion H; subst; exact Hw|].
  destruct (pop_lazy k lz) as [ol lz'].
  inv_bind H. rename x into s0. inv_bind H0. rename x into s1. inversion H1; subst; clear H1.
  destruct (sec_setup_WF _ _ _ _ _ _ _ _ _ E) as [I0 W0].
  apply bind_ok in E0. destruct E0 as (irow & _ & Hu). destruct (sec_update_inv _ _ _ _ Hu I0 W0) as (I1 & W1 & _).
  inversion Hw; subst. constructor. apply Forall_app. split; [assumption|]. constructor; [constructor; assumption|constructor].
Qed.

Lemma tree_create_child_WF p k (tr tr' : treeR) : tree_create_child p k tr = Ok tr' -> WF (fst tr) -> WF (fst tr').
Proof.
  unfold tree_create_child. apply tree_at_WF. intros ctx n n' oa st H Hw. inv_bind H. inversion H0; subst.
  eapply create_child_WF; eauto.
Qed.

(* ---------- tree-level operations ---------- *)
Ltac ib H x E H2 := apply bind_ok in H; destruct H as (x & E & H2).

Lemma op_flatten_WF p (tr tr' : treeR) : op_flatten paper_step p tr = Ok tr' -> WF (fst tr) -> WF (fst tr').
Proof.
  unfold op_flatten. intros H Hw. ib H gk Eg H1. destruct gk as [g kids]. ib H1 tr1 Er H2.
  assert (W1 : WF (fst tr1)).
  { destruct kids; [inversion Er; subst; exact Hw|]. destruct (g_fi g); [inversion Er; subst; exact Hw | eapply refresh_WF; eauto]. }
  ib H2 r Ea H3. destruct r as [[n oa] st]. inversion H3; subst. cbn.
  eapply at_path_WF; [|exact Ea|exact W1].
  intros ctx n0 n0' oa0 st0 H4 Hw0. destruct n0 as [s|g0 ks lz pp]; [discriminate|].
  ib H4 r Ef H5. destruct r as [ks1 g1]. inversion H5; subst. inversion Hw0; subst. constructor. eapply flatten_kids_WF; eauto.
Qed.

Lemma op_close_WF p k upd (tr tr' : treeR) : op_close paper_step p k upd tr = Ok tr' -> WF (fst tr) -> WF (fst tr').
Proof.
  unfold op_close. intros H Hw. ib H gk Eg H1. destruct gk as [g kids].
  destruct (find_kid k kids) as [c|]; [|discriminate]. ib H1 tr1 Ef H2.
  assert (W1 : WF (fst tr1)).
  { destruct (has_children c); [eapply op_flatten_WF; eauto | inversion Ef; subst; exact Hw]. }
  destruct (g_fi g).
  - destruct (get_node (p ++ [k]) (fst tr1)) as [c1|]; [|discriminate]. ib H2 qpos Ep H3. destruct (negb _).
    + eapply tree_at_WF; [apply op_transact_self_WF | exact H3 | exact W1].
    + inversion H3; subst. exact W1.
  - ib H2 tr2 Er H3. pose proof (refresh_WF _ _ Er W1) as W2.
    destruct (get_node (p ++ [k]) (fst tr2)) as [c1|]; [|discriminate]. destruct (negb _).
    + eapply tree_at_WF; [apply op_allocate_self_WF | exact H3 | exact W2].
    + inversion H3; subst. exact W2.
Qed.

Lemma op_rebalance_WF p w k base upd (tr tr' : treeR) :
  op_rebalance paper_step p w k base upd tr = Ok tr' -> WF (fst tr) -> WF (fst tr').
Proof.
  unfold op_rebalance. intros H Hw. ib H gk Eg H1. destruct gk as [g kids].
  destruct (nis_zero RNumI w).
  - destruct (find_kid k kids); [eapply op_close_WF; eauto | inversion H1; subst; exact Hw].
  - ib H1 tb Eb H2. destruct tb as [tr1 b].
    assert (W1 : WF (fst tr1)).
    { destruct base as [b0|]; [inversion Eb; subst; exact Hw|]. ib Eb tr0 Er Eb2. ib Eb2 gk2 Eg2 Eb3. destruct gk2 as [g1 k1].
      inversion Eb3; subst. eapply refresh_WF; eauto. }
    ib H2 tr2 Ec H3. pose proof (tree_create_child_WF _ _ _ _ Ec W1) as W2.
    ib H3 tr3 Er H4. pose proof (refresh_WF _ _ Er W2) as W3.
    ib H4 gk3 Eg3 H5. destruct gk3 as [g3 kids3]. destruct (find_kid k kids3) as [c|]; [|discriminate].
    destruct (g_fi g3); [destruct (node_fi c)|].
    + eapply tree_at_WF; [apply op_transact_self_WF | exact H5 | exact W3].
    + eapply tree_at_WF; [apply op_allocate_self_WF | exact H5 | exact W3].
    + eapply tree_at_WF; [apply op_allocate_self_WF | exact H5 | exact W3].
Qed.

Lemma sec_self_update_WF p (tr tr' : treeR) : sec_self_update p tr = Ok tr' -> WF (fst tr) -> WF (fst tr').
Proof.
  unfold sec_self_update. destruct p as [|k0 p0]; [discriminate|]. intros H Hw.
  ib H r Ea H1. destruct r as [[n oa] st]. inversion H1; subst. cbn.
  eapply at_path_WF; [|exact Ea|exact Hw].
  intros ctx n0 n0' oa0 st0 H2 Hw0. destruct n0 as [s|g0 ks lz pp]; [|discriminate]. destruct ctx as [c|]; [|discriminate].
  ib H2 s1 Es H3. inversion H3; subst. inversion Hw0 as [? HSI HSW|]; subst.
  assert (G : SI s1 /\ SW s1).
  { destruct (_ || _).
    - ib Es irow Ei Hu. destruct (sec_update_inv _ _ _ _ Hu HSI HSW) as (a & b & _). split; assumption.
    - inversion Es; subst. split; assumption. }
  destruct G. constructor; assumption.
Qed.

Lemma op_read_WF p f (tr tr' : treeR) c : op_read paper_step p f tr = Ok (tr', c) -> WF (fst tr) -> WF (fst tr').
Proof.
  unfold op_read. intros H Hw.
  destruct (get_node p (fst tr)) as [n|]; [|discriminate].
  assert (Gen : forall tr0 tr1 (c1 : nodeR -> cell RNumI), WF (fst tr0) ->
            (tr2 <- refresh paper_step tr0 ;;
             match get_node p (fst tr2) with
             | None => Err EKey
             | Some n1 => Ok (tr2, c1 n1)
             end) = Ok (tr1, c) -> WF (fst tr1)).
  { intros tr0 tr1 c1 W0 H0. ib H0 tr2 Er H1. destruct (get_node p (fst tr2)); [|discriminate]. inversion H1; subst.
    eapply refresh_WF; eauto. }
  destruct n as [s0|g0 ks lz pp].
  - destruct f; try (eapply Gen; [exact Hw|exact H]).
    + ib H tr1 Es H1. pose proof (sec_self_update_WF _ _ _ Es Hw) as W1.
      destruct (get_node p (fst tr1)) as [[s1|]|]; try discriminate. inversion H1; subst. exact W1.
    + ib H tr1 Er H1.
      assert (W1 : WF (fst tr1)) by (destruct (class_coupon _); [eapply refresh_WF; eauto | inversion Er; subst; exact Hw]).
      ib H1 tr2 Es H2. pose proof (sec_self_update_WF _ _ _ Es W1) as W2.
      ib H2 tr3 Er3 H3. inversion H3; subst. eapply refresh_WF; eauto.
  - eapply Gen; [exact Hw|exact H].
Qed.

(* ---------- every operation keeps the tree well-formed ---------- *)
Theorem apply_op_WF (o : op RNumI) (tr tr' : treeR) c :
  apply_op paper_step o tr = Ok (tr', c) -> WF (fst tr) -> WF (fst tr').
Proof.
  intros H Hw. destruct o as [date | p amount upd flow fee | p amount child upd | p q child upd price | p w k base upd | p k upd | p | p f];
    cbn [apply_op] in H.
  - ib H tr1 E H1. inversion H1; subst. eapply root_update_WF; eauto.
  - ib H tr1 E H1. inversion H1; subst. eapply tree_at_WF; [|exact E|exact Hw].
    intros ctx n n' oa st H2 Hw0. destruct n as [s|g ks lz pp]; [discriminate|]. inversion H2; subst.
    inversion Hw0; subst. constructor. assumption.
  - destruct child as [k|].
    + ib H tr1 E H1. ib H1 tr2 E2 H2. inversion H2; subst.
      eapply tree_at_WF; [apply op_allocate_self_WF | exact E2 | eapply tree_create_child_WF; eauto].
    + ib H tr1 E H1. inversion H1; subst. eapply tree_at_WF; [apply op_allocate_self_WF | exact E | exact Hw].
  - destruct child as [k|].
    + ib H tr1 E H1. ib H1 tr2 E2 H2. inversion H2; subst.
      eapply tree_at_WF; [apply op_transact_self_WF | exact E2 | eapply tree_create_child_WF; eauto].
    + ib H tr1 E H1. inversion H1; subst. eapply tree_at_WF; [apply op_transact_self_WF | exact E | exact Hw].
  - ib H tr1 E H1. inversion H1; subst. eapply op_rebalance_WF; eauto.
  - ib H tr1 E H1. inversion H1; subst. eapply op_close_WF; eauto.
  - ib H tr1 E H1. inversion H1; subst. eapply op_flatten_WF; eauto.
  - eapply op_read_WF; eauto.
Qed.

(* ---------- construction ---------- *)
Lemma go_kids_WF d ip comm fi (kids : list (nspec RNumI A)) :
  Forall (fun k => forall r pfi (n : nodeR), build_node d ip comm r pfi k = Ok n -> WF n) kids ->
  forall ns lz, go_kids RNumI A d ip comm fi kids = Ok (ns, lz) -> Forall WF ns.
Proof.
  induction kids as [|k ks IH]; intros HP ns lz H.
  - cbn in H. inversion H; subst. constructor.
  - inversion HP as [|? ? Pk Pks]; subst. specialize (IH Pks).
    assert (Gen : forall n0, build_node d ip comm false fi k = Ok n0 ->
              forall ns0 lz0, go_kids RNumI A d ip comm fi ks = Ok (ns0, lz0) -> Forall WF (n0 :: ns0)).
    { intros n0 Hb ns0 lz0 Hg. constructor; [eapply Pk; eauto | eapply IH; eauto]. }
    destruct k as [kid cls kfi mult lzf | kid kfi a kk | kid kfi a kk].
    + destruct lzf.
      * cbn [go_kids] in H. fold (go_kids RNumI A d ip comm fi) in H.
        destruct (go_kids RNumI A d ip comm fi ks) as [[ns0 lz0]|] eqn:G; [|discriminate]. cbn [bind] in H. inversion H; subst.
        eapply IH; eauto.
      * cbn [go_kids] in H. fold (go_kids RNumI A d ip comm fi) in H.
        destruct (build_node d ip comm false fi (SpSec RNumI A kid cls kfi mult false)) as [n0|] eqn:B; [|discriminate].
        cbn [bind] in H. destruct (go_kids RNumI A d ip comm fi ks) as [[ns0 lz0]|] eqn:G; [|discriminate].
        cbn [bind] in H. inversion H; subst. eapply Gen; eauto.
    + cbn [go_kids] in H. fold (go_kids RNumI A d ip comm fi) in H.
      destruct (build_node d ip comm false fi (SpStrat kid kfi a kk)) as [n0|] eqn:B; [|discriminate].
      cbn [bind] in H. destruct (go_kids RNumI A d ip comm fi ks) as [[ns0 lz0]|] eqn:G; [|discriminate].
      cbn [bind] in H. inversion H; subst. eapply Gen; eauto.
    + cbn [go_kids] in H. fold (go_kids RNumI A d ip comm fi) in H.
      destruct (build_node d ip comm false fi (SpLate kid kfi a kk)) as [n0|] eqn:B; [|discriminate].
      cbn [bind] in H. destruct (go_kids RNumI A d ip comm fi ks) as [[ns0 lz0]|] eqn:G; [|discriminate].
      cbn [bind] in H. inversion H; subst. eapply Gen; eauto.
Qed.

Lemma strat_WF d ip comm (late : bool) id fi a kids :
  Forall (fun k => forall r pfi (n : nodeR), build_node d ip comm r pfi k = Ok n -> WF n) kids ->
  forall r pfi (n : nodeR), build_node d ip comm r pfi (if late then SpLate id fi a kids else SpStrat id fi a kids) = Ok n -> WF n.
Proof.
  intros HP r pfi n. rewrite build_strat_eq. intros H.
  destruct (fi && negb pfi && negb r); [discriminate|].
  destruct (has_dup _); [discriminate|].
  destruct (go_kids RNumI A d ip comm fi kids) as [[ns lz]|] eqn:G; [|discriminate]. cbn [bind] in H.
  pose proof (go_kids_WF d ip comm fi kids HP ns lz G) as Hk.
  destruct r; inversion H; subst; constructor; exact Hk.
Qed.

Theorem build_node_WF d ip comm (sp : nspec RNumI A) : forall r pfi (n : nodeR), build_node d ip comm r pfi sp = Ok n -> WF n.
Proof.
  induction sp as [id cls fi m lz | id fi a kids IH | id fi a kids IH] using (nspec_ind' RNumI A); intros r pfi n H.
  - cbn [build_node] in H. destruct (sec_setup _ _ _ _ _ _ _ _) as [s|] eqn:E; [|discriminate]. cbn [bind] in H.
    inversion H; subst. destruct (sec_setup_WF _ _ _ _ _ _ _ _ _ E). constructor; assumption.
  - exact (strat_WF d ip comm false id fi a kids IH r pfi n H).
  - exact (strat_WF d ip comm true id fi a kids IH r pfi n H).
Qed.

(* ---------- every reachable state ---------- *)
Fixpoint run_ops (ops : list (op RNumI)) (tr : treeR) : result treeR :=
  match ops with
  | [] => Ok tr
  | o :: os => '(tr1, _) <- apply_op paper_step o tr ;; run_ops os tr1
  end.

Theorem run_ops_WF ops : forall tr tr', run_ops ops tr = Ok tr' -> WF (fst tr) -> WF (fst tr').
Proof.
  induction ops as [|o os IH]; intros tr tr' H Hw; cbn [run_ops] in H.
  - inversion H; subst. exact Hw.
  - apply bind_ok in H. destruct H as ([tr1 c] & E & H). eapply IH; [exact H|]. eapply apply_op_WF; eauto.
Qed.

Theorem reachable_WF d ip comm (sp : nspec RNumI A) ops tr0 tr :
  build d ip comm sp = Ok tr0 -> run_ops ops tr0 = Ok tr -> WF (fst tr).
Proof.
  intros Hb Hr. eapply run_ops_WF; [exact Hr|]. unfold build in Hb.
  destruct (has_dup _); [discriminate|]. apply bind_ok in Hb. destruct Hb as (n & E & Hb). inversion Hb; subst. cbn.
  eapply build_node_WF; eauto.
Qed.

(* ---------- root.update establishes the balance sheet whenever it leaves the tree fresh ---------- *)
Lemma flatten_kids_g_fi fi (ks : list nodeR) : forall (g : stratR) ks' g',
  flatten_kids fi ks g = Ok (ks', g') -> g_fi g' = g_fi g.
Proof.
  induction ks as [|c ks IH]; intros g ks' g' H.
  - inversion H; subst. reflexivity.
  - cbn [flatten_kids] in H. apply bind_ok in H. destruct H as ([c1 oa1] & E & H).
    apply bind_ok in H. destruct H as ([ks1 g2] & E0 & H). inversion H; subst.
    rewrite (IH _ _ _ E0). unfold apply_adj. destruct oa1; [apply g_adjust_g_fi | reflexivity].
Qed.

Theorem root_update_BS date (tr tr' : treeR) :
  root_update paper_step date tr = Ok tr' -> WF (fst tr) -> snd tr' = false -> BS (fst tr').
Proof.
  unfold root_update. destruct (fst tr) as [s|g kids lz paper]; [discriminate|]. intros H Hwf Hst.
  inversion Hwf as [|? ? ? ? Hk]; subst.
  apply bind_ok in H. destruct H as (inow & Ei & H).
  apply bind_ok in H. destruct H as ([[[newpt g1] kids1] [[val notl] bop]] & E0 & H).
  assert (IHk : Forall (fun k => forall k', node_update paper_step date inow k = Ok k' -> WF k -> BS k' /\ WF k') kids).
  { apply Forall_forall. intros k _ k' Hu Hwk. exact (node_update_BS A paper_step date inow k k' Hu Hwk). }
  destruct (strat_update_with_spec A _ _ _ _ _ _ _ _ _ _ _ IHk Hk E0) as (W1 & B1 & V1 & N1 & F1).
  match type of H with (if ?c then _ else _) = _ => destruct c eqn:Ec end.
  - apply bind_ok in H. destruct H as ([kids2 g2] & Ef & H).
    pose proof (flatten_kids_WF _ _ _ _ _ Ef W1) as W2.
    apply bind_ok in H. destruct H as (g3 & Ew & H).
    destruct (all_skipped kids2).
    + apply bind_ok in H. destruct H as ([g4 paper4] & Efin & H). inversion H; subst. cbn in Hst. discriminate.
    + apply bind_ok in H. destruct H as ([[[np5 g5] kids5] [[val5 notl5] bop5]] & E5 & H).
      assert (IHk2 : Forall (fun k => forall k', node_update paper_step date inow k = Ok k' -> WF k -> BS k' /\ WF k') kids2).
      { apply Forall_forall. intros k _ k' Hu Hwk. exact (node_update_BS A paper_step date inow k k' Hu Hwk). }
      destruct (strat_update_with_spec A _ _ _ _ _ _ _ _ _ _ _ IHk2 W2 E5) as (W5 & B5 & V5 & N5 & F5).
      apply bind_ok in H. destruct H as (g6 & Ew6 & H).
      destruct (strat_write_value_spec A _ _ _ _ _ _ _ Ew6) as (Hv6 & Hn6 & Hc6 & Hf6).
      apply bind_ok in H. destruct H as ([g7 paper7] & Ef7 & H).
      destruct (strat_finish_spec A paper_step _ _ _ _ _ _ _ _ Ef7) as (Fv7 & Fn7 & Fc7 & Ff7).
      apply bind_ok in H. destruct H as ([g8 paper8] & Ef8 & H).
      destruct (strat_finish_spec A paper_step _ _ _ _ _ _ _ _ Ef8) as (Fv8 & Fn8 & Fc8 & Ff8).
      inversion H; subst. cbn [fst].
      destruct (set_kid_weights_spec A false (g_value g6) (g_notl g6) kids5 W5 B5) as (Wa & Ba & Va & Na & Ka).
      destruct (set_kid_weights_spec A false (g_value g7) (g_notl g7) _ Wa Ba) as (Wb & Bb & Vb & Nb & Kb).
      (* the root is a market-value strategy in this branch *)
      assert (Gfi : g_fi g8 = false).
      { rewrite Ff8, Ff7, Hf6, F5. destruct (strat_write_value_spec A _ _ _ _ _ _ _ Ew) as (_ & _ & _ & Hf3).
        rewrite Hf3. rewrite (flatten_kids_g_fi _ _ _ _ _ Ef). cbn.
        apply andb_prop in Ec. destruct Ec as [Ec _]. apply andb_prop in Ec. destruct Ec as [_ Ec].
        apply negb_true_iff in Ec. exact Ec. }
      constructor.
      * rewrite Vb, Va, Fv8, Fc8, Fv7, Fc7, Hv6, Hc6. first [exact V5 | reflexivity].
      * rewrite Nb, Na, Fn8, Fn7, Hn6. first [exact N5 | reflexivity].
      * rewrite Gfi, Fv8, Fn8. exact Kb.
      * exact Bb.
  - apply bind_ok in H. destruct H as (g3 & Ew & H).
    destruct (strat_write_value_spec A _ _ _ _ _ _ _ Ew) as (Hv & Hn & Hc & Hfi).
    apply bind_ok in H. destruct H as ([g4 paper4] & Ef & H).
    destruct (strat_finish_spec A paper_step _ _ _ _ _ _ _ _ Ef) as (Fv & Fn & Fc & Ffi).
    inversion H; subst. cbn [fst].
    destruct (set_kid_weights_spec A (g_fi g3) (g_value g3) (g_notl g3) kids1 W1 B1) as (W2 & B2 & V2 & N2 & K2).
    constructor.
    + rewrite V2, Fv, Fc, Hv, Hc. first [exact V1 | reflexivity].
    + rewrite N2, Fn, Hn. first [exact N1 | reflexivity].
    + rewrite Ffi, Fv, Fn. exact K2.
    + exact B2.
Qed.

(* C01 for every reachable state: build a tree from any declaration, apply any sequence of operations, then update:
   if the update leaves the tree fresh (it always does except on the date a root goes bankrupt with every position
   already flat), the balance sheet holds at every node *)
Theorem reachable_update_BS d ip comm (sp : nspec RNumI A) ops tr0 tr date tr' :
  build d ip comm sp = Ok tr0 -> run_ops ops tr0 = Ok tr ->
  root_update paper_step date tr = Ok tr' -> snd tr' = false -> BS (fst tr') /\ WF (fst tr').
Proof.
  intros Hb Hr Hu Hs. pose proof (reachable_WF _ _ _ _ _ _ _ Hb Hr) as Hw.
  split; [eapply root_update_BS; eauto | eapply root_update_WF; eauto].
Qed.

End WFP.

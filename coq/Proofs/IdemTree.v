(* IdemTree.v — C08: StrategyBase.update is idempotent on whole trees (real-number instance): a second update of the
   same date changes nothing, at any depth, with any paper-copy behaviour. *)
From Coq Require Import List Bool Arith Reals Lra Lia.
Import ListNotations.
Require Import BT.Num BT.Base BT.Records BT.Engine BT.Ops BT.Proofs.Tac BT.Proofs.Frames BT.Proofs.SecInv BT.Proofs.TreeInv
        BT.Proofs.IdemProofs.
Local Open Scope R_scope.

Section IdemTree.
Variable A : Type.
Notation nodeR := (node RNumI A).
Notation stratR := (strat RNumI A).
Notation treeR := (tree RNumI A).
Variable paper_step : option nat -> treeR -> result treeR.

(* the weight of a security is not read by its own update once its clock and position row are current *)
Ltac secnorm := cbv beta iota zeta delta [set_s_id Records.s_id set_s_class Records.s_class set_s_fi Records.s_fi set_s_mult Records.s_mult set_s_intpos Records.s_intpos set_s_prices Records.s_prices set_s_bo_set Records.s_bo_set set_s_bidoffers Records.s_bidoffers set_s_coupons Records.s_coupons set_s_cost_long Records.s_cost_long set_s_cost_short Records.s_cost_short set_s_now Records.s_now set_s_pos Records.s_pos set_s_lastpos Records.s_lastpos set_s_price Records.s_price set_s_value Records.s_value set_s_notl Records.s_notl set_s_weight Records.s_weight set_s_needupdate Records.s_needupdate set_s_outlay Records.s_outlay set_s_bidoffer Records.s_bidoffer set_s_bidoffer_paid Records.s_bidoffer_paid set_s_capital Records.s_capital set_s_coupon Records.s_coupon set_s_holding_cost Records.s_holding_cost set_h_values Records.h_values set_h_positions Records.h_positions set_h_notls Records.h_notls set_h_outlays Records.h_outlays set_h_bopaid Records.h_bopaid set_h_coupons Records.h_coupons set_h_hcosts Records.h_hcosts set_s_risk Records.s_risk].
Ltac stratnorm := cbv beta iota zeta delta [set_g_id Records.g_id set_g_fi Records.g_fi set_g_intpos Records.g_intpos set_g_bo_set Records.g_bo_set set_g_paper_trade Records.g_paper_trade set_g_comm Records.g_comm set_g_univ Records.g_univ set_g_kw Records.g_kw set_g_nrows Records.g_nrows set_g_now Records.g_now set_g_capital Records.g_capital set_g_value Records.g_value set_g_notl Records.g_notl set_g_weight Records.g_weight set_g_price Records.g_price set_g_net_flows Records.g_net_flows set_g_last_value Records.g_last_value set_g_last_notl Records.g_last_notl set_g_last_price Records.g_last_price set_g_last_fee Records.g_last_fee set_g_bidoffer_paid Records.g_bidoffer_paid set_g_bankrupt Records.g_bankrupt set_hg_prices Records.hg_prices set_hg_values Records.hg_values set_hg_notls Records.hg_notls set_hg_cash Records.hg_cash set_hg_fees Records.hg_fees set_hg_flows Records.hg_flows set_hg_bopaid Records.hg_bopaid set_g_ucols Records.g_ucols set_g_risk Records.g_risk set_g_risks Records.g_risks set_g_algo Records.g_algo].
Ltac split_vars :=
  repeat (match goal with
          | |- context [match ?x with _ => _ end] => is_var x; destruct x; cbv beta iota zeta
          end).
Ltac split_all :=
  repeat (match goal with
          | |- context [match ?x with _ => _ end] => destruct x eqn:?; cbn [bind]
          | |- context [if ?x then _ else _] => destruct x eqn:?; cbn [bind]
          end); try reflexivity.

Lemma sec_tail_weight inow w (s : secR) :
  sec_tail inow (set_s_weight w s) = (s' <- sec_tail inow s ;; Ok (set_s_weight w s')).
Proof.
  unfold sec_tail, sec_update_coupon, sec_holding_cost, sec_set_carry, sec_set_notl_pos, sec_set_notl_zero.
  destruct s. cbn [Records.s_class set_s_weight].
  destruct (class_fi_notl s_class), (class_coupon s_class), (class_hedge s_class); secnorm; cbn [bind]; split_all.
Qed.

Lemma sec_update_weight date inow w (s : secR) :
  sec_early date s = true ->
  sec_update date inow (set_s_weight w s) = (s' <- sec_update date inow s ;; Ok (set_s_weight w s')).
Proof.
  intros He. unfold sec_update, sec_update_base.
  replace (sec_early date (set_s_weight w s)) with (sec_early date s) by (destruct s; reflexivity).
  replace (s_class (set_s_weight w s)) with (s_class s) by (destruct s; reflexivity).
  replace (s_coupons (set_s_weight w s)) with (s_coupons s) by (destruct s; reflexivity).
  rewrite He. destruct (class_coupon (s_class s) && _); [reflexivity|]. cbn [bind]. apply sec_tail_weight.
Qed.

(* a security that has just been updated is a fixed point of the update, whatever weight its parent then gives it *)
Lemma sec_update_idem_weight date inow w (s s1 : secR) :
  sec_update date inow s = Ok s1 -> sec_update date inow (set_s_weight w s1) = Ok (set_s_weight w s1).
Proof.
  intros H. pose proof (sec_update_idem _ _ _ _ H) as Hi.
  assert (He : sec_early date s1 = true).
  { unfold sec_update in H. destruct (class_coupon (s_class s) && _); [discriminate|].
    apply bind_ok in H. destruct H as (y & E & H0).
    pose proof (sec_update_base_now _ _ _ _ E) as Hy. unfold sec_early in *.
    erewrite sec_tail_s_now, sec_tail_s_lastpos, sec_tail_s_pos by eassumption. exact Hy. }
  rewrite (sec_update_weight _ _ _ _ He), Hi. reflexivity.
Qed.

(* ---------- a strategy's own weight is not read by its update ---------- *)
Ltac split_ifs := repeat (match goal with |- context [if ?x then _ else _] => destruct x; cbv beta iota zeta end).
Ltac recsolve := stratnorm; split_vars; split_ifs; try reflexivity.

Lemma roll_weight date w (g : stratR) : strat_roll date (set_g_weight w g) = set_g_weight w (strat_roll date g).
Proof. unfold strat_roll. destruct g. recsolve. Qed.

Lemma suw_weight (upd : nodeR -> result nodeR) date inow w (g : stratR) kids :
  strat_update_with upd date inow (set_g_weight w g) kids =
  (r <- strat_update_with upd date inow g kids ;;
   let '(np, g', k, acc) := r in Ok (np, set_g_weight w g', k, acc)).
Proof.
  unfold strat_update_with.
  replace (strat_newpt date (set_g_weight w g)) with (strat_newpt date g) by (destruct g; reflexivity).
  rewrite roll_weight.
  set (g1 := strat_roll date g).
  replace (g_bo_set (set_g_weight w g1)) with (g_bo_set g1) by (destruct g1; reflexivity).
  replace (g_capital (set_g_weight w g1)) with (g_capital g1) by (destruct g1; reflexivity).
  destruct (upd_kids _ _ _ _ _ _ _ _ _ _) as [[ks [[[v n] b] c]]|]; cbn [bind]; [|reflexivity].
  destruct g1; reflexivity.
Qed.

Lemma set_value_weight inow v n b w (g : stratR) :
  strat_set_value inow v n b (set_g_weight w g) = set_g_weight w (strat_set_value inow v n b g).
Proof. unfold strat_set_value. destruct g. recsolve. Qed.

Lemma new_price_weight w (g : stratR) : strat_new_price (set_g_weight w g) = strat_new_price g.
Proof. destruct g. reflexivity. Qed.

Lemma set_price_weight inow p w (g : stratR) :
  strat_set_price inow p (set_g_weight w g) = set_g_weight w (strat_set_price inow p g).
Proof. destruct g. reflexivity. Qed.

Lemma swv_weight np inow v n b w (g : stratR) :
  strat_write_value np inow v n b (set_g_weight w g) =
  (g' <- strat_write_value np inow v n b g ;; Ok (set_g_weight w g')).
Proof.
  unfold strat_write_value.
  replace (strat_changed np v n (set_g_weight w g)) with (strat_changed np v n g) by (destruct g; reflexivity).
  destruct (strat_changed np v n g); [|reflexivity].
  rewrite set_value_weight, new_price_weight.
  destruct (strat_new_price _); cbn [bind]; [|reflexivity]. rewrite set_price_weight. reflexivity.
Qed.

Lemma set_rows_weight inow w (g : stratR) : strat_set_rows inow (set_g_weight w g) = set_g_weight w (strat_set_rows inow g).
Proof. destruct g. reflexivity. Qed.

Lemma sfin_weight date inow np w (g : stratR) kids paper :
  strat_finish paper_step date inow np (set_g_weight w g) kids paper =
  (r <- strat_finish paper_step date inow np g kids paper ;; let '(g', p) := r in Ok (set_g_weight w g', p)).
Proof.
  unfold strat_finish.
  destruct (has_strat_kids kids).
  - destruct date as [d|]; [|reflexivity]. cbn [bind].
    replace (set_g_ucols (write_ucols inow kids (g_ucols (set_g_weight w g))) (set_g_weight w g))
      with (set_g_weight w (set_g_ucols (write_ucols inow kids (g_ucols g)) g)) by (destruct g; reflexivity).
    rewrite set_rows_weight.
    set (g1 := strat_set_rows inow _).
    replace (g_paper_trade (set_g_weight w g1)) with (g_paper_trade g1) by (destruct g1; reflexivity).
    destruct (g_paper_trade g1); [|reflexivity].
    destruct paper as [p|]; [|reflexivity].
    destruct (if np then paper_step (Some d) p else Ok p); cbn [bind]; [|reflexivity]. rewrite set_price_weight. reflexivity.
  - cbn [bind]. rewrite set_rows_weight.
    set (g1 := strat_set_rows inow _).
    replace (g_paper_trade (set_g_weight w g1)) with (g_paper_trade g1) by (destruct g1; reflexivity).
    destruct (g_paper_trade g1); [|reflexivity].
    destruct paper as [p|]; [|reflexivity].
    destruct (if np then paper_step date p else Ok p); cbn [bind]; [|reflexivity]. rewrite set_price_weight. reflexivity.
Qed.

(* the update of a sub-strategy does not depend on the weight its parent gave it *)
Theorem node_update_weight date inow w (g : stratR) kids lz paper :
  node_update paper_step date inow (NStrat (set_g_weight w g) kids lz paper) =
  (n' <- node_update paper_step date inow (NStrat g kids lz paper) ;; Ok (set_weight w n')).
Proof.
  cbn [node_update]. rewrite suw_weight.
  destruct (strat_update_with _ _ _ g kids) as [[[[np g1] kids1] [[v n] b]]|]; cbn [bind]; [|reflexivity].
  rewrite swv_weight. destruct (strat_write_value np inow v n b g1) as [g2|]; cbn [bind]; [|reflexivity].
  replace (g_fi (set_g_weight w g2)) with (g_fi g2) by (destruct g2; reflexivity).
  replace (g_value (set_g_weight w g2)) with (g_value g2) by (destruct g2; reflexivity).
  replace (g_notl (set_g_weight w g2)) with (g_notl g2) by (destruct g2; reflexivity).
  rewrite sfin_weight. destruct (strat_finish _ _ _ _ g2 _ _) as [[g3 p3]|]; cbn [bind]; reflexivity.
Qed.

(* ---------- the clock after an update ---------- *)
Lemma roll_now date (g : stratR) : g_now (strat_roll date g) = date.
Proof. unfold strat_roll. destruct g. stratnorm. split_vars; split_ifs; reflexivity. Qed.

Lemma suw_now (upd : nodeR -> result nodeR) date inow (g g1 : stratR) kids np kids1 acc :
  strat_update_with upd date inow g kids = Ok (np, g1, kids1, acc) -> g_now g1 = date.
Proof.
  unfold strat_update_with. intros H. apply bind_ok in H. destruct H as ([ks [[[v n] b] c]] & E & H).
  inversion H; subst. replace (g_now (set_g_capital (nadd RNumI (g_capital (strat_roll date g)) c) (strat_roll date g))) with (g_now (strat_roll date g)) by (destruct (strat_roll date g); reflexivity). apply roll_now.
Qed.

Lemma swv_now np inow v n b (g g' : stratR) : strat_write_value np inow v n b g = Ok g' -> g_now g' = g_now g.
Proof.
  unfold strat_write_value. destruct (strat_changed np v n g); intros H; [|inversion H; reflexivity].
  apply bind_ok in H. destruct H as (p & E & H). inversion H; subst.
  rewrite strat_set_price_g_now, strat_set_value_g_now. reflexivity.
Qed.

Lemma sfin_now date inow np (g g' : stratR) kids paper paper' :
  strat_finish paper_step date inow np g kids paper = Ok (g', paper') -> g_now g' = g_now g.
Proof.
  unfold strat_finish. intros H. apply bind_ok in H. destruct H as (gu & E & H).
  assert (Hu : g_now gu = g_now g).
  { destruct (has_strat_kids kids); [destruct date; [|discriminate]; inversion E; destruct g; reflexivity | inversion E; reflexivity]. }
  destruct (g_paper_trade (strat_set_rows inow gu)).
  - destruct paper as [p|]; [|discriminate]. apply bind_ok in H. destruct H as (p1 & E1 & H). inversion H; subst.
    rewrite strat_set_price_g_now, strat_set_rows_g_now. exact Hu.
  - inversion H; subst. rewrite strat_set_rows_g_now. exact Hu.
Qed.

Lemma roll_same i (g : stratR) : g_now g = Some i -> strat_roll (Some i) g = g /\ strat_newpt (Some i) g = false.
Proof.
  intros H. unfold strat_roll, strat_newpt. rewrite H. cbn [onat_eqb]. rewrite Nat.eqb_refl. cbn [negb].
  split; [|reflexivity]. destruct g. cbn in H. subst. reflexivity.
Qed.

(* ---------- weights: setting them twice is setting them once ---------- *)
Lemma kid_weight_idem fi v n (k : nodeR) : kid_weight fi v n (kid_weight fi v n k) = kid_weight fi v n k.
Proof.
  unfold kid_weight. destruct (skipped k) eqn:Es; [rewrite Es; reflexivity|].
  assert (S1 : forall w, skipped (set_weight w k) = false) by (intros w; destruct k as [s|g ks lz p]; [destruct s|]; exact Es).
  assert (S2 : forall w w', set_weight w (set_weight w' k) = set_weight w k)
    by (intros w w'; destruct k as [s|g ks lz p]; [destruct s | destruct g]; reflexivity).
  assert (S3 : forall w, raw_value (set_weight w k) = raw_value k /\ raw_notl (set_weight w k) = raw_notl k)
    by (intros w; destruct k as [s|g ks lz p]; [destruct s | destruct g]; split; reflexivity).
  destruct fi; rewrite S1, S2.
  - destruct (S3 (if negb (nis_zero RNumI n) then ndiv RNumI (raw_notl k) n else n0 RNumI)) as [_ E]. rewrite E. reflexivity.
  - destruct (S3 (if negb (nis_zero RNumI v) then ndiv RNumI (raw_value k) v else n0 RNumI)) as [E _]. rewrite E. reflexivity.
Qed.

Lemma set_kid_weights_idem fi v n (ks : list nodeR) :
  set_kid_weights fi v n (set_kid_weights fi v n ks) = set_kid_weights fi v n ks.
Proof. unfold set_kid_weights. rewrite map_map. apply map_ext. intros k. apply kid_weight_idem. Qed.

(* ---------- universe columns: writing the children's prices twice is writing them once ---------- *)
Definition wcol (inow : nat) (ks : list nodeR) (id : nat) (col : list (cell RNumI)) : list (cell RNumI) :=
  fold_left (fun c k => match k with
                        | NStrat g _ _ _ => if Nat.eqb id (g_id g) then upd inow (Some (g_price g)) c else c
                        | NSec _ => c
                        end) ks col.

Lemma write_ucols_spec inow (ks : list nodeR) : forall u,
  write_ucols inow ks u = map (fun kc => (fst kc, wcol inow ks (fst kc) (snd kc))) u.
Proof.
  induction ks as [|k ks IH]; intros u.
  - cbn. induction u as [|[a b] u IHu]; cbn; [reflexivity|]. rewrite <- IHu. reflexivity.
  - destruct k as [s|g kk lz pp]; cbn [write_ucols wcol fold_left].
    + apply IH.
    + rewrite IH, map_map. apply map_ext. intros [a b]. cbn [fst snd].
      destruct (Nat.eqb a (g_id g)); reflexivity.
Qed.

Fixpoint lastp (ks : list nodeR) (id : nat) (acc : option R) : option R :=
  match ks with
  | [] => acc
  | NStrat g _ _ _ :: ks' => lastp ks' id (if Nat.eqb id (g_id g) then Some (g_price g) else acc)
  | NSec _ :: ks' => lastp ks' id acc
  end.

Lemma wcol_lastp inow (ks : list nodeR) id : forall col,
  wcol inow ks id col = match lastp ks id None with Some p => upd inow (Some p) col | None => col end /\
  (forall q, wcol inow ks id (upd inow (Some q) col) =
             match lastp ks id (Some q) with Some p => upd inow (Some p) col | None => col end).
Proof.
  induction ks as [|k ks IH]; intros col.
  - cbn. split; reflexivity.
  - destruct k as [s|g kk lz pp]; cbn [wcol fold_left lastp]; fold (wcol inow ks id).
    + apply IH.
    + destruct (Nat.eqb id (g_id g)).
      * split; [apply (proj2 (IH col))|]. intros q. rewrite upd_upd. apply (proj2 (IH col)).
      * apply IH.
Qed.

Lemma lastp_cases (ks : list nodeR) id :
  (forall a, lastp ks id a = a) \/ (exists p, forall a, lastp ks id a = Some p).
Proof.
  induction ks as [|k ks IH]; [left; reflexivity|].
  destruct k as [s|g kk lz pp]; cbn [lastp]; [exact IH|].
  destruct (Nat.eqb id (g_id g)); [|exact IH].
  destruct IH as [L|[p R]].
  - right. exists (g_price g). intros a. apply L.
  - right. exists p. intros a. apply R.
Qed.

Lemma wcol_idem inow (ks : list nodeR) id col : wcol inow ks id (wcol inow ks id col) = wcol inow ks id col.
Proof.
  destruct (wcol_lastp inow ks id col) as [H1 H2].
  destruct (lastp_cases ks id) as [L|[p R]].
  - rewrite H1, L. rewrite H1, L. reflexivity.
  - rewrite H1, R. rewrite H2, R. reflexivity.
Qed.

Lemma write_ucols_idem inow (ks : list nodeR) u : write_ucols inow ks (write_ucols inow ks u) = write_ucols inow ks u.
Proof.
  rewrite !write_ucols_spec, map_map. apply map_ext. intros [a b]. cbn [fst snd]. rewrite wcol_idem. reflexivity.
Qed.

(* ---------- the last phase (rows, universe columns, paper price) ---------- *)
Lemma R1 inow (g : stratR) : strat_set_rows inow (strat_set_rows inow g) = strat_set_rows inow g.
Proof. destruct g. unfold strat_set_rows. stratnorm. rewrite !upd_upd. reflexivity. Qed.
Lemma R2 inow p (g : stratR) : strat_set_rows inow (strat_set_price inow p g) = strat_set_price inow p (strat_set_rows inow g).
Proof. destruct g. reflexivity. Qed.
Lemma R3 inow p (g : stratR) : strat_set_price inow p (strat_set_price inow p g) = strat_set_price inow p g.
Proof. destruct g. unfold strat_set_price. stratnorm. rewrite !upd_upd. reflexivity. Qed.
Lemma R5 (g : stratR) : set_g_ucols (g_ucols g) g = g.
Proof. destruct g. reflexivity. Qed.
Lemma R7 inow u (g : stratR) : set_g_ucols u (strat_set_rows inow g) = strat_set_rows inow (set_g_ucols u g).
Proof. destruct g. reflexivity. Qed.
Lemma R8 inow p u (g : stratR) : set_g_ucols u (strat_set_price inow p g) = strat_set_price inow p (set_g_ucols u g).
Proof. destruct g. reflexivity. Qed.
Lemma R9 u u' (g : stratR) : set_g_ucols u (set_g_ucols u' g) = set_g_ucols u g.
Proof. destruct g. reflexivity. Qed.
Lemma R10 inow p (g : stratR) : g_ucols (strat_set_price inow p g) = g_ucols g /\ g_paper_trade (strat_set_price inow p g) = g_paper_trade g.
Proof. destruct g. split; reflexivity. Qed.
Lemma R11 inow (g : stratR) : g_ucols (strat_set_rows inow g) = g_ucols g /\ g_paper_trade (strat_set_rows inow g) = g_paper_trade g.
Proof. destruct g. split; reflexivity. Qed.
Lemma R12 u (g : stratR) : g_ucols (set_g_ucols u g) = u /\ g_paper_trade (set_g_ucols u g) = g_paper_trade g.
Proof. destruct g. split; reflexivity. Qed.

Lemma sfin_idem i inow np (g g' : stratR) kids paper paper' :
  strat_finish paper_step (Some i) inow np g kids paper = Ok (g', paper') ->
  strat_finish paper_step (Some i) inow false g' kids paper' = Ok (g', paper').
Proof.
  unfold strat_finish. intros H. apply bind_ok in H. destruct H as (gu & Eu & H).
  (* the universe step of the second call gives g' back *)
  assert (U : (if has_strat_kids kids then Ok (set_g_ucols (write_ucols inow kids (g_ucols g')) g') else Ok g') = Ok g'
              /\ strat_set_rows inow g' = g' /\ g_paper_trade g' = g_paper_trade (strat_set_rows inow gu)
              /\ (g_paper_trade (strat_set_rows inow gu) = true -> exists p1, paper' = Some p1 /\
                    strat_set_price inow (root_price p1) g' = g')).
  { set (ga := strat_set_rows inow gu) in *.
    assert (Hu : g_ucols gu = (if has_strat_kids kids then write_ucols inow kids (g_ucols g) else g_ucols g)).
    { destruct (has_strat_kids kids); inversion Eu; subst; [apply (proj1 (R12 _ _))|reflexivity]. }
    assert (Hw : (if has_strat_kids kids then set_g_ucols (write_ucols inow kids (g_ucols gu)) gu else gu) = gu).
    { destruct (has_strat_kids kids); [|reflexivity]. rewrite Hu, write_ucols_idem, <- Hu. apply R5. }
    destruct (g_paper_trade ga) eqn:Ep.
    - destruct paper as [p|]; [|discriminate]. apply bind_ok in H. destruct H as (p1 & E1 & H). inversion H; subst g' paper'.
      repeat split.
      + destruct (has_strat_kids kids); [|reflexivity]. f_equal.
        rewrite (proj1 (R10 _ _ _)). unfold ga. rewrite (proj1 (R11 _ _)).
        rewrite R8, R7. f_equal. f_equal. exact Hw.
      + rewrite R2. unfold ga. rewrite R1. reflexivity.
      + rewrite (proj2 (R10 _ _ _)). exact Ep.
      + intros _. exists p1. split; [reflexivity|]. apply R3.
    - inversion H; subst g' paper'. repeat split.
      + destruct (has_strat_kids kids); [|reflexivity]. f_equal. unfold ga. rewrite (proj1 (R11 _ _)), R7. f_equal. exact Hw.
      + unfold ga. apply R1.
      + exact Ep.
      + intros C. discriminate. }
  destruct U as (U1 & U2 & U3 & U4).
  replace (if has_strat_kids kids then Ok (set_g_ucols (write_ucols inow kids (g_ucols g')) g') else Ok g') with (Ok g') by (symmetry; exact U1).
  cbn [bind]. rewrite U2, U3.
  destruct (g_paper_trade (strat_set_rows inow gu)) eqn:Ep; [|].
  - destruct (U4 eq_refl) as (p1 & Hp & Hs). rewrite Hp. cbn [bind]. rewrite Hs. reflexivity.
  - destruct (g_paper_trade (strat_set_rows inow gu)); [discriminate|]. inversion H; subst. reflexivity.
Qed.

(* ---------- children: everything the first pass produced is a fixed point of the second ---------- *)
Definition KFix (upd : nodeR -> result nodeR) (date : option nat) (inow : nat) (k : nodeR) : Prop :=
  match k with
  | NSec s => s_needupdate s = true -> sec_update date inow s = Ok s
  | NStrat _ _ _ _ => upd k = Ok k
  end.

Lemma upd_kids_fix (upd : nodeR -> result nodeR) bo date inow (ks : list nodeR) :
  Forall (KFix upd date inow) ks ->
  forall v n b c, exists v' n' b', upd_kids upd false bo date inow ks v n b c = Ok (ks, (v', n', b', c)).
Proof.
  induction ks as [|k ks IH]; intros HF v n b c.
  - cbn. eauto.
  - inversion HF as [|? ? Hk Hks]; subst. specialize (IH Hks).
    destruct k as [s|g kk lz pp]; cbn [upd_kids].
    + destruct (s_needupdate s) eqn:En; cbn [negb].
      * cbn in Hk. rewrite (Hk En). cbn [bind].
        destruct (IH (nadd RNumI v (s_value s)) (nadd RNumI n (nabs RNumI (s_notl s)))
                     (if bo then nadd RNumI b (s_bidoffer_paid s) else b) c) as (v' & n' & b' & E).
        rewrite E. cbn [bind]. eauto.
      * destruct (IH v n b c) as (v' & n' & b' & E). rewrite E. cbn [bind]. eauto.
    + cbn in Hk. rewrite Hk. cbn [bind].
      destruct (IH (nadd RNumI v (raw_value (NStrat g kk lz pp))) (nadd RNumI n (nabs RNumI (raw_notl (NStrat g kk lz pp))))
                   (if bo then nadd RNumI b (raw_bopaid (NStrat g kk lz pp)) else b) c) as (v' & n' & b' & E).
      rewrite E. cbn [bind]. eauto.
Qed.

(* what the first pass leaves behind: every output child is either an idle security or the result of an update *)
Definition KOut (Q : nodeR -> Prop) (date : option nat) (inow : nat) (k' : nodeR) : Prop :=
  match k' with
  | NSec s' => s_needupdate s' = false \/ exists s0, sec_update date inow s0 = Ok s'
  | NStrat _ _ _ _ => Q k'
  end.

Lemma upd_kids_out (upd : nodeR -> result nodeR) (Q : nodeR -> Prop) np bo date inow (ks : list nodeR) :
  Forall (fun k => forall k', upd k = Ok k' -> Q k') ks ->
  (forall k k', upd k = Ok k' -> forall g kk lz pp, k = NStrat g kk lz pp -> exists g' kk' lz' pp', k' = NStrat g' kk' lz' pp') ->
  forall v n b c ks' acc, upd_kids upd np bo date inow ks v n b c = Ok (ks', acc) -> Forall (KOut Q date inow) ks'.
Proof.
  intros HW Hshape. induction ks as [|k ks IH]; intros v n b c ks' acc H.
  - inversion H; subst. constructor.
  - inversion HW as [|? ? Wk Wks]; subst. specialize (IH Wks).
    destruct k as [s|g kk lz pp]; cbn [upd_kids] in H.
    + set (sc := if np then (set_s_capital (n0 RNumI) s, nadd RNumI c (s_capital s)) else (s, c)) in H.
      destruct sc as [s1 c1] eqn:Esc.
      destruct (s_needupdate s1) eqn:En; cbn [negb] in H.
      * apply bind_ok in H. destruct H as (s2 & E & H). apply bind_ok in H. destruct H as ([ks2 acc2] & E2 & H).
        inversion H; subst. constructor; [right; eauto | eapply IH; eauto].
      * apply bind_ok in H. destruct H as ([ks2 acc2] & E2 & H). inversion H; subst.
        constructor; [left; exact En | eapply IH; eauto].
    + apply bind_ok in H. destruct H as (k2 & E & H). apply bind_ok in H. destruct H as ([ks2 acc2] & E2 & H).
      inversion H; subst. constructor; [|eapply IH; eauto].
      destruct (Hshape _ _ E g kk lz pp eq_refl) as (g' & kk' & lz' & pp' & Ek). subst k2. cbn. eapply Wk; eauto.
Qed.

Lemma node_update_shape date inow g kk lz pp (k' : nodeR) :
  node_update paper_step date inow (NStrat g kk lz pp) = Ok k' -> exists g' kk' lz' pp', k' = NStrat g' kk' lz' pp'.
Proof.
  cbn [node_update]. intros H. apply bind_ok in H. destruct H as ([[[np g1] k1] [[v n] b]] & E & H).
  apply bind_ok in H. destruct H as (g2 & E2 & H). apply bind_ok in H. destruct H as ([g3 p3] & E3 & H).
  inversion H; subst. eauto.
Qed.

Lemma cap0 (g : stratR) : set_g_capital (nadd RNumI (g_capital g) (n0 RNumI)) g = g.
Proof. destruct g. unfold set_g_capital. stratnorm. rops. unfold RNum.add, RNum.zero. rewrite Rplus_0_r. reflexivity. Qed.

(* ---------- StrategyBase.update twice on the same date = once ---------- *)
Theorem node_update_idem i inow (n : nodeR) : forall n1,
  WF n -> node_update paper_step (Some i) inow n = Ok n1 -> node_update paper_step (Some i) inow n1 = Ok n1.
Proof.
  induction n as [s | g kids lz paper IH] using (node_ind' A); intros n1 Hwf H.
  - cbn [node_update] in *. apply bind_ok in H. destruct H as (s1 & E & H). inversion H; subst.
    cbn [node_update]. rewrite (sec_update_idem _ _ _ _ E). reflexivity.
  - pose proof (node_update_BS A paper_step (Some i) inow _ _ H Hwf) as [HBS HWF1].
    inversion Hwf as [|? ? ? ? Hk]; subst.
    cbn [node_update] in H.
    apply bind_ok in H. destruct H as ([[[np g1] kids1] [[v n] b]] & E0 & H).
    apply bind_ok in H. destruct H as (g2 & E1 & H).
    apply bind_ok in H. destruct H as ([g3 paper3] & E2 & H). inversion H; subst n1; clear H.
    set (kids2 := set_kid_weights (g_fi g2) (g_value g2) (g_notl g2) kids1) in *.
    (* facts about the first pass *)
    destruct (strat_finish_spec A paper_step _ _ _ _ _ _ _ _ E2) as (Fv & Fn & Fc & Ffi).
    assert (Hnow : g_now g3 = Some i).
    { rewrite (sfin_now _ _ _ _ _ _ _ _ E2), (swv_now _ _ _ _ _ _ _ E1). exact (suw_now _ _ _ _ _ _ _ _ _ E0). }
    inversion HBS as [|? ? ? ? Bv Bn Bw Bk]; subst. inversion HWF1 as [|? ? ? ? W2]; subst.
    (* children of the result are fixed points *)
    assert (KF : Forall (KFix (node_update paper_step (Some i) inow) (Some i) inow) kids2).
    { unfold strat_update_with in E0. apply bind_ok in E0. destruct E0 as ([ks [[[v0 n0'] b0] c0]] & Eu & E0).
      inversion E0; subst; clear E0.
      assert (QH : Forall (fun k => forall k', node_update paper_step (Some i) inow k = Ok k' ->
                                               node_update paper_step (Some i) inow k' = Ok k') kids).
      { apply Forall_forall. intros k Hin k' Hu. rewrite Forall_forall in IH, Hk. eapply IH; eauto. }
      pose proof (upd_kids_out _ _ _ _ _ _ _ QH
                    (fun k k' Hu g0 kk0 lz0 pp0 Ek => node_update_shape (Some i) inow g0 kk0 lz0 pp0 k' (eq_ind k (fun x => node_update paper_step (Some i) inow x = Ok k') Hu _ Ek))
                    _ _ _ _ _ _ Eu) as KO.
      unfold kids2, set_kid_weights. apply Forall_forall. intros k2 Hin. apply in_map_iff in Hin. destruct Hin as (k1 & Ek & Hin1).
      rewrite Forall_forall in KO. specialize (KO k1 Hin1). subst k2. unfold kid_weight.
      destruct (skipped k1) eqn:Es.
      - destruct k1 as [s1|g' kk' lz' pp']; [|discriminate]. cbn in *. intros C. apply negb_true_iff in Es. congruence.
      - destruct k1 as [s1|g' kk' lz' pp'].
        + cbn in Es. apply negb_false_iff in Es. destruct KO as [C|[s0 Hs0]]; [congruence|].
          destruct (g_fi g2); cbn [set_weight KFix]; intros _; eapply sec_update_idem_weight; eauto.
        + cbn [KOut] in KO. destruct (g_fi g2); cbn [set_weight KFix]; rewrite node_update_weight, KO; reflexivity. }
    (* second pass *)
    cbn [node_update]. unfold strat_update_with.
    destruct (roll_same i g3 Hnow) as [Hroll Hnp]. rewrite Hroll, Hnp.
    destruct (upd_kids_fix _ (g_bo_set g3) _ _ _ KF (g_capital g3) (n0 RNumI) (n0 RNumI) (n0 RNumI)) as (v' & n' & b' & Eu2).
    rewrite Eu2. cbn [bind]. rewrite cap0.
    (* the sums of the second pass are the recorded value and notional *)
    assert (IHB : Forall (fun k => forall k', node_update paper_step (Some i) inow k = Ok k' -> WF k -> BS k' /\ WF k') kids2).
    { apply Forall_forall. intros k _ k' Hu Hwk. exact (node_update_BS A paper_step (Some i) inow k k' Hu Hwk). }
    destruct (upd_kids_spec A _ _ _ _ _ _ _ _ _ _ _ _ _ _ _ IHB W2 Eu2) as (_ & _ & Hv' & Hn').
    assert (Ev : nadd RNumI v' (n0 RNumI) = g_value g3).
    { rewrite Hv'. rops. unfold RNum.add, RNum.zero. rewrite Bv. lra. }
    assert (En : n' = g_notl g3).
    { rewrite Hn'. rops. unfold RNum.zero. rewrite Bn. lra. }
    rewrite Ev, En.
    assert (Ew : strat_write_value false inow (g_value g3) (g_notl g3) b' g3 = Ok g3).
    { unfold strat_write_value, strat_changed. rops. cbn [orb].
      unfold RNum.is_zero, RNum.sub.
      destruct (Req_EM_T (g_value g3 - g_value g3) 0) as [_|C]; [|exfalso; apply C; lra].
      destruct (Req_EM_T (g_notl g3 - g_notl g3) 0) as [_|C]; [|exfalso; apply C; lra]. reflexivity. }
    rewrite Ew. cbn [bind].
    assert (Ek : set_kid_weights (g_fi g3) (g_value g3) (g_notl g3) kids2 = kids2).
    { rewrite Ffi, Fv, Fn. unfold kids2. apply set_kid_weights_idem. }
    rewrite Ek. rewrite (sfin_idem _ _ _ _ _ _ _ _ E2). reflexivity.
Qed.

(* ---------- C09: what the parent publishes in its universe is the child's price ---------- *)
Lemma lastp_unique (ks : list nodeR) (gk : stratR) kk lz pp :
  In (NStrat gk kk lz pp) ks -> NoDup (map (@node_id RNumI A) ks) ->
  forall a, lastp ks (g_id gk) a = Some (g_price gk).
Proof.
  induction ks as [|k ks IH]; intros Hin Hnd a; [contradiction|].
  cbn [map] in Hnd. inversion Hnd as [|? ? Hni Hnd']; subst.
  destruct Hin as [E|Hin].
  - subst k. cbn [lastp]. rewrite Nat.eqb_refl.
    (* no later child has this id: the accumulator survives *)
    assert (G : forall (l : list nodeR) b, ~ In (g_id gk) (map (@node_id RNumI A) l) -> lastp l (g_id gk) b = b).
    { induction l as [|x l IHl]; intros b Hn; [reflexivity|]. cbn [map In] in Hn.
      destruct x as [s|gx kx lx px]; cbn [lastp].
      - apply IHl. tauto.
      - cbn [node_id] in Hn. destruct (Nat.eqb_spec (g_id gk) (g_id gx)) as [E|E]; [exfalso; apply Hn; left; auto|].
        apply IHl. tauto. }
    apply G. exact Hni.
  - destruct k as [s|gx kx lx px]; cbn [lastp]; [apply IH; assumption|].
    destruct (Nat.eqb (g_id gk) (g_id gx)); apply IH; assumption.
Qed.

Theorem universe_column_is_child_price inow (ks : list nodeR) u (gk : stratR) kk lz pp col :
  In (NStrat gk kk lz pp) ks -> NoDup (map (@node_id RNumI A) ks) ->
  In (g_id gk, col) u -> (inow < length col)%nat ->
  exists col', In (g_id gk, col') (write_ucols inow ks u) /\ nth inow col' None = Some (g_price gk).
Proof.
  intros Hin Hnd Hu Hl. rewrite write_ucols_spec.
  exists (wcol inow ks (g_id gk) col). split.
  - apply in_map_iff. exists (g_id gk, col). split; [reflexivity|exact Hu].
  - destruct (wcol_lastp inow ks (g_id gk) col) as [H1 _]. rewrite H1, (lastp_unique ks gk kk lz pp Hin Hnd None).
    apply nth_upd_eq. exact Hl.
Qed.

End IdemTree.

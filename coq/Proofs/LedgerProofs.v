(* LedgerProofs.v — C07, the cash ledger of a strategy whose children are securities: whatever is traded through
   StrategyBase.transact / allocate on the node, the change in its cash is the capital it received minus the outlays its
   securities recorded minus the fees it recorded; nothing is counted as a flow.  Real-number instance. *)
From Coq Require Import List Bool Arith Reals Lra Lia.
Import ListNotations.
Require Import BT.Num BT.Base BT.Records BT.Engine BT.Ops BT.Proofs.Tac BT.Proofs.Frames BT.Proofs.SecInv BT.Proofs.TradeProofs
        BT.Proofs.IdemProofs.
Local Open Scope R_scope.

(* the outlay a security has recorded for row i: what is already in the row plus what waits in the accumulator *)
Definition out_total (i : nat) (s : secR) : R := s_outlay s + nth i (h_outlays s) 0.

Lemma sec_flush_out_total i (s : secR) : (i < length (h_outlays s))%nat -> out_total i (sec_flush i s) = out_total i s.
Proof.
  intros Hl. unfold out_total, sec_flush. rops.
  destruct (negb (RNum.eqb (s_outlay s) RNum.zero)) eqn:E.
  - destruct (s_bo_set _); cbn; rewrite nth_upd_eq by exact Hl; unfold RNum.add, RNum.zero; lra.
  - apply negb_false_iff in E. apply R_eqb_true in E. destruct (s_bo_set s); cbn; reflexivity.
Qed.

Lemma sec_update_out_total date i (s s' : secR) :
  sec_update date i s = Ok s' -> (i < length (h_outlays s))%nat -> out_total i s' = out_total i s.
Proof.
  unfold sec_update. intros H Hl. destruct (class_coupon (s_class s) && _); [discriminate|].
  apply bind_ok in H. destruct H as (y & E & H).
  assert (Ty : out_total i y = out_total i s).
  { unfold sec_update_base in E. destruct (sec_early date s); [inversion E; reflexivity|].
    apply bind_ok in E. destruct E as (m & Em & E). inversion E; subst.
    assert (Hm : s_outlay m = s_outlay s /\ h_outlays m = h_outlays s).
    { split; [erewrite sec_mark_s_outlay by eassumption | erewrite sec_mark_h_outlays by eassumption]; autorewrite with frames; reflexivity. }
    destruct Hm as [Ho Hh].
    rewrite sec_flush_out_total.
    - unfold out_total, sec_flag. destruct (_ && _); cbn; rewrite ?Ho, ?Hh; reflexivity.
    - unfold sec_flag. destruct (_ && _); cbn; rewrite Hh; exact Hl. }
  unfold out_total in *. erewrite sec_tail_s_outlay, sec_tail_h_outlays by eassumption. exact Ty.
Qed.

Lemma sec_flush_outlays_length i (s : secR) : length (h_outlays (sec_flush i s)) = length (h_outlays s).
Proof.
  unfold sec_flush. rops. destruct (negb _); destruct (s_bo_set _); cbn; rewrite ?upd_length; reflexivity.
Qed.

Lemma sec_update_outlays_length date i (s s' : secR) :
  sec_update date i s = Ok s' -> length (h_outlays s') = length (h_outlays s).
Proof.
  unfold sec_update. intros H. destruct (class_coupon (s_class s) && _); [discriminate|].
  apply bind_ok in H. destruct H as (y & E & H). erewrite sec_tail_h_outlays by eassumption.
  unfold sec_update_base in E. destruct (sec_early date s); [inversion E; reflexivity|].
  apply bind_ok in E. destruct E as (m & Em & E). inversion E; subst.
  rewrite sec_flush_outlays_length. rewrite sec_flag_h_outlays.
  erewrite sec_mark_h_outlays by eassumption. rewrite sec_roll_h_outlays. reflexivity.
Qed.

Section Ledger.
Variable A : Type.
Notation nodeR := (node RNumI A).
Notation stratR := (strat RNumI A).

Definition outs (i : nat) (ks : list nodeR) : R :=
  fold_right (fun k a => match k with NSec s => out_total i s | NStrat _ _ _ _ => 0 end + a) 0 ks.

Lemma outs_cons i (s : secR) ks : outs i (NSec s :: ks) = out_total i s + outs i ks.
Proof. reflexivity. Qed.

Definition all_secs (i : nat) (ks : list nodeR) : Prop :=
  Forall (fun k => exists s, k = NSec s /\ (i < length (h_outlays s))%nat) ks.

(* one trade on one security: the parent is asked for exactly what the security records as outlay, plus the fee *)
Lemma sec_transact_ledger pnow i comm q upd us price (s s' : secR) oa :
  row_of pnow = i -> (i < length (h_outlays s))%nat ->
  sec_transact (N:=RNumI) pnow comm q upd us price s = Ok (s', oa) ->
  length (h_outlays s') = length (h_outlays s) /\
  match oa with
  | None => out_total i s' = out_total i s
  | Some a => out_total i s' - out_total i s = - (a_amt a) - a_fee a
  end.
Proof.
  intros Hr Hl H. unfold sec_transact in H. apply bind_ok in H. destruct H as (s1 & E & H).
  assert (T1 : out_total i s1 = out_total i s /\ length (h_outlays s1) = length (h_outlays s)).
  { destruct (us && _).
    - rewrite Hr in E. split; [eapply sec_update_out_total; eauto | eapply sec_update_outlays_length; eauto].
    - inversion E; subst. split; reflexivity. }
  destruct T1 as [T1 L1].
  destruct (nis_zero RNumI q); [inversion H; subst; split; [exact L1|exact T1]|].
  destruct (match price with Some _ => negb (s_bo_set s1) | None => false end); [discriminate|].
  apply bind_ok in H. destruct H as ([[[fo o] fee] bop] & Eo & H). inversion H; subst; clear H.
  split; [cbn; exact L1|]. cbn [a_amt a_fee].
  unfold out_total in *. cbn. rops.
  (* the full outlay is outlay + fee *)
  assert (Hfo : fo = o + fee).
  { unfold sec_outlay in Eo. cbn in Eo. destruct (s_price s1); [|discriminate].
    destruct price; [|destruct (s_bidoffer s1); [|discriminate]]; inversion Eo; subst; rops; unfold RNum.add; lra. }
  subst fo. unfold RNum.add, RNum.opp in *. lra.
Qed.

Lemma sec_allocate_ledger pnow i comm amount upd (s s' : secR) oa :
  row_of pnow = i -> (i < length (h_outlays s))%nat ->
  sec_allocate (N:=RNumI) pnow comm amount upd s = Ok (s', oa) ->
  length (h_outlays s') = length (h_outlays s) /\
  match oa with
  | None => out_total i s' = out_total i s
  | Some a => out_total i s' - out_total i s = - (a_amt a) - a_fee a
  end.
Proof.
  intros Hr Hl H. unfold sec_allocate in H. apply bind_ok in H. destruct H as (s1 & E & H).
  assert (T1 : out_total i s1 = out_total i s /\ length (h_outlays s1) = length (h_outlays s)).
  { destruct (_ || _).
    - rewrite Hr in E. split; [eapply sec_update_out_total; eauto | eapply sec_update_outlays_length; eauto].
    - inversion E; subst. split; reflexivity. }
  destruct T1 as [T1 L1].
  destruct (nis_zero RNumI amount); [inversion H; subst; split; [exact L1|exact T1]|].
  destruct (s_price s1) as [pr|]; [|discriminate].
  destruct (nis_zero RNumI pr); [discriminate|].
  match type of H with (if ?c then _ else _) = _ => destruct c end; [inversion H; subst; split; [exact L1|exact T1]|].
  apply bind_ok in H. destruct H as (q & Eq & H).
  assert (Hl1 : (i < length (h_outlays s1))%nat) by (rewrite L1; exact Hl).
  destruct (sec_transact_ledger pnow i comm q upd false None s1 s' oa Hr Hl1 H) as [L2 T2].
  split; [rewrite L2; exact L1|]. destruct oa as [a|]; rewrite <- T1; exact T2.
Qed.

(* the children loop of StrategyBase.transact / allocate over security children *)
Lemma go_ledger i (F : option nat -> (R -> R -> R) -> nodeR -> result (nodeR * option (adj RNumI)))
      (HF : forall pnow comm (s : secR) c' oa, row_of pnow = i -> (i < length (h_outlays s))%nat ->
                                         F pnow comm (NSec s) = Ok (c', oa) ->
                                         exists s', c' = NSec s' /\ length (h_outlays s') = length (h_outlays s) /\
                                                    match oa with
                                                    | None => out_total i s' = out_total i s
                                                    | Some a => out_total i s' - out_total i s = - (a_amt a) - a_fee a
                                                    end) :
  forall (ks : list nodeR) (g : stratR) ks' g'
         (go : list nodeR -> stratR -> result (list nodeR * stratR)),
  (forall ks0 g0, go ks0 g0 = match ks0 with
                             | [] => Ok ([], g0)
                             | c :: ks1 => bind (F (g_now g0) (g_comm g0) c)
                                                (fun r => let '(c1, oa) := r in
                                                          bind (go ks1 (apply_adj oa g0)) (fun r2 => let '(ks2, g2) := r2 in Ok (c1 :: ks2, g2)))
                             end) ->
  all_secs i ks -> row_of (g_now g) = i ->
  go ks g = Ok (ks', g') ->
  g_capital g' - g_capital g = - (outs i ks' - outs i ks) - (g_last_fee g' - g_last_fee g) /\
  g_net_flows g' = g_net_flows g /\ all_secs i ks' /\ g_now g' = g_now g.
Proof.
  induction ks as [|c ks IH]; intros g ks' g' go Hgo Hs Hr H; rewrite Hgo in H.
  - inversion H; subst. cbn. repeat split; try lra. constructor.
  - inversion Hs as [|c0 ks0 [s [Ec Hl]] Hs' Eq0]. subst c.
    apply bind_ok in H. destruct H as ([c1 oa] & E1 & H). apply bind_ok in H. destruct H as ([ks2 g2] & E2 & H).
    inversion H as [[Hk Hg]]. clear H. subst ks' g'.
    destruct (HF _ _ _ _ _ Hr Hl E1) as (s' & Ec' & L' & T'). subst c1.
    assert (Hr2 : row_of (g_now (apply_adj oa g)) = i) by (rewrite apply_adj_g_now; exact Hr).
    destruct (IH _ _ _ go Hgo Hs' Hr2 E2) as (C & Nf & S2 & Nw).
    rewrite !outs_cons.
    assert (A1 : g_capital (apply_adj oa g) - g_capital g = match oa with Some a => a_amt a | None => 0 end
                 /\ g_last_fee (apply_adj oa g) - g_last_fee g = match oa with Some a => a_fee a | None => 0 end
                 /\ g_net_flows (apply_adj oa g) = g_net_flows g).
    { destruct oa as [a|]; cbn [apply_adj]; [|repeat split; lra]. unfold g_adjust. destruct g; cbn. rops. unfold RNum.add. repeat split; lra. }
    destruct A1 as (A1 & A2 & A3).
    repeat split.
    + destruct oa as [a|]; lra.
    + rewrite Nf. exact A3.
    + constructor; [exists s'; split; [reflexivity|rewrite L'; exact Hl] | exact S2].
    + rewrite Nw. apply apply_adj_g_now.
Qed.

(* StrategyBase.transact on a strategy of securities: nothing is received, nothing is a flow; cash falls by what the
   securities recorded as outlay plus the fees recorded by the node *)
Theorem flat_transact_ledger pnow comm q upd (g g' : stratR) kids kids' lz pp lz' pp' oa :
  let i := row_of (g_now g) in
  all_secs i kids ->
  node_transact pnow comm q upd (NStrat g kids lz pp) = Ok (NStrat g' kids' lz' pp', oa) ->
  g_capital g' - g_capital g = - (outs i kids' - outs i kids) - (g_last_fee g' - g_last_fee g) /\
  g_net_flows g' = g_net_flows g /\ oa = None /\ all_secs i kids'.
Proof.
  intros i Hs H. assert (Hr : row_of (g_now g) = i) by reflexivity. clearbody i. cbn [node_transact] in H.
  match type of H with bind (?GO kids g) _ = _ => set (go := GO) in H end.
  apply bind_ok in H. destruct H as ([ks1 g1] & E & H). injection H as E1 E2 E3 E4 E5. subst g1 ks1 lz' pp' oa.
  assert (Hgo : forall ks0 g0, go ks0 g0 = match ks0 with
                             | [] => Ok ([], g0)
                             | c :: ks1 => bind (node_transact (g_now g0) (g_comm g0) (nmul RNumI q (raw_weight c)) false c)
                                                (fun r => let '(c1, oa) := r in
                                                          bind (go ks1 (apply_adj oa g0)) (fun r2 => let '(ks2, g2) := r2 in Ok (c1 :: ks2, g2)))
                             end).
  { intros ks0 g0. destruct ks0; reflexivity. }
  pose (F := fun (pn : option nat) (cm : R -> R -> R) (c : nodeR) => node_transact (N:=RNumI) pn cm (nmul RNumI q (raw_weight c)) false c).
  destruct (go_ledger i F) with (ks := kids) (g := g) (ks' := kids') (g' := g') (go := go) as (C & Nf & S2 & _); auto.
  intros pn cm s c' oa0 Hr0 Hl0 HF. unfold F in HF. cbn [node_transact] in HF.
  apply bind_ok in HF. destruct HF as ([s1 oa1] & Et & HF). injection HF as Ea Eb. subst c' oa1.
  destruct (sec_transact_ledger pn i cm _ false true None s s1 oa0 Hr0 Hl0 Et) as [L T].
  exists s1. repeat split; assumption.
Qed.

(* StrategyBase.allocate(amount) on a strategy of securities: the amount is received as a flow; cash changes by the
   amount minus the securities' outlays minus the fees *)
Theorem flat_allocate_ledger pnow comm amount upd (g g' : stratR) kids kids' lz pp lz' pp' oa :
  let i := row_of (g_now g) in
  all_secs i kids ->
  node_allocate pnow comm amount upd (NStrat g kids lz pp) = Ok (NStrat g' kids' lz' pp', oa) ->
  g_capital g' - g_capital g = amount - (outs i kids' - outs i kids) - (g_last_fee g' - g_last_fee g) /\
  g_net_flows g' = g_net_flows g + amount /\
  oa = Some (mkAdj (N:=RNumI) (- amount) 0 upd) /\ all_secs i kids'.
Proof.
  intros i Hs H. assert (Hr : row_of (g_now g) = i) by reflexivity. clearbody i. cbn [node_allocate] in H.
  match type of H with bind (?GO kids ?G0) _ = _ => set (go := GO) in H; set (ga := G0) in H end.
  apply bind_ok in H. destruct H as ([ks1 g1] & E & H). injection H as E1 E2 E3 E4 E5. subst g1 ks1 lz' pp' oa.
  assert (Hgo : forall ks0 g0, go ks0 g0 = match ks0 with
                             | [] => Ok ([], g0)
                             | c :: ks1 => bind (node_allocate (g_now g0) (g_comm g0) (nmul RNumI amount (raw_weight c)) false c)
                                                (fun r => let '(c1, oa) := r in
                                                          bind (go ks1 (apply_adj oa g0)) (fun r2 => let '(ks2, g2) := r2 in Ok (c1 :: ks2, g2)))
                             end).
  { intros ks0 g0. destruct ks0; reflexivity. }
  pose (F := fun (pn : option nat) (cm : R -> R -> R) (c : nodeR) => node_allocate (N:=RNumI) pn cm (nmul RNumI amount (raw_weight c)) false c).
  assert (Hra : row_of (g_now ga) = i) by (unfold ga; rewrite g_adjust_g_now; exact Hr).
  destruct (go_ledger i F) with (ks := kids) (g := ga) (ks' := kids') (g' := g') (go := go) as (C & Nf & S2 & _); auto.
  { intros pn cm s c' oa0 Hr0 Hl0 HF. unfold F in HF. cbn [node_allocate] in HF.
    apply bind_ok in HF. destruct HF as ([s1 oa1] & Et & HF). injection HF as Ea Eb. subst c' oa1.
    destruct (sec_allocate_ledger pn i cm _ false s s1 oa0 Hr0 Hl0 Et) as [L T].
    exists s1. repeat split; assumption. }
  assert (G0 : g_capital ga = g_capital g + amount /\ g_last_fee ga = g_last_fee g /\ g_net_flows ga = g_net_flows g + amount).
  { unfold ga, g_adjust. destruct g; cbn. rops. unfold RNum.add, RNum.zero. repeat split; lra. }
  destruct G0 as (G1 & G2 & G3). split; [lra|]. split; [rewrite Nf; exact G3|]. split; [reflexivity|exact S2].
Qed.

End Ledger.

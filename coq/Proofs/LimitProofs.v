(* LimitProofs.v — C15: LimitWeights (ffn.limit_weights as modelled in Algos.limit_weights): the result respects the
   cap, keeps the keys, and preserves the total as long as every redistribution round has something to distribute to.
   Real-number instance. *)
From Coq Require Import List Bool Arith Reals Lra Lia.
Import ListNotations.
Require Import BT.Num BT.Base BT.Records BT.Engine BT.Ops BT.Algos BT.Proofs.Tac.
Local Open Scope R_scope.

Notation wl := (list (nat * R)).

Definition over_l (lim : R) (w : wl) : wl := filter (fun kv => nltb RNumI lim (snd kv)) w.
Definition ok_l (lim : R) (w : wl) : wl := filter (fun kv => nltb RNumI (snd kv) lim) w.
Definition excess (lim : R) (w : wl) : R := fold_right (fun kv a => (if nltb RNumI lim (snd kv) then snd kv - lim else 0) + a) 0 w.
Definition below (lim : R) (w : wl) : R := fold_right (fun kv a => (if nltb RNumI (snd kv) lim then snd kv else 0) + a) 0 w.
Definition sumR (w : wl) : R := fold_right (fun kv a => snd kv + a) 0 w.
Definition round_of (lim S T : R) (w : wl) : wl :=
  map (fun kv => if nltb RNumI lim (snd kv) then (fst kv, lim)
                 else if nltb RNumI (snd kv) lim then (fst kv, snd kv + snd kv / S * T) else kv) w.

Lemma fold_left_sum (f : nat * R -> R) (l : wl) a :
  fold_left (fun acc kv => acc + f kv) l a = a + fold_right (fun kv acc => f kv + acc) 0 l.
Proof. revert a. induction l as [|x l IH]; intros a; cbn; [lra|]. rewrite IH. lra. Qed.

Lemma sum_w_sumR (w : wl) : sum_w RNumI w = sumR w.
Proof. unfold sum_w. rops. unfold RNum.add, RNum.zero. rewrite (fold_left_sum (fun kv => snd kv)). unfold sumR. lra. Qed.

Lemma excess_filter lim (w : wl) :
  fold_left (fun a kv => a + (snd kv - lim)) (over_l lim w) 0 = excess lim w.
Proof.
  rewrite (fold_left_sum (fun kv => snd kv - lim)). unfold excess, over_l. rops. unfold RNum.t in *.
  induction w as [|x w IH]; cbn [filter fold_right]; [lra|]. destruct (RNum.ltb lim (snd x)); cbn [fold_right]; lra.
Qed.

Lemma below_filter lim (w : wl) : sumR (ok_l lim w) = below lim w.
Proof.
  unfold below, ok_l, sumR. rops. unfold RNum.t in *. induction w as [|x w IH]; cbn [filter fold_right]; [reflexivity|].
  destruct (RNum.ltb (snd x) lim); cbn [fold_right]; lra.
Qed.

(* one redistribution round *)
Lemma round_step lim S T (x : nat * R) (W E B : R) : S <> 0 ->
  snd (if nltb RNumI lim (snd x) then (fst x, lim)
       else if nltb RNumI (snd x) lim then (fst x, snd x + snd x / S * T) else x) + (W - E + B / S * T) =
  snd x + W - ((if nltb RNumI lim (snd x) then snd x - lim else 0) + E) + ((if nltb RNumI (snd x) lim then snd x else 0) + B) / S * T.
Proof.
  intros HS. rops. unfold RNum.t in *. change (carrier RNumI) with R in *.
  destruct (RNum.ltb lim (snd x)) eqn:E1; destruct (RNum.ltb (snd x) lim) eqn:E2; rbool; cbn [snd]; try lra;
    unfold RNum.add, RNum.div, RNum.mul, RNum.t; field; exact HS.
Qed.

Lemma round_total lim S T (w : wl) :
  S <> 0 -> sumR (round_of lim S T w) = sumR w - excess lim w + below lim w / S * T.
Proof.
  intros HS. unfold round_of, sumR, excess, below.
  induction w as [|x w IH]; cbn [map fold_right]; [unfold Rdiv; lra|].
  rewrite IH. clear IH. apply round_step. exact HS.
Qed.

Lemma round_total_T0 lim S (w : wl) : (forall kv, In kv w -> snd kv <= lim) ->
  sumR (round_of lim S 0 w) = sumR w.
Proof.
  intros Hle. unfold round_of, sumR. rops. unfold RNum.t in *. change (carrier RNumI) with R in *.
  induction w as [|x w IH]; cbn [map fold_right]; [reflexivity|].
  rewrite IH by (intros kv H; apply Hle; right; exact H).
  assert (Hx : snd x <= lim) by (apply Hle; left; reflexivity).
  destruct (RNum.ltb lim (snd x)) eqn:E1; rbool; [lra|].
  destruct (RNum.ltb (snd x) lim) eqn:E2; cbn [snd]; [|reflexivity].
  unfold RNum.add, RNum.div, RNum.mul. rewrite Rmult_0_r. lra.
Qed.

Lemma term_nonneg lim (x : R) : 0 <= (if RNum.ltb lim x then x - lim else 0).
Proof. destruct (RNum.ltb lim x) eqn:E; rbool; lra. Qed.

Lemma excess_nonneg lim (w : wl) : 0 <= excess lim w.
Proof.
  unfold excess. rops. unfold RNum.t in *. induction w as [|x w IH]; cbn [fold_right]; [lra|].
  pose proof (term_nonneg lim (snd x)). lra.
Qed.

Lemma excess_zero_le lim (w : wl) : excess lim w = 0 -> forall kv, In kv w -> snd kv <= lim.
Proof.
  induction w as [|x w IH]; intros H kv Hin; [contradiction|].
  pose proof (excess_nonneg lim w) as Pr. pose proof (term_nonneg lim (snd x)) as P0.
  unfold excess in *. rops. unfold RNum.t in *. cbn [fold_right] in H.
  destruct Hin as [E|Hin].
  - subst kv. destruct (RNum.ltb lim (snd x)) eqn:E1; rbool; lra.
  - apply IH; [lra | exact Hin].
Qed.

(* the body of one call of limit_weights, named *)
Definition lw_round (lim : R) (w : wl) : wl := round_of lim (below lim w) (excess lim w) w.

Theorem lw_round_total lim (w : wl) : excess lim w = 0 \/ below lim w <> 0 -> sumR (lw_round lim w) = sumR w.
Proof.
  unfold lw_round. intros [H|H].
  - rewrite H. apply round_total_T0. apply excess_zero_le. exact H.
  - rewrite (round_total lim _ _ w H). field. exact H.
Qed.

Lemma excess_filter' lim (w : wl) :
  fold_left (fun (a : carrier RNumI) (kv : nat * carrier RNumI) => nadd RNumI a (nsub RNumI (snd kv) lim)) (over_l lim w) (n0 RNumI)
  = excess lim w.
Proof. exact (excess_filter lim w). Qed.

Lemma below_sum lim (w : wl) : sum_w RNumI (ok_l lim w) = below lim w.
Proof. rewrite sum_w_sumR. apply below_filter. Qed.

Lemma lw_unfold fuel lim (w : wl) :
  limit_weights RNumI (S fuel) lim w =
  if existsb (fun kv => nltb RNumI lim (snd kv)) (lw_round lim w) then limit_weights RNumI fuel lim (lw_round lim w)
  else Ok (lw_round lim w).
Proof.
  cbn [limit_weights]. unfold lw_round, round_of.
  fold (over_l lim w). fold (ok_l lim w).
  rewrite (excess_filter' lim w), (below_sum lim w). reflexivity.
Qed.

(* every redistribution round of the recursion has somewhere to put what it cuts *)
Fixpoint lw_good (fuel : nat) (lim : R) (w : wl) : Prop :=
  match fuel with
  | O => True
  | S f => (excess lim w = 0 \/ below lim w <> 0) /\
           (existsb (fun kv => nltb RNumI lim (snd kv)) (lw_round lim w) = true -> lw_good f lim (lw_round lim w))
  end.

Theorem limit_weights_spec fuel lim : forall (w r : wl),
  limit_weights RNumI fuel lim w = Ok r ->
  Forall (fun kv => snd kv <= lim) r /\ map fst r = map fst w /\ (lw_good fuel lim w -> sumR r = sumR w).
Proof.
  induction fuel as [|f IH]; intros w r H; [discriminate|].
  rewrite lw_unfold in H.
  assert (Hk : map fst (lw_round lim w) = map fst w).
  { unfold lw_round, round_of. rewrite map_map. apply map_ext. intros kv.
    cbv beta. repeat match goal with |- context [if ?c then _ else _] => destruct c end; reflexivity. }
  match type of H with (if ?c then _ else _) = _ => destruct c eqn:Ee end.
  - destruct (IH _ _ H) as (C & K & T). split; [exact C|]. split; [rewrite K; exact Hk|].
    intros [G1 G2]. rewrite (T (G2 Ee)). apply lw_round_total. exact G1.
  - inversion H; subst. split; [|split; [exact Hk|]].
    + apply Forall_forall. intros kv Hin. destruct (Rle_or_lt (snd kv) lim) as [L|L]; [exact L|exfalso].
      assert (existsb (fun kv0 => nltb RNumI lim (snd kv0)) (lw_round lim w) = true).
      { apply existsb_exists. exists kv. split; [exact Hin|]. rops. apply R_ltb_true. exact L. }
      congruence.
    + intros [G1 _]. apply lw_round_total. exact G1.
Qed.

(* the algo: nothing when the cap is infeasible (1 / limit > number of weights), otherwise ffn.limit_weights *)
Section Algo.
Variable ps : option nat -> tree RNumI (astate RNumI) -> result (tree RNumI (astate RNumI)).
Variable e : env RNumI.
Variable p : list nat.

Theorem limit_weights_infeasible lim (tr : tree RNumI (astate RNumI)) g kids st x tw :
  get_astate p tr = Ok (g, kids, st) -> t_weights (a_temp st) = Some (x :: tw) ->
  lim < 1 / INR (length (x :: tw)) ->
  run_algo ps e p (ALimitWeights RNumI lim) tr =
  bind (set_temp p (with_weights [] (a_temp st)) tr) (fun tr' => Ok (ALimitWeights RNumI lim, true, tr')).
Proof.
  intros Ha Hw Hl. cbn [run_algo]. rewrite Ha. cbn [bind]. rewrite Hw.
  assert (E : nltb RNumI lim (ndiv RNumI (n1 RNumI) (nofZ RNumI (Z.of_nat (length (x :: tw))))) = true).
  { rops. apply R_ltb_true. unfold RNum.div, RNum.one, RNum.of_Z. rewrite <- INR_IZR_INZ. exact Hl. }
  rewrite E. reflexivity.
Qed.

Theorem limit_weights_feasible lim (tr : tree RNumI (astate RNumI)) g kids st x tw r :
  get_astate p tr = Ok (g, kids, st) -> t_weights (a_temp st) = Some (x :: tw) ->
  1 / INR (length (x :: tw)) <= lim ->
  run_algo ps e p (ALimitWeights RNumI lim) tr = Ok r ->
  exists w, limit_weights RNumI (S (length (x :: tw))) lim (x :: tw) = Ok w /\
            Forall (fun kv => snd kv <= lim) w /\ map fst w = map fst (x :: tw) /\
            (lw_good (S (length (x :: tw))) lim (x :: tw) -> sumR w = sumR (x :: tw)).
Proof.
  intros Ha Hw Hl H. cbn [run_algo] in H. rewrite Ha in H. cbn [bind] in H. rewrite Hw in H.
  assert (E : nltb RNumI lim (ndiv RNumI (n1 RNumI) (nofZ RNumI (Z.of_nat (length (x :: tw))))) = false).
  { rops. apply R_ltb_false. unfold RNum.div, RNum.one, RNum.of_Z. rewrite <- INR_IZR_INZ. exact Hl. }
  rewrite E in H. destruct (negb _); [discriminate|].
  apply bind_ok in H. destruct H as (w & Ew & H). exists w. split; [exact Ew|]. exact (limit_weights_spec _ _ _ _ Ew).
Qed.
End Algo.

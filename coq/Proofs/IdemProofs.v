(* IdemProofs.v — C08 at the security level: SecurityBase.update (all five classes) is idempotent,
   and it only ever writes the row of the date it is called with (history is append-only). *)
From Coq Require Import List Bool Arith Reals Lra Lia.
Import ListNotations.
Require Import BT.Num BT.Base BT.Records BT.Engine BT.Proofs.Tac BT.Proofs.Frames BT.Proofs.SecInv.
Local Open Scope R_scope.

Lemma upd_same {B} i (x : B) l d : (i < length l)%nat -> nth i l d = x -> upd i x l = l.
Proof.
  revert i. induction l as [|y l IH]; intros [|i] Hl Hn; cbn in *; try lia; auto.
  - congruence.
  - f_equal. apply IH; auto. lia.
Qed.

Lemma upd_upd {B} i (x y : B) l : upd i x (upd i y l) = upd i x l.
Proof. revert i. induction l as [|z l IH]; intros [|i]; cbn; auto. f_equal. apply IH. Qed.

Lemma nth_upd_eq {B} i (x d : B) l : (i < length l)%nat -> nth i (upd i x l) d = x.
Proof. apply nth_upd_same. Qed.

(* rows other than the one written are untouched *)
Lemma upd_other_rows {B} i j (x d : B) l : i <> j -> nth j (upd i x l) d = nth j l d.
Proof. apply nth_upd_other. Qed.

(* ---------- append-only: SecurityBase.update writes row [inow] only ---------- *)
Theorem sec_update_base_rows date inow (s s' : secR) j :
  sec_update_base date inow s = Ok s' -> j <> inow ->
  nth j (h_values s') 0 = nth j (h_values s) 0 /\
  nth j (h_positions s') 0 = nth j (h_positions s) 0 /\
  nth j (h_outlays s') 0 = nth j (h_outlays s) 0 /\
  nth j (h_bopaid s') 0 = nth j (h_bopaid s) 0 /\
  nth j (h_notls s') 0 = nth j (h_notls s) 0.
Proof.
  intros H Hj. unfold sec_update_base in H. destruct (sec_early date s).
  - inversion H; subst. repeat split; reflexivity.
  - inv_bind H. inversion H0; subst; clear H0.
    destruct (sec_mark_spec _ _ _ E) as (v & _ & _ & _ & Hv & Hp & Hn & _).
    assert (Ho : h_outlays x = h_outlays s).
    { erewrite sec_mark_h_outlays by eassumption. autorewrite with frames. reflexivity. }
    assert (Hb : h_bopaid x = h_bopaid s).
    { erewrite sec_mark_h_bopaid by eassumption. autorewrite with frames. reflexivity. }
    autorewrite with frames in Hv, Hp, Hn.
    repeat split.
    + autorewrite with frames. rewrite Hv. apply upd_other_rows. auto.
    + autorewrite with frames. rewrite Hp. apply upd_other_rows. auto.
    + unfold sec_flush. destruct (negb _); [|destruct (s_bo_set _)]; cbn;
        try (destruct (s_bo_set _); cbn); autorewrite with frames;
        rewrite ?upd_other_rows by auto; rewrite ?Ho; try reflexivity.
      all: try (rewrite upd_other_rows by auto; rewrite Ho; reflexivity).
    + unfold sec_flush. destruct (negb _); cbn; destruct (s_bo_set _); cbn; autorewrite with frames;
        rewrite ?upd_other_rows by auto; rewrite ?Hb; reflexivity.
    + autorewrite with frames. rewrite Hn. apply upd_other_rows. auto.
Qed.

(* ---------- idempotence ---------- *)
Lemma sec_roll_now date inow (s : secR) : s_now (sec_roll date inow s) = date.
Proof.
  unfold sec_roll. destruct (onat_eqb date (s_now s)) eqn:E.
  - apply onat_eqb_eq in E. auto.
  - cbn. destruct (s_prices s); cbn; destruct (s_bo_set s); reflexivity.
Qed.

Lemma sec_update_base_now date inow (s s1 : secR) :
  sec_update_base date inow s = Ok s1 -> sec_early date s1 = true.
Proof.
  intros H. unfold sec_update_base in H. destruct (sec_early date s) eqn:Ee.
  - inversion H; subst. exact Ee.
  - inv_bind H. inversion H0; subst; clear H0.
    destruct (sec_mark_spec _ _ _ E) as (v & Hl & _).
    unfold sec_early. autorewrite with frames.
    erewrite sec_mark_s_now by eassumption. rewrite sec_roll_now.
    erewrite (sec_mark_s_pos) by eassumption. rewrite Hl. autorewrite with frames.
    apply andb_true_iff. split; [apply onat_eqb_eq; reflexivity|]. rops. apply R_eqb_true. reflexivity.
Qed.

Theorem sec_update_base_idem date inow (s s1 : secR) :
  sec_update_base date inow s = Ok s1 -> sec_update_base date inow s1 = Ok s1.
Proof.
  intros H. unfold sec_update_base. rewrite (sec_update_base_now _ _ _ _ H). reflexivity.
Qed.

(* the coupon tail in explicit form: which carry it books, and that it books the same on any
   record with the same position and schedules *)
Lemma coupon_explicit inow (y x : secR) :
  sec_update_coupon inow y = Ok x ->
  exists cpn hc, x = sec_set_carry inow cpn hc y /\
    forall z : secR, s_pos z = s_pos y -> s_coupons z = s_coupons y -> s_cost_long z = s_cost_long y ->
                     s_cost_short z = s_cost_short y ->
                     sec_update_coupon inow z = Ok (sec_set_carry inow cpn hc z).
Proof.
  unfold sec_update_coupon. intros H.
  destruct (s_coupons y) as [cps|] eqn:Ecp; [|discriminate].
  inv_bind H. rename x0 into cpn. inv_bind H0. rename x0 into hc. inversion H1; subst; clear H1.
  exists cpn, hc. split; [reflexivity|].
  intros z Hp Hc Hl Hs. rewrite Hc, Hp. rewrite E. cbn [bind].
  unfold sec_holding_cost in *. rewrite Hp, Hl, Hs. rewrite E0. reflexivity.
Qed.

Ltac recnorm := cbv beta iota zeta delta [set_h_hcosts set_h_coupons set_s_capital set_s_holding_cost set_s_coupon set_h_notls set_s_notl Records.s_id Records.s_class Records.s_fi Records.s_mult Records.s_intpos Records.s_prices Records.s_bo_set Records.s_bidoffers Records.s_coupons Records.s_cost_long Records.s_cost_short Records.s_now Records.s_pos Records.s_lastpos Records.s_price Records.s_value Records.s_notl Records.s_weight Records.s_needupdate Records.s_outlay Records.s_bidoffer Records.s_bidoffer_paid Records.s_capital Records.s_coupon Records.s_holding_cost Records.h_values Records.h_positions Records.h_notls Records.h_outlays Records.h_bopaid Records.h_coupons Records.h_hcosts].

Lemma map_zero_upd (l : list R) i x : map (fun _ : R => n0 RNumI) (upd i x l) = map (fun _ : R => n0 RNumI) l.
Proof. revert i. induction l as [|a l IH]; intros [|i]; cbn; auto. f_equal. apply IH. Qed.

(* the class-specific tail applied to its own result changes nothing *)
Lemma sec_tail_idem inow (y s1 : secR) :
  sec_tail inow y = Ok s1 -> sec_tail inow s1 = Ok s1.
Proof.
  intros H.
  assert (Hcl : s_class s1 = s_class y) by (eapply sec_tail_s_class; eauto).
  unfold sec_tail in *. rewrite Hcl.
  destruct (s_class y) eqn:Ecl; cbn [class_fi_notl class_coupon class_hedge] in *.
  - (* Security *) cbn in *. inversion H; subst. reflexivity.
  - (* FixedIncomeSecurity *)
    cbn in *. inversion H; subst. f_equal.
    destruct y; unfold sec_set_notl_pos; recnorm. rewrite upd_upd. reflexivity.
  - (* CouponPayingSecurity *)
    inv_bind H. inversion H0; subst; clear H0.
    destruct (coupon_explicit _ _ _ E) as (cpn & hc & Hx & Hz). subst s1.
    rewrite (Hz (sec_set_notl_pos inow (sec_set_carry inow cpn hc (sec_set_notl_pos inow y))))
      by (autorewrite with frames; reflexivity).
    cbn [bind]. f_equal.
    destruct y; unfold sec_set_notl_pos, sec_set_carry; recnorm. rewrite !upd_upd. reflexivity.
  - (* HedgeSecurity *)
    cbn in *. inversion H; subst. f_equal.
    destruct y; unfold sec_set_notl_zero; recnorm. rewrite map_map. reflexivity.
  - (* CouponPayingHedgeSecurity *)
    inv_bind H. inversion H0; subst; clear H0.
    destruct (coupon_explicit _ _ _ E) as (cpn & hc & Hx & Hz). subst x.
    rewrite (Hz (sec_set_notl_pos inow (sec_set_notl_zero (sec_set_carry inow cpn hc (sec_set_notl_pos inow y)))))
      by (autorewrite with frames; reflexivity).
    cbn [bind]. f_equal.
    destruct y; unfold sec_set_notl_pos, sec_set_carry, sec_set_notl_zero; recnorm.
    rewrite ?upd_upd, ?map_zero_upd, ?map_map. reflexivity.
Qed.

(* SecurityBase.update and its subclasses: re-running the update for the same date changes nothing *)
Theorem sec_update_idem date inow (s s1 : secR) :
  sec_update date inow s = Ok s1 -> sec_update date inow s1 = Ok s1.
Proof.
  unfold sec_update. intros H.
  destruct (class_coupon (s_class s) && match s_coupons s with None => true | _ => false end) eqn:Eg; [discriminate|].
  inv_bind H. rename x into y.
  assert (Hcl : s_class s1 = s_class s).
  { erewrite sec_tail_s_class by eassumption. erewrite sec_update_base_s_class by eassumption. reflexivity. }
  assert (Hcp : s_coupons s1 = s_coupons s).
  { erewrite sec_tail_s_coupons by eassumption. erewrite sec_update_base_s_coupons by eassumption. reflexivity. }
  rewrite Hcl, Hcp, Eg.
  (* the base update of s1 takes the early return *)
  assert (He : sec_early date s1 = true).
  { pose proof (sec_update_base_now _ _ _ _ E) as Hy. unfold sec_early in *.
    erewrite sec_tail_s_now, sec_tail_s_lastpos, sec_tail_s_pos by eassumption. exact Hy. }
  unfold sec_update_base. rewrite He. cbn [bind].
  eapply sec_tail_idem. exact H0.
Qed.

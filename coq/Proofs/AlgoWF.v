(* AlgoWF.v — well-formedness (the security invariants at every leaf) is preserved by every stock algo of the model,
   by Strategy.run and by Backtest.run: with WFProofs.v, the balance-sheet theorem (C01) applies after every update of
   every backtest.  Real-number instance. *)
From Coq Require Import List Bool Arith ZArith Reals Lra Lia.
Import ListNotations.
Require Import BT.Num BT.Base BT.Cal BT.Records BT.Engine BT.Ops BT.Algos BT.Proofs.Tac BT.Proofs.Frames BT.Proofs.SecInv
        BT.Proofs.TreeInv BT.Proofs.WiringProofs BT.Proofs.WFProofs.

Section AlgoWF.
Notation A := (astate RNumI).
Notation nodeR := (node RNumI A).
Notation treeR := (tree RNumI A).
Variable ps : option nat -> treeR -> result treeR.
Variable e : env RNumI.

Notation WFt tr := (WF (fst tr)).

Lemma upd_astate_WF p f (tr tr' : treeR) : upd_astate p f tr = Ok tr' -> WFt tr -> WFt tr'.
Proof.
  unfold upd_astate. apply tree_at_WF. intros ctx n n' oa st H Hw. destruct n as [s|g k l pp]; [discriminate|].
  inversion H; subst. inversion Hw; subst. constructor. assumption.
Qed.

Lemma set_temp_WF p tm (tr tr' : treeR) : set_temp p tm tr = Ok tr' -> WFt tr -> WFt tr'.
Proof. apply upd_astate_WF. Qed.

Lemma set_stack_WF p l (tr tr' : treeR) : set_stack p l tr = Ok tr' -> WFt tr -> WFt tr'.
Proof. apply upd_astate_WF. Qed.

Lemma read_kid_weight_WF p k (tr tr' : treeR) ow : read_kid_weight ps p k tr = Ok (tr', ow) -> WFt tr -> WFt tr'.
Proof.
  unfold read_kid_weight. intros H Hw. apply bind_ok in H. destruct H as ([g kids] & E & H).
  destruct (find_kid k kids); [|inversion H; subst; exact Hw].
  apply bind_ok in H. destruct H as (tr1 & Er & H). pose proof (refresh_WF _ ps _ _ Er Hw) as W1.
  apply bind_ok in H. destruct H as ([g1 kids1] & E1 & H). destruct (find_kid k kids1); [|discriminate].
  inversion H; subst. exact W1.
Qed.

Lemma g_adjust_at_WF p amt fee flow upd (tr tr' : treeR) :
  tree_at p (fun _ (n : nodeR) => match n with
                      | NStrat g k l pp => Ok (NStrat (g_adjust amt fee flow g) k l pp, None, upd)
                      | NSec _ => Err EAttr
                      end) tr = Ok tr' -> WFt tr -> WFt tr'.
Proof.
  apply tree_at_WF. intros ctx n n' oa st H Hw. destruct n as [s|g k l pp]; [discriminate|].
  inversion H; subst. inversion Hw; subst. constructor. assumption.
Qed.

Tactic Notation "ib" hyp(H) ident(x) ident(E) := apply bind_ok in H; destruct H as (x & E & H).

Lemma do_rebalance_WF p (tr tr' : treeR) b : do_rebalance ps p tr = Ok (b, tr') -> WFt tr -> WFt tr'.
Proof.
  unfold do_rebalance. intros H Hw. ib H r0 E0. destruct r0 as [[g kids] a].
  destruct (t_weights (a_temp a)) as [targets|]; [|inversion H; subst; exact Hw].
  ib H r1 E1. destruct r1 as [tr1 base].
  assert (W1 : WFt tr1).
  { destruct (g_fi g).
    - destruct (t_notional (a_temp a)); [inversion E1; subst; exact Hw|].
      ib E1 t1 Er. ib E1 r2 Eg. destruct r2. inversion E1; subst. eapply refresh_WF; eauto.
    - ib E1 t1 Er. ib E1 r2 Eg. destruct r2. inversion E1; subst. eapply refresh_WF; eauto. }
  match type of H with bind (?F ?ids tr1) _ = _ => set (dealloc := F) in H end.
  ib H tr2 E2.
  assert (W2 : WFt tr2).
  { clear H E1. revert tr1 W1 E2. generalize (kid_ids kids) as ids.
    induction ids as [|k ids IH]; intros t1 Wt1 Ed; cbn in Ed; [inversion Ed; subst; exact Wt1|].
    match type of Ed with (if ?c then _ else _) = _ => destruct c end; [exact (IH _ Wt1 Ed)|].
    ib Ed t2 Er. pose proof (refresh_WF _ ps _ _ Er Wt1) as Wt2.
    ib Ed r3 Eg. destruct r3 as [g3 kids3]. destruct (find_kid k kids3) as [c|]; [|discriminate].
    ib Ed t3 Ec. refine (IH t3 _ Ed).
    match type of Ec with (if ?c then _ else _) = _ => destruct c end; [eapply op_close_WF; eauto | inversion Ec; subst; exact Wt2]. }
  match type of H with bind (?F targets tr2) _ = _ => set (alloc := F) in H end.
  ib H tr3 E3.
  assert (W3 : WFt tr3).
  { clear H E2. revert tr2 W2 E3. generalize targets as ws.
    induction ws as [|[k w] ws IH]; intros t2 Wt2 Ea; cbn in Ea; [inversion Ea; subst; exact Wt2|].
    ib Ea t3 Eo. refine (IH t3 _ Ea). eapply op_rebalance_WF; eauto. }
  ib H r4 E4. destruct r4 as [g4 kids4]. ib H tr4 E5. inversion H; subst. eapply root_update_WF; eauto.
Qed.

(* ---------- induction over algos (nested lists in Or / stacks) ---------- *)
Definition is_leaf (a : algo RNumI) : bool :=
  match a with ANot _ | AOr _ | AStack _ | AAlways _ _ => false | _ => true end.

Fixpoint algo_ind' (P : algo RNumI -> Prop)
         (Hnot : forall a, P a -> P (ANot a))
         (Hor : forall l, Forall P l -> P (AOr l))
         (Hst : forall l, Forall P l -> P (AStack l))
         (Hal : forall f a, P a -> P (AAlways f a))
         (Hleaf : forall a, is_leaf a = true -> P a)
         (a : algo RNumI) {struct a} : P a :=
  let fix go (l : list (algo RNumI)) : Forall P l :=
      match l with
      | [] => Forall_nil _
      | x :: l' => Forall_cons _ (algo_ind' P Hnot Hor Hst Hal Hleaf x) (go l')
      end in
  match a as a0 return P a0 with
  | ANot a1 => Hnot a1 (algo_ind' P Hnot Hor Hst Hal Hleaf a1)
  | AOr l => Hor l (go l)
  | AStack l => Hst l (go l)
  | AAlways f a1 => Hal f a1 (algo_ind' P Hnot Hor Hst Hal Hleaf a1)
  | x => Hleaf x eq_refl
  end.

(* ---------- leaves ---------- *)
Ltac step H :=
  lazymatch type of H with
  | bind _ _ = Ok _ => let x := fresh "x" in let E := fresh "E" in apply bind_ok in H; destruct H as (x & E & H)
  | (if ?c then _ else _) = Ok _ => destruct c
  | match ?x with _ => _ end = Ok _ => destruct x
  | Err _ = Ok _ => discriminate H
  end.

Ltac wf_close :=
  repeat match goal with
         | E : set_temp _ _ ?a = Ok ?b, W : WF (fst ?a) |- _ => pose proof (set_temp_WF _ _ _ _ E W); clear E
         | E : upd_astate _ _ ?a = Ok ?b, W : WF (fst ?a) |- _ => pose proof (upd_astate_WF _ _ _ _ E W); clear E
         | E : refresh ps ?a = Ok ?b, W : WF (fst ?a) |- _ => pose proof (refresh_WF _ ps _ _ E W); clear E
         | E : root_update ps _ ?a = Ok ?b, W : WF (fst ?a) |- _ => pose proof (root_update_WF _ ps _ _ _ E W); clear E
         | E : op_close ps _ _ _ ?a = Ok ?b, W : WF (fst ?a) |- _ => pose proof (op_close_WF _ ps _ _ _ _ _ E W); clear E
         | E : do_rebalance ps _ ?a = Ok (_, ?b), W : WF (fst ?a) |- _ => pose proof (do_rebalance_WF _ _ _ _ E W); clear E
         | E : read_kid_weight ps _ _ ?a = Ok (?b, _), W : WF (fst ?a) |- _ => pose proof (read_kid_weight_WF _ _ _ _ _ E W); clear E
         | E : apply_op ps _ ?a = Ok (?b, _), W : WF (fst ?a) |- _ => pose proof (apply_op_WF _ ps _ _ _ _ E W); clear E
         end.

Ltac leaf H Hw := cbn [run_algo] in H; repeat step H; try (inversion H; subst; clear H); wf_close; try assumption.

Lemma leaves_WF_probe p (tr tr' : treeR) a' b :
  WFt tr ->
  (run_algo ps e p (ARunOnce RNumI false) tr = Ok (a', b, tr') -> WFt tr') /\
  (forall k f eop l, run_algo ps e p (ARunPeriod RNumI k f eop l) tr = Ok (a', b, tr') -> WFt tr') /\
  (forall nd ng, run_algo ps e p (ASelectAll RNumI nd ng) tr = Ok (a', b, tr') -> WFt tr') /\
  (run_algo ps e p (AWeighEqually RNumI) tr = Ok (a', b, tr') -> WFt tr') /\
  (run_algo ps e p (ARebalance RNumI) tr = Ok (a', b, tr') -> WFt tr').
Proof.
  intros Hw. repeat split; intros; match goal with H : run_algo _ _ _ _ _ = _ |- _ => leaf H Hw end.
Qed.

Ltac finish H := try (inversion H; subst; clear H); wf_close; try assumption.


Lemma close_after_WF p key (tr tr' : treeR) a' b :
  run_algo ps e p (AClosePositionsAfterDates RNumI key) tr = Ok (a', b, tr') -> WFt tr -> WFt tr'.
Proof.
  intros H Hw. cbn [run_algo] in H. repeat step H.
  match goal with E : ?F _ tr = Ok ?r |- _ =>
    assert (LW : forall ids (t r0 : treeR), F ids t = Ok r0 -> WFt t -> WFt r0);
      [ induction ids as [|k ids IH]; intros tq rq Ek Hk; cbn in Ek; [inversion Ek; subst; exact Hk|];
        apply bind_ok in Ek; destruct Ek as (t1 & Ec & Ek); eapply IH; [exact Ek|]; eapply op_close_WF; eauto
      | pose proof (LW _ _ _ E Hw) ] end.
  finish H.
Qed.

Lemma replay_WF p key (tr tr' : treeR) a' b :
  run_algo ps e p (AReplayTransactions RNumI key) tr = Ok (a', b, tr') -> WFt tr -> WFt tr'.
Proof.
  intros H Hw. cbn [run_algo] in H. repeat step H.
  match goal with E : ?F _ tr = Ok ?r |- _ =>
    assert (LW : forall ids (t r0 : treeR), F ids t = Ok r0 -> WFt t -> WFt r0);
      [ induction ids as [|[[[d k] q] pr] ids IH]; intros tq rq Ek Hk; cbn in Ek; [inversion Ek; subst; exact Hk|];
        repeat step Ek; eapply IH; [exact Ek|];
        match goal with Et : tree_at _ _ tq = Ok _ |- _ => eapply tree_at_WF; [apply op_transact_self_WF | exact Et | exact Hk] end
      | pose proof (LW _ _ _ E Hw) ] end.
  finish H.
Qed.

Lemma capital_flow_WF p amt (tr tr' : treeR) a' b :
  run_algo ps e p (ACapitalFlow RNumI amt) tr = Ok (a', b, tr') -> WFt tr -> WFt tr'.
Proof.
  intros H Hw. cbn [run_algo] in H. apply bind_ok in H. destruct H as (t1 & E & H). inversion H; subst.
  eapply g_adjust_at_WF; eauto.
Qed.

Lemma user_adjust_WF p amt fl upd (tr tr' : treeR) a' b :
  run_algo ps e p (AUserAdjust RNumI amt fl upd) tr = Ok (a', b, tr') -> WFt tr -> WFt tr'.
Proof.
  intros H Hw. cbn [run_algo] in H. apply bind_ok in H. destruct H as (t1 & E & H). inversion H; subst.
  eapply g_adjust_at_WF; eauto.
Qed.

Ltac split_hyps :=
  repeat match goal with
         | E : (match ?x with _ => _ end) = Ok _ |- _ => destruct x
         | E : (if ?c then _ else _) = Ok _ |- _ => destruct c
         | E : Ok _ = Ok _ |- _ => inversion E; subst; clear E
         | E : Err _ = Ok _ |- _ => discriminate E
         end.
Ltac loop_body IH Ek Hk := repeat step Ek; split_hyps; wf_close; try assumption; try (eapply IH; [exact Ek|]; wf_close; assumption).

Lemma close_dead_WF p (tr tr' : treeR) a' b :
  run_algo ps e p (ACloseDead RNumI) tr = Ok (a', b, tr') -> WFt tr -> WFt tr'.
Proof.
  intros H Hw. cbn [run_algo] in H. repeat step H; try solve [finish H].
  match goal with E : ?F _ tr = Ok ?r |- _ =>
    assert (LW : forall ids (t r0 : treeR), F ids t = Ok r0 -> WFt t -> WFt r0);
      [ induction ids as [|k ids IH]; intros tq rq Ek Hk; cbn in Ek; [inversion Ek; subst; exact Hk|]; loop_body IH Ek Hk
      | pose proof (LW _ _ _ E Hw) ] end.
  finish H.
Qed.

Lemma oob_WF p tol (tr tr' : treeR) a' b :
  run_algo ps e p (ARunIfOutOfBounds RNumI tol) tr = Ok (a', b, tr') -> WFt tr -> WFt tr'.
Proof.
  intros H Hw. cbn [run_algo] in H. repeat step H; try solve [finish H].
  all: match goal with E : ?F _ ?t0 = Ok (_, ?r), W0 : WFt ?t0 |- _ =>
    assert (LW : forall ids (t r0 : treeR) bb, F ids t = Ok (bb, r0) -> WFt t -> WFt r0);
      [ induction ids as [|k ids IH]; intros tq rq bq Ek Hk; cbn in Ek; [inversion Ek; subst; exact Hk|]; loop_body IH Ek Hk
      | pose proof (LW _ _ _ _ E W0) ] end.
  all: finish H.
Qed.

Lemma limit_deltas_WF p glob per (tr tr' : treeR) a' b :
  run_algo ps e p (ALimitDeltas RNumI glob per) tr = Ok (a', b, tr') -> WFt tr -> WFt tr'.
Proof.
  intros H Hw. cbn [run_algo] in H. repeat step H; try solve [finish H].
  all: match goal with E : ?F _ _ ?t0 = Ok (_, ?r), W0 : WFt ?t0 |- _ =>
    assert (LW : forall ids tw (t r0 : treeR) tw', F ids tw t = Ok (tw', r0) -> WFt t -> WFt r0);
      [ induction ids as [|k ids IH]; intros twq tq rq twq2 Ek Hk; cbn in Ek; [inversion Ek; subst; exact Hk|]; loop_body IH Ek Hk
      | pose proof (LW _ _ _ _ _ E W0) ] end.
  all: finish H.
Qed.

Lemma rot_WF p n w dl (tr tr' : treeR) a' b :
  run_algo ps e p (ARebalanceOverTime RNumI n w dl) tr = Ok (a', b, tr') -> WFt tr -> WFt tr'.
Proof.
  intros H Hw. cbn [run_algo] in H. repeat step H; try solve [finish H].
  all: match goal with E : ?F _ _ ?t0 = Ok (_, ?r), W0 : WFt ?t0 |- _ =>
    assert (LW : forall ids acc (t r0 : treeR) acc', F ids acc t = Ok (acc', r0) -> WFt t -> WFt r0);
      [ induction ids as [|[k wk] ids IH]; intros accq tq rq accq2 Ek Hk; cbn in Ek; [inversion Ek; subst; exact Hk|]; loop_body IH Ek Hk
      | pose proof (LW _ _ _ _ _ E W0) ] end.
  all: finish H.
Qed.

Lemma set_risk_WF m hist fr rnow (n : nodeR) : forall depth n' r,
  set_risk m hist fr rnow depth n = Ok (n', r) -> WF n -> WF n'.
Proof.
  induction n as [s | g kids lz paper IH] using (node_ind' A); intros depth n' r H Hw.
  - cbn [set_risk] in H. apply bind_ok in H. destruct H as (u & _ & H).
    destruct (Nat.ltb depth hist); [discriminate|]. inversion H; subst. inversion Hw; subst.
    constructor; destruct s; assumption.
  - cbn [set_risk] in H. inversion Hw as [|? ? ? ? Hk]; subst.
    match type of H with bind (?F kids _) _ = _ => set (go := F) in H end.
    assert (G : forall ks acc ks' acc', Forall (fun c => forall d c' rc, set_risk m hist fr rnow d c = Ok (c', rc) -> WF c -> WF c') ks ->
                 Forall WF ks -> go ks acc = Ok (ks', acc') -> Forall WF ks').
    { induction ks as [|c ks IHk]; intros acc ks' acc' HF HW Hgo; cbn in Hgo.
      - inversion Hgo; subst. constructor.
      - inversion HF as [|? ? Hc HF']; subst. inversion HW as [|? ? Wc HW']; subst.
        apply bind_ok in Hgo. destruct Hgo as ([c' rc] & Ec & Hgo).
        apply bind_ok in Hgo. destruct Hgo as ([ks2 acc2] & Ek & Hgo). inversion Hgo; subst; clear Hgo.
        constructor; [eapply Hc; eauto | eapply IHk; eauto]. }
    apply bind_ok in H. destruct H as ([kids' r0] & Eg & H). inversion H; subst; clear H.
    constructor. eapply G; eauto.
Qed.

Lemma update_risk_WF p m hist (tr tr' : treeR) a' b :
  run_algo ps e p (AUpdateRisk RNumI m hist) tr = Ok (a', b, tr') -> WFt tr -> WFt tr'.
Proof.
  intros H Hw. cbn [run_algo] in H. repeat step H. inversion H; subst; clear H. cbn [fst].
  eapply at_path_WF; [|exact E|exact Hw].
  intros ctx nq nq' oaq stq Hf Hw0. apply bind_ok in Hf. destruct Hf as ([nq1 rq1] & Es & Hf). inversion Hf; subst.
  eapply set_risk_WF; eauto.
Qed.

Lemma roll_WF p key (tr tr' : treeR) a' b :
  run_algo ps e p (ARollPositionsAfterDates RNumI key) tr = Ok (a', b, tr') -> WFt tr -> WFt tr'.
Proof.
  intros H Hw. cbn [run_algo] in H. repeat step H; try solve [finish H].
  all: match goal with E1 : ?F _ _ _ ?t0 = Ok (_, _, ?r1), E2 : ?G _ ?r1 = Ok ?r2, W0 : WFt ?t0 |- _ =>
    assert (LW : forall ids tn ro (tq rq : treeR) tn2 ro2, F ids tn ro tq = Ok (tn2, ro2, rq) -> WFt tq -> WFt rq);
      [ induction ids as [|k ids IH]; intros tn ro tq rq tn2 ro2 Ek Hk; cbn in Ek; [inversion Ek; subst; exact Hk|]; loop_body IH Ek Hk
      | assert (LW2 : forall ids (tq rq : treeR), G ids tq = Ok rq -> WFt tq -> WFt rq);
        [ induction ids as [|[k q] ids IH]; intros tq rq Ek Hk; cbn -[apply_op] in Ek; [inversion Ek; subst; exact Hk|]; loop_body IH Ek Hk
        | pose proof (LW _ _ _ _ _ _ _ E1 W0) as W1; pose proof (LW2 _ _ _ E2 W1) ] ] end.
  all: finish H.
Qed.

Definition PA (a : algo RNumI) : Prop :=
  forall p (tr tr' : treeR) a' b, run_algo ps e p a tr = Ok (a', b, tr') -> WFt tr -> WFt tr'.

Lemma leaf_WF a : is_leaf a = true -> PA a.
Proof.
  intros Hl p tr tr' a' b H Hw. destruct a; try discriminate Hl.
  all: first [ eapply close_after_WF; eassumption | eapply replay_WF; eassumption | eapply capital_flow_WF; eassumption
             | eapply user_adjust_WF; eassumption | eapply close_dead_WF; eassumption | eapply oob_WF; eassumption
             | eapply limit_deltas_WF; eassumption | eapply rot_WF; eassumption | eapply roll_WF; eassumption
             | eapply update_risk_WF; eassumption | solve [leaf H Hw] ].
Qed.

Lemma stack_go_WF p ra l : Forall PA l -> forall res (tr tr' : treeR) l' b,
  stack_go (run_algo ps e p) ra l res tr = Ok (l', b, tr') -> WFt tr -> WFt tr'.
Proof.
  induction l as [|x l IH]; intros HF res tr tr' l' b H Hw; cbn [stack_go] in H; [inversion H; subst; exact Hw|].
  inversion HF as [|? ? Hx HF']; subst. destruct res.
  - apply bind_ok in H. destruct H as ([[x' bx] t1] & Ex & H). pose proof (Hx _ _ _ _ _ Ex Hw) as W1.
    destruct (negb bx && negb ra); [inversion H; subst; exact W1|].
    apply bind_ok in H. destruct H as ([[l2 b2] t2] & El & H). inversion H; subst. eapply IH; eauto.
  - assert (Hskip : forall y, (' (l'', res, tr0) <- stack_go (run_algo ps e p) ra l false tr;; Ok (y :: l'', res, tr0)) = Ok (l', b, tr') -> WFt tr').
    { intros y Hy. apply bind_ok in Hy. destruct Hy as ([[l2 b2] t2] & El & Hy). inversion Hy; subst. eapply IH; eauto. }
    destruct x; try (eapply Hskip; exact H). destruct flag; [|eapply Hskip; exact H].
    apply bind_ok in H. destruct H as ([[x' bx] t1] & Ex & H). pose proof (Hx _ _ _ _ _ Ex Hw) as W1.
    apply bind_ok in H. destruct H as ([[l2 b2] t2] & El & H). inversion H; subst. eapply IH; eauto.
Qed.

Lemma or_go_WF p l : Forall PA l -> forall res (tr tr' : treeR) l' b,
  or_go (run_algo ps e p) l res tr = Ok (l', b, tr') -> WFt tr -> WFt tr'.
Proof.
  induction l as [|x l IH]; intros HF res tr tr' l' b H Hw; cbn [or_go] in H; [inversion H; subst; exact Hw|].
  inversion HF as [|? ? Hx HF']; subst.
  apply bind_ok in H. destruct H as ([[x' bx] t1] & Ex & H). pose proof (Hx _ _ _ _ _ Ex Hw) as W1.
  apply bind_ok in H. destruct H as ([[l2 b2] t2] & El & H). inversion H; subst. eapply IH; eauto.
Qed.

(* every stock algo, and every composition of them, preserves well-formedness *)
Theorem run_algo_WF a : PA a.
Proof.
  induction a as [a IH | l IH | l IH | f a IH | a Hl] using algo_ind'.
  - intros p tr tr' a' b H Hw. cbn [run_algo] in H. apply bind_ok in H. destruct H as ([[x bx] t1] & Ex & H).
    inversion H; subst. eapply IH; eauto.
  - intros p tr tr' a' b H Hw. cbn [run_algo] in H. apply bind_ok in H. destruct H as ([[x bx] t1] & Ex & H).
    inversion H; subst. eapply or_go_WF; eauto.
  - intros p tr tr' a' b H Hw. cbn [run_algo] in H. apply bind_ok in H. destruct H as ([[x bx] t1] & Ex & H).
    inversion H; subst. eapply stack_go_WF; eauto.
  - intros p tr tr' a' b H Hw. cbn [run_algo] in H. apply bind_ok in H. destruct H as ([[x bx] t1] & Ex & H).
    inversion H; subst. eapply IH; eauto.
  - apply leaf_WF; assumption.
Qed.

(* Strategy.run (the stack, then every child strategy, recursively) *)
Theorem strat_run_WF fuel : forall p (tr tr' : treeR), strat_run ps fuel e p tr = Ok tr' -> WFt tr -> WFt tr'.
Proof.
  induction fuel as [|fuel IH]; intros p tr tr' H Hw; cbn [strat_run] in H; [discriminate|].
  apply bind_ok in H. destruct H as ([[g0 k0] a0] & E0 & H).
  destruct (negb (a_is_strategy a0)); [inversion H; subst; exact Hw|].
  apply bind_ok in H. destruct H as (t1 & E1 & H). pose proof (set_temp_WF _ _ _ _ E1 Hw) as W1.
  apply bind_ok in H. destruct H as ([[st' b] t2] & E2 & H). pose proof (run_algo_WF _ _ _ _ _ _ E2 W1) as W2.
  apply bind_ok in H. destruct H as (t3 & E3 & H).
  assert (W3 : WFt t3) by (destruct st'; try discriminate E3; eapply set_stack_WF; eauto).
  apply bind_ok in H. destruct H as ([[g1 k1] a1] & E4 & H).
  apply bind_ok in H. destruct H as (t4 & E5 & H). pose proof (upd_astate_WF _ _ _ _ E5 W3) as W4.
  apply bind_ok in H. destruct H as ([g2 kids] & E6 & H).
  clear - IH H W4. revert t4 H W4. induction kids as [|c kids IHk]; intros t4 H W4; [inversion H; subst; exact W4|].
  destruct c as [s|g k l pp]; [exact (IHk _ H W4)|].
  apply bind_ok in H. destruct H as (t5 & E7 & H). eapply IHk; [exact H|]. eapply IH; eauto.
Qed.

End AlgoWF.

(* ---------- Backtest.run ---------- *)
Section BacktestWF.
Notation A := (astate RNumI).
Notation treeR := (tree RNumI A).
Notation WFt tr := (WF (fst tr)).
Variable e : env RNumI.
Let ps := bt_paper_step e bt_level.

(* one date of Backtest.run: update; run; update (nothing after the first update when the strategy is bankrupt) *)
Definition date_step (i : nat) (tr : treeR) : result treeR :=
  tr <- root_update ps (Some i) tr ;;
  match fst tr with
  | NStrat g _ _ _ =>
    if g_bankrupt g then Ok tr
    else tr <- strat_run ps depth_fuel e [] tr ;; root_update ps (Some i) tr
  | _ => Err EOther
  end.

Lemma bt_loop_cons i rows (tr : treeR) : bt_loop e (i :: rows) tr = bind (date_step i tr) (bt_loop e rows).
Proof.
  cbn [bt_loop]. unfold date_step. fold ps.
  destruct (root_update ps (Some i) tr) as [t1|er]; cbn [bind]; reflexivity.
Qed.

Lemma bt_loop_app pre post : forall (tr : treeR), bt_loop e (pre ++ post) tr = bind (bt_loop e pre tr) (bt_loop e post).
Proof.
  induction pre as [|i pre IH]; intros tr; [reflexivity|].
  rewrite <- app_comm_cons, !bt_loop_cons. destruct (date_step i tr) as [t1|er]; cbn [bind]; [apply IH|reflexivity].
Qed.

(* the state left at the end of a date is well-formed, and — unless the update left it stale, which only a bankruptcy
   with every position already flat does — balanced at every node *)
Theorem date_step_BS i (tr tr' : treeR) :
  date_step i tr = Ok tr' -> WFt tr -> WFt tr' /\ (snd tr' = false -> BS (fst tr')).
Proof.
  unfold date_step. intros H Hw. apply bind_ok in H. destruct H as (t1 & E1 & H).
  pose proof (root_update_WF _ _ _ _ _ E1 Hw) as W1.
  destruct (fst t1) as [s|g k lz pp] eqn:Ef; [discriminate|].
  destruct (g_bankrupt g).
  - inversion H; subst. split; [rewrite Ef; exact W1|]. intros Hs. eapply root_update_BS; eauto.
  - apply bind_ok in H. destruct H as (t2 & E2 & H).
    assert (W2 : WFt t2) by (eapply strat_run_WF; [exact E2 | rewrite Ef; exact W1]).
    split; [eapply root_update_WF; eauto | intros Hs; eapply root_update_BS; eauto].
Qed.

Theorem bt_loop_WF rows : forall (tr tr' : treeR), bt_loop e rows tr = Ok tr' -> WFt tr -> WFt tr'.
Proof.
  induction rows as [|i rows IH]; intros tr tr' H Hw; [inversion H; subst; exact Hw|].
  rewrite bt_loop_cons in H. apply bind_ok in H. destruct H as (t1 & E1 & H).
  eapply IH; [exact H|]. eapply date_step_BS; eauto.
Qed.

(* every date of the loop: the run factors through the end-of-date state of that date, which is balanced *)
Theorem bt_loop_every_date pre i post (tr tr' : treeR) :
  bt_loop e (pre ++ i :: post) tr = Ok tr' -> WFt tr ->
  exists t0 ti, bt_loop e pre tr = Ok t0 /\ date_step i t0 = Ok ti /\ bt_loop e post ti = Ok tr' /\
                WFt ti /\ (snd ti = false -> BS (fst ti)).
Proof.
  intros H Hw. rewrite bt_loop_app in H. apply bind_ok in H. destruct H as (t0 & E0 & H).
  rewrite bt_loop_cons in H. apply bind_ok in H. destruct H as (ti & Ei & H).
  exists t0, ti. pose proof (bt_loop_WF _ _ _ E0 Hw) as W0. destruct (date_step_BS _ _ _ Ei W0) as [Wi Bi].
  repeat split; assumption.
Qed.
End BacktestWF.

(* Backtest(strategy, data, ...).run(): any declaration tree, any data, any stacks of stock algos *)
Theorem backtest_WF dates prices kw ad intpos comm capital (sp : nspec RNumI (astate RNumI)) tr :
  backtest dates prices kw ad intpos comm capital sp = Ok tr -> WF (fst tr).
Proof.
  unfold backtest. intros H. apply bind_ok in H. destruct H as (t0 & Eb & H).
  assert (W0 : WF (fst t0)).
  { unfold build in Eb. destruct (has_dup _); [discriminate|]. apply bind_ok in Eb. destruct Eb as (n & E & Eb).
    inversion Eb; subst. cbn. eapply build_node_WF; eauto. }
  apply bind_ok in H. destruct H as ([t1 c1] & E1 & H). pose proof (apply_op_WF _ _ _ _ _ _ E1 W0) as W1.
  apply bind_ok in H. destruct H as (t2 & E2 & H). pose proof (root_update_WF _ _ _ _ _ E2 W1) as W2.
  apply bind_ok in H. destruct H as (t3 & E3 & H). pose proof (bt_loop_WF _ _ _ _ E3 W2) as W3.
  eapply refresh_WF; eauto.
Qed.

(* ... and every date of it ends balanced *)
Definition bt_env (dates : list Z) (ad : list (nat * adata RNumI)) : env RNumI :=
  mkEnv (process_dates dates) (map (fun ka => (fst ka, process_adata dates (snd ka))) ad).

Theorem backtest_every_date dates prices kw ad intpos comm capital (sp : nspec RNumI (astate RNumI)) tr :
  backtest dates prices kw ad intpos comm capital sp = Ok tr ->
  exists t2, forall pre i post, seq 1 (length (process_dates dates) - 1) = pre ++ i :: post ->
    exists t0 ti, bt_loop (bt_env dates ad) pre t2 = Ok t0 /\ date_step (bt_env dates ad) i t0 = Ok ti /\
                  WF (fst ti) /\ (snd ti = false -> BS (fst ti)).
Proof.
  unfold backtest. intros H. apply bind_ok in H. destruct H as (t0 & Eb & H).
  assert (W0 : WF (fst t0)).
  { unfold build in Eb. destruct (has_dup _); [discriminate|]. apply bind_ok in Eb. destruct Eb as (n & E & Eb).
    inversion Eb; subst. cbn. eapply build_node_WF; eauto. }
  apply bind_ok in H. destruct H as ([t1 c1] & E1 & H). pose proof (apply_op_WF _ _ _ _ _ _ E1 W0) as W1.
  apply bind_ok in H. destruct H as (t2 & E2 & H). pose proof (root_update_WF _ _ _ _ _ E2 W1) as W2.
  apply bind_ok in H. destruct H as (t3 & E3 & H).
  exists t2. intros pre i post Hs. rewrite Hs in E3.
  destruct (bt_loop_every_date _ _ _ _ _ _ E3 W2) as (ta & ti & Ea & Ei & _ & Wi & Bi).
  exists ta, ti. split; [exact Ea|]. split; [exact Ei|]. split; assumption.
Qed.

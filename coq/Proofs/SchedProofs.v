(* SchedProofs.v — the calendar and counting schedulers of bt/algos.py fire exactly on the
   boundaries their parameters describe (model: Algos.compare_dates / run_period / run_algo). *)
From Coq Require Import ZArith Bool Lia List Arith.
Import ListNotations.
Require Import BT.Num BT.Base BT.Cal BT.Records BT.Engine BT.Ops BT.Algos BT.Proofs.CalProofs BT.Proofs.Tac.
Local Open Scope Z_scope.

(* the period a timestamp belongs to, per scheduler kind; weeks are ISO (Monday-based) weeks *)
Definition period_id (k : pkind) (ts : Z) : Z :=
  match k with
  | PDaily => day_id ts
  | PWeekly => isoweek_id ts
  | PMonthly => month_id ts
  | PQuarterly => quarter_id ts
  | PYearly => year_id ts
  end.

Lemma negb_eqb_true a b : negb (a =? b) = true <-> a <> b.
Proof. rewrite negb_true_iff, Z.eqb_neq. tauto. Qed.

Theorem compare_dates_spec (k : pkind) (a b : Z) :
  compare_dates k a b = true <-> period_id k a <> period_id k b.
Proof.
  destruct k; unfold compare_dates, period_id.
  - unfold day_id. apply negb_eqb_true.
  - rewrite orb_true_iff, !negb_eqb_true. unfold isoweek_id, week_of.
    pose proof (iso_pair_spec (day_of a) (day_of b)) as H. tauto.
  - rewrite orb_true_iff, !negb_eqb_true. pose proof (month_id_spec a b). tauto.
  - rewrite orb_true_iff, !negb_eqb_true. pose proof (quarter_id_spec a b). tauto.
  - unfold year_id. apply negb_eqb_true.
Qed.

(* ---------- RunPeriod.__call__ ---------- *)
Definition dnth (dates : list Z) (i : nat) : Z := nth i dates 0.

Theorem run_period_row0 k f eop l dates : run_period k f eop l dates 0 = false.
Proof. reflexivity. Qed.

Theorem run_period_first k f eop l dates : run_period k f eop l dates 1 = f.
Proof. reflexivity. Qed.

Theorem run_period_last k f eop l dates (i : nat) :
  (2 <= i)%nat -> i = (length dates - 1)%nat -> run_period k f eop l dates i = l.
Proof.
  intros H2 Hl. unfold run_period.
  destruct (Nat.eqb_spec i 0); [lia|]. destruct (Nat.eqb_spec i 1); [lia|].
  destruct (Nat.eqb_spec i (length dates - 1)); [reflexivity|lia].
Qed.

(* an interior date fires iff it opens a new period relative to the previous data date ... *)
Theorem run_period_interior_begin k f l dates (i : nat) :
  (2 <= i)%nat -> (i < length dates - 1)%nat ->
  (run_period k f false l dates i = true <-> period_id k (dnth dates i) <> period_id k (dnth dates (i - 1))).
Proof.
  intros H2 Hl. unfold run_period.
  destruct (Nat.eqb_spec i 0); [lia|]. destruct (Nat.eqb_spec i 1); [lia|].
  destruct (Nat.eqb_spec i (length dates - 1)); [lia|].
  apply compare_dates_spec.
Qed.

(* ... or, in end-of-period mode, iff the next data date lies in another period *)
Theorem run_period_interior_end k f l dates (i : nat) :
  (2 <= i)%nat -> (i < length dates - 1)%nat ->
  (run_period k f true l dates i = true <-> period_id k (dnth dates i) <> period_id k (dnth dates (S i))).
Proof.
  intros H2 Hl. unfold run_period.
  destruct (Nat.eqb_spec i 0); [lia|]. destruct (Nat.eqb_spec i 1); [lia|].
  destruct (Nat.eqb_spec i (length dates - 1)); [lia|].
  apply compare_dates_spec.
Qed.

(* the last date that opens a new period does not fire unless run_on_last_date (known finding K11):
   a witness inside the property's quantifier *)
Example run_period_last_date_refuted :
  exists dates i, (i = length dates - 1)%nat /\
    period_id PMonthly (dnth dates i) <> period_id PMonthly (dnth dates (i - 1)) /\
    run_period PMonthly true false false dates i = false.
Proof.
  (* synthetic row, 2019-01-30, 2019-01-31, 2019-02-01 *)
  exists [1548720000; 1548806400; 1548892800; 1548979200], 3%nat.
  split; [reflexivity|]. split; [vm_compute; discriminate | vm_compute; reflexivity].
Qed.

(* ---------- counting schedulers: one call ---------- *)
Section Counters.
Variable N : num.
Variable ps : option nat -> tree N (astate N) -> result (tree N (astate N)).
Variable e : env N.
Variable p : list nat.
Local Notation run := (run_algo ps e p).

Lemma run_once_step (b : bool) tr :
  run (ARunOnce N b) tr = Ok (ARunOnce N true, negb b, tr).
Proof. destruct b; reflexivity. Qed.

Lemma run_after_days_step (d : Z) tr :
  run (ARunAfterDays N d) tr =
  if 0 <? d then Ok (ARunAfterDays N (d - 1), false, tr) else Ok (ARunAfterDays N d, true, tr).
Proof. cbn. destruct (0 <? d); reflexivity. Qed.

(* a sequence of calls of one algo on arbitrary trees: final algo state and the results *)
Inductive calls : algo N -> list (tree N (astate N)) -> algo N -> list bool -> Prop :=
| calls_nil a : calls a [] a []
| calls_cons a tr a1 b tr' trs a2 bs :
    run a tr = Ok (a1, b, tr') -> calls a1 trs a2 bs -> calls a (tr :: trs) a2 (b :: bs).

(* RunOnce: True on the first call only *)
Theorem run_once_calls trs a' bs :
  calls (ARunOnce N false) trs a' bs ->
  bs = match trs with [] => [] | _ :: r => true :: repeat false (length r) end.
Proof.
  intros H. inversion H as [|? ? ? ? ? ? ? ? Hr Hc]; subst; [reflexivity|].
  rewrite run_once_step in Hr. inversion Hr; subst. f_equal.
  clear H Hr. revert a' bs0 Hc. induction trs0 as [|t0 r IH]; intros a' bs Hc.
  - inversion Hc; reflexivity.
  - inversion Hc as [|? ? ? ? ? ? ? ? Hr Hc']; subst. rewrite run_once_step in Hr. inversion Hr; subst.
    cbn. f_equal. eapply IH; eauto.
Qed.

(* RunAfterDays n: False for exactly the first n calls, True afterwards *)
Theorem run_after_days_calls (n : nat) trs a' bs :
  calls (ARunAfterDays N (Z.of_nat n)) trs a' bs ->
  bs = repeat false (Nat.min n (length trs)) ++ repeat true (length trs - n).
Proof.
  revert n a' bs. induction trs as [|t0 r IH]; intros n a' bs H.
  - inversion H; subst. rewrite Nat.min_0_r. reflexivity.
  - inversion H as [|? ? ? ? ? ? ? ? Hr Hc]; subst. rewrite run_after_days_step in Hr.
    destruct n as [|n].
    + cbn in Hr. inversion Hr; subst. pose proof (IH 0%nat _ _ Hc) as Hc'. cbn in *. rewrite Hc'.
      rewrite Nat.sub_0_r. reflexivity.
    + assert (Hp : (0 <? Z.of_nat (S n)) = true) by (apply Z.ltb_lt; lia). rewrite Hp in Hr.
      inversion Hr; subst.
      assert (Hc' : calls (ARunAfterDays N (Z.of_nat n)) r a' bs0).
      { replace (Z.of_nat n) with (Z.of_nat (S n) - 1) by lia. exact Hc. }
      apply IH in Hc'. cbn. rewrite Hc'. reflexivity.
Qed.
End Counters.

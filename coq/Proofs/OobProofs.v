(* OobProofs.v — C13: RunIfOutOfBounds is True exactly when some child named in the target weights deviates from its
   target by more than the tolerance (relative deviation), on a fresh tree; any number type. *)
From Coq Require Import List Bool Arith.
Import ListNotations.
Require Import BT.Num BT.Base BT.Records BT.Engine BT.Ops BT.Algos BT.Proofs.Tac.

Section Oob.
Variable N : num.
Variable ps : option nat -> tree N (astate N) -> result (tree N (astate N)).
Variable e : env N.
Variable p : list nat.
Local Notation tree := (tree N (astate N)).
Local Notation node := (node N (astate N)).

Definition deviates (tol : carrier N) (targets : list (nat * carrier N)) (kids : list node) (k : nat) : bool :=
  match lookup k targets, find_kid k kids with
  | Some w, Some c => nltb N tol (nabs N (ndiv N (nsub N (raw_weight c) w) w))
  | _, _ => false
  end.

Lemma read_weight_fresh (tr : tree) g kids k :
  snd tr = false -> get_strat p tr = Ok (g, kids) ->
  read_kid_weight ps p k tr = Ok (tr, match find_kid k kids with Some c => Some (raw_weight c) | None => None end).
Proof.
  intros Hf Hg. unfold read_kid_weight. rewrite Hg. cbn [bind].
  destruct (find_kid k kids) as [c|] eqn:Ef; [|reflexivity].
  unfold refresh. rewrite Hf. cbn [bind]. rewrite Hg. cbn [bind]. rewrite Ef. reflexivity.
Qed.

Lemma kid_ids_found (kids : list node) : Forall (fun k => find_kid k kids <> None) (kid_ids kids).
Proof.
  unfold kid_ids. induction kids as [|c ks IH]; cbn [map]; constructor.
  - cbn [find_kid]. rewrite Nat.eqb_refl. discriminate.
  - eapply Forall_impl; [|exact IH]. intros k Hk. cbn [find_kid]. destruct (Nat.eqb (node_id c) k); [discriminate|exact Hk].
Qed.

Theorem out_of_bounds_spec tol (tr : tree) g kids st targets :
  snd tr = false ->
  get_astate p tr = Ok (g, kids, st) ->
  t_weights (a_temp st) = Some targets -> t_cash (a_temp st) = None ->
  (forall k w, lookup k targets = Some w -> neqb N w (n0 N) && negb (t_wseries (a_temp st)) = false) ->
  run_algo ps e p (ARunIfOutOfBounds N tol) tr =
  Ok (ARunIfOutOfBounds N tol, existsb (deviates tol targets kids) (kid_ids kids), tr).
Proof.
  intros Hf Ha Hw Hc Hz. cbn [run_algo]. rewrite Ha. cbn [bind]. rewrite Hw.
  assert (Hg : get_strat p tr = Ok (g, kids)).
  { unfold get_astate in Ha. destruct (get_strat p tr) as [[g0 k0]|]; [|discriminate]. cbn [bind] in Ha. inversion Ha; subst. reflexivity. }
  match goal with |- bind (?F (kid_ids kids) tr) _ = _ =>
    assert (G : forall ids, Forall (fun k => find_kid k kids <> None) ids ->
                            F ids tr = Ok (existsb (deviates tol targets kids) ids, tr)) end.
  { induction ids as [|k ids IH]; intros HF; [reflexivity|].
    inversion HF as [|? ? Hk HFs]; subst. specialize (IH HFs).
    cbn [existsb]. unfold deviates at 1.
    destruct (lookup k targets) as [w|] eqn:El.
    - rewrite (read_weight_fresh tr g kids k Hf Hg). cbn [bind].
      destruct (find_kid k kids) as [c|] eqn:Ef; [|congruence].
      rewrite (Hz k w El).
      destruct (nltb N tol _) eqn:Ed; [reflexivity|]. cbn [orb]. exact IH.
    - cbn [orb]. exact IH. }
  rewrite (G _ (kid_ids_found kids)). cbn [bind].
  destruct (existsb _ _); [reflexivity|]. rewrite Hc. reflexivity.
Qed.

End Oob.

(* RunProofs.v — C13: Strategy.run clears temp and keeps perm before its stack runs (model: Algos.strat_run / set_temp). *)
From Coq Require Import List Bool Arith.
Import ListNotations.
Require Import BT.Num BT.Base BT.Records BT.Engine BT.Ops BT.Algos BT.Proofs.Tac BT.Proofs.PathLemmas.

Section Run.
Variable N : num.
Local Notation A := (astate N).
Local Notation tree := (tree N A).

(* clearing temp at the strategy addressed by p: only the temp component of that strategy's algo state changes *)
Theorem temp_reset_at (p : list nat) (tr : tree) g k l pp :
  get_node p (fst tr) = Some (NStrat g k l pp) ->
  exists tr1, set_temp p (empty_temp N) tr = Ok tr1 /\
              get_node p (fst tr1) = Some (NStrat (set_g_algo (set_a_temp (empty_temp N) (g_algo g)) g) k l pp) /\
              snd tr1 = snd tr.
Proof.
  intros H.
  destruct (at_path_strat_map N A (fun g0 => set_g_algo (set_a_temp (empty_temp N) (g_algo g0)) g0) (fun _ => eq_refl)
                              p None (fst tr) g k l pp H) as (n' & H1 & H2 & _).
  unfold set_temp, upd_astate, tree_at.
  change (fun (_ : option (pctx N)) (n : node N A) =>
            match n with
            | NStrat g0 k0 l0 pp0 => Ok (NStrat (set_g_algo (set_a_temp (empty_temp N) (g_algo g0)) g0) k0 l0 pp0, None, false)
            | NSec _ => Err EAttr
            end)
    with (strat_map N A (fun g0 => set_g_algo (set_a_temp (empty_temp N) (g_algo g0)) g0)).
  rewrite H1. cbn [bind]. eexists. split; [reflexivity|]. split; [exact H2|]. cbn. apply orb_false_r.
Qed.

(* what the stack of a run sees: empty temp; perm (the closed / rolled sets) and the stack itself untouched *)
Theorem run_starts_with_empty_temp_keeps_perm (st : A) :
  a_temp (set_a_temp (empty_temp N) st) = empty_temp N /\
  a_closed (set_a_temp (empty_temp N) st) = a_closed st /\ a_rolled (set_a_temp (empty_temp N) st) = a_rolled st /\
  a_has_closed (set_a_temp (empty_temp N) st) = a_has_closed st /\ a_has_rolled (set_a_temp (empty_temp N) st) = a_has_rolled st /\
  a_stack (set_a_temp (empty_temp N) st) = a_stack st.
Proof. repeat split. Qed.

End Run.

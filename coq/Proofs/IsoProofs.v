(* IsoProofs.v — C11 on the model: running again does nothing; what a session holds for one backtest depends only
   on the commands addressed to that backtest, not on the others nor on how they are interleaved. *)
From Coq Require Import List Bool Arith ZArith Lia.
Import ListNotations.
Require Import BT.Num BT.Base BT.Records BT.Engine BT.Ops BT.Algos BT.Session.

Section Iso.
Variable N : num.
Local Notation btobj := (btobj N).
Local Notation cmd := (cmd N).
Local Notation session := (session N).

Theorem run_twice (o : btobj) : bt_run_obj (bt_run_obj o) = bt_run_obj o.
Proof. unfold bt_run_obj. destruct (bo_has_run o) eqn:H; cbn; [rewrite H|]; reflexivity. Qed.

Theorem run_sets_flag (o : btobj) : bo_has_run (bt_run_obj o) = true.
Proof. unfold bt_run_obj. destruct (bo_has_run o) eqn:H; cbn; auto. Qed.

Theorem run_keeps_input (o : btobj) : bo_input (bt_run_obj o) = bo_input o.
Proof. unfold bt_run_obj. destruct (bo_has_run o); reflexivity. Qed.

(* a finished backtest asked to run again is unchanged *)
Theorem finished_run_is_noop (o : btobj) : bo_has_run o = true -> bt_run_obj o = o.
Proof. intros H. unfold bt_run_obj. rewrite H. reflexivity. Qed.

(* the result of a run is the pure function of the inputs it was constructed from *)
Theorem first_run_result (b : binput N) :
  bo_result (bt_run_obj (bt_new b)) = Some (run_input b).
Proof. reflexivity. Qed.

Lemma step_other (s : session) (c : cmd) i : cmd_id c <> i -> step s c i = s i.
Proof.
  intros H. destruct c as [j b|j]; cbn in *.
  - unfold s_set. destruct (Nat.eqb_spec i j); [congruence|reflexivity].
  - destruct (s j); [|reflexivity]. unfold s_set. destruct (Nat.eqb_spec i j); [congruence|reflexivity].
Qed.

Lemma step_same (s1 s2 : session) (c : cmd) i : s1 i = s2 i -> cmd_id c = i -> step s1 c i = step s2 c i.
Proof.
  intros H E. destruct c as [j b|j]; cbn in *; subst j.
  - unfold s_set. rewrite Nat.eqb_refl. reflexivity.
  - rewrite H. destruct (s2 i) eqn:E2; [|congruence]. unfold s_set. rewrite Nat.eqb_refl. reflexivity.
Qed.

Definition touches (i : nat) (c : cmd) : bool := Nat.eqb (cmd_id c) i.

(* what the session holds for backtest i after any script = what it holds after only the commands addressed to i *)
Theorem session_projection (cs : list cmd) (s1 s2 : session) i :
  s1 i = s2 i -> exec cs s1 i = exec (filter (touches i) cs) s2 i.
Proof.
  revert s1 s2. induction cs as [|c cs IH]; intros s1 s2 H; cbn; [exact H|].
  unfold touches at 1. destruct (Nat.eqb_spec (cmd_id c) i) as [E|E]; cbn.
  - apply IH. apply step_same; assumption.
  - apply IH. rewrite step_other; assumption.
Qed.

(* hence: any two scripts with the same commands for i, however interleaved with other backtests, agree on i *)
Theorem session_independent (cs1 cs2 : list cmd) i :
  filter (touches i) cs1 = filter (touches i) cs2 ->
  exec cs1 (@s_empty N) i = exec cs2 (@s_empty N) i.
Proof.
  intros H. rewrite (session_projection cs1 (@s_empty N) (@s_empty N) i eq_refl).
  rewrite (session_projection cs2 (@s_empty N) (@s_empty N) i eq_refl). rewrite H. reflexivity.
Qed.

(* build once, run any positive number of times, with anything else in between: the stored result is the pure
   function of that backtest's own inputs *)
Theorem session_result (cs : list cmd) i b k :
  filter (touches i) cs = CBuild i b :: repeat (CRun i) (S k) ->
  exec cs (@s_empty N) i = Some {| bo_input := b; bo_has_run := true; bo_result := Some (run_input b) |}.
Proof.
  intros H. rewrite (session_projection cs (@s_empty N) (@s_empty N) i eq_refl), H.
  assert (S1 : forall (s : session) o, s_set s i o i = Some o).
  { intros s o. unfold s_set. rewrite Nat.eqb_refl. reflexivity. }
  assert (G : forall k (s : session), s i = Some {| bo_input := b; bo_has_run := true; bo_result := Some (run_input b) |} ->
              exec (repeat (CRun i) k) s i = Some {| bo_input := b; bo_has_run := true; bo_result := Some (run_input b) |}).
  { clear - S1. induction k as [|k IH]; intros s Hs; cbn; [exact Hs|]. apply IH. rewrite Hs. apply S1. }
  change (exec (CBuild i b :: repeat (CRun i) (S k)) (@s_empty N))
    with (exec (repeat (CRun i) k) (step (step (@s_empty N) (CBuild i b)) (CRun i))).
  apply G. cbn [step]. rewrite S1. rewrite S1. reflexivity.
Qed.

End Iso.

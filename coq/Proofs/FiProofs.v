(* FiProofs.v — C17: notional value per security class, carry of coupon-paying securities. *)
From Coq Require Import List Bool Arith Reals Lra Lia.
Import ListNotations.
Require Import BT.Num BT.Base BT.Records BT.Engine BT.Proofs.Tac BT.Proofs.Frames BT.Proofs.SecInv.
Local Open Scope R_scope.

(* after an update, a security's notional value is: market value (plain Security), position
   (FixedIncomeSecurity, CouponPayingSecurity), zero (the two hedge classes) *)
Theorem sec_update_notional date inow (s s' : secR) :
  sec_update date inow s = Ok s' ->
  match s_class s with
  | CSec => sec_early date s = false -> s_notl s' = s_value s'
  | CFixedIncome | CCoupon => s_notl s' = s_pos s'
  | CHedge | CCouponHedge => s_notl s' = 0
  end.
Proof.
  intros H. unfold sec_update in H.
  destruct (class_coupon (s_class s) && _); [discriminate|].
  apply bind_ok in H. destruct H as (y & E & H0).
  assert (Hcl : s_class y = s_class s) by (eapply sec_update_base_s_class; eauto).
  unfold sec_tail in H0. rewrite Hcl in H0.
  destruct (s_class s) eqn:Ec; cbn [class_fi_notl class_coupon class_hedge] in H0.
  - intros He. cbn in H0. inversion H0; subst.
    unfold sec_update_base in E. rewrite He in E.
    apply bind_ok in E. destruct E as (x & E0 & E1). inversion E1; subst.
    destruct (sec_mark_spec _ _ _ E0) as (v & _ & Hv & Hn & _). autorewrite with frames. congruence.
  - cbn in H0. inversion H0; subst. unfold sec_set_notl_pos. reflexivity.
  - apply bind_ok in H0. destruct H0 as (x & E0 & E1). inversion E1; subst.
    rewrite (sec_update_coupon_s_notl _ _ E0). rewrite (sec_update_coupon_s_pos _ _ E0). reflexivity.
  - cbn in H0. inversion H0; subst. reflexivity.
  - apply bind_ok in H0. destruct H0 as (x & E0 & E1). inversion E1; subst. reflexivity.
Qed.

(* carry: a coupon-paying security parks position x coupon less the holding cost on the long or
   short side (cost x |position|) for its parent to sweep on the next date *)
Theorem coupon_carry inow (s s' : secR) cps c :
  s_coupons s = Some cps -> cell_at inow cps = Some c ->
  sec_update_coupon inow s = Ok s' ->
  s_coupon s' = s_pos s * c /\
  s_capital s' = s_coupon s' - s_holding_cost s' /\
  (0 < s_pos s -> forall cl k, s_cost_long s = Some cl -> cell_at inow cl = Some k -> s_holding_cost s' = s_pos s * k) /\
  (s_pos s < 0 -> forall cs k, s_cost_short s = Some cs -> cell_at inow cs = Some k -> s_holding_cost s' = - s_pos s * k) /\
  (s_pos s = 0 -> s_holding_cost s' = 0) /\
  (0 < s_pos s -> s_cost_long s = None -> s_holding_cost s' = 0) /\
  (s_pos s < 0 -> s_cost_short s = None -> s_holding_cost s' = 0).
Proof.
  intros Hc Hcell H. unfold sec_update_coupon in H. rewrite Hc, Hcell in H. cbn [bind] in H.
  apply bind_ok in H. destruct H as (hc & E & H0). inversion H0; subst; clear H0.
  unfold sec_set_carry. cbn. rops. unfold RNum.mul, RNum.sub.
  split; [reflexivity|]. split; [reflexivity|].
  unfold sec_holding_cost in E. rops.
  repeat split; intros.
  - assert (B : RNum.ltb RNum.zero (s_pos s) = true) by (apply R_ltb_true; unfold RNum.zero; lra).
    rewrite B in E. rewrite H0, H1 in E. inversion E; subst. reflexivity.
  - assert (B : RNum.ltb RNum.zero (s_pos s) = false) by (apply R_ltb_false; unfold RNum.zero; lra).
    assert (B2 : RNum.ltb (s_pos s) RNum.zero = true) by (apply R_ltb_true; unfold RNum.zero; lra).
    rewrite B, B2 in E. rewrite H0, H1 in E. inversion E; subst. unfold RNum.mul, RNum.opp. reflexivity.
  - assert (B : RNum.ltb RNum.zero (s_pos s) = false) by (apply R_ltb_false; unfold RNum.zero; lra).
    assert (B2 : RNum.ltb (s_pos s) RNum.zero = false) by (apply R_ltb_false; unfold RNum.zero; lra).
    rewrite B, B2 in E. inversion E; subst. reflexivity.
  - assert (B : RNum.ltb RNum.zero (s_pos s) = true) by (apply R_ltb_true; unfold RNum.zero; lra).
    rewrite B in E. rewrite H0 in E. inversion E; subst. reflexivity.
  - assert (B : RNum.ltb RNum.zero (s_pos s) = false) by (apply R_ltb_false; unfold RNum.zero; lra).
    assert (B2 : RNum.ltb (s_pos s) RNum.zero = true) by (apply R_ltb_true; unfold RNum.zero; lra).
    rewrite B, B2 in E. rewrite H0 in E. inversion E; subst. reflexivity.
Qed.

(* a NaN coupon with an open position is an error, with a flat one the coupon is zero *)
Theorem coupon_nan inow (s : secR) cps :
  s_coupons s = Some cps -> cell_at inow cps = None -> s_pos s <> 0 ->
  sec_update_coupon inow s = Err ENanCouponOpen.
Proof.
  intros Hc Hcell Hp. unfold sec_update_coupon. rewrite Hc, Hcell. rops.
  unfold RNum.is_zero. destruct (Req_EM_T (s_pos s) 0); [contradiction|reflexivity].
Qed.

(* LookaheadProofs.v — C04: the data reads of the selection / statistic algos are confined to rows
   dated now or earlier: their results are functions of the data prefix. *)
From Coq Require Import List Bool Arith ZArith Lia.
Import ListNotations.
Require Import BT.Num BT.Base BT.Records BT.Engine BT.Ops BT.Algos BT.Proofs.Tac.

Section LA.
Variable N : num.
Notation strat := (strat N (astate N)).
Notation cell := (cell N).

(* two universes carry the same columns and agree on every row up to i *)
Definition cols_agree_upto (i : nat) (c1 c2 : list (nat * list cell)) : Prop :=
  forall k, match lookup k c1, lookup k c2 with
            | Some a, Some b => forall r, r <= i -> nth r a None = nth r b None
            | None, None => True
            | _, _ => False
            end.

Lemma univ_cell_prefix (g1 g2 : strat) i r k :
  cols_agree_upto i (univ_cols g1) (univ_cols g2) -> r <= i -> univ_cell g1 r k = univ_cell g2 r k.
Proof.
  intros H Hr. unfold univ_cell. specialize (H k).
  destruct (lookup k (univ_cols g1)), (lookup k (univ_cols g2)); try contradiction; auto.
  rewrite (H r Hr). reflexivity.
Qed.

(* the tradability filter at row i only looks at row i of the universe *)
Theorem tradable_prefix (g1 g2 : strat) i neg names :
  cols_agree_upto i (univ_cols g1) (univ_cols g2) -> tradable g1 i neg names = tradable g2 i neg names.
Proof.
  intros H. induction names as [|k r IH]; cbn; [reflexivity|].
  rewrite (univ_cell_prefix g1 g2 i i k H (le_n i)). destruct (univ_cell g2 i k); [|reflexivity].
  rewrite IH. reflexivity.
Qed.

(* lookback windows never reach past the current row *)
Theorem window_rows_le (e : env N) lo hi upto r : In r (window_rows e lo hi upto) -> r <= upto.
Proof.
  unfold window_rows. intros H. apply filter_In in H. destruct H as [H _]. apply in_seq in H. lia.
Qed.

(* the per-column data count of SelectHasData over a window is a function of the prefix *)
Theorem window_count_prefix (e : env N) lo hi i (c1 c2 : list cell) :
  (forall r, r <= i -> nth r c1 None = nth r c2 None) ->
  length (filter (fun rr => present_cell (nth rr c1 None)) (window_rows e lo hi i)) =
  length (filter (fun rr => present_cell (nth rr c2 None)) (window_rows e lo hi i)).
Proof.
  intros H. f_equal. apply filter_ext_in. intros r Hr. apply window_rows_le in Hr. rewrite (H r Hr). reflexivity.
Qed.

End LA.

Arguments cols_agree_upto {N} i c1 c2.

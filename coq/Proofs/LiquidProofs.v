(* LiquidProofs.v — C16: the liquidation of a flat market-value strategy (all children securities) closes every position
   that has a value, whatever the commission function and the spread; positions whose value is exactly zero are left
   alone (known finding K5). *)
From Coq Require Import List Bool Arith Reals Lra.
Import ListNotations.
Require Import BT.Num BT.Base BT.Records BT.Engine BT.Ops BT.Proofs.Tac BT.Proofs.Frames BT.Proofs.SecInv BT.Proofs.TradeProofs.
Local Open Scope R_scope.

Section Liquid.
Variable A : Type.
Notation nodeR := (node RNumI A).
Notation stratR := (strat RNumI A).

Definition closed_or_worthless (k k' : nodeR) : Prop :=
  match k, k' with
  | NSec s, NSec s' => (s_value s <> 0 -> s_pos s' = 0) /\ (s_value s = 0 -> s' = s)
  | _, _ => False
  end.

Theorem flatten_flat_closes (ks : list nodeR) : forall (g : stratR) ks' g',
  Forall (fun k => exists s, k = NSec s /\ current (g_now g) s) ks ->
  flatten_kids false ks g = Ok (ks', g') ->
  Forall2 closed_or_worthless ks ks'.
Proof.
  induction ks as [|k ks IH]; intros g ks' g' HF H.
  - inversion H; subst. constructor.
  - inversion HF as [|? ? [s [Ek Hc]] HFs]; subst. cbn [flatten_kids] in H.
    apply bind_ok in H. destruct H as ([c1 oa1] & E & H). apply bind_ok in H. destruct H as ([ks1 g2] & E0 & H).
    inversion H; subst; clear H.
    assert (Hnow : g_now (apply_adj oa1 g) = g_now g) by apply apply_adj_g_now.
    constructor.
    + cbn [raw_value] in E. rops.
      match type of E with (if ?c then _ else _) = _ => destruct c eqn:En end.
      * apply negb_true_iff in En. apply R_eqb_false in En. unfold RNum.zero in En.
        cbn [node_allocate] in E. apply bind_ok in E. destruct E as ([s1 oa2] & Ea & E). inversion E; subst. cbn.
        split; [intros _|intros C; contradiction].
        eapply (alloc_closeout (g_now g) (g_comm g) false s s1 _ (nopp RNumI (s_value s))); eauto.
        -- rops. unfold RNum.opp. lra.
        -- rops. unfold RNum.opp. lra.
      * apply negb_false_iff in En. apply R_eqb_true in En. unfold RNum.zero in En.
        inversion E; subst. cbn. split; [intros C; contradiction | reflexivity].
    + eapply IH; [|exact E0]. rewrite Hnow. exact HFs.
Qed.

End Liquid.

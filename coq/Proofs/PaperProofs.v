(* PaperProofs.v — C09: the shadow ("paper") copy of a sub-strategy is the stand-alone backtest of the same
   definition: same initial state, same step function; the parent only copies its price. *)
From Coq Require Import List Bool Arith ZArith Lia.
Import ListNotations.
Require Import BT.Num BT.Base BT.Records BT.Engine BT.Ops BT.Algos BT.Proofs.Tac.

Section Paper.
Variable N : num.
Notation A := (astate N).
Notation tree := (tree N A).

(* the paper copy built for a sub-strategy is exactly the tree a stand-alone Backtest builds for the same
   definition, after strategy.adjust(1e6): same children, same data, same settings, marked stale *)
Theorem paper_is_standalone_build d ip comm pfi id fi (a : A) kids g ns lz p st :
  build_node d ip comm false pfi (SpStrat id fi a kids) = Ok (NStrat g ns lz (Some (p, st))) ->
  exists g0, build_node d ip comm true false (SpStrat id fi a kids) = Ok (NStrat g0 ns lz None) /\
             p = NStrat (g_adjust (npaper N) (n0 N) true g0) ns lz None /\ st = true.
Proof.
  cbn [build_node]. intros H.
  destruct (fi && negb pfi && negb false) eqn:E1; [discriminate|].
  destruct (has_dup (map (@spec_id N A) kids)); [discriminate|].
  replace (fi && negb false && negb true) with false by (destruct fi; reflexivity).
  match type of H with bind ?X _ = _ => destruct X as [[ns' lz']|] eqn:Eg; [|discriminate] end.
  cbn [bind] in H. inversion H; subst; clear H.
  cbn [bind negb]. eexists. split; [reflexivity|]. split; reflexivity.
Qed.

(* one step of the paper copy is one step of Backtest.run's loop on it (update, run the stack, update) followed
   by the refresh a read of its price performs — provided the copy is not flagged bankrupt by the first update *)
Theorem paper_step_is_backtest_step (e : env N) (l i : nat) (p p1 : tree) :
  root_update (bt_paper_step e l) (Some i) p = Ok p1 ->
  (match fst p1 with NStrat g _ _ _ => g_bankrupt g = false | NSec _ => False end) ->
  bt_paper_step e (S l) (Some i) p =
  bind (bind (strat_run (bt_paper_step e l) depth_fuel e [] p1) (fun p2 => root_update (bt_paper_step e l) (Some i) p2))
       (fun p3 => refresh (bt_paper_step e l) p3).
Proof.
  intros H1 Hb. unfold bt_paper_step at 1. cbn [paper_step_l]. fold (bt_paper_step e l).
  rewrite H1. cbn [bind]. destruct (fst p1) as [s|g k lz pp]; [contradiction|]. rewrite Hb.
  destruct (strat_run _ _ _ _ p1); reflexivity.
Qed.

(* ... and once the first update of a date leaves the copy flagged bankrupt, its stack is not run and it is not updated
   again on that date — exactly what Backtest.run does with a bankrupt strategy *)
Theorem paper_step_when_bankrupt (e : env N) (l i : nat) (p p1 : tree) :
  root_update (bt_paper_step e l) (Some i) p = Ok p1 ->
  (match fst p1 with NStrat g _ _ _ => g_bankrupt g = true | NSec _ => False end) ->
  bt_paper_step e (S l) (Some i) p = refresh (bt_paper_step e l) p1.
Proof.
  intros H1 Hb. unfold bt_paper_step at 1. cbn [paper_step_l]. fold (bt_paper_step e l).
  rewrite H1. cbn [bind]. destruct (fst p1) as [s|g k lz pp]; [contradiction|]. rewrite Hb. reflexivity.
Qed.

End Paper.

(* ---- what the parent sees ---- *)
Section PaperPrice.
Variable N : num.
Variable A : Type.
Variable ps : option nat -> tree N A -> result (tree N A).

(* a sub-strategy's price is the price of its paper copy, on every update (and its price row of that date too) *)
Theorem child_price_is_paper_price date inow np (g g' : strat N A) kids paper paper' :
  strat_finish ps date inow np g kids paper = Ok (g', paper') ->
  g_paper_trade g = true ->
  exists p', paper' = Some p' /\ g_price g' = root_price p' /\
             ((inow < length (hg_prices g))%nat -> nth inow (hg_prices g') (n0 N) = root_price p').
Proof.
  unfold strat_finish. intros H Hp. apply bind_ok in H. destruct H as (gu & Eu & H).
  assert (Hpu : g_paper_trade (strat_set_rows inow gu) = true /\ hg_prices (strat_set_rows inow gu) = hg_prices g).
  { destruct (has_strat_kids kids); [destruct date; [|discriminate]; inversion Eu; destruct g; cbn in *; auto | inversion Eu; subst gu; destruct g; cbn in *; auto]. }
  destruct Hpu as [Hpt Hpr]. rewrite Hpt in H. destruct paper as [p|]; [|discriminate].
  apply bind_ok in H. destruct H as (p1 & E1 & H). inversion H; subst. exists p1. split; [reflexivity|].
  unfold strat_set_price. split.
  - destruct (strat_set_rows inow gu); reflexivity.
  - intros Hl. assert (G : hg_prices (set_hg_prices (upd inow (root_price p1) (hg_prices (strat_set_rows inow gu)))
                                  (set_g_price (root_price p1) (strat_set_rows inow gu)))
                           = upd inow (root_price p1) (hg_prices g)).
    { rewrite <- Hpr. destruct (strat_set_rows inow gu); reflexivity. }
    rewrite G. clear - Hl. revert inow Hl. induction (hg_prices g) as [|x l IH]; intros i Hl; [cbn in Hl; lia|].
    destruct i; cbn; [reflexivity|]. apply IH. cbn in Hl. lia.
Qed.

End PaperPrice.

(* ---- every date: the copy's trajectory is Backtest.run's loop ---- *)
Section PaperRun.
Variable N : num.
Notation A := (astate N).
Notation tree := (tree N A).

(* the body of Backtest.run's loop for one date, with the paper steps of level l for nested copies *)
Definition loop_body (e : env N) (l i : nat) (tr : tree) : result tree :=
  let ps := bt_paper_step e l in
  tr <- root_update ps (Some i) tr ;;
  match fst tr with
  | NStrat g _ _ _ => if g_bankrupt g then Ok tr else (tr <- strat_run ps depth_fuel e [] tr ;; root_update ps (Some i) tr)
  | NSec _ => Err EOther
  end.

Lemma root_update_is_strat ps date (tr tr' : tree) : root_update ps date tr = Ok tr' -> exists g k lz pp, fst tr' = NStrat g k lz pp.
Proof.
  unfold root_update. destruct (fst tr) as [s|g kids lz paper]; [discriminate|]. intros H.
  apply bind_ok in H. destruct H as (inow & _ & H). apply bind_ok in H. destruct H as ([[[np g1] k1] [[v n] b]] & _ & H).
  destruct (_ && _) in H.
  - apply bind_ok in H. destruct H as ([k2 g2] & _ & H). apply bind_ok in H. destruct H as (g3 & _ & H).
    destruct (all_skipped k2).
    + apply bind_ok in H. destruct H as ([g4 p4] & _ & H). inversion H; subst. cbn. eauto.
    + apply bind_ok in H. destruct H as ([[[np5 g5] k5] [[v5 n5] b5]] & _ & H). apply bind_ok in H. destruct H as (g6 & _ & H).
      apply bind_ok in H. destruct H as ([g7 p7] & _ & H). apply bind_ok in H. destruct H as ([g8 p8] & _ & H).
      inversion H; subst. cbn. eauto.
  - apply bind_ok in H. destruct H as (g3 & _ & H). apply bind_ok in H. destruct H as ([g4 p4] & _ & H).
    inversion H; subst. cbn. eauto.
Qed.

(* one date of the copy = one date of the loop, then the refresh a price read performs *)
Theorem paper_step_is_loop_body (e : env N) (l i : nat) (p : tree) :
  bt_paper_step e (S l) (Some i) p = bind (loop_body e l i p) (refresh (bt_paper_step e l)).
Proof.
  unfold bt_paper_step at 1. cbn [paper_step_l]. fold (bt_paper_step e l). unfold loop_body.
  destruct (root_update (bt_paper_step e l) (Some i) p) as [p1|er] eqn:E1; cbn [bind]; [|reflexivity].
  destruct (root_update_is_strat _ _ _ _ E1) as (g & k & lz & pp & Ef). rewrite Ef.
  destruct (g_bankrupt g); [reflexivity|].
  destruct (strat_run _ _ _ _ p1); cbn [bind]; reflexivity.
Qed.

(* all dates: fold of the copy's step = fold of (loop body; refresh) *)
Definition fold_dates (f : nat -> tree -> result tree) (rows : list nat) (p : tree) : result tree :=
  fold_left (fun rp i => bind rp (f i)) rows (Ok p).

Theorem paper_run_is_backtest_loop (e : env N) (l : nat) (rows : list nat) (p : tree) :
  fold_dates (fun i => bt_paper_step e (S l) (Some i)) rows p =
  fold_dates (fun i q => bind (loop_body e l i q) (refresh (bt_paper_step e l))) rows p.
Proof.
  unfold fold_dates. generalize (Ok p : result tree). induction rows as [|i rows IH]; intros r; [reflexivity|].
  cbn [fold_left]. rewrite <- IH. f_equal. destruct r; cbn [bind]; [apply paper_step_is_loop_body | reflexivity].
Qed.

Lemma fold_err (f : nat -> tree -> result tree) (rows : list nat) er :
  fold_left (fun rp i => bind rp (f i)) rows (Err er) = Err er.
Proof. induction rows as [|j rows IHr]; [reflexivity|]. cbn [fold_left bind]. exact IHr. Qed.

Lemma fold_dates_bind (f : nat -> tree -> result tree) (rows : list nat) (r : result tree) :
  fold_left (fun rp i => bind rp (f i)) rows r = bind r (fun p => fold_dates f rows p).
Proof. destruct r as [p|er]; cbn [bind]; [reflexivity | apply fold_err]. Qed.

Lemma fold_dates_cons (f : nat -> tree -> result tree) i rows p :
  fold_dates f (i :: rows) p = bind (f i p) (fold_dates f rows).
Proof. unfold fold_dates at 1. cbn [fold_left bind]. apply fold_dates_bind. Qed.

(* Backtest.run's own loop is the same body, at its own level, without the refresh (which does nothing on a fresh tree) *)
Theorem bt_loop_is_loop_body (e : env N) (rows : list nat) (tr : tree) :
  bt_loop e rows tr = fold_dates (loop_body e bt_level) rows tr.
Proof.
  revert tr. induction rows as [|i rows IH]; intros tr; [reflexivity|].
  rewrite fold_dates_cons. cbn [bt_loop]. unfold loop_body.
  destruct (root_update (bt_paper_step e bt_level) (Some i) tr) as [p1|er]; cbn [bind]; [|reflexivity].
  destruct (fst p1) as [s|g k lz pp]; cbn [bind]; [reflexivity|].
  destruct (g_bankrupt g); cbn [bind]; [apply IH|].
  destruct (strat_run _ _ _ _ p1) as [p2|er]; cbn [bind]; [|reflexivity].
  destruct (root_update _ _ p2) as [p3|er]; cbn [bind]; [apply IH|reflexivity].
Qed.

Lemma refresh_fresh ps (tr : tree) : snd tr = false -> refresh ps tr = Ok tr.
Proof. intros H. unfold refresh. rewrite H. reflexivity. Qed.

End PaperRun.

(* PaperProofs.v — C09: the shadow ("paper") copy of a sub-strategy is the stand-alone backtest of the same
   definition: same initial state, same step function; the parent only copies its price. *)
From Coq Require Import List Bool Arith ZArith.
Import ListNotations.
Require Import BT.Num BT.Base BT.Records BT.Engine BT.Ops BT.Algos BT.Proofs.Tac.

Section Paper.
Variable N : num.
Notation A := (astate N).
Notation tree := (tree N A).

(* the paper copy built for a sub-strategy is exactly the tree a stand-alone Backtest builds for the same
   definition, after strategy.adjust(1e6): same children, same data, same settings, marked stale *)
Theorem paper_is_standalone_build d ip comm pfi id fi (a : A) kids g ns lz p st :
  build_node d ip comm false pfi (SpStrat id fi a kids) = Ok (NStrat g ns lz (Some (p, st))) ->
  exists g0, build_node d ip comm true false (SpStrat id fi a kids) = Ok (NStrat g0 ns lz None) /\
             p = NStrat (g_adjust (npaper N) (n0 N) true g0) ns lz None /\ st = true.
Proof.
  cbn [build_node]. intros H.
  destruct (fi && negb pfi && negb false) eqn:E1; [discriminate|].
  destruct (has_dup (map (@spec_id N A) kids)); [discriminate|].
  replace (fi && negb false && negb true) with false by (destruct fi; reflexivity).
  match type of H with bind ?X _ = _ => destruct X as [[ns' lz']|] eqn:Eg; [|discriminate] end.
  cbn [bind] in H. inversion H; subst; clear H.
  cbn [bind negb]. eexists. split; [reflexivity|]. split; reflexivity.
Qed.

(* one step of the paper copy is one step of Backtest.run's loop on it (update, run the stack, update) followed
   by the refresh a read of its price performs — provided the copy is not flagged bankrupt by the first update *)
Theorem paper_step_is_backtest_step (e : env N) (l i : nat) (p p1 : tree) :
  root_update (bt_paper_step e l) (Some i) p = Ok p1 ->
  (match fst p1 with NStrat g _ _ _ => g_bankrupt g = false | NSec _ => False end) ->
  bt_paper_step e (S l) (Some i) p =
  bind (bind (strat_run (bt_paper_step e l) depth_fuel e [] p1) (fun p2 => root_update (bt_paper_step e l) (Some i) p2))
       (fun p3 => refresh (bt_paper_step e l) p3).
Proof.
  intros H1 Hb. unfold bt_paper_step at 1. cbn [paper_step_l]. fold (bt_paper_step e l).
  rewrite H1. cbn [bind]. destruct (strat_run _ _ _ _ p1); reflexivity.
Qed.

End Paper.

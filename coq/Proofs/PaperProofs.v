(* PaperProofs.v — C09: the shadow ("paper") copy of a sub-strategy is the stand-alone backtest of the same
   definition: same initial state, same step function; the parent only copies its price. *)
From Coq Require Import List Bool Arith ZArith Lia.
Import ListNotations.
Require Import BT.Num BT.Base BT.Records BT.Engine BT.Ops BT.Algos BT.Proofs.Tac.

Section Paper.
Variable N : num.
Notation A := (astate N).
Notation tree := (tree N A).

(* the paper copy built for a sub-strategy is exactly the tree a stand-alone Backtest builds for the same
   definition, after strategy.adjust(1e6): same children, same data, same settings, marked stale *)
Theorem paper_is_standalone_build d ip comm pfi id fi (a : A) kids g ns lz p st :
  build_node d ip comm false pfi (SpStrat id fi a kids) = Ok (NStrat g ns lz (Some (p, st))) ->
  exists g0, build_node d ip comm true false (SpStrat id fi a kids) = Ok (NStrat g0 ns lz None) /\
             p = NStrat (g_adjust (npaper N) (n0 N) true g0) ns lz None /\ st = true.
Proof.
  cbn [build_node]. intros H.
  destruct (fi && negb pfi && negb false) eqn:E1; [discriminate|].
  destruct (has_dup (map (@spec_id N A) kids)); [discriminate|].
  replace (fi && negb false && negb true) with false by (destruct fi; reflexivity).
  match type of H with bind ?X _ = _ => destruct X as [[ns' lz']|] eqn:Eg; [|discriminate] end.
  cbn [bind] in H. inversion H; subst; clear H.
  cbn [bind negb]. eexists. split; [reflexivity|]. split; reflexivity.
Qed.

(* one step of the paper copy is one step of Backtest.run's loop on it (update, run the stack, update) followed
   by the refresh a read of its price performs — provided the copy is not flagged bankrupt by the first update *)
Theorem paper_step_is_backtest_step (e : env N) (l i : nat) (p p1 : tree) :
  root_update (bt_paper_step e l) (Some i) p = Ok p1 ->
  (match fst p1 with NStrat g _ _ _ => g_bankrupt g = false | NSec _ => False end) ->
  bt_paper_step e (S l) (Some i) p =
  bind (bind (strat_run (bt_paper_step e l) depth_fuel e [] p1) (fun p2 => root_update (bt_paper_step e l) (Some i) p2))
       (fun p3 => refresh (bt_paper_step e l) p3).
Proof.
  intros H1 Hb. unfold bt_paper_step at 1. cbn [paper_step_l]. fold (bt_paper_step e l).
  rewrite H1. cbn [bind]. destruct (fst p1) as [s|g k lz pp]; [contradiction|]. rewrite Hb.
  destruct (strat_run _ _ _ _ p1); reflexivity.
Qed.

(* ... and once the first update of a date leaves the copy flagged bankrupt, its stack is not run and it is not updated
   again on that date — exactly what Backtest.run does with a bankrupt strategy *)
Theorem paper_step_when_bankrupt (e : env N) (l i : nat) (p p1 : tree) :
  root_update (bt_paper_step e l) (Some i) p = Ok p1 ->
  (match fst p1 with NStrat g _ _ _ => g_bankrupt g = true | NSec _ => False end) ->
  bt_paper_step e (S l) (Some i) p = refresh (bt_paper_step e l) p1.
Proof.
  intros H1 Hb. unfold bt_paper_step at 1. cbn [paper_step_l]. fold (bt_paper_step e l).
  rewrite H1. cbn [bind]. destruct (fst p1) as [s|g k lz pp]; [contradiction|]. rewrite Hb. reflexivity.
Qed.

End Paper.

(* ---- what the parent sees ---- *)
Section PaperPrice.
Variable N : num.
Variable A : Type.
Variable ps : option nat -> tree N A -> result (tree N A).

(* a sub-strategy's price is the price of its paper copy, on every update (and its price row of that date too) *)
Theorem child_price_is_paper_price date inow np (g g' : strat N A) kids paper paper' :
  strat_finish ps date inow np g kids paper = Ok (g', paper') ->
  g_paper_trade g = true ->
  exists p', paper' = Some p' /\ g_price g' = root_price p' /\
             ((inow < length (hg_prices g))%nat -> nth inow (hg_prices g') (n0 N) = root_price p').
Proof.
  unfold strat_finish. intros H Hp. apply bind_ok in H. destruct H as (gu & Eu & H).
  assert (Hpu : g_paper_trade (strat_set_rows inow gu) = true /\ hg_prices (strat_set_rows inow gu) = hg_prices g).
  { destruct (has_strat_kids kids); [destruct date; [|discriminate]; inversion Eu; destruct g; cbn in *; auto | inversion Eu; subst gu; destruct g; cbn in *; auto]. }
  destruct Hpu as [Hpt Hpr]. rewrite Hpt in H. destruct paper as [p|]; [|discriminate].
  apply bind_ok in H. destruct H as (p1 & E1 & H). inversion H; subst. exists p1. split; [reflexivity|].
  unfold strat_set_price. split.
  - destruct (strat_set_rows inow gu); reflexivity.
  - intros Hl. assert (G : hg_prices (set_hg_prices (upd inow (root_price p1) (hg_prices (strat_set_rows inow gu)))
                                  (set_g_price (root_price p1) (strat_set_rows inow gu)))
                           = upd inow (root_price p1) (hg_prices g)).
    { rewrite <- Hpr. destruct (strat_set_rows inow gu); reflexivity. }
    rewrite G. clear - Hl. revert inow Hl. induction (hg_prices g) as [|x l IH]; intros i Hl; [cbn in Hl; lia|].
    destruct i; cbn; [reflexivity|]. apply IH. cbn in Hl. lia.
Qed.

End PaperPrice.

(* TradeProofs.v — what one executed trade books (C07), and what allocating cash to a security
   does in the cases that need no search (C05); real-number instance. *)
From Coq Require Import List Bool Arith Reals Lra Lia.
Import ListNotations.
Require Import BT.Num BT.Base BT.Records BT.Engine BT.Proofs.Tac BT.Proofs.Frames BT.Proofs.SecInv.
Local Open Scope R_scope.

Definition trade_spread (s : secR) (q : R) (price : option R) (p : R) : option R :=
  match price with
  | None => match s_bidoffer s with Some bo => Some (Rabs q * / 2 * bo * s_mult s) | None => None end
  | Some cp => Some (q * (cp - p) * s_mult s)
  end.
Definition trade_fee (comm : R -> R -> R) (s : secR) (q : R) (price : option R) (p : R) : R :=
  match price with None => comm q (p * s_mult s) | Some cp => comm q (cp * s_mult s) end.

Lemma sec_outlay_spec comm (s : secR) q price fo o fee bop :
  sec_outlay (N:=RNumI) comm s q price = Ok (fo, o, fee, bop) ->
  exists p, s_price s = Some p /\ trade_spread s q price p = Some bop /\
            o = q * p * s_mult s + bop /\ fee = trade_fee comm s q price p /\ fo = o + fee.
Proof.
  unfold sec_outlay, trade_spread, trade_fee. intros H.
  destruct (s_price s) as [p|]; [|discriminate]. exists p. split; [reflexivity|].
  destruct price as [cp|].
  - inversion H; subst. rops. unfold RNum.mul, RNum.add, RNum.sub. repeat split; reflexivity.
  - destruct (s_bidoffer s) as [bo|]; [|discriminate]. inversion H; subst. rops.
    unfold RNum.mul, RNum.add, RNum.abs, RNum.half. repeat split; reflexivity.
Qed.

(* One executed trade of quantity q (update_self = False: the security is current):
   position moves by q; exactly q x p x multiplier plus the half-spread (or the custom-price
   difference) is added to the outlay accumulator; the parent is asked to book
   -(outlay + fee) on its capital and +fee on its fee accumulator, once, not as a flow. *)
Theorem sec_transact_booking pnow comm q upd price (s s' : secR) oa :
  sec_transact (N:=RNumI) pnow comm q upd false price s = Ok (s', oa) ->
  q <> 0 ->
  exists p bop,
    s_price s = Some p /\ trade_spread s q price p = Some bop /\
    s_pos s' = s_pos s + q /\
    s_outlay s' = s_outlay s + (q * p * s_mult s + bop) /\
    s_bidoffer_paid s' = s_bidoffer_paid s + bop /\
    s_needupdate s' = true /\
    oa = Some (mkAdj (N:=RNumI) (- (q * p * s_mult s + bop + trade_fee comm s q price p))
                     (trade_fee comm s q price p) upd).
Proof.
  unfold sec_transact. cbn [andb bind]. intros H Hq.
  destruct (nis_zero RNumI q) eqn:Ez. { rops. rbool. contradiction. }
  destruct (match price with Some _ => negb (s_bo_set s) | None => false end); [discriminate|].
  inv_bind H. destruct x as [[[fo o] fee] bop]. inversion H0; subst; clear H0.
  apply sec_outlay_spec in E. destruct E as (p & Hp & Hs & Ho & Hf & Hfo).
  cbn in Hp, Hs. exists p, bop. cbn. rops. unfold RNum.add, RNum.opp.
  unfold trade_spread, trade_fee in *. cbn in Hs, Hf.
  repeat split; auto; try (subst; reflexivity).
Qed.

(* the parent books it on capital and the fee accumulator only; flows are untouched *)
Theorem apply_adj_booking (A : Type) (g : strat RNumI A) amt fee st :
  let g' := apply_adj (Some (mkAdj (N:=RNumI) amt fee st)) g in
  g_capital g' = g_capital g + amt /\ g_last_fee g' = g_last_fee g + fee /\ g_net_flows g' = g_net_flows g.
Proof. cbn. repeat split; reflexivity. Qed.

(* ---------------- C05: allocate ---------------- *)

(* a zero amount does nothing (the security is current) *)
Theorem alloc_zero_noop pnow comm upd (s : secR) :
  s_needupdate s = false -> s_now s = pnow ->
  sec_allocate (N:=RNumI) pnow comm 0 upd s = Ok (s, None).
Proof.
  intros Hn Hnow. unfold sec_allocate. rewrite Hn, Hnow.
  assert (E : onat_eqb pnow pnow = true) by (apply onat_eqb_eq; reflexivity). rewrite E. cbn.
  unfold RNum.is_zero. destruct (Req_EM_T 0 0); [reflexivity|congruence].
Qed.

(* a trade at a missing or zero price is refused *)
Theorem alloc_bad_price pnow comm amount upd (s : secR) :
  s_needupdate s = false -> s_now s = pnow -> amount <> 0 ->
  (s_price s = None \/ s_price s = Some 0) ->
  sec_allocate (N:=RNumI) pnow comm amount upd s = Err EBadPrice.
Proof.
  intros Hn Hnow Ha Hp. unfold sec_allocate. rewrite Hn, Hnow.
  assert (E : onat_eqb pnow pnow = true) by (apply onat_eqb_eq; reflexivity). rewrite E. cbn.
  unfold RNum.is_zero. destruct (Req_EM_T amount 0); [contradiction|].
  destruct Hp as [Hp|Hp]; rewrite Hp; [reflexivity|].
  destruct (Req_EM_T 0 0); [reflexivity|congruence].
Qed.

(* ---- allocate on a security that is current at the parent's clock ---- *)
Definition current (pnow : option nat) (s : secR) : Prop :=
  sec_update (N:=RNumI) pnow (row_of pnow) s = Ok s.

Lemma size_loop_unfold fuel comm (s : secR) amount pm q fo last_q last_short :
  size_loop (N:=RNumI) fuel comm s amount pm q fo last_q last_short =
  if negb (nisclose RNumI fo amount) && negb (neqb RNumI q (n0 RNumI)) then
    match fuel with
    | O => Err EOutOfFuel
    | S fuel' =>
      let dq := ndiv RNumI (nsub RNumI fo amount) pm in
      let q1 := nsub RNumI q dq in
      let q2 := if s_intpos s then nfloor RNumI q1 else q1 in
      bind (sec_outlay comm s q2 None) (fun r =>
      let '(fo2, _, _, _) := r in
      bind (if s_intpos s then
              bind (sec_outlay comm s (nadd RNumI q2 (n1 RNumI)) None) (fun r1 =>
              let '(fo1, _, _, _) := r1 in Ok (nltb RNumI fo2 amount && nltb RNumI amount fo1))
            else Ok false) (fun brk =>
      if brk then Ok q2 else
      match fuel' with
      | O => Err ESizingLoop
      | _ =>
        if s_intpos s && neqb RNumI last_q q2 then Err ESizingStuck else
        if nltb RNumI (nabs RNumI last_short) (nabs RNumI (nsub RNumI fo2 amount)) then Err ESizingDiverged else
        size_loop fuel' comm s amount pm q2 fo2 q2 (nsub RNumI fo2 amount)
      end))
    end
  else Ok q.
Proof. destruct fuel; reflexivity. Qed.

Lemma alloc_current pnow comm amount upd (s : secR) :
  current pnow s ->
  sec_allocate (N:=RNumI) pnow comm amount upd s =
  (if nis_zero RNumI amount then Ok (s, None) else
   match s_price s with
   | None => Err EBadPrice
   | Some pr =>
     if nis_zero RNumI pr then Err EBadPrice else
     let pm := nmul RNumI pr (s_mult s) in
     let q :=
       if nis_zero RNumI (nadd RNumI amount (s_value s)) then nopp RNumI (s_pos s)
       else
         let q := ndiv RNumI amount pm in
         if s_intpos s then
           if nltb RNumI (n0 RNumI) (s_pos s) || (nis_zero RNumI (s_pos s) && nltb RNumI (n0 RNumI) amount)
           then nfloor RNumI q else nceil RNumI q
         else q in
     if nis_zero RNumI q then Ok (s, None) else
     bind (if neqb RNumI q (nopp RNumI (s_pos s)) then Ok q else
           bind (sec_outlay comm s q None) (fun r => let '(fo, _, _, _) := r in
           size_loop sizing_fuel comm s amount pm q fo q (nsub RNumI fo amount)))
          (fun q => sec_transact pnow comm q upd false None s)
   end).
Proof.
  intros Hc. unfold sec_allocate, current in *.
  destruct (s_needupdate s || negb (onat_eqb (s_now s) pnow)); [rewrite Hc|]; reflexivity.
Qed.

(* allocating exactly minus the current value closes the position completely *)
Theorem alloc_closeout pnow comm upd (s s' : secR) oa amount :
  current pnow s -> amount <> 0 -> amount + s_value s = 0 ->
  sec_allocate (N:=RNumI) pnow comm amount upd s = Ok (s', oa) ->
  s_pos s' = 0.
Proof.
  intros Hc Ha Hv H. rewrite (alloc_current _ _ _ _ _ Hc) in H. rops.
  unfold RNum.is_zero in H. destruct (Req_EM_T amount 0); [contradiction|].
  destruct (s_price s) as [pr|]; [|discriminate].
  destruct (Req_EM_T pr 0); [discriminate|].
  unfold RNum.add in H. destruct (Req_EM_T (amount + s_value s) 0); [|contradiction].
  cbv zeta in H.
  destruct (Req_EM_T (RNum.opp (s_pos s)) 0) as [Hz|Hz].
  - inversion H; subst. unfold RNum.opp in Hz. lra.
  - unfold RNum.eqb in H. destruct (Req_EM_T (RNum.opp (s_pos s)) (RNum.opp (s_pos s))); [|congruence].
    cbn [bind] in H.
    apply sec_transact_booking in H; [|exact Hz].
    destruct H as (p & bop & _ & _ & Hpos & _). rewrite Hpos. unfold RNum.opp. lra.
Qed.

(* fractional positions, no costs: the cost equals the amount exactly *)
Theorem alloc_fractional_exact pnow comm upd (s s' : secR) oa amount p :
  current pnow s -> s_intpos s = false -> (forall q x, comm q x = 0) -> s_bidoffer s = Some 0 ->
  s_price s = Some p -> p <> 0 -> s_mult s <> 0 -> amount <> 0 -> amount + s_value s <> 0 ->
  sec_allocate (N:=RNumI) pnow comm amount upd s = Ok (s', oa) ->
  s_pos s' = s_pos s + amount / (p * s_mult s) /\
  oa = Some (mkAdj (N:=RNumI) (- amount) 0 upd).
Proof.
  intros Hc Hint Hcomm Hbo Hp Hp0 Hm0 Ha Hv H. rewrite (alloc_current _ _ _ _ _ Hc) in H. rops.
  unfold RNum.is_zero in H. destruct (Req_EM_T amount 0); [contradiction|].
  rewrite Hp in H. destruct (Req_EM_T p 0); [contradiction|].
  unfold RNum.add in H. destruct (Req_EM_T (amount + s_value s) 0); [contradiction|].
  rewrite Hint in H. cbv zeta in H. unfold RNum.div, RNum.mul in H.
  set (q := amount / (p * s_mult s)) in *.
  assert (Hq : q <> 0).
  { unfold q. intros Hz. apply Ha. apply (Rmult_eq_compat_r (p * s_mult s)) in Hz.
    unfold Rdiv in Hz. rewrite Rmult_assoc, Rinv_l in Hz by (apply Rmult_integral_contrapositive; auto). lra. }
  destruct (Req_EM_T q 0); [contradiction|].
  assert (Hqa : q * p * s_mult s = amount) by (unfold q; field; auto).
  match type of H with bind ?X _ = _ => assert (Hsearch : X = Ok q) end.
  { destruct (RNum.eqb q (RNum.opp (s_pos s))); [reflexivity|].
    match goal with |- bind ?Y _ = _ => assert (Hfo : Y = Ok (amount, amount, 0, 0)) end.
    { unfold sec_outlay. rewrite Hp, Hbo. rops. rewrite Hcomm. unfold RNum.mul, RNum.add, RNum.abs, RNum.half.
      f_equal. repeat match goal with |- (_, _) = (_, _) => f_equal end; lra. }
    rewrite Hfo. cbn [bind].
    rewrite size_loop_unfold. rops.
    assert (Hcl : RNum.isclose amount amount = true).
    { apply R_isclose_true. replace (amount - amount) with 0 by lra. rewrite Rabs_R0. unfold RNum.atol. lra. }
    rewrite Hcl. reflexivity. }
  rewrite Hsearch in H. cbn [bind] in H.
  apply sec_transact_booking in H; [|exact Hq].
  destruct H as (p' & bop & Hp' & Hs & Hpos & _ & _ & _ & Hoa).
  rewrite Hp in Hp'. inversion Hp'; subst p'. unfold trade_spread in Hs. rewrite Hbo in Hs. inversion Hs; subst bop.
  split; [exact Hpos|]. rewrite Hoa. unfold trade_fee. rewrite Hcomm. f_equal. f_equal. lra.
Qed.

Lemma sizing_fuel_pos : exists f, sizing_fuel = S f.
Proof. Transparent sizing_fuel. unfold sizing_fuel. eexists. reflexivity. Qed.
Global Opaque sizing_fuel.

(* whole-unit positions, no costs, buying into a flat or long position: the quantity is the
   largest whole number of units the amount pays for *)
Theorem alloc_integer_long_maximal pnow comm upd (s s' : secR) oa amount p :
  current pnow s -> s_intpos s = true -> (forall q x, comm q x = 0) -> s_bidoffer s = Some 0 ->
  s_price s = Some p -> 0 < p -> 0 < s_mult s -> 0 < amount -> 0 <= s_pos s -> amount + s_value s <> 0 ->
  sec_allocate (N:=RNumI) pnow comm amount upd s = Ok (s', oa) ->
  exists q : R,
    (exists z : Z, q = IZR z) /\
    q * (p * s_mult s) <= amount < (q + 1) * (p * s_mult s) /\
    s_pos s' = s_pos s + q /\
    (q <> 0 -> oa = Some (mkAdj (N:=RNumI) (- (q * (p * s_mult s))) 0 upd)).
Proof.
  intros Hc Hint Hcomm Hbo Hp Hp0 Hm0 Ha Hpos Hv H. rewrite (alloc_current _ _ _ _ _ Hc) in H. rops.
  unfold RNum.is_zero in H. destruct (Req_EM_T amount 0); [lra|].
  rewrite Hp in H. destruct (Req_EM_T p 0); [lra|].
  unfold RNum.add in H. destruct (Req_EM_T (amount + s_value s) 0); [contradiction|].
  rewrite Hint in H.
  assert (Hside : RNum.ltb RNum.zero (s_pos s) || ((if Req_EM_T (s_pos s) 0 then true else false) && RNum.ltb RNum.zero amount) = true).
  { destruct (Req_EM_T (s_pos s) 0) as [Hz|Hz].
    - apply orb_true_iff. right. apply R_ltb_true. unfold RNum.zero. lra.
    - apply orb_true_iff. left. apply R_ltb_true. unfold RNum.zero. lra. }
  rewrite Hside in H. cbv zeta in H. unfold RNum.div, RNum.mul in H.
  set (pm := p * s_mult s) in *.
  assert (Hpm : 0 < pm) by (unfold pm; apply Rmult_lt_0_compat; auto).
  set (q := RNum.floor (amount / pm)) in *.
  destruct (R_floor_spec (amount / pm)) as [Hf1 Hf2]. fold q in Hf1, Hf2.
  assert (Hb1 : q * pm <= amount).
  { apply (Rmult_le_compat_r pm) in Hf1; [|lra]. unfold Rdiv in Hf1. rewrite Rmult_assoc, Rinv_l in Hf1; lra. }
  assert (Hb2 : amount < (q + 1) * pm).
  { apply (Rmult_lt_compat_r pm) in Hf2; [|lra]. unfold Rdiv in Hf2. rewrite Rmult_assoc, Rinv_l in Hf2; lra. }
  assert (Hq0 : 0 <= q).
  { destruct (R_floor_int (amount / pm)) as [z Hz]. fold q in Hz.
    assert (0 <= amount / pm) by (apply Rlt_le, Rdiv_lt_0_compat; lra).
    destruct (Z_lt_le_dec z 0) as [Hlt|Hge].
    - exfalso. assert (IZR z <= -1) by (apply IZR_le with (m := (-1)%Z); lia). rewrite Hz in Hf2. lra.
    - rewrite Hz. apply IZR_le with (n := 0%Z). lia. }
  exists q. split; [apply R_floor_int|]. split; [split; assumption|].
  destruct (Req_EM_T q 0) as [Hz|Hz].
  - inversion H; subst. split; [rewrite Hz; lra| intros; contradiction].
  - assert (Hne : RNum.eqb q (RNum.opp (s_pos s)) = false).
    { apply R_eqb_false. unfold RNum.opp. lra. }
    rewrite Hne in H.
    match type of H with bind ?X _ = _ => assert (Hsearch : X = Ok q) end.
    { match goal with |- bind ?Y _ = _ => assert (Hfo : Y = Ok (q * pm, q * pm, 0, 0)) end.
      { unfold sec_outlay. rewrite Hp, Hbo. rops. rewrite Hcomm. unfold RNum.mul, RNum.add, RNum.abs, RNum.half.
        f_equal. repeat match goal with |- (_, _) = (_, _) => f_equal end; unfold pm; lra. }
      rewrite Hfo. cbn [bind]. rewrite size_loop_unfold. rops.
      destruct (RNum.isclose (q * pm) amount) eqn:Ecl; [reflexivity|].
      assert (Hne0 : RNum.eqb q RNum.zero = false) by (apply R_eqb_false; exact Hz).
      rewrite Hne0. cbn [negb andb].
      destruct sizing_fuel_pos as [f Hf]. rewrite Hf. rewrite Hint. cbv zeta.
      unfold RNum.sub, RNum.div.
      assert (Hq1 : q - (q * pm - amount) / pm = amount / pm) by (field; lra).
      rewrite Hq1. fold q.
      match goal with |- bind ?Y _ = _ => assert (Hfo2 : Y = Ok (q * pm, q * pm, 0, 0)) end.
      { unfold sec_outlay. rewrite Hp, Hbo. rops. rewrite Hcomm. unfold RNum.mul, RNum.add, RNum.abs, RNum.half.
        f_equal. repeat match goal with |- (_, _) = (_, _) => f_equal end; unfold pm; lra. }
      rewrite Hfo2. cbn [bind].
      match goal with |- bind (bind ?Y _) _ = _ => assert (Hfo1 : Y = Ok ((q + 1) * pm, (q + 1) * pm, 0, 0)) end.
      { unfold sec_outlay. rewrite Hp, Hbo. rops. rewrite Hcomm. unfold RNum.mul, RNum.add, RNum.abs, RNum.half, RNum.one.
        f_equal. repeat match goal with |- (_, _) = (_, _) => f_equal end; unfold pm; lra. }
      rewrite Hfo1. cbn [bind].
      apply R_isclose_false in Ecl.
      assert (Hlt : q * pm < amount).
      { destruct (Rle_lt_or_eq_dec _ _ Hb1) as [?|Heq]; [assumption|].
        exfalso. rewrite Heq in Ecl. replace (amount - amount) with 0 in Ecl by lra. rewrite Rabs_R0 in Ecl.
        unfold RNum.atol in Ecl. lra. }
      assert (B1 : RNum.ltb (q * pm) amount = true) by (apply R_ltb_true; exact Hlt).
      assert (B2 : RNum.ltb amount ((q + 1) * pm) = true) by (apply R_ltb_true; exact Hb2).
      rewrite B1, B2. reflexivity. }
    rewrite Hsearch in H. cbn [bind] in H.
    apply sec_transact_booking in H; [|exact Hz].
    destruct H as (p' & bop & Hp' & Hs & Hpos' & _ & _ & _ & Hoa).
    rewrite Hp in Hp'. inversion Hp'; subst p'. unfold trade_spread in Hs. rewrite Hbo in Hs. inversion Hs; subst bop.
    split; [exact Hpos'|]. intros _. rewrite Hoa. unfold trade_fee. rewrite Hcomm. f_equal. f_equal.
    unfold pm. lra.
Qed.

(* C02: a trade at the current price changes cash + marked position value only by the explicit costs *)
Theorem trade_conserves_value pnow comm q upd price (s s' : secR) oa (capital : R) :
  sec_transact (N:=RNumI) pnow comm q upd false price s = Ok (s', oa) -> q <> 0 ->
  exists p bop amt fee st,
    s_price s = Some p /\ oa = Some (mkAdj (N:=RNumI) amt fee st) /\
    trade_spread s q price p = Some bop /\ fee = trade_fee comm s q price p /\
    (capital + amt) + s_pos s' * p * s_mult s = capital + s_pos s * p * s_mult s - (bop + fee).
Proof.
  intros H Hq. destruct (sec_transact_booking _ _ _ _ _ _ _ _ H Hq) as (p & bop & Hp & Hs & Hpos & _ & _ & _ & Hoa).
  exists p, bop, (- (q * p * s_mult s + bop + trade_fee comm s q price p)), (trade_fee comm s q price p), upd.
  repeat split; auto. rewrite Hpos. lra.
Qed.

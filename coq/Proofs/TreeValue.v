(* TreeValue.v — C02 at the level of whole trees of any depth: on a balanced tree the root's value is the cash held
   anywhere in the tree plus position x price x multiplier over every security in the tree.  Hence moving capital
   between a parent and its sub-strategies (which changes neither the total cash nor any holding) cannot change the total,
   and between two balanced states the change of the root's value is the change of the total cash plus the
   mark-to-market change of the holdings.  Real-number instance. *)
From Coq Require Import List Bool Arith Reals Lra Lia.
Import ListNotations.
Require Import BT.Num BT.Base BT.Records BT.Engine BT.Proofs.Tac BT.Proofs.Frames BT.Proofs.SecInv BT.Proofs.TreeInv.
Local Open Scope R_scope.

Section TreeValue.
Variable A : Type.
Notation nodeR := (node RNumI A).

Definition holding (s : sec RNumI) : R :=
  match s_price s with Some p => s_pos s * p * s_mult s | None => 0 end.

Fixpoint total_cash (n : nodeR) : R :=
  match n with
  | NSec _ => 0
  | NStrat g kids _ _ => g_capital g + fold_right (fun k a => total_cash k + a) 0 kids
  end.

Fixpoint total_holdings (n : nodeR) : R :=
  match n with
  | NSec s => holding s
  | NStrat _ kids _ _ => fold_right (fun k a => total_holdings k + a) 0 kids
  end.

Theorem BS_value_decomposition (n : nodeR) : BS n -> raw_value n = total_cash n + total_holdings n.
Proof.
  induction n as [s | g kids lz paper IH] using (node_ind' A); intros Hb.
  - inversion Hb as [? Hs|]; subst. cbn. unfold sec_balanced in Hs. unfold holding.
    destruct (s_price s); [rewrite Hs; lra | destruct Hs as [Hv _]; rewrite Hv; lra].
  - inversion Hb as [|? ? ? ? Hv _ _ Hk]; subst. cbn [raw_value total_cash total_holdings]. rewrite Hv.
    assert (S : sum_values kids = fold_right (fun k a => total_cash k + a) 0 kids + fold_right (fun k a => total_holdings k + a) 0 kids).
    { clear Hv Hb. induction kids as [|k kids IHk]; [cbn; unfold sum_values; cbn; lra|].
      inversion IH as [|? ? Hk0 IH']; subst. inversion Hk as [|? ? Bk Hk']; subst.
      rewrite sum_values_cons. cbn [fold_right]. rewrite (Hk0 Bk), (IHk IH' Hk'). lra. }
    rops. unfold RNum.add. rewrite S. lra.
Qed.

(* two balanced trees holding the same total cash and the same marked holdings have the same root value, however the
   cash is spread over the strategies of the tree *)
Corollary capital_placement_is_irrelevant (n n' : nodeR) :
  BS n -> BS n' -> total_cash n' = total_cash n -> total_holdings n' = total_holdings n -> raw_value n' = raw_value n.
Proof. intros B B' Hc Hh. rewrite (BS_value_decomposition _ B), (BS_value_decomposition _ B'), Hc, Hh. reflexivity. Qed.

(* between two balanced states: change in value = change in total cash + mark-to-market change of the holdings *)
Corollary value_change_attribution (n n' : nodeR) :
  BS n -> BS n' ->
  raw_value n' - raw_value n = (total_cash n' - total_cash n) + (total_holdings n' - total_holdings n).
Proof. intros B B'. rewrite (BS_value_decomposition _ B), (BS_value_decomposition _ B'). lra. Qed.

(* ---------- a date change ---------- *)
Notation stratR := (strat RNumI A).
Notation treeR := (tree RNumI A).
Variable ps : option nat -> treeR -> result treeR.

Definition sum_cash (ks : list nodeR) : R := fold_right (fun k a => total_cash k + a) 0 ks.
Definition sum_hold (ks : list nodeR) : R := fold_right (fun k a => total_holdings k + a) 0 ks.
Definition parked (ks : list nodeR) : R :=
  fold_right (fun (k : nodeR) (a : R) => match k with NSec s => s_capital s + a | _ => a end) 0 ks.

(* cash parked on securities (coupons less holding costs of the earlier date) that an update to [date] sweeps into the
   strategies' capital: a strategy sweeps its own securities when the date is new to it *)
Fixpoint swept (date : option nat) (n : nodeR) : R :=
  match n with
  | NSec _ => 0
  | NStrat g kids _ _ =>
    (if strat_newpt date g then parked kids else 0) + fold_right (fun k a => swept date k + a) 0 kids
  end.

Lemma total_cash_set_weight w (k : nodeR) : total_cash (set_weight w k) = total_cash k.
Proof. destruct k as [s|g kids lz pp]; reflexivity. Qed.

Lemma total_cash_kid_weight fi v nl (k : nodeR) : total_cash (kid_weight fi v nl k) = total_cash k.
Proof. unfold kid_weight. destruct (skipped k); [reflexivity|]. destruct fi; apply total_cash_set_weight. Qed.

Lemma sum_cash_kid_weights fi v nl (ks : list nodeR) : sum_cash (set_kid_weights fi v nl ks) = sum_cash ks.
Proof.
  unfold set_kid_weights, sum_cash. induction ks as [|k ks IH]; [reflexivity|]. cbn [map fold_right].
  rewrite total_cash_kid_weight, IH. reflexivity.
Qed.

Lemma upd_kids_cash (upd : nodeR -> result nodeR) date newpt bo inow : forall (ks : list nodeR) val notl bop cpn ks' val' notl' bop' cpn',
  Forall (fun k => forall k', upd k = Ok k' -> total_cash k' = total_cash k + swept date k) ks ->
  upd_kids upd newpt bo date inow ks val notl bop cpn = Ok (ks', (val', notl', bop', cpn')) ->
  cpn' = cpn + (if newpt then parked ks else 0) /\
  sum_cash ks' = sum_cash ks + fold_right (fun k a => swept date k + a) 0 ks.
Proof.
  induction ks as [|k ks IH]; intros val notl bop cpn ks' val' notl' bop' cpn' HF H.
  - cbn in H. inversion H; subst. cbn. destruct newpt; split; lra.
  - inversion HF as [|? ? Hk HF']; subst. destruct k as [s|g kk lz pp].
    + cbn [upd_kids] in H.
      destruct newpt.
      * change (s_needupdate (set_s_capital (n0 RNumI) s)) with (s_needupdate s) in H.
        destruct (negb (s_needupdate s)).
        -- apply bind_ok in H. destruct H as ([ks2 [[[v2 n2] b2] c2]] & E & H). inversion H; subst.
           destruct (IH _ _ _ _ _ _ _ _ _ HF' E) as [C1 C2]. unfold parked, sum_cash in *; cbn [fold_right total_cash swept] in *.
           rops. unfold RNum.add in *. split; lra.
        -- apply bind_ok in H. destruct H as (s1 & Es & H).
           apply bind_ok in H. destruct H as ([ks2 [[[v2 n2] b2] c2]] & E & H). inversion H; subst.
           destruct (IH _ _ _ _ _ _ _ _ _ HF' E) as [C1 C2]. unfold parked, sum_cash in *; cbn [fold_right total_cash swept] in *.
           rops. unfold RNum.add in *. split; lra.
      * destruct (negb (s_needupdate s)).
        -- apply bind_ok in H. destruct H as ([ks2 [[[v2 n2] b2] c2]] & E & H). inversion H; subst.
           destruct (IH _ _ _ _ _ _ _ _ _ HF' E) as [C1 C2]. unfold parked, sum_cash in *; cbn [fold_right total_cash swept] in *. split; lra.
        -- apply bind_ok in H. destruct H as (s1 & Es & H).
           apply bind_ok in H. destruct H as ([ks2 [[[v2 n2] b2] c2]] & E & H). inversion H; subst.
           destruct (IH _ _ _ _ _ _ _ _ _ HF' E) as [C1 C2]. unfold parked, sum_cash in *; cbn [fold_right total_cash swept] in *. split; lra.
    + cbn [upd_kids] in H. apply bind_ok in H. destruct H as (c1 & Ec & H).
      apply bind_ok in H. destruct H as ([ks2 [[[v2 n2] b2] c2]] & E & H). inversion H; subst.
      destruct (IH _ _ _ _ _ _ _ _ _ HF' E) as [C1 C2]. pose proof (Hk _ Ec) as Hc.
      unfold parked, sum_cash in *; cbn [fold_right] in *. split; [destruct newpt; lra|]. rewrite Hc. lra.
Qed.

Lemma cap_set v (g : stratR) : g_capital (set_g_capital v g) = v.
Proof. reflexivity. Qed.

Lemma swv_capital np inow v nl b (g g' : stratR) : strat_write_value np inow v nl b g = Ok g' -> g_capital g' = g_capital g.
Proof.
  unfold strat_write_value. destruct (strat_changed _ _ _ _); intros H; [|inversion H; reflexivity].
  apply bind_ok in H. destruct H as (p & _ & H). inversion H; subst.
  rewrite strat_set_price_g_capital, strat_set_value_g_capital. reflexivity.
Qed.

Lemma sfin_capital date inow np (g g' : stratR) kids paper paper' :
  strat_finish ps date inow np g kids paper = Ok (g', paper') -> g_capital g' = g_capital g.
Proof.
  unfold strat_finish. intros H. apply bind_ok in H. destruct H as (g1 & E1 & H).
  assert (C1 : g_capital g1 = g_capital g).
  { destruct (has_strat_kids kids); [|inversion E1; reflexivity]. destruct date; [|discriminate]. inversion E1; subst. destruct g; reflexivity. }
  destruct (g_paper_trade _).
  - destruct paper as [p|]; [|discriminate]. apply bind_ok in H. destruct H as (p1 & _ & H). inversion H; subst.
    rewrite strat_set_price_g_capital, strat_set_rows_g_capital. exact C1.
  - inversion H; subst. rewrite strat_set_rows_g_capital. exact C1.
Qed.

(* StrategyBase.update, any depth: the cash held in the tree changes exactly by the parked cash it sweeps *)
Theorem node_update_cash date inow (n : nodeR) : forall n',
  node_update ps date inow n = Ok n' -> total_cash n' = total_cash n + swept date n.
Proof.
  induction n as [s | g kids lz paper IH] using (node_ind' A); intros n' H.
  - cbn [node_update] in H. apply bind_ok in H. destruct H as (s1 & _ & H). inversion H; subst. cbn. lra.
  - cbn [node_update] in H. apply bind_ok in H. destruct H as ([[[np g1] kids1] [[val notl] bop]] & E0 & H).
    unfold strat_update_with in E0. apply bind_ok in E0. destruct E0 as ([kids0 [[[v0 n0] b0] c0]] & Eu & E0).
    inversion E0; subst; clear E0.
    destruct (upd_kids_cash _ _ _ _ _ _ _ _ _ _ _ _ _ _ _ IH Eu) as [C1 C2].
    apply bind_ok in H. destruct H as (g2 & Ew & H). apply bind_ok in H. destruct H as ([g3 p3] & Ef & H). inversion H; subst.
    cbn [total_cash swept]. fold (sum_cash (set_kid_weights (g_fi g2) (g_value g2) (g_notl g2) kids1)). fold (sum_cash kids).
    rewrite sum_cash_kid_weights, C2, (sfin_capital _ _ _ _ _ _ _ _ Ef), (swv_capital _ _ _ _ _ _ _ Ew).
    rewrite cap_set.
    match goal with |- context [g_capital (match g_now g with Some _ => ?b | None => ?c end)] =>
      replace (g_capital (match g_now g with Some _ => b | None => c end)) with (g_capital g)
        by (destruct (g_now g); [destruct (onat_eqb date _)|]; reflexivity) end.
    rops. unfold RNum.add, RNum.zero in *. lra.
Qed.

(* ---------- positions and multipliers of every security of the tree, in tree order ---------- *)
Fixpoint leaf_pm (n : nodeR) : list (nat * R * R) :=
  match n with
  | NSec s => [(s_id s, s_pos s, s_mult s)]
  | NStrat _ kids _ _ => fold_right (fun k a => leaf_pm k ++ a) [] kids
  end.
Definition leaves_pm (ks : list nodeR) : list (nat * R * R) := fold_right (fun k a => leaf_pm k ++ a) [] ks.

Lemma leaf_pm_set_weight w (k : nodeR) : leaf_pm (set_weight w k) = leaf_pm k.
Proof. destruct k as [s|g kids lz pp]; reflexivity. Qed.

Lemma leaf_pm_kid_weight fi v nl (k : nodeR) : leaf_pm (kid_weight fi v nl k) = leaf_pm k.
Proof. unfold kid_weight. destruct (skipped k); [reflexivity|]. destruct fi; apply leaf_pm_set_weight. Qed.

Lemma leaves_pm_kid_weights fi v nl (ks : list nodeR) : leaves_pm (set_kid_weights fi v nl ks) = leaves_pm ks.
Proof.
  unfold set_kid_weights, leaves_pm. induction ks as [|k ks IH]; [reflexivity|]. cbn [map fold_right].
  rewrite leaf_pm_kid_weight, IH. reflexivity.
Qed.

Lemma sec_update_pm date inow (s s' : sec RNumI) :
  sec_update date inow s = Ok s' -> (s_id s', s_pos s', s_mult s') = (s_id s, s_pos s, s_mult s).
Proof.
  intros H. erewrite sec_update_s_id, sec_update_s_mult by eassumption.
  unfold sec_update in H. destruct (_ && _); [discriminate|]. apply bind_ok in H. destruct H as (y & Eb & Et).
  erewrite sec_tail_s_pos by eassumption. erewrite sec_update_base_s_pos by eassumption. reflexivity.
Qed.

Lemma upd_kids_pm (upd : nodeR -> result nodeR) date newpt bo inow : forall (ks : list nodeR) val notl bop cpn ks' acc,
  Forall (fun k => forall k', upd k = Ok k' -> leaf_pm k' = leaf_pm k) ks ->
  upd_kids upd newpt bo date inow ks val notl bop cpn = Ok (ks', acc) -> leaves_pm ks' = leaves_pm ks.
Proof.
  induction ks as [|k ks IH]; intros val notl bop cpn ks' acc HF H.
  - cbn in H. inversion H; subst. reflexivity.
  - inversion HF as [|? ? Hk HF']; subst. destruct k as [s|g kk lz pp].
    + cbn [upd_kids] in H.
      assert (P : forall (s0 : sec RNumI) c0,
                 (if negb (s_needupdate s0)
                  then ' (ks'', acc0) <- upd_kids upd newpt bo date inow ks val notl bop c0;; Ok (NSec s0 :: ks'', acc0)
                  else ' s1 <- sec_update date inow s0;;
                       ' (ks'', acc0) <- upd_kids upd newpt bo date inow ks (nadd RNumI val (s_value s1))
                                                (nadd RNumI notl (nabs RNumI (s_notl s1)))
                                                (if bo then nadd RNumI bop (s_bidoffer_paid s1) else bop) c0;;
                       Ok (NSec s1 :: ks'', acc0)) = Ok (ks', acc) ->
                 leaves_pm ks' = (s_id s0, s_pos s0, s_mult s0) :: leaves_pm ks).
      { intros s0 c0 H0. destruct (negb (s_needupdate s0)).
        - apply bind_ok in H0. destruct H0 as ([ks2 a2] & E & H0). inversion H0; subst.
          change (leaves_pm (NSec s0 :: ks2)) with ((s_id s0, s_pos s0, s_mult s0) :: leaves_pm ks2).
          rewrite (IH _ _ _ _ _ _ HF' E). reflexivity.
        - apply bind_ok in H0. destruct H0 as (s1 & Es & H0). apply bind_ok in H0. destruct H0 as ([ks2 a2] & E & H0).
          inversion H0; subst.
          change (leaves_pm (NSec s1 :: ks2)) with ((s_id s1, s_pos s1, s_mult s1) :: leaves_pm ks2).
          rewrite (IH _ _ _ _ _ _ HF' E), (sec_update_pm _ _ _ _ Es). reflexivity. }
      destruct newpt; [apply P in H | apply P in H]; rewrite H; reflexivity.
    + cbn [upd_kids] in H. apply bind_ok in H. destruct H as (c1 & Ec & H).
      apply bind_ok in H. destruct H as ([ks2 a2] & E & H). inversion H; subst.
      change (leaves_pm (c1 :: ks2)) with (leaf_pm c1 ++ leaves_pm ks2).
      rewrite (Hk _ Ec), (IH _ _ _ _ _ _ HF' E). reflexivity.
Qed.

(* StrategyBase.update, any depth, never changes a position or a multiplier *)
Theorem node_update_positions date inow (n : nodeR) : forall n',
  node_update ps date inow n = Ok n' -> leaf_pm n' = leaf_pm n.
Proof.
  induction n as [s | g kids lz paper IH] using (node_ind' A); intros n' H.
  - cbn [node_update] in H. apply bind_ok in H. destruct H as (s1 & Es & H). inversion H; subst. cbn [leaf_pm].
    rewrite (sec_update_pm _ _ _ _ Es). reflexivity.
  - cbn [node_update] in H. apply bind_ok in H. destruct H as ([[[np g1] kids1] [[val notl] bop]] & E0 & H).
    unfold strat_update_with in E0. apply bind_ok in E0. destruct E0 as ([kids0 [[[v0 n0] b0] c0]] & Eu & E0).
    inversion E0; subst; clear E0.
    apply bind_ok in H. destruct H as (g2 & Ew & H). apply bind_ok in H. destruct H as ([g3 p3] & Ef & H). inversion H; subst.
    cbn [leaf_pm]. fold (leaves_pm (set_kid_weights (g_fi g2) (g_value g2) (g_notl g2) kids1)). fold (leaves_pm kids).
    rewrite leaves_pm_kid_weights. eapply upd_kids_pm; eauto.
Qed.

(* C02, first sentence, for StrategyBase.update on a tree of any depth: from one balanced state to the next the root's
   value changes by the parked cash swept up (coupons less holding costs of the earlier date) plus the mark-to-market
   change of holdings whose positions and multipliers are exactly those held before *)
Theorem date_change_attribution date inow (n n' : nodeR) :
  BS n -> WF n -> node_update ps date inow n = Ok n' ->
  raw_value n' - raw_value n = swept date n + (total_holdings n' - total_holdings n) /\ leaf_pm n' = leaf_pm n.
Proof.
  intros B W H. destruct (node_update_BS A ps _ _ _ _ H W) as [B' _].
  split; [|eapply node_update_positions; eauto].
  rewrite (value_change_attribution _ _ B B'), (node_update_cash _ _ _ _ H). lra.
Qed.
End TreeValue.

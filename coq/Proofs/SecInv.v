(* SecInv.v — invariants of a security node and what SecurityBase.update establishes
   (real-number instance). *)
From Coq Require Import List Bool Arith Reals Lra Lia.
Import ListNotations.
Require Import BT.Num BT.Base BT.Records BT.Engine BT.Proofs.Tac BT.Proofs.Frames.
Local Open Scope R_scope.

Notation secR := (sec RNumI).

(* value is "last marked position x price x multiplier"; a missing price only with a flat book *)
Definition SI (s : secR) : Prop :=
  match s_price s with
  | Some p => s_value s = s_lastpos s * p * s_mult s
  | None => s_value s = 0 /\ s_lastpos s = 0
  end.

(* a security the parent skips ("not _needupdate") is flat, weightless and marked *)
Definition SW (s : secR) : Prop :=
  s_needupdate s = false ->
  s_pos s = 0 /\ s_lastpos s = 0 /\ s_weight s = 0 /\ s_value s = 0 /\ s_notl s = 0.

(* the current row of each history equals the live field (for a security marked at its clock) *)
Definition SRow (s : secR) : Prop :=
  forall i, s_now s = Some i -> (i < length (h_values s))%nat ->
    nth i (h_values s) 0 = s_value s /\ nth i (h_positions s) 0 = s_lastpos s /\ nth i (h_notls s) 0 = s_notl s.

Definition SLen (n : nat) (s : secR) : Prop :=
  length (h_values s) = n /\ length (h_positions s) = n /\ length (h_notls s) = n /\
  length (h_outlays s) = n /\ length (h_bopaid s) = n /\ length (h_coupons s) = n /\ length (h_hcosts s) = n.

(* ---------- sec_mark ---------- *)
Lemma sec_mark_spec inow (s x : secR) :
  sec_mark inow s = Ok x ->
  exists v,
    s_lastpos x = s_pos s /\ s_value x = v /\ s_notl x = v /\
    h_values x = upd inow v (h_values s) /\ h_positions x = upd inow (s_pos s) (h_positions s) /\
    h_notls x = upd inow v (h_notls s) /\
    match s_price s with
    | Some p => v = s_pos s * p * s_mult s
    | None => s_pos s = 0 /\ v = 0
    end.
Proof.
  unfold sec_mark. intros H. cbn [s_price s_pos set_s_lastpos set_h_positions] in H.
  destruct (s_price s) as [p|] eqn:Ep.
  - cbn in H. inversion H; subst; clear H. cbn. rops. unfold RNum.mul. eexists; repeat split; try reflexivity; try (rewrite Ep; reflexivity); auto.
  - cbn in H. destruct (RNum.is_zero (s_pos s)) eqn:Ez; cbn in H; [|discriminate].
    inversion H; subst; clear H. rbool. cbn. eexists; repeat split; try reflexivity; try (rewrite Ep; split; [exact Ez| reflexivity]); auto.
Qed.

(* ---------- SecurityBase.update ---------- *)
Lemma sec_update_base_inv date inow (s s' : secR) :
  sec_update_base date inow s = Ok s' -> SI s -> SW s ->
  SI s' /\ SW s' /\ s_lastpos s' = s_pos s' /\ s_pos s' = s_pos s /\ s_weight s' = s_weight s.
Proof.
  intros H HSI HSW.
  assert (Hpos := sec_update_base_s_pos _ _ _ H).
  assert (Hw := sec_update_base_s_weight _ _ _ H).
  unfold sec_update_base in H. destruct (sec_early date s) eqn:Ee.
  - inversion H; subst; clear H. unfold sec_early in Ee. rops. rbool.
    split; [exact HSI|]. split; [exact HSW|]. repeat split; auto.
  - inv_bind H. inversion H0; subst; clear H0.
    destruct (sec_mark_spec _ _ _ E) as (v & Hlp & Hv & Hn & _ & _ & _ & Hm).
    autorewrite with frames in *.
    assert (Hpx : s_pos x = s_pos s).
    { erewrite sec_mark_s_pos by eassumption. autorewrite with frames. reflexivity. }
    assert (Hprx : s_price x = s_price (sec_roll date inow s)).
    { erewrite sec_mark_s_price by eassumption. reflexivity. }
    assert (Hmx : s_mult x = s_mult s).
    { erewrite sec_mark_s_mult by eassumption. autorewrite with frames. reflexivity. }
    split.
    { unfold SI. autorewrite with frames. rewrite Hprx.
      destruct (s_price (sec_roll date inow s)) as [p|].
      - rewrite Hv, Hlp, Hmx. exact Hm.
      - destruct Hm as [Hz Hv0]. rewrite Hv, Hlp. auto. }
    split.
    { unfold SW. autorewrite with frames. unfold sec_flag.
      destruct (nis_zero RNumI (s_weight x) && nis_zero RNumI (s_pos x)) eqn:Ef.
      - intros _. rops. rbool. rewrite Hlp. rewrite Hpx in *.
        assert (Hp0 : s_pos s = 0) by assumption.
        assert (Hv0 : v = 0).
        { revert Hm. destruct (s_price (sec_roll date inow s)); intros Hm; [rewrite Hm, Hp0; lra | tauto]. }
        rewrite Hv, Hn. auto.
      - cbn. intros Hnu.
        (* needupdate was already false: the security was flat, weightless and marked *)
        assert (Hnu0 : s_needupdate s = false).
        { erewrite sec_mark_s_needupdate in Hnu by eassumption. autorewrite with frames in Hnu. exact Hnu. }
        destruct (HSW Hnu0) as (Hp0 & _ & Hw0 & _).
        exfalso. rops.
        erewrite sec_mark_s_weight in Ef by eassumption. autorewrite with frames in Ef.
        rewrite Hpx, Hp0, Hw0 in Ef.
        unfold RNum.is_zero in Ef. destruct (Req_EM_T 0 0); [discriminate|]. congruence. }
    repeat split; auto.
    rewrite Hlp. symmetry. exact Hpos.
Qed.

Lemma sec_update_coupon_notl inow (s s' : secR) :
  sec_update_coupon inow s = Ok s' -> s_notl s' = s_notl s.
Proof. apply sec_update_coupon_s_notl. Qed.

Lemma sec_tail_notl inow (y s' : secR) :
  sec_tail inow y = Ok s' ->
  s_notl s' = s_notl y \/ s_notl s' = s_pos y \/ s_notl s' = 0.
Proof.
  unfold sec_tail. intros H.
  destruct (s_class y); cbn [class_fi_notl class_coupon class_hedge] in H; inv_bind H;
    inversion H0; subst; clear H0.
  - inversion E; subst. left; reflexivity.
  - inversion E; subst. right; left. reflexivity.
  - right; left. erewrite sec_update_coupon_s_notl by eassumption. reflexivity.
  - right; right. reflexivity.
  - right; right. reflexivity.
Qed.

Lemma sec_update_inv date inow (s s' : secR) :
  sec_update date inow s = Ok s' -> SI s -> SW s ->
  SI s' /\ SW s' /\ s_lastpos s' = s_pos s' /\ s_pos s' = s_pos s /\ s_weight s' = s_weight s.
Proof.
  unfold sec_update. intros H HSI HSW.
  destruct (class_coupon (s_class s) && _); [discriminate|].
  inv_bind H. rename x into y.
  destruct (sec_update_base_inv _ _ _ _ E HSI HSW) as (HSIy & HSWy & Hl & Hp & Hw).
  assert (Fpr := sec_tail_s_price _ _ H0). assert (Fv := sec_tail_s_value _ _ H0).
  assert (Fl := sec_tail_s_lastpos _ _ H0). assert (Fm := sec_tail_s_mult _ _ H0).
  assert (Fp := sec_tail_s_pos _ _ H0). assert (Fw := sec_tail_s_weight _ _ H0).
  assert (Fn := sec_tail_s_needupdate _ _ H0).
  split. { unfold SI in *. rewrite Fpr, Fv, Fl, Fm. exact HSIy. }
  split.
  { unfold SW in *. rewrite Fn, Fp, Fl, Fw, Fv. intros Hnu.
    destruct (HSWy Hnu) as (a & b & c & d & e). repeat split; auto.
    destruct (sec_tail_notl _ _ _ H0) as [Hn | [Hn | Hn]]; rewrite Hn; auto. }
  rewrite Fl, Fp, Fw. repeat split; auto.
Qed.

(* after any successful update the security's value is position x price x multiplier *)
Definition sec_balanced (s : secR) : Prop :=
  match s_price s with
  | Some p => s_value s = s_pos s * p * s_mult s
  | None => s_value s = 0 /\ s_pos s = 0
  end.

Lemma sec_update_balanced date inow (s s' : secR) :
  sec_update date inow s = Ok s' -> SI s -> SW s -> sec_balanced s'.
Proof.
  intros H HSI HSW. destruct (sec_update_inv _ _ _ _ H HSI HSW) as (HSI' & _ & Hl & _).
  unfold sec_balanced, SI in *. rewrite <- Hl. exact HSI'.
Qed.

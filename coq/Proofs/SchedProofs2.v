(* SchedProofs2.v — C12, the date and period-counting schedulers: RunOnDate, RunAfterDate, RunEveryNPeriods
   (model: Algos.run_algo); any number type, any tree. *)
From Coq Require Import ZArith Bool Lia List Arith.
Import ListNotations.
Require Import BT.Num BT.Base BT.Cal BT.Records BT.Engine BT.Ops BT.Algos BT.Proofs.Tac.
Local Open Scope Z_scope.

Section DateScheds.
Variable N : num.
Variable ps : option nat -> tree N (astate N) -> result (tree N (astate N)).
Variable e : env N.
Variable p : list nat.
Local Notation run := (run_algo ps e p).
Local Notation tree := (tree N (astate N)).

(* RunOnDate: True exactly when the target's current date is one of the listed dates (never on a date outside the data:
   such a date is not a row of the index, so it cannot be the current row) *)
Theorem run_on_date_spec ds (tr : tree) g kids st i :
  get_astate p tr = Ok (g, kids, st) -> g_now g = Some i ->
  exists b, run (ARunOnDate N ds) tr = Ok (ARunOnDate N ds, b, tr) /\ (b = true <-> In (ts_of e i) ds).
Proof.
  intros Hg Hn. cbn [run_algo]. rewrite Hg. cbn [bind]. rewrite Hn.
  eexists. split; [reflexivity|]. rewrite existsb_exists. split.
  - intros [x [Hin Hx]]. apply Z.eqb_eq in Hx. subst. exact Hin.
  - intros Hin. exists (ts_of e i). split; [exact Hin | apply Z.eqb_refl].
Qed.

(* RunAfterDate: True exactly on dates strictly after the given date *)
Theorem run_after_date_spec d (tr : tree) g kids st i :
  get_astate p tr = Ok (g, kids, st) -> g_now g = Some i ->
  exists b, run (ARunAfterDate N d) tr = Ok (ARunAfterDate N d, b, tr) /\ (b = true <-> d < ts_of e i).
Proof.
  intros Hg Hn. cbn [run_algo]. rewrite Hg. cbn [bind]. rewrite Hn.
  eexists. split; [reflexivity|]. apply Z.ltb_lt.
Qed.

(* RunEveryNPeriods, one call.  A second call on the same date is ignored ... *)
Theorem run_every_n_same_date n idx (tr : tree) g kids st i :
  get_astate p tr = Ok (g, kids, st) -> g_now g = Some i ->
  run (ARunEveryNPeriods N n idx (Some i)) tr = Ok (ARunEveryNPeriods N n idx (Some i), false, tr).
Proof.
  intros Hg Hn. cbn [run_algo]. rewrite Hg. cbn [bind]. rewrite Hn. cbn [onat_eqb]. rewrite Nat.eqb_refl. reflexivity.
Qed.

(* ... a call on a new date fires iff the counter stands at n - 1, and advances the counter modulo n *)
Definition every_n_next (n idx : Z) : Z := if idx =? n - 1 then 0 else idx + 1.

Theorem run_every_n_new_date n idx lcall (tr : tree) g kids st i :
  get_astate p tr = Ok (g, kids, st) -> g_now g = Some i -> lcall <> Some i ->
  run (ARunEveryNPeriods N n idx lcall) tr =
  Ok (ARunEveryNPeriods N n (every_n_next n idx) (Some i), idx =? n - 1, tr).
Proof.
  intros Hg Hn Hl. cbn [run_algo]. rewrite Hg. cbn [bind]. rewrite Hn.
  assert (E : onat_eqb lcall (Some i) = false).
  { destruct lcall as [j|]; cbn [onat_eqb]; [|reflexivity]. apply Nat.eqb_neq. congruence. }
  rewrite E. cbn [andb]. unfold every_n_next. destruct (idx =? n - 1); reflexivity.
Qed.

End DateScheds.

(* the counter over successive distinct dates: with offset o (initial idx = n - o - 1, as in __init__) the k-th distinct
   date (k = 0, 1, ...) fires iff k = o modulo n *)
Fixpoint every_n_iter (n idx : Z) (k : nat) : Z :=
  match k with O => idx | S k' => every_n_iter n (every_n_next n idx) k' end.

Lemma every_n_next_mod n idx : 0 < n -> 0 <= idx < n -> every_n_next n idx = (idx + 1) mod n.
Proof.
  intros Hn Hi. unfold every_n_next. destruct (Z.eqb_spec idx (n - 1)) as [E|E].
  - subst. replace (n - 1 + 1) with n by lia. symmetry. apply Z_mod_same_full.
  - symmetry. apply Z.mod_small. lia.
Qed.

Lemma every_n_iter_mod n idx k : 0 < n -> 0 <= idx < n -> every_n_iter n idx k = (idx + Z.of_nat k) mod n.
Proof.
  intros Hn. revert idx. induction k as [|k IH]; intros idx Hi; cbn [every_n_iter].
  - rewrite Z.add_0_r. symmetry. apply Z.mod_small. exact Hi.
  - rewrite every_n_next_mod by assumption.
    rewrite IH by (apply Z.mod_pos_bound; exact Hn).
    rewrite Zplus_mod_idemp_l. f_equal. lia.
Qed.

Theorem run_every_n_fires n o k :
  0 < n -> 0 <= o < n ->
  ((every_n_iter n (n - o - 1) k =? n - 1) = true <-> (Z.of_nat k) mod n = o).
Proof.
  intros Hn Ho. rewrite every_n_iter_mod by lia. rewrite Z.eqb_eq.
  pose proof (Z.mod_pos_bound (Z.of_nat k) n Hn) as Hk.
  split; intros H.
  - (* (n - o - 1 + k) mod n = n - 1 *)
    assert (E : (n - o - 1 + Z.of_nat k) mod n = ((Z.of_nat k) mod n + (n - o - 1)) mod n).
    { rewrite Zplus_mod_idemp_l. f_equal. lia. }
    rewrite E in H. clear E.
    set (r := Z.of_nat k mod n) in *.
    destruct (Z_lt_le_dec (r + (n - o - 1)) n) as [L|L].
    + rewrite Z.mod_small in H by lia. lia.
    + replace (r + (n - o - 1)) with ((r - o - 1) + 1 * n) in H by lia.
      rewrite Z_mod_plus_full in H. rewrite Z.mod_small in H by lia. lia.
  - assert (E : (n - o - 1 + Z.of_nat k) mod n = ((Z.of_nat k) mod n + (n - o - 1)) mod n).
    { rewrite Zplus_mod_idemp_l. f_equal. lia. }
    rewrite E, H. replace (o + (n - o - 1)) with (n - 1) by lia. apply Z.mod_small. lia.
Qed.

(* WiringProofs.v — C19 on the model: settings pushed from the top reach every node that construction creates and every
   security created later; a strategy's universe is exactly what it declared; a lazily created security is set up from
   the same data as one constructed up front. *)
From Coq Require Import List Bool Arith.
Import ListNotations.
Require Import BT.Num BT.Base BT.Records BT.Engine BT.Ops BT.Proofs.Tac BT.Proofs.Frames.

Section Wiring.
Variable N : num.
Variable A : Type.
Notation nspec := (nspec N A).
Notation node := (node N A).
Notation t := (carrier N).

Fixpoint nspec_ind' (P : nspec -> Prop)
         (Hs : forall id cls fi m lz, P (SpSec N A id cls fi m lz))
         (Hg : forall id fi a kids, Forall P kids -> P (SpStrat id fi a kids))
         (Hl : forall id fi a kids, Forall P kids -> P (SpLate id fi a kids))
         (sp : nspec) : P sp :=
  let fix go (ks : list nspec) : Forall P ks :=
      match ks with
      | [] => Forall_nil _
      | k :: ks' => Forall_cons _ (nspec_ind' P Hs Hg Hl k) (go ks')
      end in
  match sp with
  | SpSec _ _ id cls fi m lz => Hs id cls fi m lz
  | SpStrat id fi a kids => Hg id fi a kids (go kids)
  | SpLate id fi a kids => Hl id fi a kids (go kids)
  end.

(* the children loop of build_node, named *)
Definition go_kids (d : bdata N) (ip : bool) (comm : t -> t -> t) (fi : bool)
  : list nspec -> result (list node * list (lazysec N)) :=
  fix go (ks : list nspec) : result (list node * list (lazysec N)) :=
    match ks with
    | [] => Ok ([], [])
    | SpSec _ _ kid cls kfi mult true :: ks' =>
      '(ns, lz) <- go ks' ;;
      Ok (ns, mkLazy kid cls kfi mult :: lz)
    | k :: ks' =>
      n <- build_node d ip comm false fi k ;;
      '(ns, lz) <- go ks' ;;
      Ok (n :: ns, lz)
    end.

Definition declared_tickers (kids : list nspec) : list nat :=
  map (@spec_id N A) (filter (fun k => negb (spec_is_strat k)) kids).

Definition strat_universe (late : bool) (d : bdata N) (kids : list nspec) : frame N :=
  if late then d_prices d else
  match kids with
  | [] => d_prices d
  | _ => filter (fun kc => mem_nat (fst kc) (declared_tickers kids)) (d_prices d)
  end.

Definition strat_ucols (d : bdata N) (kids : list nspec) : list (nat * list (cell N)) :=
  map (fun k => (spec_id k, repeat (@None t) (d_nrows d))) (filter (@spec_is_strat N A) kids).

(* what build_node does for a strategy, spelled out *)
Lemma build_strat_eq d ip comm r pfi (late : bool) id fi a kids :
  build_node d ip comm r pfi (if late then SpLate id fi a kids else SpStrat id fi a kids) =
  if fi && negb pfi && negb r then Err EFiChild else
  if has_dup (map (@spec_id N A) kids) then Err EDupChild else
  '(ns, lz) <- go_kids d ip comm fi kids ;;
  let bo_set := match kw_bidoffer (d_kw d) with Some _ => true | None => false end in
  let g := init_strat id fi ip bo_set (negb r) comm (strat_universe late d kids) (d_kw d) (d_nrows d) (strat_ucols d kids) a in
  if r then Ok (NStrat g ns lz None)
  else Ok (NStrat g ns lz (Some (NStrat (g_adjust (npaper N) (n0 N) true (set_g_paper_trade false g)) ns lz None, true))).
Proof. destruct late; reflexivity. Qed.

Lemma mem_nat_In k l : mem_nat k l = true <-> In k l.
Proof.
  induction l as [|x l IH]; cbn; [split; [discriminate|tauto]|].
  rewrite orb_true_iff, IH, Nat.eqb_eq. split; intros [H|H]; auto.
Qed.

(* ---------- universe scoping ---------- *)
Theorem built_universe d ip comm r pfi (late : bool) id fi a kids g ns lz pp :
  build_node d ip comm r pfi (if late then SpLate id fi a kids else SpStrat id fi a kids) = Ok (NStrat g ns lz pp) ->
  g_univ g = strat_universe late d kids /\ map fst (g_ucols g) = map (@spec_id N A) (filter (@spec_is_strat N A) kids).
Proof.
  rewrite build_strat_eq. intros H.
  destruct (fi && negb pfi && negb r); [discriminate|].
  destruct (has_dup _); [discriminate|].
  destruct (go_kids d ip comm fi kids) as [[ns' lz']|]; [|discriminate]. cbn [bind] in H.
  destruct r; inversion H; subst; cbn [g_univ g_ucols init_strat]; (split; [reflexivity|]);
    unfold strat_ucols; rewrite map_map; reflexivity.
Qed.

(* the universe of a strategy that declared tickers holds exactly the declared tickers that have data *)
Theorem declared_universe_columns (d : bdata N) (kids : list nspec) k :
  kids <> [] ->
  (In k (map fst (strat_universe false d kids)) <-> In k (map fst (d_prices d)) /\ In k (declared_tickers kids)).
Proof.
  intros Hk. unfold strat_universe. destruct kids as [|k0 ks]; [congruence|].
  set (D := declared_tickers (k0 :: ks)). rewrite !in_map_iff. split.
  - intros [[c col] [E Hin]]. cbn in E; subst. apply filter_In in Hin. destruct Hin as [Hin Hm]. cbn [fst] in Hm.
    split; [exists (k, col); auto|]. apply mem_nat_In. exact Hm.
  - intros [[[c col] [E Hin]] Hd]. cbn in E; subst. exists (k, col). split; [reflexivity|].
    apply filter_In. split; [exact Hin|]. cbn [fst]. apply mem_nat_In. exact Hd.
Qed.

(* a lazily created security reads the same price column from the filtered universe as an eager one from the data *)
Theorem lazy_same_column (f : frame N) (tickers : list nat) k :
  mem_nat k tickers = true -> lookup k (filter (fun kc => mem_nat (fst kc) tickers) f) = lookup k f.
Proof.
  intros Hm. induction f as [|[j col] f IH]; [reflexivity|]. cbn [filter fst].
  destruct (Nat.eqb_spec k j) as [E|E].
  - subst j. rewrite Hm. cbn [lookup]. rewrite Nat.eqb_refl. reflexivity.
  - destruct (mem_nat j tickers); cbn [lookup]; destruct (Nat.eqb_spec k j); try contradiction; exact IH.
Qed.

(* ---------- settings ---------- *)
Inductive settings_ok (ip : bool) (comm : t -> t -> t) : node -> Prop :=
| so_sec s : s_intpos s = ip -> settings_ok ip comm (NSec s)
| so_strat g kids lz : g_intpos g = ip -> g_comm g = comm -> Forall (settings_ok ip comm) kids ->
                       settings_ok ip comm (NStrat g kids lz None)
| so_paper g kids lz p st : g_intpos g = ip -> g_comm g = comm -> Forall (settings_ok ip comm) kids ->
                            settings_ok ip comm p -> settings_ok ip comm (NStrat g kids lz (Some (p, st))).

Lemma sec_setup_static u kw n ip id cls fi m (s : sec N) :
  sec_setup u kw n ip id cls fi m = Ok s -> s_intpos s = ip /\ s_id s = id /\ s_prices s = lookup id u.
Proof.
  unfold sec_setup. destruct (kw_bidoffer kw) as [f|]; cbn zeta;
    (destruct (class_coupon cls); [destruct (kw_coupons kw) as [cf|]; [destruct (lookup id cf)|]|]);
    cbn [bind]; intros H; inversion H; subst; cbn; auto.
Qed.

Lemma go_kids_settings d ip comm fi (kids : list nspec) :
  Forall (fun k => forall r pfi n, build_node d ip comm r pfi k = Ok n -> settings_ok ip comm n) kids ->
  forall ns lz, go_kids d ip comm fi kids = Ok (ns, lz) -> Forall (settings_ok ip comm) ns.
Proof.
  induction kids as [|k ks IH]; intros HP ns lz H.
  - cbn in H. inversion H; subst. constructor.
  - inversion HP as [|? ? Pk Pks]; subst. specialize (IH Pks).
    assert (Gen : forall n0, build_node d ip comm false fi k = Ok n0 ->
              forall ns0 lz0, go_kids d ip comm fi ks = Ok (ns0, lz0) -> Forall (settings_ok ip comm) (n0 :: ns0)).
    { intros n0 Hb ns0 lz0 Hg. constructor; [eapply Pk; eauto | eapply IH; eauto]. }
    destruct k as [kid cls kfi mult lzf | kid kfi a kk | kid kfi a kk].
    + destruct lzf.
      * cbn [go_kids] in H. fold (go_kids d ip comm fi) in H.
        destruct (go_kids d ip comm fi ks) as [[ns0 lz0]|] eqn:G; [|discriminate]. cbn [bind] in H. inversion H; subst.
        eapply IH; eauto.
      * cbn [go_kids] in H. fold (go_kids d ip comm fi) in H.
        destruct (build_node d ip comm false fi (SpSec N A kid cls kfi mult false)) as [n0|] eqn:B; [|discriminate].
        cbn [bind] in H. destruct (go_kids d ip comm fi ks) as [[ns0 lz0]|] eqn:G; [|discriminate].
        cbn [bind] in H. inversion H; subst. eapply Gen; eauto.
    + cbn [go_kids] in H. fold (go_kids d ip comm fi) in H.
      destruct (build_node d ip comm false fi (SpStrat kid kfi a kk)) as [n0|] eqn:B; [|discriminate].
      cbn [bind] in H. destruct (go_kids d ip comm fi ks) as [[ns0 lz0]|] eqn:G; [|discriminate].
      cbn [bind] in H. inversion H; subst. eapply Gen; eauto.
    + cbn [go_kids] in H. fold (go_kids d ip comm fi) in H.
      destruct (build_node d ip comm false fi (SpLate kid kfi a kk)) as [n0|] eqn:B; [|discriminate].
      cbn [bind] in H. destruct (go_kids d ip comm fi ks) as [[ns0 lz0]|] eqn:G; [|discriminate].
      cbn [bind] in H. inversion H; subst. eapply Gen; eauto.
Qed.

Lemma strat_settings d ip comm (late : bool) id fi a kids :
  Forall (fun k => forall r pfi n, build_node d ip comm r pfi k = Ok n -> settings_ok ip comm n) kids ->
  forall r pfi n, build_node d ip comm r pfi (if late then SpLate id fi a kids else SpStrat id fi a kids) = Ok n ->
                  settings_ok ip comm n.
Proof.
  intros HP r pfi n. rewrite build_strat_eq. intros H.
  destruct (fi && negb pfi && negb r); [discriminate|].
  destruct (has_dup _); [discriminate|].
  destruct (go_kids d ip comm fi kids) as [[ns lz]|] eqn:G; [|discriminate]. cbn [bind] in H.
  pose proof (go_kids_settings d ip comm fi kids HP ns lz G) as Hk.
  destruct r; inversion H; subst.
  - apply so_strat; auto.
  - apply so_paper; auto. apply so_strat; auto.
Qed.

(* integer-position mode and commission function given to the backtest reach every node construction creates,
   the paper copies included *)
Theorem build_pushes_settings d ip comm (sp : nspec) : forall r pfi n,
  build_node d ip comm r pfi sp = Ok n -> settings_ok ip comm n.
Proof.
  induction sp as [id cls fi m lz | id fi a kids IH | id fi a kids IH] using nspec_ind'; intros r pfi n H.
  - cbn [build_node] in H. destruct (sec_setup _ _ _ _ _ _ _ _) as [s|] eqn:E; [|discriminate]. cbn [bind] in H.
    inversion H; subst. constructor. exact (proj1 (sec_setup_static _ _ _ _ _ _ _ _ _ E)).
  - exact (strat_settings d ip comm false id fi a kids IH r pfi n H).
  - exact (strat_settings d ip comm true id fi a kids IH r pfi n H).
Qed.

(* ---------- securities created later ---------- *)
Lemma sec_update_s_intpos date inow (s s' : sec N) : sec_update date inow s = Ok s' -> s_intpos s' = s_intpos s.
Proof.
  unfold sec_update. destruct (_ && _); [discriminate|].
  unfold sec_update_base. destruct (sec_early date s).
  - cbn [bind]. unfold sec_tail. intros H.
    destruct (class_coupon (s_class s)) eqn:Ec.
    + destruct (sec_update_coupon inow _) as [s2|] eqn:E2; [|discriminate]. cbn [bind] in H. inversion H; subst.
      apply sec_update_coupon_s_intpos in E2.
      destruct (class_hedge (s_class s)), (class_fi_notl (s_class s)); autorewrite with frames in *; congruence.
    + cbn [bind] in H. inversion H; subst.
      destruct (class_hedge (s_class s)), (class_fi_notl (s_class s)); autorewrite with frames; reflexivity.
  - destruct (sec_mark inow (sec_roll date inow s)) as [s1|] eqn:E1; [|discriminate]. cbn [bind].
    apply sec_mark_s_intpos in E1. autorewrite with frames in E1.
    unfold sec_tail. intros H.
    set (s2 := sec_flush inow (sec_flag s1)) in *.
    assert (I2 : s_intpos s2 = s_intpos s) by (unfold s2; autorewrite with frames; exact E1).
    destruct (class_coupon (s_class s2)) eqn:Ec.
    + destruct (sec_update_coupon inow _) as [s3|] eqn:E3; [|discriminate]. cbn [bind] in H. inversion H; subst.
      apply sec_update_coupon_s_intpos in E3.
      destruct (class_hedge (s_class s2)), (class_fi_notl (s_class s2)); autorewrite with frames in *; congruence.
    + cbn [bind] in H. inversion H; subst.
      destruct (class_hedge (s_class s2)), (class_fi_notl (s_class s2)); autorewrite with frames; exact I2.
Qed.

(* a security created on first use takes the position mode of the strategy that creates it, and is set up from the
   strategy's own universe *)
Theorem create_child_settings ip comm k (n n' : node) :
  settings_ok ip comm n -> create_child k n = Ok n' -> settings_ok ip comm n'.
Proof.
  intros Hs H. destruct n as [s|g kids lz pp]; [discriminate|]. cbn [create_child] in H.
  destruct (find_kid k kids); [inversion H; subst; exact Hs|].
  destruct (pop_lazy k lz) as [ol lz'].
  match type of H with bind ?X _ = _ => destruct X as [s0|] eqn:E0; [|discriminate] end. cbn [bind] in H.
  match type of H with bind ?X _ = _ => destruct X as [s1|] eqn:E1; [|discriminate] end. cbn [bind] in H.
  inversion H; subst; clear H.
  apply sec_setup_static in E0. destruct E0 as [I0 _].
  assert (I1 : s_intpos s1 = g_intpos g).
  { destruct (date_row (g_nrows g) (g_now g)) as [irow|]; [|discriminate]. cbn [bind] in E1.
    apply sec_update_s_intpos in E1. congruence. }
  inversion Hs as [| ? ? ? Hi Hc Hk | ? ? ? ? ? Hi Hc Hk Hp]; subst.
  - apply so_strat; auto. apply Forall_app. split; [exact Hk|]. constructor; [|constructor]. constructor. congruence.
  - apply so_paper; auto. apply Forall_app. split; [exact Hk|]. constructor; [|constructor]. constructor. congruence.
Qed.

End Wiring.

Arguments strat_universe {N A}. Arguments declared_tickers {N A}. Arguments settings_ok {N A}. Arguments strat_ucols {N A}.

(* PeriodAt.v — C12, the clause "never on a date outside the data": RunPeriod.__call__ as a function of the timestamp
   target.now.  Off the index it answers False; on the index it is run_period at the row of that date. *)
From Coq Require Import List Bool Arith ZArith Lia.
Import ListNotations.
Require Import BT.Num BT.Base BT.Cal BT.Algos.

Lemma index_of_none (x : Z) (l : list Z) : ~ In x l -> index_of x l = None.
Proof.
  induction l as [|y l IH]; intros H; [reflexivity|]. cbn [index_of].
  destruct (Z.eqb_spec x y) as [E|E]; [exfalso; apply H; left; symmetry; exact E|].
  rewrite IH; [reflexivity|]. intros Hi. apply H. right. exact Hi.
Qed.

Lemma index_of_some (x : Z) (l : list Z) : forall i, index_of x l = Some i -> (i < length l)%nat /\ nth i l 0%Z = x.
Proof.
  induction l as [|y l IH]; intros i H; [discriminate|]. cbn [index_of] in H.
  destruct (Z.eqb_spec x y) as [E|E].
  - inversion H; subst. cbn. split; [lia|reflexivity].
  - destruct (index_of x l) as [j|] eqn:Ej; [|discriminate]. inversion H; subst.
    destruct (IH j eq_refl) as [Hl Hn]. cbn. split; [lia|exact Hn].
Qed.

Lemma index_of_nth (l : list Z) : NoDup l -> forall i, (i < length l)%nat -> index_of (nth i l 0%Z) l = Some i.
Proof.
  induction l as [|y l IH]; intros Hd i Hi; [cbn in Hi; lia|]. inversion Hd as [|? ? Hy Hd']; subst.
  destruct i as [|i]; cbn [nth index_of].
  - rewrite Z.eqb_refl. reflexivity.
  - cbn in Hi. destruct (Z.eqb_spec (nth i l 0%Z) y) as [E|E].
    + exfalso. apply Hy. rewrite <- E. apply nth_In. lia.
    + rewrite IH; [reflexivity|exact Hd'|lia].
Qed.

Theorem run_period_at_outside k f e l (dates : list Z) (now : Z) :
  ~ In now dates -> run_period_at k f e l dates now = false.
Proof. intros H. unfold run_period_at. rewrite (index_of_none _ _ H). reflexivity. Qed.

Theorem run_period_at_row k f e l (dates : list Z) (i : nat) :
  NoDup dates -> (i < length dates)%nat -> run_period_at k f e l dates (nth i dates 0%Z) = run_period k f e l dates i.
Proof. intros Hd Hi. unfold run_period_at. rewrite (index_of_nth _ Hd _ Hi). reflexivity. Qed.

(* in particular never on the synthetic pre-start row, whatever the flags *)
Corollary run_period_at_first_row k f e l (d0 : Z) (dates : list Z) :
  run_period_at k f e l (d0 :: dates) d0 = false.
Proof. unfold run_period_at. cbn [index_of]. rewrite Z.eqb_refl. reflexivity. Qed.

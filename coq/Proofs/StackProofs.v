(* StackProofs.v — AlgoStack.__call__, Or, Not (model: Algos.stack_go / or_go / run_algo):
   which algos of a stack are invoked, in which order, and what the stack reports, for every
   stack, every pattern of results and every placement of run_always algos. *)
From Coq Require Import List Bool Arith Lia.
Import ListNotations.
Require Import BT.Num BT.Base BT.Records BT.Engine BT.Ops BT.Algos BT.Proofs.Tac BT.Proofs.PathLemmas.

Section Stack.
Variable N : num.
Local Notation algo := (algo N).
Local Notation tree := (tree N (astate N)).

(* an observable runner: algo x returns [resf x] and leaves the trace [logf x] on the state;
   [Inv] is whatever it needs to run (e.g. "the target path exists") *)
Variable run : algo -> tree -> result (algo * bool * tree).
Variable next : algo -> algo.
Variable resf : algo -> bool.
Variable logf : algo -> tree -> tree.
Variable Inv : tree -> Prop.
(* the algos this is known for (e.g. the test doubles; or all algos for a total runner) *)
Variable P : algo -> Prop.
Hypothesis run_obs : forall x tr, P x -> Inv tr -> run x tr = Ok (next x, resf x, logf x tr) /\ Inv (logf x tr).

Definition always_true (x : algo) : bool := match x with AAlways true _ => true | _ => false end.

(* the algos a stack invokes, in order: everything up to and including the first False,
   then (only in the run_always mode) the later algos marked run_always = True *)
Fixpoint called (has_ra : bool) (res : bool) (l : list algo) : list algo :=
  match l with
  | [] => []
  | x :: l' =>
    if res then
      if negb (resf x) && negb has_ra then [x] else x :: called has_ra (resf x) l'
    else if always_true x then x :: called has_ra false l' else called has_ra false l'
  end.

Definition replay (l : list algo) (tr : tree) : tree := fold_left (fun t x => logf x t) l tr.

Lemma replay_inv l : Forall P l -> forall tr, Inv tr -> Inv (replay l tr).
Proof.
  induction l as [|x l IH]; intros HP tr H; cbn; auto. inversion HP; subst.
  apply IH; auto. apply (run_obs x tr); auto.
Qed.

Theorem stack_go_spec has_ra : forall l res tr, Forall P l -> Inv tr ->
  exists l', stack_go run has_ra l res tr =
             Ok (l', res && forallb resf (if res then l else []), replay (called has_ra res l) tr).
Proof.
  induction l as [|x l IH]; intros res tr HP HI.
  - cbn. exists []. destruct res; reflexivity.
  - inversion HP as [|? ? HPx HPl]; subst. cbn [stack_go called]. destruct res.
    + destruct (run_obs x tr HPx HI) as [Hr HI']. rewrite Hr. cbn [bind].
      destruct (negb (resf x) && negb has_ra) eqn:Es.
      * apply andb_true_iff in Es. destruct Es as [Es _]. apply negb_true_iff in Es.
        eexists. cbn. rewrite Es. reflexivity.
      * destruct (IH (resf x) (logf x tr) HPl HI') as [l' Hl']. rewrite Hl'. cbn [bind].
        eexists. cbn [forallb replay fold_left]. f_equal. f_equal.
        destruct (resf x); reflexivity.
    + destruct x; cbn [always_true];
        try (destruct (IH false tr HPl HI) as [l' Hl']; rewrite Hl'; cbn; eexists; reflexivity).
      destruct flag.
      * destruct (run_obs (AAlways true x) tr HPx HI) as [Hr HI']. rewrite Hr. cbn [bind].
        destruct (IH false _ HPl HI') as [l' Hl']. rewrite Hl'. cbn. eexists. reflexivity.
      * destruct (IH false tr HPl HI) as [l' Hl']. rewrite Hl'. cbn. eexists. reflexivity.
Qed.

(* what a stack reports: True iff every algo it got to returned True, i.e. iff all return True *)
Corollary stack_result has_ra l tr : Forall P l -> Inv tr ->
  exists l' tr', stack_go run has_ra l true tr = Ok (l', forallb resf l, tr').
Proof. intros HP H. destruct (stack_go_spec has_ra l true tr HP H) as [l' E]. eauto. Qed.

(* plain mode (no algo carries run_always): exactly the prefix up to and including the first False *)
Fixpoint prefix_to_first_false (l : list algo) : list algo :=
  match l with
  | [] => []
  | x :: l' => if resf x then x :: prefix_to_first_false l' else [x]
  end.

Lemma called_false_none has_ra l : existsb always_true l = false -> called has_ra false l = [].
Proof.
  induction l as [|x l IH]; cbn; auto. intros H. apply orb_false_iff in H. destruct H as [H1 H2].
  rewrite H1. auto.
Qed.

Theorem called_plain l : called false true l = prefix_to_first_false l.
Proof.
  induction l as [|x l IH]; cbn; auto.
  destruct (resf x); cbn; [f_equal; exact IH | reflexivity].
Qed.

(* run_always mode: the same prefix, followed by the later algos whose run_always is True *)
Fixpoint after_first_false (l : list algo) : list algo :=
  match l with
  | [] => []
  | x :: l' => if resf x then after_first_false l' else l'
  end.

Lemma called_false_filter l : called true false l = filter always_true l.
Proof. induction l as [|x l IH]; cbn; auto. destruct (always_true x); rewrite IH; reflexivity. Qed.

Theorem called_run_always l :
  called true true l = prefix_to_first_false l ++ filter always_true (after_first_false l).
Proof.
  induction l as [|x l IH]; cbn; auto.
  destruct (resf x); cbn; [f_equal; exact IH | f_equal; apply called_false_filter].
Qed.

(* the two execution modes agree when no algo is marked run_always = True *)
Theorem modes_agree l : existsb always_true l = false -> called true true l = called false true l.
Proof.
  intros H. rewrite called_run_always, called_plain.
  assert (Hf : forall l0, existsb always_true l0 = false -> filter always_true l0 = []).
  { induction l0 as [|y l0 IH0]; cbn; auto. intros H0. apply orb_false_iff in H0. destruct H0 as [H1 H2].
    rewrite H1. auto. }
  assert (Ha : existsb always_true (after_first_false l) = false).
  { clear Hf. induction l as [|x l IH]; cbn in *; auto. apply orb_false_iff in H. destruct H as [H1 H2].
    destruct (resf x); auto. }
  rewrite (Hf _ Ha). apply app_nil_r.
Qed.

(* Or: every branch is invoked exactly once, in order; the result is the disjunction *)
Theorem or_go_spec : forall l res tr, Forall P l -> Inv tr ->
  or_go run l res tr = Ok (map next l, res || existsb resf l, replay l tr).
Proof.
  induction l as [|x l IH]; intros res tr HP HI; cbn.
  - rewrite orb_false_r. reflexivity.
  - inversion HP as [|? ? HPx HPl]; subst.
    destruct (run_obs x tr HPx HI) as [Hr HI']. rewrite Hr. cbn [bind]. rewrite (IH _ _ HPl HI'). cbn.
    rewrite orb_assoc. reflexivity.
Qed.

End Stack.

(* ---------- the interpreter dispatches to these ---------- *)
Section Interp.
Variable N : num.
Variable ps : option nat -> tree N (astate N) -> result (tree N (astate N)).
Variable e : env N.
Variable p : list nat.

Lemma run_algo_stack l tr :
  run_algo ps e p (AStack l) tr =
  bind (stack_go (run_algo ps e p) (existsb (@is_always N) l) l true tr)
       (fun r => let '(l', b, tr') := r in Ok (AStack l', b, tr')).
Proof. reflexivity. Qed.

Lemma run_algo_or l tr :
  run_algo ps e p (AOr l) tr =
  bind (or_go (run_algo ps e p) l false tr) (fun r => let '(l', b, tr') := r in Ok (AOr l', b, tr')).
Proof. reflexivity. Qed.

(* Not inverts *)
Lemma run_algo_not a tr a' b tr' :
  run_algo ps e p a tr = Ok (a', b, tr') -> run_algo ps e p (ANot a) tr = Ok (ANot a', negb b, tr').
Proof. intros H. cbn [run_algo]. rewrite H. reflexivity. Qed.

(* Require: the predicate on the temp entry, its default when the entry is absent *)
Lemma run_algo_require pr item d tr g kids st :
  get_astate p tr = Ok (g, kids, st) ->
  run_algo ps e p (ARequire N pr item d) tr =
  Ok (ARequire N pr item d,
      match (match item with
             | TSelected => option_map (@length nat) (t_selected (a_temp st))
             | TWeights => option_map (@length (nat * carrier N)) (t_weights (a_temp st))
             | TStat => option_map (@length (nat * cell N)) (t_stat (a_temp st))
             end) with
      | None => d
      | Some len => apply_pred pr len
      end, tr).
Proof.
  intros H. cbn [run_algo]. rewrite H. cbn [bind].
  destruct item; cbn;
    [destruct (t_selected (a_temp st)) | destruct (t_weights (a_temp st)) | destruct (t_stat (a_temp st))];
    reflexivity.
Qed.

(* ---------- a concrete observable runner: the interpreter on test doubles ---------- *)
Definition mockish (x : algo N) : Prop :=
  match x with
  | AMock _ _ _ => True
  | AAlways _ (AMock _ _ _) => True
  | _ => False
  end.
Definition m_id (x : algo N) : nat :=
  match x with AMock _ id _ => id | AAlways _ (AMock _ id _) => id | _ => 0 end.
Definition m_res (x : algo N) : bool :=
  match x with AMock _ _ rs => hd true rs | AAlways _ (AMock _ _ rs) => hd true rs | _ => true end.
Definition m_next (x : algo N) : algo N :=
  match x with
  | AMock _ id rs => AMock N id (tl rs)
  | AAlways f (AMock _ id rs) => AAlways f (AMock N id (tl rs))
  | _ => x
  end.
Definition m_log (x : algo N) (tr : tree N (astate N)) : tree N (astate N) :=
  match upd_astate p (add_a_log (m_id x)) tr with Ok t => t | Err _ => tr end.
Definition m_inv (tr : tree N (astate N)) : Prop :=
  exists g k l pp, get_node p (fst tr) = Some (NStrat g k l pp).

Lemma upd_astate_ok f (tr : tree N (astate N)) g k l pp :
  get_node p (fst tr) = Some (NStrat g k l pp) ->
  exists tr', upd_astate p f tr = Ok tr' /\
              get_node p (fst tr') = Some (NStrat (set_g_algo (f (g_algo g)) g) k l pp).
Proof.
  intros H. unfold upd_astate, tree_at.
  destruct (@at_path_strat_map N (astate N) (fun g0 => set_g_algo (f (g_algo g0)) g0) (fun _ => eq_refl) p None (fst tr) g k l pp H)
    as (n' & H1 & H2 & _).
  unfold strat_map in H1. rewrite H1. cbn. eexists. split; [reflexivity|]. exact H2.
Qed.

Lemma mock_run_obs x tr :
  mockish x -> m_inv tr ->
  run_algo ps e p x tr = Ok (m_next x, m_res x, m_log x tr) /\ m_inv (m_log x tr).
Proof.
  intros Hm (g & k & l & pp & Hg).
  destruct (upd_astate_ok (add_a_log (m_id x)) tr g k l pp Hg) as (tr' & Hu & Hg').
  assert (Hl : m_log x tr = tr') by (unfold m_log; rewrite Hu; reflexivity).
  rewrite Hl. split; [| do 4 eexists; exact Hg'].
  destruct x; try contradiction.
  - (* AAlways flag (AMock ..) *)
    destruct x; try contradiction. cbn in Hu. cbn [run_algo m_next m_res]. rewrite Hu. cbn [bind].
    destruct results; reflexivity.
  - (* AMock *)
    cbn in Hu. cbn [run_algo m_next m_res]. rewrite Hu. cbn [bind]. destruct results; reflexivity.
Qed.

(* hence, for every stack of test doubles, with any scripted results and any run_always marking:
   the doubles are invoked exactly as [called] says and the stack reports the conjunction *)
Theorem mock_stack_spec l tr :
  Forall mockish l -> m_inv tr ->
  exists l', run_algo ps e p (AStack l) tr =
             Ok (AStack l', forallb m_res l,
                 @replay N m_log (@called N m_res (existsb (@is_always N) l) true l) tr).
Proof.
  intros HP HI. rewrite run_algo_stack.
  destruct (@stack_go_spec N (run_algo ps e p) m_next m_res m_log m_inv mockish mock_run_obs
                          (existsb (@is_always N) l) l true tr HP HI) as [l' E].
  rewrite E. cbn. eexists. reflexivity.
Qed.

End Interp.

Arguments replay {N} logf l tr.
Arguments called {N} resf has_ra res l.
Arguments prefix_to_first_false {N} resf l.
Arguments after_first_false {N} resf l.

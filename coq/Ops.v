(* Ops.v — construction (Node.__init__ / setup), lazy child creation and the public
   operations of bt.core addressed by a path from the root; the operation interpreter
   used by the correspondence check. *)

From Coq Require Import List Bool Arith ZArith.
Import ListNotations.
Require Import BT.Num BT.Base BT.Records BT.Engine.
Set Implicit Arguments.

Section Ops.
Variable N : num.
Variable A : Type.
Local Notation t := (carrier N).
Local Notation cell := (cell N).
Local Notation frame := (frame N).
Local Notation kwargs := (kwargs N).
Local Notation sec := (sec N).
Local Notation strat := (strat N A).
Local Notation node := (node N A).
Local Notation tree := (tree N A).
Local Notation adj := (adj N).
Local Notation lazysec := (lazysec N).

Declare Scope num_scope.
Local Infix "+" := (nadd N) : num_scope.
Local Infix "-" := (nsub N) : num_scope.
Local Infix "*" := (nmul N) : num_scope.
Local Infix "/" := (ndiv N) : num_scope.
Local Notation "- x" := (nopp N x) : num_scope.
Local Infix "<?" := (nltb N) : num_scope.
Local Infix "=?" := (neqb N) : num_scope.
Local Notation "0" := (n0 N) : num_scope.
Local Notation "1" := (n1 N) : num_scope.
Local Notation is_zero := (nis_zero N).
Local Open Scope num_scope.

Variable paper_step : option nat -> tree -> result tree.

(* ------------------------------------------------------------------ *)
(* construction                                                         *)
(* ------------------------------------------------------------------ *)
Inductive nspec :=
| SpSec (id : nat) (cls : sclass) (fi : bool) (mult : t) (lazy_add : bool)
| SpStrat (id : nat) (fi : bool) (a : A) (kids : list nspec)
(* a strategy constructed without children whose sub-strategies are attached afterwards (Strategy(..., parent=s)):
   it declared no ticker, so its universe is not filtered *)
| SpLate (id : nat) (fi : bool) (a : A) (kids : list nspec).

Record bdata := mkData { d_nrows : nat; d_prices : frame; d_kw : kwargs }.

Definition zeros (n : nat) : list t := repeat 0 n.

(* SecurityBase.setup / CouponPayingSecurity.setup *)
Definition sec_setup (univ : frame) (kw : kwargs) (nrows : nat) (intpos : bool)
           (id : nat) (cls : sclass) (fi : bool) (mult : t) : result sec :=
  let '(bo_set, bos) :=
    match kw_bidoffer kw with
    | None => (false, repeat (Some 0) nrows)
    | Some f => (true, match lookup id f with Some c => c | None => repeat (Some 0) nrows end)
    end in
  cps <- (if class_coupon cls then
            match kw_coupons kw with
            | None => Err ECouponsMissing
            | Some f => match lookup id f with Some c => Ok (Some c) | None => Err ECouponIdx end
            end
          else Ok None) ;;
  let cl := if class_coupon cls then match kw_cost_long kw with Some f => lookup id f | None => None end else None in
  let cs := if class_coupon cls then match kw_cost_short kw with Some f => lookup id f | None => None end else None in
  Ok (mkSec id cls (class_coupon cls && fi) mult intpos (lookup id univ) bo_set bos cps cl cs
            None 0 0 (Some 0) 0 0 0 true 0 (Some 0) 0 0 0 0
            (zeros nrows) (zeros nrows) (zeros nrows) (zeros nrows) (zeros nrows) (zeros nrows) (zeros nrows) []).

Definition spec_id (s : nspec) : nat :=
  match s with SpSec id _ _ _ _ => id | SpStrat id _ _ _ => id | SpLate id _ _ _ => id end.
Definition spec_is_strat (s : nspec) : bool := match s with SpSec _ _ _ _ _ => false | _ => true end.
Definition spec_is_late (s : nspec) : bool := match s with SpLate _ _ _ _ => true | _ => false end.

Fixpoint has_dup (l : list nat) : bool :=
  match l with [] => false | x :: l' => mem_nat x l' || has_dup l' end.

Definition init_strat (id : nat) (fi intpos bo_set paper_trade : bool) (comm : t -> t -> t)
           (univ : frame) (kw : kwargs) (nrows : nat) (ucols : list (nat * list cell)) (a : A) : strat :=
  mkStrat id fi intpos bo_set paper_trade comm univ kw nrows
          None 0 0 0 1 (npar N) 0 0 0 (npar N) 0 0 false
          (zeros nrows) (zeros nrows) (zeros nrows) (zeros nrows) (zeros nrows) (zeros nrows) (zeros nrows)
          ucols [] [] a.

(* Node.__init__ + StrategyBase.setup for the node [sp] whose parent has
   fixed_income = [pfi]; [is_root] = the node is its own parent *)
Fixpoint build_node (d : bdata) (intpos : bool) (comm : t -> t -> t) (is_root pfi : bool) (sp : nspec)
  {struct sp} : result node :=
  match sp with
  | SpSec id cls fi mult _ =>
    s <- sec_setup (d_prices d) (d_kw d) (d_nrows d) intpos id cls fi mult ;;
    Ok (NSec s)
  | SpStrat id fi a kids | SpLate id fi a kids =>
    if fi && negb pfi && negb is_root then Err EFiChild else
    if has_dup (map spec_id kids) then Err EDupChild else
    let tickers := map spec_id (filter (fun k => negb (spec_is_strat k)) kids) in
    let univ := if spec_is_late sp then d_prices d else
                match kids with
                | [] => d_prices d
                | _ => filter (fun kc => mem_nat (fst kc) tickers) (d_prices d)
                end in
    let ucols := map (fun k => (spec_id k, repeat (@None t) (d_nrows d))) (filter spec_is_strat kids) in
    let fix go (ks : list nspec) : result (list node * list lazysec) :=
      match ks with
      | [] => Ok ([], [])
      | SpSec kid cls kfi mult true :: ks' =>
        '(ns, lz) <- go ks' ;;
        Ok (ns, mkLazy kid cls kfi mult :: lz)
      | k :: ks' =>
        n <- build_node d intpos comm false fi k ;;
        '(ns, lz) <- go ks' ;;
        Ok (n :: ns, lz)
      end in
    '(ns, lz) <- go kids ;;
    let bo_set := match kw_bidoffer (d_kw d) with Some _ => true | None => false end in
    let g := init_strat id fi intpos bo_set (negb is_root) comm univ (d_kw d) (d_nrows d) ucols a in
    if is_root then Ok (NStrat g ns lz None)
    else
      (* paper = deepcopy(self) made its own root, set up, adjusted by 1e6 *)
      let gp := set_g_paper_trade false g in
      let gp := g_adjust (npaper N) 0 true gp in
      Ok (NStrat g ns lz (Some (NStrat gp ns lz None, true)))
  end.

Definition build (d : bdata) (intpos : bool) (comm : t -> t -> t) (sp : nspec) : result tree :=
  if has_dup (map fst (d_prices d)) then Err EDupColumn else
  n <- build_node d intpos comm true false sp ;;
  Ok (n, false).

(* ------------------------------------------------------------------ *)
(* navigation                                                           *)
(* ------------------------------------------------------------------ *)
Fixpoint find_kid (k : nat) (ks : list node) : option node :=
  match ks with
  | [] => None
  | c :: ks' => if Nat.eqb (node_id c) k then Some c else find_kid k ks'
  end.

Fixpoint get_node (p : list nat) (n : node) : option node :=
  match p with
  | [] => Some n
  | k :: p' =>
    match n with
    | NSec _ => None
    | NStrat _ kids _ _ => match find_kid k kids with Some c => get_node p' c | None => None end
    end
  end.

(* context a child sees of its parent *)
Record pctx := mkCtx { c_now : option nat; c_comm : t -> t -> t; c_fi : bool }.

Section AtKid.
Variable k : nat.
Variable f : node -> result (node * option adj * bool).
Fixpoint at_kid (ks : list node) : result (list node * option adj * bool) :=
  match ks with
  | [] => Err EKey
  | c :: ks' =>
    if Nat.eqb (node_id c) k then
      '(c, oa, st) <- f c ;;
      Ok (c :: ks', oa, st)
    else
      '(ks'', oa, st) <- at_kid ks' ;;
      Ok (c :: ks'', oa, st)
  end.
End AtKid.

(* apply [f] at the node reached by [p]; the adjustment it returns is booked by the
   immediate parent; the stale request travels to the root *)
Fixpoint at_path (p : list nat) (f : option pctx -> node -> result (node * option adj * bool))
         (ctx : option pctx) (n : node) {struct p} : result (node * option adj * bool) :=
  match p with
  | [] => f ctx n
  | k :: p' =>
    match n with
    | NSec _ => Err EKey
    | NStrat g kids lz paper =>
      '(kids, oa, st) <- at_kid k (at_path p' f (Some (mkCtx (g_now g) (g_comm g) (g_fi g)))) kids ;;
      Ok (NStrat (apply_adj oa g) kids lz paper, None, st || adj_stale oa)
    end
  end.

Definition tree_at (p : list nat) (f : option pctx -> node -> result (node * option adj * bool))
           (tr : tree) : result tree :=
  '(n, _, st) <- at_path p f None (fst tr) ;;
  Ok (n, snd tr || st).

Definition get_strat (p : list nat) (tr : tree) : result (strat * list node) :=
  match get_node p (fst tr) with
  | Some (NStrat g kids _ _) => Ok (g, kids)
  | _ => Err EKey
  end.

(* ------------------------------------------------------------------ *)
(* lazy child creation                                                  *)
(* ------------------------------------------------------------------ *)
Fixpoint pop_lazy (k : nat) (lz : list lazysec) : option lazysec * list lazysec :=
  match lz with
  | [] => (None, [])
  | l :: lz' =>
    if Nat.eqb (lz_id l) k then (Some l, lz')
    else let '(r, rest) := pop_lazy k lz' in (r, l :: rest)
  end.

(* StrategyBase._create_child_if_needed *)
Definition create_child (k : nat) (n : node) : result node :=
  match n with
  | NSec _ => Err EAttr
  | NStrat g kids lz paper =>
    match find_kid k kids with
    | Some _ => Ok n
    | None =>
      let '(ol, lz) := pop_lazy k lz in
      let l := match ol with Some l => l | None => mkLazy k CSec false 1 end in
      s <- sec_setup (g_univ g) (g_kw g) (g_nrows g) (g_intpos g) (lz_id l) (lz_class l) (lz_fi l) (lz_mult l) ;;
      s <- (irow <- date_row (g_nrows g) (g_now g) ;; sec_update (g_now g) irow s) ;;
      Ok (NStrat g (kids ++ [NSec s]) lz paper)
    end
  end.

Definition tree_create_child (p : list nat) (k : nat) (tr : tree) : result tree :=
  tree_at p (fun _ n => n <- create_child k n ;; Ok (n, None, false)) tr.

(* ------------------------------------------------------------------ *)
(* operations                                                           *)
(* ------------------------------------------------------------------ *)
Definition lift2 (r : result (node * option adj)) (st : bool) : result (node * option adj * bool) :=
  '(n, oa) <- r ;; Ok (n, oa, st || adj_stale oa).

(* node.allocate(amount, update) called on the node itself *)
Definition op_allocate_self (amount : t) (upd : bool) (ctx : option pctx) (n : node)
  : result (node * option adj * bool) :=
  match n, ctx with
  | NSec s, None => Err EParentless
  | NSec s, Some c => lift2 (node_allocate (c_now c) (c_comm c) amount upd n) false
  | NStrat g kids lz paper, None =>
    (* root: self.parent is self — the flow is booked on the node itself, first *)
    let g := g_adjust (- amount) 0 true g in
    '(n, _) <- node_allocate None (g_comm g) amount upd (NStrat g kids lz paper) ;;
    Ok (n, None, upd)
  | NStrat _ _ _ _, Some c => lift2 (node_allocate (c_now c) (c_comm c) amount upd n) upd
  end.

Definition op_transact_self (q : t) (upd : bool) (price : option t) (ctx : option pctx) (n : node)
  : result (node * option adj * bool) :=
  match n, ctx with
  | NSec s, None => Err EParentless
  | NSec s, Some c =>
    '(s, oa) <- sec_transact (c_now c) (c_comm c) q upd true price s ;;
    Ok (NSec s, oa, adj_stale oa)
  | NStrat _ _ _ _, None => lift2 (node_transact None (fun _ _ => 0) q upd n) upd
  | NStrat _ _ _ _, Some c => lift2 (node_transact (c_now c) (c_comm c) q upd n) upd
  end.

Definition node_fi (n : node) : bool := match n with NSec s => s_fi s | NStrat g _ _ _ => g_fi g end.

(* StrategyBase.flatten on the strategy at [p] *)
Definition op_flatten (p : list nat) (tr : tree) : result tree :=
  '(g, kids) <- get_strat p tr ;;
  tr <- (match kids with
         | [] => Ok tr
         | _ => if g_fi g then Ok tr else refresh paper_step tr
         end) ;;
  '(n, _, _) <- at_path p (fun _ n =>
       match n with
       | NStrat g kids lz paper =>
         '(kids, g) <- flatten_kids (g_fi g) kids g ;;
         Ok (NStrat g kids lz paper, None, true)
       | _ => Err EAttr
       end) None (fst tr) ;;
  Ok (n, true).

Definition has_children (n : node) : bool :=
  match n with NStrat _ (_ :: _) _ _ => true | _ => false end.

(* StrategyBase.close(child, update) on the strategy at [p] *)
Definition op_close (p : list nat) (k : nat) (upd : bool) (tr : tree) : result tree :=
  '(g, kids) <- get_strat p tr ;;
  match find_kid k kids with
  | None => Err EKey
  | Some c =>
    tr <- (if has_children c then op_flatten (p ++ [k]) tr else Ok tr) ;;
    if g_fi g then
      match get_node (p ++ [k]) (fst tr) with
      | Some c =>
        pos <- raw_position c ;;
        if negb (pos =? 0) then tree_at (p ++ [k]) (op_transact_self (- pos) upd None) tr else Ok tr
      | None => Err EKey
      end
    else
      tr <- refresh paper_step tr ;;
      match get_node (p ++ [k]) (fst tr) with
      | Some c =>
        let v := raw_value c in
        if negb (v =? 0) then tree_at (p ++ [k]) (op_allocate_self (- v) upd) tr else Ok tr
      | None => Err EKey
      end
  end.

(* StrategyBase.rebalance(weight, child, base, update) on the strategy at [p] *)
Definition op_rebalance (p : list nat) (w : t) (k : nat) (base : option t) (upd : bool) (tr : tree)
  : result tree :=
  '(g, kids) <- get_strat p tr ;;
  if is_zero w then
    match find_kid k kids with Some _ => op_close p k upd tr | None => Ok tr end
  else
    '(tr, base) <- (match base with
                    | Some b => Ok (tr, b)
                    | None =>
                      tr <- refresh paper_step tr ;;
                      '(g, _) <- get_strat p tr ;;
                      Ok (tr, if g_fi g then g_notl g else g_value g)
                    end) ;;
    tr <- tree_create_child p k tr ;;
    tr <- refresh paper_step tr ;;
    '(g, kids) <- get_strat p tr ;;
    match find_kid k kids with
    | None => Err EKey
    | Some c =>
      if g_fi g then
        let delta := w * base - raw_weight c * g_notl g in
        if node_fi c then tree_at (p ++ [k]) (op_transact_self delta upd None) tr
        else tree_at (p ++ [k]) (op_allocate_self delta upd) tr
      else
        let delta := w - raw_weight c in
        tree_at (p ++ [k]) (op_allocate_self (delta * base) upd) tr
    end.

Inductive rfield := RValue | RWeight | RNotl | RPrice | RSeries.
(* RSeries: read every history accessor (prices, values, positions, ...): the model hands out
   firstn (inow+1) by construction and answers 1; the implementation answers 1 iff every series it
   hands out ends at the current date *)

Inductive op :=
| OUpdate (date : option nat)
| OAdjust (p : list nat) (amount : t) (upd flow : bool) (fee : t)
| OAllocate (p : list nat) (amount : t) (child : option nat) (upd : bool)
| OTransact (p : list nat) (q : t) (child : option nat) (upd : bool) (price : option t)
| ORebalance (p : list nat) (w : t) (child : nat) (base : option t) (upd : bool)
| OClose (p : list nat) (child : nat) (upd : bool)
| OFlatten (p : list nat)
| ORead (p : list nat) (f : rfield).

(* property reads: the returned cell is the value handed to the caller *)
(* SecurityBase.price & co: "if self._needupdate or self.now != self.parent.now: self.update(self.root.now)" *)
Definition sec_self_update (p : list nat) (tr : tree) : result tree :=
  match p with
  | [] => Err EParentless
  | _ =>
    '(n, _, _) <- at_path p (fun ctx n =>
        match n, ctx with
        | NSec s, Some c =>
          s <- (if s_needupdate s || negb (onat_eqb (s_now s) (c_now c))
                then (irow <- date_row (length (h_values s)) (root_now tr) ;; sec_update (root_now tr) irow s)
                else Ok s) ;;
          Ok (NSec s, None, false)
        | _, _ => Err EOther
        end) None (fst tr) ;;
    Ok (n, snd tr)
  end.

Definition op_read (p : list nat) (f : rfield) (tr : tree) : result (tree * cell) :=
  match get_node p (fst tr), f with
  | None, _ => Err EKey
  | Some (NSec _), RPrice =>
    tr <- sec_self_update p tr ;;
    match get_node p (fst tr) with
    | Some (NSec s) => Ok (tr, s_price s)
    | _ => Err EOther
    end
  | Some (NSec s0), RSeries =>
    (* coupons / holding_costs are read first (coupon classes): they only refresh the tree *)
    tr <- (if class_coupon (s_class s0) then refresh paper_step tr else Ok tr) ;;
    tr <- sec_self_update p tr ;;
    tr <- refresh paper_step tr ;;
    Ok (tr, Some 1)
  | Some _, _ =>
    tr <- refresh paper_step tr ;;
    match get_node p (fst tr) with
    | None => Err EKey
    | Some n =>
      Ok (tr, Some (match f, n with
                    | RValue, _ => raw_value n
                    | RWeight, _ => raw_weight n
                    | RNotl, _ => raw_notl n
                    | RPrice, NStrat g _ _ _ => g_price g
                    | RPrice, NSec s => 0
                    | RSeries, _ => 1
                    end))
    end
  end.

Definition apply_op (o : op) (tr : tree) : result (tree * cell) :=
  match o with
  | OUpdate date => tr <- root_update paper_step date tr ;; Ok (tr, None)
  | OAdjust p amount upd flow fee =>
    tr <- tree_at p (fun _ n =>
            match n with
            | NStrat g kids lz paper => Ok (NStrat (g_adjust amount fee flow g) kids lz paper, None, upd)
            | _ => Err EAttr
            end) tr ;;
    Ok (tr, None)
  | OAllocate p amount None upd =>
    tr <- tree_at p (op_allocate_self amount upd) tr ;; Ok (tr, None)
  | OAllocate p amount (Some k) _ =>
    tr <- tree_create_child p k tr ;;
    tr <- tree_at (p ++ [k]) (op_allocate_self amount true) tr ;; Ok (tr, None)
  | OTransact p q None upd price =>
    tr <- tree_at p (op_transact_self q upd price) tr ;; Ok (tr, None)
  | OTransact p q (Some k) _ _ =>
    tr <- tree_create_child p k tr ;;
    tr <- tree_at (p ++ [k]) (op_transact_self q true None) tr ;; Ok (tr, None)
  | ORebalance p w k base upd => tr <- op_rebalance p w k base upd tr ;; Ok (tr, None)
  | OClose p k upd => tr <- op_close p k upd tr ;; Ok (tr, None)
  | OFlatten p => tr <- op_flatten p tr ;; Ok (tr, None)
  | ORead p f => op_read p f tr
  end.

(* ------------------------------------------------------------------ *)
(* commission functions used by the correspondence check (any function *)
(* t -> t -> t is admitted by the model; these are the generated ones) *)
(* ------------------------------------------------------------------ *)
Inductive commspec :=
| CmNone
| CmFlat (c : t)               (* lambda q, p: c *)
| CmPerShare (c : t)           (* lambda q, p: abs(q) * c *)
| CmProp (r : t)               (* lambda q, p: abs(q) * p * r *)
| CmMaxFlat (a b : t).         (* lambda q, p: max(a, abs(q) * b) *)

Definition comm_eval (c : commspec) (q p : t) : t :=
  match c with
  | CmNone => 0
  | CmFlat c => c
  | CmPerShare c => nabs N q * c
  | CmProp r => nabs N q * p * r
  | CmMaxFlat a b => let x := nabs N q * b in if a <? x then x else a
  end.

(* the paper step of a tree whose strategies have no algos (StrategyBase.run is a no-op):
   update; run; update; refresh — closed by recursion on the nesting level *)
End Ops.

Section Knot.
Variable N : num.
Variable A : Type.
(* Strategy.run on a stand-alone root, given the paper step of the level below *)
Variable run : (option nat -> tree N A -> result (tree N A)) -> tree N A -> result (tree N A).

Fixpoint paper_step_l (l : nat) (date : option nat) (p : tree N A) {struct l} : result (tree N A) :=
  match l with
  | O => Err EOutOfFuel
  | S l' =>
    let ps := paper_step_l l' in
    p <- root_update ps date p ;;
    (* like Backtest.run: a bankrupt strategy no longer runs its algos *)
    if (match fst p with NStrat g _ _ _ => g_bankrupt g | NSec _ => false end) then refresh ps p else
    p <- run ps p ;;
    p <- root_update ps date p ;;
    refresh ps p
  end.
End Knot.

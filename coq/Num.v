(* Num.v — the number interface of the bt model and its three instances.

   FNum : IEEE binary64 (Coq kernel primitive floats) — the instance compared with the
          Python implementation by the correspondence check.
   QNum : exact rationals, computable — used for vm_compute witnesses and examples.
   RNum : real numbers — the instance the property theorems are stated about.

   One functor body (Engine.v, ...) is applied to all three, so they are the same
   program text.  The single deliberate idealisation is [tol]: the float instance
   uses bt's TOL = 1e-16 inside [is_zero]; the exact instances use 0, i.e.
   [is_zero x] is [x = 0]. *)

From Coq Require Import ZArith QArith Qround Qabs Reals Bool Lra Lia.
From Coq Require PrimFloat Uint63 FloatOps.

Record num := mkNum {
  carrier : Type;
  n0 : carrier; n1 : carrier; nhalf : carrier; npar : carrier; npaper : carrier;
  nadd : carrier -> carrier -> carrier;
  nsub : carrier -> carrier -> carrier;
  nmul : carrier -> carrier -> carrier;
  ndiv : carrier -> carrier -> carrier;
  nopp : carrier -> carrier;
  nabs : carrier -> carrier;
  nfloor : carrier -> carrier;
  nceil : carrier -> carrier;
  nltb : carrier -> carrier -> bool;
  nleb : carrier -> carrier -> bool;
  neqb : carrier -> carrier -> bool;
  (* bt.core.is_zero : abs(x) < TOL *)
  nis_zero : carrier -> bool;
  (* numpy.isclose(a, b, rtol=TOL) with the default atol = 1e-8 *)
  nisclose : carrier -> carrier -> bool;
  nofZ : Z -> carrier;
  (* floor as an integer: Python's int(x) for x >= 0 *)
  nfloorZ : carrier -> Z;
  (* numpy.rint: round half to even (exact instances: floor(x + 1/2), differing only on exact ties) *)
  nrint : carrier -> carrier
}.

(* ------------------------------------------------------------------ *)
(* binary64                                                             *)
(* ------------------------------------------------------------------ *)
Module FNum.
  Import PrimFloat.
  Definition t := float.
  Definition zero : t := 0%float.
  Definition one : t := 1%float.
  Definition half : t := 0x1p-1%float.
  Definition par : t := 0x1.9p+6%float.
  Definition paper_amount : t := 0x1.e848p+19%float.
  Definition tol : t := 0x1.cd2b297d889bcp-54%float.
  Definition atol : t := 0x1.5798ee2308c3ap-27%float.
  Definition two52 : t := 0x1p+52%float.
  (* eta-expanded on purpose: aliases of primitives stay stuck under vm_compute
     when reached through a functor instance *)
  Definition add (a b : t) : t := PrimFloat.add a b.
  Definition sub (a b : t) : t := PrimFloat.sub a b.
  Definition mul (a b : t) : t := PrimFloat.mul a b.
  Definition div (a b : t) : t := PrimFloat.div a b.
  Definition opp (a : t) : t := PrimFloat.opp a.
  Definition abs (a : t) : t := PrimFloat.abs a.
  Definition ltb (a b : t) : bool := PrimFloat.ltb a b.
  Definition leb (a b : t) : bool := PrimFloat.leb a b.
  Definition eqb (a b : t) : bool := PrimFloat.eqb a b.
  (* round-half-even to an integer, valid for 0 <= a < 2^52 *)
  Definition rint_small (a : t) : t := PrimFloat.sub (PrimFloat.add a two52) two52.
  Definition floor (x : t) : t :=
    if PrimFloat.ltb (PrimFloat.abs x) two52 then
      if PrimFloat.leb zero x then
        let r := rint_small x in
        if PrimFloat.ltb x r then PrimFloat.sub r one else r
      else
        let a := PrimFloat.opp x in
        let r := rint_small a in
        let c := if PrimFloat.ltb r a then PrimFloat.add r one else r in
        PrimFloat.opp c
    else x.
  Definition ceil (x : t) : t := PrimFloat.opp (floor (PrimFloat.opp x)).
  Definition is_zero (x : t) : bool := PrimFloat.ltb (PrimFloat.abs x) tol.
  Definition isclose (a b : t) : bool :=
    PrimFloat.leb (PrimFloat.abs (PrimFloat.sub a b))
                  (PrimFloat.add atol (PrimFloat.mul tol (PrimFloat.abs b))).
  Definition of_Z (z : Z) : t :=
    match z with
    | Z0 => zero
    | Zpos p => PrimFloat.of_uint63 (Uint63.of_Z (Zpos p))
    | Zneg p => PrimFloat.opp (PrimFloat.of_uint63 (Uint63.of_Z (Zpos p)))
    end.
  Definition rint (x : t) : t :=
    if PrimFloat.ltb (PrimFloat.abs x) two52 then
      if PrimFloat.leb zero x then rint_small x else PrimFloat.opp (rint_small (PrimFloat.opp x))
    else x.
  Definition floorZ (x : t) : Z :=
    let f := floor x in
    let '(m, e) := PrimFloat.frshiftexp (PrimFloat.abs f) in
    let mant := Uint63.to_Z (PrimFloat.normfr_mantissa m) in
    let ex := (Uint63.to_Z e - FloatOps.shift)%Z in
    let v := if (53 <=? ex)%Z then (mant * 2 ^ (ex - 53))%Z else Z.shiftr mant (53 - ex) in
    if PrimFloat.ltb f zero then Z.opp v else v.
End FNum.

(* ------------------------------------------------------------------ *)
(* exact rationals (computable)                                         *)
(* ------------------------------------------------------------------ *)
Module QNum.
  Local Open Scope Q_scope.
  Definition t := Q.
  Definition zero : t := 0.
  Definition one : t := 1.
  Definition half : t := 1 # 2.
  Definition par : t := 100 # 1.
  Definition paper_amount : t := 1000000 # 1.
  Definition atol : t := 1 # 100000000.
  Definition add (a b : t) : t := Qred (a + b).
  Definition sub (a b : t) : t := Qred (a - b).
  Definition mul (a b : t) : t := Qred (a * b).
  Definition div (a b : t) : t := Qred (a / b).
  Definition opp (a : t) : t := - a.
  Definition abs (a : t) : t := Qabs a.
  Definition floor (a : t) : t := inject_Z (Qfloor a).
  Definition ceil (a : t) : t := inject_Z (Qceiling a).
  Definition ltb (a b : t) : bool := negb (Qle_bool b a).
  Definition leb (a b : t) : bool := Qle_bool a b.
  Definition eqb (a b : t) : bool := Qeq_bool a b.
  Definition is_zero (x : t) : bool := Qeq_bool x 0.
  Definition isclose (a b : t) : bool := Qle_bool (Qabs (a - b)) atol.
  Definition of_Z (z : Z) : t := inject_Z z.
  Definition floorZ (a : t) : Z := Qfloor a.
  Definition rint (a : t) : t := inject_Z (Qfloor (a + (1 # 2))).
End QNum.

(* ------------------------------------------------------------------ *)
(* real numbers (theorems)                                              *)
(* ------------------------------------------------------------------ *)
Module RNum.
  Local Open Scope R_scope.
  Definition t := R.
  Definition zero : t := 0.
  Definition one : t := 1.
  Definition half : t := / 2.
  Definition par : t := 100.
  Definition paper_amount : t := 1000000.
  Definition atol : t := / 100000000.
  Definition add (a b : t) : t := a + b.
  Definition sub (a b : t) : t := a - b.
  Definition mul (a b : t) : t := a * b.
  Definition div (a b : t) : t := a / b.
  Definition opp (a : t) : t := - a.
  Definition abs (a : t) : t := Rabs a.
  Definition floor (a : t) : t := IZR (Int_part a).
  Definition ceil (a : t) : t := - IZR (Int_part (- a)).
  Definition ltb (a b : t) : bool := if Rlt_dec a b then true else false.
  Definition leb (a b : t) : bool := if Rle_dec a b then true else false.
  Definition eqb (a b : t) : bool := if Req_EM_T a b then true else false.
  Definition is_zero (x : t) : bool := if Req_EM_T x 0 then true else false.
  Definition isclose (a b : t) : bool := if Rle_dec (Rabs (a - b)) atol then true else false.
  Definition of_Z (z : Z) : t := IZR z.
  Definition floorZ (a : t) : Z := Int_part a.
  Definition rint (a : t) : t := IZR (Int_part (a + / 2)).
End RNum.


Definition FNumI : num := mkNum FNum.t FNum.zero FNum.one FNum.half FNum.par FNum.paper_amount
  FNum.add FNum.sub FNum.mul FNum.div FNum.opp FNum.abs FNum.floor FNum.ceil FNum.ltb FNum.leb FNum.eqb
  FNum.is_zero FNum.isclose FNum.of_Z FNum.floorZ FNum.rint.
Definition QNumI : num := mkNum QNum.t QNum.zero QNum.one QNum.half QNum.par QNum.paper_amount
  QNum.add QNum.sub QNum.mul QNum.div QNum.opp QNum.abs QNum.floor QNum.ceil QNum.ltb QNum.leb QNum.eqb
  QNum.is_zero QNum.isclose QNum.of_Z QNum.floorZ QNum.rint.
Definition RNumI : num := mkNum RNum.t RNum.zero RNum.one RNum.half RNum.par RNum.paper_amount
  RNum.add RNum.sub RNum.mul RNum.div RNum.opp RNum.abs RNum.floor RNum.ceil RNum.ltb RNum.leb RNum.eqb
  RNum.is_zero RNum.isclose RNum.of_Z RNum.floorZ RNum.rint.

(* reflection lemmas for the real instance *)
Lemma R_ltb_true a b : RNum.ltb a b = true <-> (a < b)%R.
Proof. unfold RNum.ltb; destruct (Rlt_dec a b); split; intros; auto; discriminate. Qed.
Lemma R_ltb_false a b : RNum.ltb a b = false <-> (b <= a)%R.
Proof. unfold RNum.ltb; destruct (Rlt_dec a b); split; intros; try discriminate; auto; lra. Qed.
Lemma R_leb_true a b : RNum.leb a b = true <-> (a <= b)%R.
Proof. unfold RNum.leb; destruct (Rle_dec a b); split; intros; auto; discriminate. Qed.
Lemma R_leb_false a b : RNum.leb a b = false <-> (b < a)%R.
Proof. unfold RNum.leb; destruct (Rle_dec a b); split; intros; try discriminate; auto; lra. Qed.
Lemma R_eqb_true a b : RNum.eqb a b = true <-> a = b.
Proof. unfold RNum.eqb; destruct (Req_EM_T a b); split; intros; auto; discriminate. Qed.
Lemma R_eqb_false a b : RNum.eqb a b = false <-> a <> b.
Proof. unfold RNum.eqb; destruct (Req_EM_T a b); split; intros; try discriminate; auto; contradiction. Qed.
Lemma R_is_zero_true a : RNum.is_zero a = true <-> a = 0%R.
Proof. unfold RNum.is_zero; destruct (Req_EM_T a 0); split; intros; auto; discriminate. Qed.
Lemma R_is_zero_false a : RNum.is_zero a = false <-> a <> 0%R.
Proof. unfold RNum.is_zero; destruct (Req_EM_T a 0); split; intros; try discriminate; auto; contradiction. Qed.
Lemma R_isclose_true a b : RNum.isclose a b = true <-> (Rabs (a - b) <= RNum.atol)%R.
Proof. unfold RNum.isclose; destruct (Rle_dec _ _); split; intros; auto; discriminate. Qed.
Lemma R_isclose_false a b : RNum.isclose a b = false <-> (RNum.atol < Rabs (a - b))%R.
Proof. unfold RNum.isclose; destruct (Rle_dec _ _); split; intros; try discriminate; auto; lra. Qed.
Lemma R_floor_spec a : (RNum.floor a <= a < RNum.floor a + 1)%R.
Proof. unfold RNum.floor. destruct (base_Int_part a) as [H1 H2]. lra. Qed.
Lemma R_floor_int a : exists z : Z, RNum.floor a = IZR z.
Proof. eexists; reflexivity. Qed.
Lemma R_ceil_spec a : (RNum.ceil a - 1 < a <= RNum.ceil a)%R.
Proof. unfold RNum.ceil. destruct (base_Int_part (- a)) as [H1 H2]. lra. Qed.
Lemma R_ceil_int a : exists z : Z, RNum.ceil a = IZR z.
Proof. unfold RNum.ceil. exists (- Int_part (- a))%Z. now rewrite opp_IZR. Qed.

(* unfold every RNum operation to the corresponding real-number operation *)
Ltac rnum :=
  cbn [carrier n0 n1 nhalf npar npaper nadd nsub nmul ndiv nopp nabs nofZ RNumI] in *;
  cbv [RNum.t RNum.zero RNum.one RNum.half RNum.par RNum.paper_amount RNum.add RNum.sub
       RNum.mul RNum.div RNum.opp RNum.abs RNum.of_Z] in *.

"""Implementation side of the backtest correspondence: builds real bt Strategy trees with stock
algos from the case description, runs bt.Backtest on the scratch copy of /repo and prints the
final raw state of every node (histories included) in the model driver's line format."""
import json
import random
import sys
import warnings

import numpy as np
import pandas as pd

warnings.filterwarnings("ignore")
import bt  # noqa: E402
import bt.core as core  # noqa: E402
import bt.algos as algos  # noqa: E402
from impl_engine import name_of, id_of, fx, make_comm, classify, dump_tree, pf, install_trace  # noqa: E402

KW_NAMES = ("bidoffer", "coupons", "cost_long", "cost_short")


def key_of(k):
    return "unit_risk" if k == 0 else "k%d" % k


def measure_of(m):
    return "m%d" % m


def ts(x):
    return pd.Timestamp(int(x), unit="s")


def off(m, d):
    return pd.DateOffset(months=int(m), days=int(d))


CLASSES = {"strategy": core.StrategyBase, "sec": core.Security, "fi": core.FixedIncomeSecurity,
           "coupon": core.CouponPayingSecurity, "hedge": core.HedgeSecurity,
           "couponhedge": core.CouponPayingHedgeSecurity}
PREDS = {"nonempty": lambda x: len(x) > 0, "empty": lambda x: len(x) == 0, "true": lambda x: True,
         "false": lambda x: False}
PKIND = {"daily": algos.RunDaily, "weekly": algos.RunWeekly, "monthly": algos.RunMonthly,
         "quarterly": algos.RunQuarterly, "yearly": algos.RunYearly}


class UserAdjust(core.Algo):
    """a user-written algo (e.g. a management fee): one adjust call, no trailing update"""

    def __init__(self, amount, flow, update):
        super().__init__()
        self.amount, self.flow, self.update = amount, flow, update

    def __call__(self, target):
        target.adjust(self.amount, update=self.update, flow=self.flow)
        return True


def make_algo(a):
    k = a[0]
    if k == "runonce":
        return algos.RunOnce()
    if k == "runperiod":
        return PKIND[a[1]](run_on_first_date=bool(a[2]), run_on_end_of_period=bool(a[3]), run_on_last_date=bool(a[4]))
    if k == "runondate":
        return algos.RunOnDate(*[ts(x) for x in a[1]])
    if k == "runafterdate":
        return algos.RunAfterDate(ts(a[1]))
    if k == "runafterdays":
        return algos.RunAfterDays(int(a[1]))
    if k == "outofbounds":
        return algos.RunIfOutOfBounds(fx(a[1]))
    if k == "everyn":
        return algos.RunEveryNPeriods(int(a[1]), offset=int(a[2]))
    if k == "selectall":
        return algos.SelectAll(include_no_data=bool(a[1]), include_negative=bool(a[2]))
    if k == "selectthese":
        return algos.SelectThese([name_of(i) for i in a[1]], include_no_data=bool(a[2]), include_negative=bool(a[3]))
    if k == "hasdata":
        return algos.SelectHasData(lookback=off(a[1], a[2]), min_count=fx(a[3]), include_no_data=bool(a[4]),
                                   include_negative=bool(a[5]))
    if k == "selectn":
        n = fx(a[1])
        if n >= 1:
            n = int(n)
        return algos.SelectN(n, sort_descending=bool(a[2]), all_or_none=bool(a[3]), filter_selected=bool(a[4]))
    if k == "selectwhere":
        return algos.SelectWhere(key_of(a[1]), include_no_data=bool(a[2]), include_negative=bool(a[3]))
    if k == "selectregex":
        return algos.SelectRegex(a[1])
    if k == "setstat":
        return algos.SetStat(key_of(a[1]), lag=off(a[2], a[3]))
    if k == "totalreturn":
        return algos.StatTotalReturn(lookback=off(a[1], a[2]), lag=off(a[3], a[4]))
    if k == "weighequally":
        return algos.WeighEqually()
    if k == "weighspecified":
        return algos.WeighSpecified(**{name_of(i): fx(w) for i, w in a[1]})
    if k == "scale":
        return algos.ScaleWeights(fx(a[1]))
    if k == "weightarget":
        return algos.WeighTarget(key_of(a[1]))
    if k == "limitdeltas":
        if a[1] is not None:
            return algos.LimitDeltas(fx(a[1]))
        return algos.LimitDeltas({name_of(i): fx(w) for i, w in a[2]})
    if k == "limitweights":
        return algos.LimitWeights(fx(a[1]))
    if k == "capitalflow":
        return algos.CapitalFlow(fx(a[1]))
    if k == "closedead":
        return algos.CloseDead()
    if k == "setnotional":
        return algos.SetNotional(key_of(a[1]))
    if k == "rebalance":
        return algos.Rebalance()
    if k == "rebalanceovertime":
        return algos.RebalanceOverTime(n=fx(a[1]))
    if k == "require":
        return algos.Require(PREDS[a[1]], a[2], if_none=bool(a[3]))
    if k == "not":
        return algos.Not(make_algo(a[1]))
    if k == "or":
        return algos.Or([make_algo(x) for x in a[1]])
    if k == "stack":
        return core.AlgoStack(*[make_algo(x) for x in a[1]])
    if k == "always":
        inner = make_algo(a[2])
        inner.run_always = bool(a[1])
        return inner
    if k == "selecttypes":
        return algos.SelectTypes(include_types=tuple(CLASSES[x] for x in a[1]),
                                 exclude_types=tuple(CLASSES[x] for x in a[2]))
    if k == "selectactive":
        return algos.SelectActive()
    if k == "closeafter":
        return algos.ClosePositionsAfterDates(key_of(a[1]))
    if k == "rollafter":
        return algos.RollPositionsAfterDates(key_of(a[1]))
    if k == "replay":
        return algos.ReplayTransactions(key_of(a[1]))
    if k == "useradjust":
        return UserAdjust(fx(a[1]), bool(a[2]), bool(a[3]))
    if k == "updaterisk":
        return algos.UpdateRisk(measure_of(a[1]), history=int(a[2]))
    # algos whose kernels are outside the model (implementation-vs-implementation suites only)
    if k == "selectrandomly":
        return algos.SelectRandomly(n=int(a[1]))
    if k == "weighrandomly":
        return algos.WeighRandomly(bounds=(fx(a[1]), fx(a[2])), weight_sum=1)
    if k == "weigherc":
        return algos.WeighERC(lookback=off(0, a[1]))
    if k == "weighinvvol":
        return algos.WeighInvVol(lookback=off(0, a[1]))
    if k == "weighmeanvar":
        return algos.WeighMeanVar(lookback=off(0, a[1]), bounds=(0.0, 1.0))
    if k == "targetvol":
        return algos.TargetVol(fx(a[1]), lookback=off(0, a[2]))
    if k == "hedgerisk1":
        return algos.HedgeRisks([measure_of(a[1])])
    raise ValueError(k)


PRESET_COMM = [None]
SHARED = [None]      # {(name, multiplier, lazy): Security} while a case with share_objects is being built


def build_node(spec, parent=None):
    if spec[0] == "sec":
        _, i, cls, fi, mult, lz = spec
        m = fx(mult)
        n = name_of(i)
        if cls == "sec":
            if lz == "str":
                return n
            if SHARED[0] is not None:
                # the user defines one Security object per ticker and hands it to every strategy that trades it
                key = (n, m, bool(lz))
                if key not in SHARED[0]:
                    SHARED[0][key] = core.Security(n, multiplier=m, lazy_add=bool(lz))
                return SHARED[0][key]
            return core.Security(n, multiplier=m, lazy_add=bool(lz))
        if cls == "fi":
            return core.FixedIncomeSecurity(n, multiplier=m, lazy_add=bool(lz))
        if cls == "coupon":
            return core.CouponPayingSecurity(n, multiplier=m, fixed_income=bool(fi), lazy_add=bool(lz))
        if cls == "hedge":
            return core.HedgeSecurity(n, multiplier=m, lazy_add=bool(lz))
        if cls == "couponhedge":
            return core.CouponPayingHedgeSecurity(n, multiplier=m, fixed_income=bool(fi), lazy_add=bool(lz))
        raise ValueError(cls)
    _, i, fi, kids, stack = spec[:5]
    how = spec[5] if len(spec) > 5 else "list"
    al = [make_algo(a) for a in stack]
    cls = core.FixedIncomeStrategy if fi else core.Strategy
    if how == "late":
        # the strategy is created without children; its sub-strategies are attached afterwards with parent=
        s = cls(name_of(i), algos=al, parent=parent) if parent is not None else cls(name_of(i), algos=al)
        if parent is None and PRESET_COMM[0] is not None:
            # the user configures the top strategy first and attaches sub-strategies afterwards; the backtest is later
            # given the same commission function
            s.set_commissions(PRESET_COMM[0])
        for k in kids:
            build_node(k, parent=s)
        return s
    children = [build_node(k) for k in kids] if kids else None
    if how == "dict" and children:
        # names come from the dictionary keys; the node objects carry placeholder names
        d = {}
        for k, c in zip(kids, children):
            if isinstance(c, str):
                d[c] = c
            else:
                nm = c.name
                if not isinstance(c, core.StrategyBase):
                    import copy
                    c = copy.deepcopy(c)          # a shared Security object keeps its own name
                c.name = "tmp_" + nm
                d[nm] = c
        children = d
    if parent is not None:
        return cls(name_of(i), algos=al, children=children, parent=parent)
    return cls(name_of(i), algos=al, children=children)


def frame_of(f, idx):
    if f is None:
        return None
    return pd.DataFrame({name_of(k): [fx(x) for x in col] for k, col in f}, index=idx,
                        columns=[name_of(k) for k, _ in f], dtype=float)


def adata_of(a, idx):
    kind = a[0]
    if kind == "frame":
        ix = pd.DatetimeIndex([ts(x) for x in a[1]])
        cols = a[2]
        if len(cols) == 1 and cols[0][0] == 0:       # a Series
            return pd.Series([fx(x) for x in cols[0][1]], index=ix, dtype=float)
        return pd.DataFrame({name_of(k): [fx(x) for x in col] for k, col in cols}, index=ix,
                            columns=[name_of(k) for k, _ in cols], dtype=float)
    if kind == "dates":
        return pd.DataFrame({"date": [ts(d) for _, d in a[1]]}, index=[name_of(k) for k, _ in a[1]])
    if kind == "roll":
        return pd.DataFrame({"date": [ts(r[1]) for r in a[1]], "target": [name_of(r[2]) for r in a[1]],
                             "factor": [fx(r[3]) for r in a[1]]}, index=[name_of(r[0]) for r in a[1]])
    if kind == "risk":
        return {measure_of(m): pd.DataFrame({name_of(k): [fx(x) for x in col] for k, col in cols},
                                            index=pd.DatetimeIndex([ts(x) for x in ix]),
                                            columns=[name_of(k) for k, _ in cols], dtype=float)
                for m, ix, cols in a[1]}
    if kind == "trans":
        mi = pd.MultiIndex.from_tuples([(ts(r[0]), name_of(r[1])) for r in a[1]], names=["Date", "Security"])
        return pd.DataFrame({"quantity": [fx(r[2]) for r in a[1]], "price": [fx(r[3]) for r in a[1]]}, index=mi)
    raise ValueError(kind)


def run_case(c, out, extra=None):
    out.append("CASE %s" % c["name"])
    idx = pd.DatetimeIndex([ts(x) for x in c["dates"]])
    try:
        data = frame_of(c["prices"], idx)
        root = build_node(c["tree"])
        ad = {}
        for k in KW_NAMES:
            f = frame_of(c.get(k), idx)
            if f is not None:
                ad[k] = f
        for k, a in c.get("adata", []):
            ad[key_of(k)] = adata_of(a, idx)
        random.seed(c.get("pyseed", 0))
        np.random.seed(c.get("pyseed", 0))
        b = bt.Backtest(root, data, initial_capital=fx(c["capital"]), commissions=make_comm(c["comm"]),
                        integer_positions=bool(c["intpos"]), additional_data=ad, progress_bar=False)
        out.append("BUILD ok")
        b.run()
    except Exception as e:  # noqa: BLE001
        if out[-1] != "BUILD ok":
            out.append("BUILD ok")
        out.append("OP 0 err %s" % classify(e))
        if c.get("report_error_date") and "b" in locals():
            nw = b.strategy.now
            out.append("ERRAT now %d" % (int(pd.Timestamp(nw).value // 10 ** 9) if not isinstance(nw, int) else -1))
        if c.get("dump_on_error") and "b" in locals():
            try:
                dump_tree(out, b.strategy, b.dates)      # the partial run: rows up to the failing date
            except Exception:  # noqa: BLE001
                pass
        out.append("END")
        return None
    out.append("OP 0 ok nan")
    dump_tree(out, b.strategy, b.dates)
    if extra is not None:
        extra(b, out)
    out.append("END")
    return b


def main():
    install_trace()
    cases = json.load(sys.stdin)
    out = []
    for c in cases:
        run_case(c, out)
    sys.stdout.write("\n".join(out) + "\n")


if __name__ == "__main__":
    main()

"""Generator of whole backtests: Strategy trees with stock-algo stacks, price data on a real
calendar, additional data (signals, stats, target weights, notionals, close/roll tables)."""
import random

from gen_engine import hx, dy, NAN

DAY = 86400


def gen_dates(rng, n):
    """n increasing timestamps (seconds): business days, calendar days, gaps, year/month boundaries"""
    starts = [1577836800 - 86400 * 12,      # 2019-12-20 (crosses New Year 2020, ISO week 1)
              1609459200 - 86400 * 9,       # 2020-12-23 (ISO week 53)
              1582934400 - 86400 * 6,       # around 2020-02-29
              1514764800 - 86400 * 5,       # 2017-12-27 (2018-01-01 is a Monday)
              1546300800 - 86400 * 8,       # 2018-12-24 (2018-12-31 / 2019-01-01 share ISO week 1)
              946684800 + 86400 * rng.randint(0, 8000)]
    t = rng.choice(starts)
    mode = rng.choice(["bday", "bday", "cal", "gappy", "weekly"])
    out = []
    while len(out) < n:
        wd = (t // DAY + 3) % 7
        if mode == "bday" and wd >= 5:
            t += DAY
            continue
        out.append(t)
        if mode == "gappy":
            t += DAY * rng.choice([1, 1, 2, 3, 7, 20, 35])
        elif mode == "weekly":
            t += DAY * 7
        else:
            t += DAY
    return out


def gen_price_col(rng, n, p_nan=0.03, late=False, zero=False):
    p = dy(rng, 10, 120, 8)
    start = rng.randint(1, max(1, n // 2)) if late else 0
    col = []
    for r in range(n):
        if r < start or rng.random() < p_nan:
            col.append(NAN)
            continue
        if zero and rng.random() < 0.04:
            col.append(hx(0.0))
            continue
        p = max(0.25, p * rng.choice([0.96875, 0.984375, 1.0, 1.015625, 1.03125, 1.0625]) + dy(rng, -1, 1, 8))
        col.append(hx(p))
    return col


class BTGen:
    def __init__(self, rng):
        self.rng = rng
        self.next_key = 1
        self.adata = []
        self.full = set()
        self.nonzero_targets = False
        self.wellformed = False      # C10: keep to inputs the property calls well-formed

    def key(self):
        k = self.next_key
        self.next_key += 1
        return k

    # ---- schedulers
    def scheduler(self, dates):
        rng = self.rng
        k = rng.choice(["period", "period", "period", "once", "ondate", "afterdate", "afterdays", "everyn", "or", "not"])
        if k == "period":
            return ["runperiod", rng.choice(["daily", "weekly", "monthly", "quarterly", "yearly"]),
                    rng.random() < 0.7, rng.random() < 0.3, rng.random() < 0.3]
        if k == "once":
            return ["runonce"]
        if k == "ondate":
            return ["runondate", sorted(rng.sample(dates, min(len(dates), rng.randint(1, 4))))]
        if k == "afterdate":
            return ["runafterdate", rng.choice(dates)]
        if k == "afterdays":
            return ["runafterdays", rng.randint(0, 6)]
        if k == "everyn":
            n = rng.randint(1, 5)
            return ["everyn", n, rng.randint(0, n - 1)]
        if k == "or":
            return ["or", [["runperiod", rng.choice(["weekly", "monthly"]), True, False, False],
                           ["runondate", [rng.choice(dates)]]]]
        return ["not", ["runafterdate", rng.choice(dates)]]

    def calendar_scheduler(self):
        rng = self.rng
        return ["runperiod", rng.choice(["daily", "daily", "weekly", "monthly"]), rng.random() < 0.8,
                rng.random() < 0.2, rng.random() < 0.3]

    # ---- selection
    def selector(self, tickers, dates):
        rng = self.rng
        k = rng.choice(["all", "all", "these", "hasdata", "momentum", "where", "setstat_n"])
        wf = self.wellformed
        if k == "all" or not tickers:
            return [["selectall", rng.random() < 0.1 and not wf, rng.random() < 0.1]]
        if k == "these":
            return [["selectthese", rng.sample(tickers, rng.randint(1, len(tickers))), False, rng.random() < 0.1]]
        if k == "hasdata":
            return [["hasdata", rng.choice([0, 0, 1]), rng.choice([2, 3, 5, 10]), hx(float(rng.randint(1, 4))),
                     False, False]]
        if k == "momentum":
            n = rng.choice([1, 2, 3])
            return [["selectall", False, False],
                    ["stack", [["totalreturn", 0, rng.choice([2, 3, 5, 9]), 0, 0 if wf else rng.choice([0, 0, 1])],
                               ["selectn", hx(float(n)), rng.random() < 0.7, rng.random() < 0.2, False]]]]
        if k == "where":
            key = self.key()
            cols = [[t, [hx(1.0) if rng.random() < 0.6 else hx(0.0) for _ in dates]] for t in tickers]
            self.adata.append([key, ["frame", list(dates), cols]])
            return [["selectwhere", key, False, False]]
        key = self.key()
        cols = [[t, [hx(dy(rng, -50, 50, 1) + 0.001 * t) if rng.random() > 0.05 else NAN for _ in dates]] for t in tickers]
        idx = list(dates)
        if rng.random() < 0.35 and not wf:
            # observation dates of the statistic are a subset of the data dates: SetStat must skip the others, never
            # borrow a later observation
            idx = [d for d in dates if rng.random() < 0.65] or list(dates[:1])
            cols = [[t, [c[dates.index(d)] for d in idx]] for t, c in cols]
        self.adata.append([key, ["frame", idx, cols]])
        n = rng.choice([hx(1.0), hx(2.0), hx(0.5), hx(0.34)])
        # the ranking is over the tickers selected so far (filter_selected): often a strict subset of those with a statistic
        first = ["selectall", False, False]
        if rng.random() < 0.5 and len(tickers) > 1:
            first = ["selectthese", rng.sample(tickers, rng.randint(1, len(tickers) - 1)), False, False]
        return [first, ["setstat", key, 0, rng.choice([0, 0, 1])],
                ["selectn", n, rng.random() < 0.5, False, rng.random() < 0.5 or wf]]

    # ---- weighting
    def weigher(self, tickers, dates):
        rng = self.rng
        k = rng.choice(["equal", "equal", "specified", "target"])
        full = [t for t in tickers if t in self.full] if (rng.random() < 0.9 or self.wellformed) else tickers
        if k != "equal" and not full:
            k = "equal"
        if k != "equal":
            tickers = full
        out = []
        if k == "equal" or not tickers:
            out.append(["weighequally"])
        elif k == "specified":
            sub = rng.sample(tickers, rng.randint(1, len(tickers)))
            ws = [rng.randint(1, 8) / 16.0 for _ in sub]
            while sum(ws) > 1:
                ws = [w / 2 for w in ws]
            if rng.random() < 0.2:
                ws[0] = -ws[0]
            out.append(["weighspecified", [[t, hx(w)] for t, w in zip(sub, ws)]])
        else:
            key = self.key()
            cols = []
            for t in tickers:
                cols.append([t, [hx(rng.randint(0, 8) / 32.0) if rng.random() > 0.1 else NAN for _ in dates]])
            idx = [d for d in dates if rng.random() < 0.7] or list(dates[:1])
            cols = [[t, [c[dates.index(d)] for d in idx]] for t, c in cols]
            self.adata.append([key, ["frame", idx, cols]])
            out.append(["weightarget", key])
        if rng.random() < 0.2:
            out.append(["scale", hx(rng.choice([0.5, 0.75, -0.5, 1.0]))])
        if rng.random() < 0.15:
            out.append(["limitdeltas", hx(rng.choice([0.0625, 0.125, 0.25])), []])
        if rng.random() < 0.12 and k == "equal" and not (self.wellformed and len(out) > 1):
            out.append(["limitweights", hx(rng.choice([0.25, 0.5, 0.75]))])
        return out

    def stack(self, tickers, dates, gated=False):
        rng = self.rng
        st = [self.calendar_scheduler() if gated else self.scheduler(dates)]
        if rng.random() < 0.12:
            st.insert(0, ["always", True, ["capitalflow", hx(dy(rng, 0 if self.wellformed else -5000, 20000, 1))]])
        st += self.selector(tickers, dates)
        if rng.random() < 0.15:
            st.append(["require", "nonempty", "selected", False])
        if rng.random() < 0.1 and tickers:
            import re
            pat = rng.choice(["[13579]$", "^n00[1-3]$", "n0+[2-4]", "2|4"])
            st.append(["selectregex", pat, [t for t in range(0, 40) if re.search(pat, "n%03d" % t)]])
        st += self.weigher(tickers, dates)
        if rng.random() < 0.12:
            # rebalance on schedule or when out of bounds: weights first, then the gate
            st = st[1:] + [["or", [st[0], ["outofbounds", hx(rng.choice([0.0625, 0.125, 0.5]))]]]]
            # RunIfOutOfBounds divides by the target weight: keep the target frames free of exact zeros
            # (whether a zero raises ZeroDivisionError or yields inf depends on Python-float vs numpy typing)
            for a in st:
                if a[0] == "weightarget":
                    for k, ad in self.adata:
                        if k == a[1]:
                            ad[2] = [[t, [hx(0.03125) if c == hx(0.0) else c for c in col]] for t, col in ad[2]]
        if rng.random() < 0.1:
            st.append(["closedead"])
        if rng.random() < 0.15:
            st.append(["always", True, ["rebalanceovertime", hx(float(rng.randint(2, 4)))]])
        else:
            st.append(["rebalance"])
        if rng.random() < 0.12 and not self.wellformed:
            # a user-written algo after the stock ones: a fee / top-up booked without asking for an update
            st.append(["useradjust", hx(dy(rng, -200, 50, 4)), rng.random() < 0.3, rng.random() < 0.3])
        return st


def gen_fi_case(rng, name):
    """a fixed-income backtest: coupon / hedge securities, notional targets, close and roll tables"""
    g = BTGen(rng)
    n = rng.randint(6, 18)
    dates = gen_dates(rng, n)
    nt = rng.randint(2, 5)
    tickers = list(range(1, nt + 1))
    classes = {t: rng.choice(["coupon", "coupon", "coupon", "fi", "sec", "hedge", "couponhedge"]) for t in tickers}
    prices = [[t, gen_price_col(rng, n, p_nan=0.0)] for t in tickers]
    g.full = set(tickers)
    coupons = [[t, [hx(dy(rng, 0, 1, 16)) for _ in range(n)]] for t in tickers]
    cost_long = [[t, [hx(dy(rng, 0, 1, 32)) for _ in range(n)]] for t in tickers] if rng.random() < 0.5 else None
    cost_short = [[t, [hx(dy(rng, 0, 1, 32)) for _ in range(n)]] for t in tickers if rng.random() < 0.7] if rng.random() < 0.5 else None
    kids = [["sec", t, classes[t], rng.random() < 0.85, hx(rng.choice([1.0, 1.0, 2.0, 0.5])), rng.random() < 0.3]
            for t in tickers]
    st = [g.scheduler(dates)]
    if rng.random() < 0.4:
        key = g.key()
        sub = rng.sample(tickers, rng.randint(1, nt))
        g.adata.append([key, ["dates", [[t, rng.choice(dates)] for t in sub]]])
        st.append(["closeafter", key])
    if rng.random() < 0.3 and nt >= 2:
        key = g.key()
        a, b = rng.sample(tickers, 2)
        g.adata.append([key, ["roll", [[a, rng.choice(dates), b, hx(rng.choice([1.0, 0.5, 2.0]))]]]])
        st.append(["rollafter", key])
    sel = rng.choice(["all", "these", "types"])
    if sel == "all":
        st.append(["selectall", False, False])
    elif sel == "these":
        st.append(["selectthese", rng.sample(tickers, rng.randint(1, nt)), False, False])
    else:
        st.append(["selecttypes", rng.choice([["coupon"], ["fi"], ["sec", "fi"], ["coupon", "hedge"]]),
                   rng.choice([[], ["hedge"], ["couponhedge"]])])
    if rng.random() < 0.6:
        st.append(["selectactive"])
    if rng.random() < 0.5:
        st.append(["weighequally"])
    else:
        sub = rng.sample(tickers, rng.randint(1, nt))
        st.append(["weighspecified", [[t, hx(rng.choice([-0.25, 0.125, 0.25, 0.5, 1.0]))] for t in sub]])
    if rng.random() < 0.3:
        st.append(["scale", hx(rng.choice([0.5, -1.0, 2.0]))])
    if rng.random() < 0.75:
        key = g.key()
        idx = [d for d in dates if rng.random() < 0.85] or list(dates[:1])
        g.adata.append([key, ["frame", idx, [[0, [hx(float(rng.choice([1000, 5000, 20000, 100000]))) for _ in idx]]]]])
        st.append(["setnotional", key])
    st.append(["rebalance"])
    tree = ["strat", nt + 5, True, kids, st]
    bidoffer = [[t, [hx(dy(rng, 0, 1, 8)) for _ in range(n)]] for t in tickers] if rng.random() < 0.4 else None
    comm = rng.choice([["none"], ["none"], ["flat", hx(1.0)], ["prop", hx(0.001953125)]])
    return {"name": name, "dates": dates, "intpos": rng.random() < 0.3, "comm": comm, "prices": prices,
            "bidoffer": bidoffer, "coupons": coupons, "cost_long": cost_long, "cost_short": cost_short,
            "adata": g.adata, "capital": hx(float(rng.choice([0, 100000, 1000000]))), "tree": tree,
            "pyseed": rng.randint(0, 1000)}


def gen_risk_case(rng, name):
    """risk tracking and hedging: UpdateRisk over a (nested) tree, a one-instrument hedge of one measure,
    then UpdateRisk again; unit-risk frames carry their own index (no synthetic row), missing columns count as zero"""
    n = rng.randint(6, 14)
    dates = gen_dates(rng, n)
    nt = rng.randint(3, 5)
    tickers = list(range(1, nt + 1))
    prices = [[t, gen_price_col(rng, n, p_nan=0.0)] for t in tickers]
    hedge = tickers[-1]
    m = 1
    cols = [[t, [hx(dy(rng, -2, 3, 8) if rng.random() < 0.5 else dy(rng, 1, 3, 8)) for _ in range(n)]]
            for t in tickers if t == hedge or rng.random() < 0.8]
    cols = [[t, [hx(max(0.125, abs(float.fromhex(x)))) if t == hedge else x for x in col]] for t, col in cols]
    adata = [[0, ["risk", [[m, list(dates), cols]]]]]
    body = rng.sample(tickers[:-1], rng.randint(1, nt - 1))
    ws = [[t, hx(rng.choice([0.125, 0.25, 0.375]))] for t in body]
    sched = rng.choice([["runperiod", "daily", True, False, False], ["runperiod", "weekly", True, False, True], ["runonce"]])
    mults = {t: rng.choice([1.0, 1.0, 2.0, 0.5, 3.0]) for t in tickers}
    kids = [["sec", t, "sec", False, hx(mults[t]), rng.random() < 0.4] for t in tickers]
    hist = rng.choice([0, 0, 1])
    stack = [sched, ["weighspecified", ws], ["rebalance"], ["updaterisk", m, hist], ["selectthese", [hedge], False, False],
             ["hedgerisk1", m], ["updaterisk", m, hist]]
    weigh = ["weighspecified", ws]
    if rng.random() < 0.45:
        # rotating body: per-date target weights that drop to zero, so that securities which carried risk go flat
        # (and come back) while UpdateRisk keeps running
        wcols = [[t, [hx(rng.choice([0.0, 0.0, 0.125, 0.25, 0.375])) for _ in range(n)]] for t in body]
        adata.append([5, ["frame", list(dates), wcols]])
        weigh = ["weightarget", 5]
        sched = ["runperiod", "daily", True, False, False]
        stack = [sched, weigh, ["rebalance"], ["updaterisk", m, hist], ["selectthese", [hedge], False, False],
                 ["hedgerisk1", m], ["updaterisk", m, hist]]
    if rng.random() < 0.3:
        # nested: the body lives in a sub-strategy, the parent tracks risk over the whole tree
        sub = ["strat", 30, False, [k for k in kids if k[1] in body],
               [["runperiod", "daily", True, False, False], weigh, ["rebalance"]]]
        tree = ["strat", 40, False, [sub, [k for k in kids if k[1] == hedge][0]],
                [sched, ["weighspecified", [[30, hx(0.5)]]], ["rebalance"], ["updaterisk", m, hist],
                 ["selectthese", [hedge], False, False], ["hedgerisk1", m], ["updaterisk", m, hist]]]
    else:
        tree = ["strat", 40, False, kids, stack]
    return {"name": name, "dates": dates, "intpos": rng.random() < 0.3, "comm": rng.choice([["none"], ["prop", hx(0.001953125)]]),
            "prices": prices, "bidoffer": None, "coupons": None, "cost_long": None, "cost_short": None, "adata": adata,
            "capital": hx(100000.0), "tree": tree, "pyseed": 0}


def gen_risk_cases(seed, n, prefix="q"):
    rng = random.Random(seed * 19 + 5)
    return [gen_risk_case(rng, "%s%05d" % (prefix, i)) for i in range(n)]


def gen_replay_case(rng, name):
    """a flat strategy driven by ReplayTransactions from a blotter in ANY row order (per security, shuffled, sorted),
    with several rows per (date, security), off-timeline stamps (booked on the next data date, or never) and custom prices"""
    g = BTGen(rng)
    n = rng.randint(6, 16)
    dates = gen_dates(rng, n)
    nt = rng.randint(2, 4)
    tickers = list(range(1, nt + 1))
    prices = [[t, gen_price_col(rng, n, p_nan=0.0)] for t in tickers]
    g.full = set(tickers)
    pcol = {t: col for t, col in prices}
    rows = []
    for _ in range(rng.randint(3, 14)):
        r = rng.randrange(n)
        t = rng.choice(tickers)
        stamp = dates[r] + rng.choice([0, 0, 0, 0, -3 * 3600, 5 * 3600, 86400 * 2])
        px = float.fromhex(pcol[t][r])
        px = px if rng.random() < 0.5 else max(0.25, px + rng.randint(-8, 8) / 8.0)
        rows.append([stamp, t, hx(float(rng.choice([-40, -15, -2.5, 1, 7, 10, 25, 60]))), hx(px)])
    order = rng.choice(["shuffled", "by_security", "sorted", "reversed"])
    if order == "shuffled":
        rng.shuffle(rows)
    elif order == "by_security":
        rows.sort(key=lambda x: (x[1], x[0]))
    elif order == "sorted":
        rows.sort(key=lambda x: x[0])
    else:
        rows.sort(key=lambda x: -x[0])
    key = g.key()
    kids = [["sec", t, "sec", False, hx(rng.choice([1.0, 1.0, 2.0, 0.5])), False] for t in tickers]
    tree = ["strat", nt + 5, False, kids, [["replay", key]]]
    bidoffer = [[t, [hx(dy(rng, 0, 1, 8) if rng.random() < 0.5 else 0.0) for _ in range(n)]] for t in tickers]
    comm = rng.choice([["none"], ["flat", hx(1.0)], ["prop", hx(0.001953125)], ["pershare", hx(0.015625)]])
    return {"name": name, "dates": dates, "intpos": rng.random() < 0.3, "comm": comm, "prices": prices,
            "bidoffer": bidoffer, "coupons": None, "cost_long": None, "cost_short": None,
            "adata": [[key, ["trans", rows]]], "capital": hx(float(rng.choice([100000, 1000000]))), "tree": tree,
            "pyseed": rng.randint(0, 1000)}


def gen_replay_cases(seed, n, prefix="y"):
    rng = random.Random(seed * 23 + 7)
    return [gen_replay_case(rng, "%s%05d" % (prefix, i)) for i in range(n)]


def gen_limit_deltas_case(rng, name):
    """dated target weights whose ticker set changes from date to date (NaN = not targeted), LimitDeltas, Rebalance: children
    that are held but no longer targeted must be wound down at the limited pace too.  Mostly cost-free and fractional, so
    that the weight-change oracle applies."""
    g = BTGen(rng)
    n = rng.randint(6, 14)
    dates = gen_dates(rng, n)
    nt = rng.randint(3, 5)
    tickers = list(range(1, nt + 1))
    prices = [[t, gen_price_col(rng, n, p_nan=0.0)] for t in tickers]
    g.full = set(tickers)
    key = g.key()
    cols = []
    for t in tickers:
        cols.append([t, [NAN if rng.random() < 0.4 else hx(rng.choice([0.125, 0.25, 0.25, 0.375, -0.125])) for _ in range(n)]])
    g.adata.append([key, ["frame", list(dates), cols]])
    lim = hx(rng.choice([0.03125, 0.0625, 0.125, 0.25]))
    weigh = ["weightarget", key]
    if rng.random() < 0.4:
        # static targets walked to at the limited pace over several dates: the specification must survive each date's clipping
        weigh = ["weighspecified", [[t, hx(rng.choice([0.125, 0.25, 0.375, -0.125]))] for t in rng.sample(tickers, rng.randint(1, nt))]]
        g.adata.pop()
    st = [["runperiod", "daily", True, False, False], ["selectall", False, False], weigh, ["limitdeltas", lim, []], ["rebalance"]]
    kids = [["sec", t, "sec", False, hx(1.0), "str"] for t in tickers] if rng.random() < 0.5 else []
    tree = ["strat", nt + 5, False, kids, st]
    plain = rng.random() < 0.7
    return {"name": name, "dates": dates, "intpos": (not plain) and rng.random() < 0.5,
            "comm": ["none"] if plain else rng.choice([["none"], ["prop", hx(0.001953125)]]), "prices": prices,
            "bidoffer": None if plain or rng.random() < 0.5 else [[t, [hx(dy(rng, 0, 1, 8)) for _ in range(n)]] for t in tickers],
            "coupons": None, "cost_long": None, "cost_short": None, "adata": g.adata,
            "capital": hx(float(rng.choice([100000, 1000000]))), "tree": tree, "pyseed": rng.randint(0, 1000)}


def gen_rot_case(rng, name):
    """static targets reached over n dates by run_always(RebalanceOverTime(n)): targets arrive on a calendar gate (sometimes
    again before the schedule has finished), prices move in between.  Mostly cost-free and fractional, so that the
    n-th-step oracle applies."""
    g = BTGen(rng)
    n = rng.randint(8, 18)
    dates = gen_dates(rng, n)
    nt = rng.randint(2, 4)
    tickers = list(range(1, nt + 1))
    prices = [[t, gen_price_col(rng, n, p_nan=0.0)] for t in tickers]
    g.full = set(tickers)
    sub = rng.sample(tickers, rng.randint(1, nt))
    ws = [[t, hx(rng.choice([0.125, 0.25, 0.375, -0.125, 0.5]) / (1 if len(sub) < 3 else 2))] for t in sub]
    steps = rng.randint(2, 4)
    gate = rng.choice([["runonce"], ["runperiod", "weekly", True, False, False], ["runperiod", "monthly", True, False, False],
                       ["everyn", rng.randint(2, 6), 0], ["runperiod", "daily", True, False, False]])
    st = [gate, ["selectall", False, False], ["weighspecified", ws]]
    if rng.random() < 0.25:
        st.append(["scale", hx(rng.choice([0.5, 0.75]))])
    st.append(["always", True, ["rebalanceovertime", hx(float(steps))]])
    kids = [["sec", t, "sec", False, hx(1.0), "str"] for t in tickers] if rng.random() < 0.5 else []
    plain = rng.random() < 0.75
    return {"name": name, "dates": dates, "intpos": (not plain) and rng.random() < 0.5,
            "comm": ["none"] if plain else rng.choice([["none"], ["prop", hx(0.001953125)], ["flat", hx(1.0)]]), "prices": prices,
            "bidoffer": None, "coupons": None, "cost_long": None, "cost_short": None, "adata": [],
            "capital": hx(float(rng.choice([100000, 1000000]))), "tree": ["strat", nt + 5, False, kids, st],
            "pyseed": rng.randint(0, 1000)}


def gen_selectn_case(rng, name):
    """ranking scenarios: a statistic (a dated frame with NaN cells and missing dates, or the total return over a lagged
    window) ranked by SelectN with whole or fractional n, all_or_none, on a pre-selection that is a strict subset of the
    tickers carrying a statistic (filter_selected), then equal weights"""
    g = BTGen(rng)
    n = rng.randint(8, 18)
    dates = gen_dates(rng, n)
    nt = rng.randint(3, 6)
    tickers = list(range(1, nt + 1))
    prices = [[t, gen_price_col(rng, n, p_nan=0.0, late=rng.random() < 0.25)] for t in tickers]
    g.full = {t for t, col in prices if NAN not in col}
    first = ["selectall", False, False]
    if rng.random() < 0.6:
        first = ["selectthese", sorted(rng.sample(tickers, rng.randint(2, nt - 1))), False, False]
    if rng.random() < 0.5:
        key = g.key()
        cols = [[t, [hx(dy(rng, -50, 50, 1) + 0.001 * t) if rng.random() > 0.15 else NAN for _ in dates]] for t in tickers]
        idx = list(dates)
        if rng.random() < 0.4:
            idx = [d for d in dates if rng.random() < 0.7] or list(dates[:1])
            cols = [[t, [c[dates.index(d)] for d in idx]] for t, c in cols]
        g.adata.append([key, ["frame", idx, cols]])
        stat = [["setstat", key, 0, rng.choice([0, 0, 1, 2])]]
    else:
        stat = [["totalreturn", 0, rng.choice([2, 3, 5, 9]), 0, rng.choice([0, 1, 2, 3])]]
    nn = rng.choice([hx(1.0), hx(2.0), hx(3.0), hx(0.5), hx(0.5), hx(0.34), hx(0.75)])
    sel = ["selectn", nn, rng.random() < 0.6, rng.random() < 0.2, rng.random() < 0.8]
    st = [["runperiod", rng.choice(["daily", "daily", "weekly"]), True, False, False], first] + stat + [sel, ["weighequally"], ["rebalance"]]
    kids = [["sec", t, "sec", False, hx(1.0), "str"] for t in tickers] if rng.random() < 0.5 else []
    return {"name": name, "dates": dates, "intpos": rng.random() < 0.4, "comm": rng.choice([["none"], ["none"], ["prop", hx(0.001953125)]]),
            "prices": prices, "bidoffer": None, "coupons": None, "cost_long": None, "cost_short": None, "adata": g.adata,
            "capital": hx(float(rng.choice([100000, 1000000]))), "tree": ["strat", nt + 5, False, kids, st],
            "pyseed": rng.randint(0, 1000)}


def gen_case(rng, name):
    r0 = rng.random()
    if r0 < 0.2:
        return gen_fi_case(rng, name)
    if r0 < 0.26:
        return gen_replay_case(rng, name)
    if r0 < 0.31:
        return gen_limit_deltas_case(rng, name)
    if r0 < 0.35:
        return gen_rot_case(rng, name)
    if r0 < 0.40:
        return gen_selectn_case(rng, name)
    g = BTGen(rng)
    n = rng.randint(6, 24)
    dates = gen_dates(rng, n)
    nt = rng.randint(2, 6)
    tickers = list(range(1, nt + 1))
    prices = [[t, gen_price_col(rng, n, p_nan=(0.04 if rng.random() < 0.12 else 0.0), late=rng.random() < 0.2,
                                zero=rng.random() < 0.06)] for t in tickers]
    g.full = {t for t, col in prices if NAN not in col}
    next_id = [nt + 1]

    def nid():
        next_id[0] += 1
        return next_id[0]

    nested = rng.random() < 0.4
    if not nested:
        decl = rng.random() < 0.5
        sub = rng.sample(tickers, rng.randint(1, nt)) if decl else []
        kids = [["sec", t, "sec", False, hx(1.0), "str"] for t in sub]
        tree = ["strat", nid(), False, kids, g.stack(sub or tickers, dates)]
    else:
        kids = []
        for _ in range(rng.randint(1, 3)):
            sub = rng.sample(tickers, rng.randint(1, nt))
            ckids = [["sec", t, "sec", False, hx(1.0), "str"] for t in sub] if rng.random() < 0.7 else []
            kids.append(["strat", nid(), False, ckids, g.stack(sub if ckids else tickers, dates, gated=True)])
        if rng.random() < 0.4:
            t = rng.choice(tickers)
            kids.append(["sec", t, "sec", False, hx(1.0), "str"])
        ids = [k[1] for k in kids]
        # the parent allocates between its children
        pst = [g.scheduler(dates), ["selectall", False, False], ["weighequally"], ["rebalance"]]
        if rng.random() < 0.3:
            ws = [[i, hx(rng.randint(1, 6) / 16.0)] for i in ids]
            pst = [g.scheduler(dates), ["weighspecified", ws], ["rebalance"]]
        tree = ["strat", nid(), False, kids, pst]
    bidoffer = None
    if rng.random() < 0.3:
        bidoffer = [[t, [hx(dy(rng, 0, 1, 8)) for _ in range(n)]] for t in tickers]
    comm = ["none"]
    if rng.random() < 0.5:
        comm = rng.choice([["flat", hx(dy(rng, 0, 4, 4))], ["pershare", hx(0.015625)], ["prop", hx(0.001953125)],
                           ["maxflat", hx(1.0), hx(0.0078125)]])
    return {"name": name, "dates": dates, "intpos": rng.random() < 0.5, "comm": comm, "prices": prices,
            "bidoffer": bidoffer, "coupons": None, "cost_long": None, "cost_short": None, "adata": g.adata,
            "capital": hx(float(rng.choice([10000, 100000, 1000000]))), "tree": tree, "pyseed": rng.randint(0, 1000)}


def gen_wellformed_case(rng, name):
    """C10: increasing unique dates, finite positive prices from the listing date on (no gaps, no zeros), long/short
    weights of total size <= 1, the five commission families, children funded on the first date and never
    de-funded, no look-back window that can be empty, no user-written bookings"""
    g = BTGen(rng)
    g.wellformed = True
    n = rng.randint(6, 24)
    dates = gen_dates(rng, n)
    nt = rng.randint(2, 6)
    tickers = list(range(1, nt + 1))
    prices = [[t, gen_price_col(rng, n, p_nan=0.0, late=rng.random() < 0.2, zero=False)] for t in tickers]
    g.full = {t for t, col in prices if NAN not in col}
    next_id = [nt + 1]

    def nid():
        next_id[0] += 1
        return next_id[0]

    if rng.random() < 0.6:
        decl = rng.random() < 0.5
        sub = rng.sample(tickers, rng.randint(1, nt)) if decl else []
        kids = []
        for t in sub:
            if rng.random() < 0.6:
                kids.append(["sec", t, "sec", False, hx(1.0), "str"])
            else:
                kids.append(["sec", t, "sec", False, hx(rng.choice([1.0, 2.0, 0.5])), rng.random() < 0.3])
        tree = ["strat", nid(), False, kids, g.stack(sub or tickers, dates)]
    else:
        kids = []
        for _ in range(rng.randint(1, 3)):
            sub = rng.sample(tickers, rng.randint(1, nt))
            ckids = [["sec", t, "sec", False, hx(1.0), "str"] for t in sub] if rng.random() < 0.7 else []
            kids.append(["strat", nid(), False, ckids, g.stack(sub if ckids else tickers, dates, gated=True)])
        if rng.random() < 0.4:
            full = sorted(g.full)
            if full:
                kids.append(["sec", rng.choice(full), "sec", False, hx(1.0), "str"])
        ids = [k[1] for k in kids]
        first = rng.choice([["runonce"], ["runperiod", "daily", True, False, False], ["runperiod", "weekly", True, False, True]])
        if rng.random() < 0.5:
            pst = [first, ["selectthese", ids, False, False], ["weighequally"], ["rebalance"]]
        else:
            ws = [rng.randint(1, 6) / 16.0 for _ in ids]
            while sum(ws) > 1:
                ws = [w / 2 for w in ws]
            pst = [first, ["weighspecified", [[i, hx(w)] for i, w in zip(ids, ws)]], ["rebalance"]]
        tree = ["strat", nid(), False, kids, pst]
    bidoffer = None
    if rng.random() < 0.3:
        bidoffer = [[t, [hx(dy(rng, 0, 1, 8)) for _ in range(n)]] for t in tickers]
    comm = ["none"]
    if rng.random() < 0.6:
        comm = rng.choice([["flat", hx(dy(rng, 0, 4, 4))], ["pershare", hx(0.015625)], ["prop", hx(0.001953125)],
                           ["maxflat", hx(1.0), hx(0.0078125)]])
    return {"name": name, "dates": dates, "intpos": rng.random() < 0.5, "comm": comm, "prices": prices,
            "bidoffer": bidoffer, "coupons": None, "cost_long": None, "cost_short": None, "adata": g.adata,
            "capital": hx(float(rng.choice([10000, 100000, 1000000]))), "tree": tree, "pyseed": rng.randint(0, 1000)}


def gen_wellformed_cases(seed, n, prefix="w"):
    rng = random.Random(seed)
    return [gen_wellformed_case(rng, "%s%05d" % (prefix, i)) for i in range(n)]


def gen_cases(seed, n, prefix="b"):
    rng = random.Random(seed)
    return [gen_case(rng, "%s%05d" % (prefix, i)) for i in range(n)]


def gen_touch_zero_case(rng, name):
    """the exact boundary of the bankruptcy test: a one-shot leveraged or short book whose value lands EXACTLY on zero
    on the shock date (every number dyadic, no costs) and then stays there, recovers, or goes on below zero; also roots
    funded with no capital at all.  A value that never goes below zero must never be flagged."""
    n = rng.randint(6, 12)
    dates = gen_dates(rng, n)
    nt = rng.randint(1, 2)
    tickers = list(range(1, nt + 1))
    # weight w on the book, price factor f with 1 + w (f - 1) = 0
    w, f = rng.choice([(2.0, 0.5), (4.0, 0.75), (-1.0, 2.0), (-2.0, 1.5), (-0.5, 3.0)])
    shock_row = rng.randint(2, n - 3)
    after = rng.choice(["flat", "flat", "recover", "worse"])
    p0 = rng.choice([32.0, 64.0, 128.0])
    col = []
    for r in range(n):
        if r < shock_row:
            col.append(p0)
        elif r == shock_row or after == "flat":
            col.append(p0 * f)
        elif after == "recover":
            col.append(p0)
        else:
            col.append(p0 * f * (f if f < 1 else 1.25))
    prices = [[t, [hx(x) for x in col]] for t in tickers]
    ws = [[t, hx(w / nt)] for t in tickers]
    capital = rng.choice([0.0, 65536.0, 1048576.0])
    tree = ["strat", 20, False, [["sec", t, "sec", False, hx(1.0), "str"] for t in tickers],
            [["runonce"], ["weighspecified", ws], ["rebalance"]]]
    return {"name": name, "dates": dates, "intpos": False, "comm": ["none"], "prices": prices,
            "bidoffer": None, "coupons": None, "cost_long": None, "cost_short": None, "adata": [],
            "capital": hx(capital), "tree": tree, "pyseed": 0}


def gen_bankrupt_case(rng, name):
    """leveraged / short portfolios with a price shock that may or may not drive value through zero"""
    if rng.random() < 0.12:
        return gen_touch_zero_case(rng, name)
    n = rng.randint(6, 14)
    dates = gen_dates(rng, n)
    nt = rng.randint(2, 4)
    tickers = list(range(1, nt + 1))
    shock_row = rng.randint(2, n - 2)
    prices = []
    for t in tickers:
        p = dy(rng, 20, 80, 8)
        col = []
        for r in range(n):
            if r == shock_row and rng.random() < 0.7:
                p = p * rng.choice([0.125, 0.25, 4.0, 8.0, 2.0, 0.5])
            else:
                p = max(0.5, p + dy(rng, -2, 2, 8))
            col.append(hx(p))
        prices.append([t, col])
    lev = rng.choice([0.5, 1.0, 2.0, 3.0])

    def wts(sub):
        out = []
        for t in sub:
            out.append([t, hx(rng.choice([-1.0, -0.5, 0.5, 1.0, 1.5]) * lev / len(sub))])
        return out
    sched = rng.choice([["runonce"], ["runperiod", "daily", True, False, True], ["runperiod", "weekly", True, False, False]])
    nested = rng.random() < 0.4
    if not nested:
        sub = rng.sample(tickers, rng.randint(1, nt))
        tree = ["strat", 20, False, [["sec", t, "sec", False, hx(1.0), "str"] for t in sub],
                [sched, ["weighspecified", wts(sub)], ["rebalance"]]]
    else:
        kids = []
        for j in range(rng.randint(1, 2)):
            sub = rng.sample(tickers, rng.randint(1, nt))
            kids.append(["strat", 10 + j, False, [["sec", t, "sec", False, hx(1.0), "str"] for t in sub],
                         [["runperiod", "daily", True, False, False], ["weighspecified", wts(sub)], ["rebalance"]]])
        extra = rng.sample(tickers, 1)
        kids.append(["sec", extra[0], "sec", False, hx(1.0), "str"])
        pw = [[k[1], hx(rng.choice([0.25, 0.5, 1.0, -0.5]))] for k in kids]
        tree = ["strat", 20, False, kids, [sched, ["weighspecified", pw], ["rebalance"]]]
    comm = rng.choice([["none"], ["none"], ["prop", hx(0.001953125)], ["flat", hx(1.0)]])
    bidoffer = [[t, [hx(dy(rng, 0, 1, 8)) for _ in range(n)]] for t in tickers] if rng.random() < 0.3 else None
    return {"name": name, "dates": dates, "intpos": rng.random() < 0.4, "comm": comm, "prices": prices,
            "bidoffer": bidoffer, "coupons": None, "cost_long": None, "cost_short": None, "adata": [],
            "capital": hx(float(rng.choice([10000, 100000]))), "tree": tree, "pyseed": 0}


def gen_bankrupt_cases(seed, n, prefix="k"):
    rng = random.Random(seed * 17 + 3)
    return [gen_bankrupt_case(rng, "%s%05d" % (prefix, i)) for i in range(n)]


# ---------------------------------------------------------------- C19: tree wiring / universe scoping / lazy children
def gen_wiring_case(rng, name):
    """trees assembled in different ways (lists, dicts, strings, lazy_add / eager Security objects, sub-strategies attached
    later with parent=), shared tickers, strategies that declare no ticker; simple stacks that act on the universe"""
    g = BTGen(rng)
    g.wellformed = True
    n = rng.randint(6, 16)
    dates = gen_dates(rng, n)
    nt = rng.randint(3, 6)
    tickers = list(range(1, nt + 1))
    prices = [[t, gen_price_col(rng, n, p_nan=0.0, late=rng.random() < 0.15, zero=False)] for t in tickers]
    g.full = {t for t, col in prices if NAN not in col}
    next_id = [nt + 1]

    def nid():
        next_id[0] += 1
        return next_id[0]

    tmult = {t: rng.choice([1.0, 1.0, 2.0, 0.5]) for t in tickers}     # one contract size per ticker
    # a shape of its own: sub-strategies attached later with parent= that all hold the SAME lazy_add Security object
    shared_lazy = rng.choice(tickers) if rng.random() < 0.12 else None

    def sec(t):
        if t == shared_lazy:
            return ["sec", t, "sec", False, hx(tmult[t]), True]
        u = rng.random()
        if u < 0.35:
            return ["sec", t, "sec", False, hx(1.0), "str"]
        if u < 0.7:
            return ["sec", t, "sec", False, hx(tmult[t]), True]
        return ["sec", t, "sec", False, hx(tmult[t]), False]

    def leaf(depth):
        decl = rng.sample(tickers, rng.randint(1, nt)) if rng.random() < 0.7 else []
        if shared_lazy is not None and shared_lazy not in decl:
            decl.append(shared_lazy)
        kids = [sec(t) for t in decl]
        st = [g.calendar_scheduler(), ["selectall", False, False]]
        if rng.random() < 0.3 and decl:
            st.append(["selectthese", rng.sample(decl, rng.randint(1, len(decl))), False, False])
        st += [["weighequally"], ["rebalance"]]
        how = rng.choice(["list", "list", "dict"])
        return ["strat", nid(), False, kids, st, how]

    def inner(depth):
        kids = [leaf(depth + 1) if (depth >= 1 or rng.random() < 0.7) else inner(depth + 1)
                for _ in range(rng.randint(2, 3) if shared_lazy is not None else rng.randint(1, 3))]
        all_strats = True
        if rng.random() < 0.4 and shared_lazy is None:
            kids.insert(rng.randrange(len(kids) + 1), sec(rng.choice(tickers)))
            all_strats = False
        how = rng.choice(["list", "dict", "late", "late"]) if all_strats else rng.choice(["list", "dict"])
        if shared_lazy is not None:
            how = "late"
        first = rng.choice([["runonce"], ["runperiod", "daily", True, False, False], ["runperiod", "weekly", True, False, True]])
        # act on the universe: SelectAll sees the sub-strategy columns (and, for a strategy that declared no ticker, every ticker)
        if rng.random() < 0.6:
            st = [first, ["selectall", False, False], ["weighequally"], ["rebalance"]]
        else:
            ids = [k[1] for k in kids]
            ws = [rng.randint(1, 6) / 16.0 for _ in ids]
            while sum(ws) > 1:
                ws = [w / 2 for w in ws]
            st = [first, ["weighspecified", [[i, hx(w)] for i, w in zip(ids, ws)]], ["rebalance"]]
        return ["strat", nid(), False, kids, st, how]
    tree = inner(0) if (rng.random() < 0.75 or shared_lazy is not None) else leaf(0)
    comm = ["none"]
    if rng.random() < 0.5:
        comm = rng.choice([["flat", hx(dy(rng, 0, 4, 4))], ["pershare", hx(0.015625)], ["prop", hx(0.001953125)]])
    return {"name": name, "dates": dates, "intpos": rng.random() < 0.5, "comm": comm, "prices": prices,
            "bidoffer": None, "coupons": None, "cost_long": None, "cost_short": None, "adata": g.adata,
            "capital": hx(float(rng.choice([100000, 1000000]))), "tree": tree, "pyseed": rng.randint(0, 1000),
            "preset_comm": rng.random() < 0.5, "share_objects": (rng.random() < 0.5) or shared_lazy is not None}


def gen_wiring_cases(seed, n, prefix="t"):
    rng = random.Random(seed)
    return [gen_wiring_case(rng, "%s%05d" % (prefix, i)) for i in range(n)]


# ---------------------------------------------------------------- C13: RunIfOutOfBounds with long and short targets
def gen_oob_case(rng, name):
    """long/short books rebalanced when a held leg leaves its band: [weights, Or(calendar, RunIfOutOfBounds(tol)), Rebalance]"""
    n = rng.randint(8, 20)
    dates = gen_dates(rng, n)
    nt = rng.randint(2, 4)
    tickers = list(range(1, nt + 1))
    prices = [[t, gen_price_col(rng, n, p_nan=0.0)] for t in tickers]
    ws = []
    for t in tickers:
        w = rng.choice([0.5, 0.25, 0.375, 0.125, -0.25, -0.125, -0.375])
        ws.append([t, hx(w)])
    if all(float.fromhex(w) > 0 for _, w in ws):
        ws[-1][1] = hx(-0.25)
    tol = hx(rng.choice([0.015625, 0.03125, 0.0625, 0.125, 0.25]))
    gate = ["or", [rng.choice([["runonce"], ["runperiod", "monthly", True, False, False], ["runperiod", "yearly", True, False, False]]),
                   ["outofbounds", tol]]]
    st = [["selectthese", tickers, False, False], ["weighspecified", ws], gate, ["rebalance"]]
    kids = [["sec", t, "sec", False, hx(1.0), "str"] for t in tickers] if rng.random() < 0.5 else []
    comm = rng.choice([["none"], ["none"], ["prop", hx(0.001953125)]])
    return {"name": name, "dates": dates, "intpos": rng.random() < 0.3, "comm": comm, "prices": prices,
            "bidoffer": None, "coupons": None, "cost_long": None, "cost_short": None, "adata": [],
            "capital": hx(1000000.0), "tree": ["strat", nt + 2, False, kids, st], "pyseed": 0}


def gen_oob_cases(seed, n, prefix="o"):
    rng = random.Random(seed)
    return [gen_oob_case(rng, "%s%05d" % (prefix, i)) for i in range(n)]

"""Per-property configuration: which theorem file, which suites, which oracles."""
import json
import os

import common
import engine_corr
import oracles
import suites
from suites import backtest_suite


def sizes(tier, quick, thorough):
    return quick if tier == "quick" else thorough


def kf_c01_bankruptcy_weights(case, ic, k, fails):
    """K10: only weight clauses fail, and the root's bankrupt flag turned on at this very step"""
    if not all(": weight " in f for f in fails):
        return False
    cur = ic["steps"][k]["state"].get("r scal", [])
    prev = ic["steps"][k - 1]["state"].get("r scal", [])
    return bool(cur) and bool(prev) and cur[-1] == "T" and prev[-1] == "F"


# ---------------------------------------------------------------- C01
def run_c01(run, scratch, seed, tier):
    n = sizes(tier, 300, 6000)
    st = suites.engine_suite(run, scratch, seed, n, oracle_fns=[("C01 balance sheet", oracles.c01_balance_sheet)])
    run.add_suite("engine_histories", st)
    run.cov["rule"] = st["rule"]
    # the recorded rows of whole backtests, the date of a bankruptcy included
    import gen_backtest
    bst = backtest_suite(run, scratch, seed, sizes(tier, 120, 2500), oracle_fns=[("C01 recorded rows", oracles.c01_recorded_rows)])
    run.add_suite("backtest_runs", bst)
    kst = backtest_suite(run, scratch, seed, sizes(tier, 120, 2000), name="bankruptcy_paths",
                         oracle_fns=[("C01 recorded rows", oracles.c01_recorded_rows)], gen=gen_backtest.gen_bankrupt_cases)
    run.add_suite("bankruptcy_paths", kst)


PROPS = {
    "C01": {"props_file": "C01.v", "run": run_c01},
}


def replay(run, scratch, path, cfg):
    """re-run one stored violation on the current tree: exit 1 iff it still reproduces.
    Engine / backtest / report cases are re-run alone (correspondence + the oracle that failed); for the other kinds
    (sessions, scheduler and stack cases, kernel post-conditions, broken theorems) the property's quick check is re-run
    with the recorded seed, which regenerates the same inputs."""
    import backtest_corr
    obj = json.load(open(path))
    pid = obj.get("property", run.pid)
    case = obj.get("case")
    bad = False
    bt_oracles = {"C01": oracles.c01_recorded_rows, "C02": oracles.c02_attribution, "C03": oracles.c03_index, "C06": oracles.c06_rebalance, "C07": oracles.c07_ledger,
                  "C14": oracles.c14_selection, "C15": oracles.c15_weights, "C16": oracles.c16_bankruptcy,
                  "C17": oracles.c17_fixed_income, "C20": oracles.c20_risk}
    if isinstance(case, dict) and "ops" in case and "nrows" in case:
        r = engine_corr.run_cases([case], scratch)[0]
        print("correspondence:", r[1], json.dumps(r[2])[:400])
        bad = r[1] == "diff"
        if r[3]:
            mults = oracles.mults_of_case(case)
            if pid == "C01":
                for k in range(1, len(r[3]["steps"])):
                    f = oracles.c01_balance_sheet(case, r[3]["steps"][k]["state"], mults)
                    if f and k in oracles.observed_steps(case, r[3]):
                        print("oracle:", f[:3])
                        bad = True
            if pid == "C07":
                f = oracles.c07_trade_booking(case, r[3], suites.comm_fee)
                if f:
                    print("oracle:", f[:3])
                    bad = True
            if pid == "C05" and "_meta" in case:
                f = suites.c05_oracle(case, r[3])
                if f:
                    print("oracle:", f[:3])
                    bad = True
            want = obj.get("expected")
            if want:
                errs = [st["status"][2] for st in r[3]["steps"] if len(st["status"]) > 2 and st["status"][1] == "err"]
                got = errs[0] if errs else "no-error"
                print("expected error", want, "got", got)
                bad = bad or got != want
    elif isinstance(case, dict) and "dates" in case:
        c = dict(case, reports=True, report_error_date=True)
        di = common.parse_dump(common.run_impl(scratch, "impl_reports.py", json.dumps([c])))
        dm = common.parse_dump(common.run_model(common.bt_case_to_sexp(c)))
        ic, mc = di.get(c["name"]), dm.get(c["name"])
        extra = {}
        for st in ic["steps"]:
            for key in list(st["state"]):
                if key.startswith(("REP ", "ERRAT ")):
                    extra[key] = st["state"].pop(key)
                elif key.startswith(("RV ", "RT ")):
                    extra[key] = st["state"][key]
        if c.get("peek"):
            v, d = common.compare_case(suites.reports_and_histories(ic), suites.reports_and_histories(mc))
        else:
            v, d = common.compare_case(ic, mc)
        print("correspondence:", v, json.dumps(d)[:400])
        bad = v == "diff"
        if ic["steps"][-1]["status"][1] == "ok":
            fn = bt_oracles.get(pid)
            if fn:
                f = fn(c, ic)
                if f:
                    print("oracle:", f[:3])
                    bad = True
            if pid == "C18":
                f = oracles.c18_reports(c, ic, extra)
                if f:
                    print("oracle:", f[:3])
                    bad = True
        elif pid == "C10" and obj.get("suite", "").startswith("wellformed"):
            print("status:", ic["steps"][-1]["status"])
            bad = True
    else:
        import subprocess
        seed = str(obj.get("seed", run.seed))
        print("no single re-runnable case in this replay file (%s): re-running ./check %s --tier quick with seed %s"
              % (obj.get("broken") or obj.get("suite"), pid, seed))
        p = subprocess.run([os.path.join(common.VERIF, "check"), pid, "--tier", "quick"],
                           env=dict(os.environ, VERIF_SEED=seed, BT_VERIF_EVIDENCE_DIR=os.path.join(common.VERIF, "work", "evidence_replay")),
                           capture_output=True, text=True)
        print(p.stdout[-1500:])
        return 1 if p.returncode != 0 else 0
    print("REPRODUCED" if bad else "not reproduced on the current tree")
    return 1 if bad else 0


# ---------------------------------------------------------------- C12
def c12_expected(case):
    """the property statement, computed independently with pandas: list of expected booleans per call,
    and the set of call positions where only known finding K11 (edge dates honour only their flag) applies"""
    import pandas as pd
    kind, f, eop, l = case["algo"][1], bool(case["algo"][2]), bool(case["algo"][3]), bool(case["algo"][4])
    idx = pd.DatetimeIndex(pd.to_datetime(case["dates"], unit="s"))

    def pid(t):
        if kind == "daily":
            return t.toordinal()
        if kind == "weekly":
            return tuple(t.isocalendar()[:2])
        if kind == "monthly":
            return (t.year, t.month)
        if kind == "quarterly":
            return (t.year, t.quarter)
        return t.year
    n = len(idx)
    exp, k11 = [], set()
    for pos, r in enumerate(case["calls"]):
        if r == 0:
            exp.append(False)
            continue
        other = r + 1 if eop else r - 1
        changed = 1 <= other <= n - 1 and pid(idx[r]) != pid(idx[other])
        if r == 1:
            want = f or (eop and changed)
            if want and not f:
                k11.add(pos)
        elif r == n - 1:
            want = l or ((not eop) and changed)
            if want and not l:
                k11.add(pos)
        else:
            want = changed
        exp.append(want)
    return exp, k11


def c12_counter_expected(case):
    """what the property says for the counting / date schedulers over a sequence of calls (one call = one visit of the
    algo with target.now = dates[row]; the same date may be visited twice)"""
    dates, calls = case["dates"], case["calls"]

    def make(a):
        k = a[0]
        if k == "runonce":
            st = {"done": False}

            def f(row):
                r = not st["done"]
                st["done"] = True
                return r
            return f
        if k == "runafterdays":
            st = {"left": int(a[1])}

            def f(row):                      # the days are counted in visits
                if st["left"] > 0:
                    st["left"] -= 1
                    return False
                return True
            return f
        if k == "everyn":
            n, off = int(a[1]), int(a[2])
            st = {"seen": -1, "last": None}

            def f(row):                      # the k-th distinct date (k = 0, 1, ...) fires iff k >= offset and n | k - offset; once per date
                if st["last"] == row:
                    return False
                st["last"] = row
                st["seen"] += 1
                return st["seen"] >= off and (st["seen"] - off) % n == 0
            return f
        if k == "runondate":
            ds = set(a[1])
            return lambda row: dates[row] in ds
        if k == "runafterdate":
            return lambda row: dates[row] > a[1]
        if k == "not":
            g = make(a[1])
            return lambda row: not g(row)
        if k == "or":
            gs = [make(x) for x in a[1]]

            def f(row):
                rs = [g(row) for g in gs]    # Or calls every member
                return any(rs)
            return f
        return None
    f = make(case["algo"])
    if f is None:
        return None
    return [f(r) for r in calls]


def run_c12(run, scratch, seed, tier):
    import random
    import sched_suite as S
    rng = random.Random(seed)
    cal = S.run_calendar(scratch, tier, rng)
    run.add_suite("calendar_vs_pandas", {"evaluations": cal["days"] + cal["offsets"], "distinct_nontrivial": cal["days"],
                                         "traces_validated_against_impl": cal["days"] + cal["offsets"] - cal["n_mismatch"],
                                         "exhaustive": tier == "thorough",
                                         "rule": "year/month/day/quarter/ISO week/weekday/ISO year of every sampled day of the "
                                                 "pd.Timestamp range (thorough: every day) and now - DateOffset(months, days)",
                                         "samples": [{"days": cal["days"], "offsets": cal["offsets"]}]})
    if cal["n_mismatch"]:
        run.violation({"suite": "calendar_vs_pandas", "mismatches": cal["mismatches"],
                       "broken": "correspondence Cal.v vs pandas"},
                      "calendar model and pandas disagree: %s" % json.dumps(cal["mismatches"][:1]))
    pc = S.period_cases(3 if tier == "quick" else 4, rng, limit=(500 if tier == "quick" else 6000))
    cc = S.counter_cases(rng, 1500 if tier == "quick" else 20000)
    res = S.run_sched(scratch, pc + cc)
    bad = [(c, i, m) for c, i, m in res if i != m]
    nontrivial = len({json.dumps([c["algo"], c["dates"], c["calls"]]) for c, i, m in res if "T" in (i or []) and "F" in (i or [])})
    oracle_fail, k11_seen = [], 0
    for c, i, m in res[:len(pc)]:
        exp, k11 = c12_expected(c)
        got = [x == "T" for x in i]
        for pos, (a, b) in enumerate(zip(got, exp)):
            if a != b:
                if pos in k11 and not a:
                    k11_seen += 1
                else:
                    oracle_fail.append((c, pos, a, b))
    for c, i, m in res[len(pc):]:
        exp = c12_counter_expected(c)
        if exp is None or not i or any(x not in ("T", "F") for x in i):
            continue
        got = [x == "T" for x in i]
        for pos, (a, b) in enumerate(zip(got, exp)):
            if a != b:
                oracle_fail.append((c, pos, a, b))
                break
    if k11_seen:
        run.known_seen.add("c12_edge_date_flag_only")
    st = {"evaluations": len(res), "distinct_nontrivial": nontrivial, "traces_validated_against_impl": len(res) - len(bad),
          "disagreements": len(bad), "oracle_failures": len(oracle_fail), "k11_occurrences": k11_seen,
          "rule": "RunDaily..RunYearly: all 8 flag triples x all subsets (size <= 3/4, sampled to a cap) of a 27-stamp "
                  "boundary pool (New Year in ISO week 1/52/53, leap day, quarter ends, intraday stamps, same "
                  "day-of-month in different months), called on every row; counting schedulers: random call sequences "
                  "with repeated dates; non-trivial = distinct case whose results contain both True and False",
          "samples": [pc[0], cc[0]]}
    run.add_suite("scheduler_enumeration", st)
    run.cov["rule"] = st["rule"]
    if bad:
        c, i, m = bad[0]
        exp = None
        if c["algo"][0] == "runperiod":
            exp, _ = c12_expected(c)
        run.violation({"suite": "scheduler_enumeration", "case": c, "impl": i, "model": m, "expected_by_property": exp,
                       "n_disagreeing": len(bad), "broken": "correspondence of Algos.run_period/run_algo with bt/algos.py"},
                      "scheduler %s on dates %s: implementation %s, model %s" % (c["algo"], c["dates"], i, m))
    for c, pos, a, b in oracle_fail[:2]:
        run.violation({"suite": "scheduler_enumeration", "case": c, "call": pos, "impl": a, "property": b},
                      "scheduler %s returns %s on call %d where the property requires %s (dates %s)"
                      % (c["algo"], a, pos, b, c["dates"]))
    # "... and never on a date outside the data": RunPeriod as a function of the timestamp target.now
    oc = S.periodat_cases(rng, 400 if tier == "quick" else 6000)
    ores = S.run_periodat(scratch, oc)
    obad = [(c, i, m) for c, i, m in ores if i != m]
    off_true = []
    n_off = 0
    for c, i, m in ores:
        inside = set(c["dates"])
        for z, tok in zip(c["stamps"], i or []):
            if z not in inside:
                n_off += 1
                if tok != "F":
                    off_true.append((c, z, tok))
    run.add_suite("off_index_dates", {
        "evaluations": sum(len(c["stamps"]) for c in oc), "distinct_nontrivial": len({json.dumps(c) for c in oc}),
        "traces_validated_against_impl": len(ores) - len(obad), "disagreements": len(obad),
        "off_index_stamps": n_off, "off_index_answers_not_false": len(off_true),
        "rule": "RunDaily..RunYearly asked about every date of a generated index (pool subsets, business-day and gappy "
                "calendars) and about stamps off it: before the data, inside gaps (weekends, holidays), intraday on "
                "index days, after the last date; implementation == Algos.run_period_at, and off-index answers are False",
        "samples": oc[:1]})
    if obad:
        c, i, m = obad[0]
        run.violation({"suite": "off_index_dates", "case": c, "impl": i, "model": m, "n_disagreeing": len(obad),
                       "broken": "correspondence of Algos.run_period_at with RunPeriod.__call__"},
                      "scheduler %s on dates %s asked about stamps %s: implementation %s, model %s"
                      % (c["algo"], c["dates"], c["stamps"], i, m))
    for c, z, tok in off_true[:2]:
        run.violation({"suite": "off_index_dates", "case": c, "stamp": z, "impl": tok, "property": "F"},
                      "scheduler %s answers %s for %d, which is not a date of the data %s" % (c["algo"], tok, z, c["dates"]))


PROPS["C12"] = {"props_file": "C12.v", "run": run_c12}


# ---------------------------------------------------------------- C13
def c13_expected(case):
    """the property statement for a flat stack of scripted test doubles: (log, results) over the runs"""
    log, results = [], []
    calls = {}

    def call(m):
        k = calls.get(m[1], 0)
        calls[m[1]] = k + 1
        return bool(m[2][k]) if k < len(m[2]) else True
    for r in range(case["n"]):
        res = True
        marked = any(a[0] == "always" for a in case["algos"])
        for a in case["algos"]:
            ra = None
            m = a
            if a[0] == "always":
                ra, m = bool(a[1]), a[2]
            if m[0] != "mock":
                return None
            if res:
                log.append(m[1])
                res = call(m)
            elif ra:
                log.append(m[1])
                call(m)
        results.append(res)
    return ["log", ",".join(str(x) for x in log), "res", ",".join("T" if b else "F" for b in results)]


def run_c13(run, scratch, seed, tier):
    import random
    import sched_suite as S
    rng = random.Random(seed)
    flat = S.stack_cases(4 if tier == "quick" else 5)
    nested = S.nested_stack_cases(rng, 1500 if tier == "quick" else 20000)
    res = S.run_stack(scratch, flat + nested)
    bad = [(c, i, m) for c, i, m in res if i != m]
    ofail = []
    for c, i, m in res[:len(flat)]:
        exp = c13_expected(c)
        if exp is not None and exp != i:
            ofail.append((c, i, exp))
    st = {"evaluations": len(res), "distinct_nontrivial": len({json.dumps(c["algos"]) for c, i, m in res if len(c["algos"]) >= 2}),
          "traces_validated_against_impl": len(res) - len(bad), "disagreements": len(bad), "oracle_failures": len(ofail),
          "exhaustive": True,
          "rule": "all stacks of length <= 4 (thorough 5) over {True,False} x {plain, run_always=True, run_always=False}, "
                  "two runs each with flipped results (exhaustive), plus random nested stacks / Or / Not of depth <= 2; "
                  "compared: order of invocations and the stack's result per run; non-trivial = at least 2 algos",
          "samples": [flat[40], nested[0]]}
    run.add_suite("stack_truth_tables", st)
    run.cov["rule"] = st["rule"]
    if bad:
        c, i, m = bad[0]
        run.violation({"suite": "stack_truth_tables", "case": c, "impl": i, "model": m, "expected_by_property": c13_expected(c),
                       "n_disagreeing": len(bad), "broken": "correspondence Algos.stack_go/or_go/strat_run vs bt/core.py AlgoStack, Strategy.run"},
                      "stack %s: implementation %s, model %s" % (json.dumps(c["algos"]), i, m))
    for c, i, exp in ofail[:2]:
        run.violation({"suite": "stack_truth_tables", "case": c, "impl": i, "property": exp},
                      "stack %s: implementation %s, property requires %s" % (json.dumps(c["algos"]), i, exp))
    # the flow-control algos inside whole backtests (Require, Or, Not, RunIfOutOfBounds, temp reset per run)
    n = sizes(tier, 150, 2500)
    bst = backtest_suite(run, scratch, seed, n)
    run.add_suite("backtest_runs", bst)
    import gen_backtest
    ost = backtest_suite(run, scratch, seed + 7, sizes(tier, 150, 2500), name="out_of_bounds_runs", gen=gen_backtest.gen_oob_cases,
                         oracle_fns=[("C13 out of bounds", oracles.c13_out_of_bounds)])
    run.add_suite("out_of_bounds_runs", ost)


PROPS["C13"] = {"props_file": "C13.v", "run": run_c13}


# ---------------------------------------------------------------- C05
def run_c05(run, scratch, seed, tier):
    st = suites.alloc_suite(run, scratch, seed, tier)
    run.add_suite("alloc_grid", st)
    run.cov["rule"] = st["rule"]
    est = suites.engine_suite(run, scratch, seed, sizes(tier, 150, 3000))
    run.add_suite("engine_histories", est)


PROPS["C05"] = {"props_file": "C05.v", "run": run_c05}


# ---------------------------------------------------------------- C07
def run_c07(run, scratch, seed, tier):
    import gen_engine
    prof = gen_engine.Profile(p_upd_false=0.15, p_bidoffer=0.7, p_comm=0.85)
    book = lambda c, state, mults: []   # noqa: E731  (the booking oracle needs before/after: run below)
    st = suites.engine_suite(run, scratch, seed, sizes(tier, 300, 6000), profile=prof, keep=True)
    fails = 0
    for c, ic in st.pop("_kept"):
        f = oracles.c07_trade_booking(c, ic, suites.comm_fee)
        if f:
            fails += 1
            if fails <= 3:
                run.violation({"suite": "engine_histories", "case": c, "oracle": "C07 trade booking", "failures": f[:5]},
                              "C07 oracle fails on implementation history %s: %s" % (c["name"], f[0]))
    st["booking_oracle_failures"] = fails
    run.add_suite("engine_histories", st)
    run.cov["rule"] = st["rule"]
    bst = backtest_suite(run, scratch, seed, sizes(tier, 200, 3000),
                         oracle_fns=[("C07 ledger", oracles.c07_ledger)])
    run.add_suite("backtest_runs", bst)


PROPS["C07"] = {"props_file": "C07.v", "run": run_c07}


# ---------------------------------------------------------------- C03
def scale_case(c, k):
    """the same backtest with initial capital, every CapitalFlow / user adjustment amount and every blotter quantity multiplied by k"""
    import copy
    from gen_engine import hx
    d = copy.deepcopy(c)
    d["capital"] = hx(float.fromhex(c["capital"]) * k)

    def walk_algo(a):
        if a[0] in ("capitalflow", "useradjust"):
            a[1] = hx(float.fromhex(a[1]) * k)
        for x in a[1:]:
            if isinstance(x, list) and x and isinstance(x[0], str):
                walk_algo(x)
            elif isinstance(x, list):
                for y in x:
                    if isinstance(y, list) and y and isinstance(y[0], str):
                        walk_algo(y)

    def walk(t):
        if t[0] == "strat":
            for a in t[4]:
                walk_algo(a)
            for kid in t[3]:
                walk(kid)
    walk(d["tree"])
    # absolute quantities supplied as data (the blotter of ReplayTransactions) scale with the book as well
    for _, a in d.get("adata", []):
        if a[0] == "trans":
            for row in a[1]:
                row[2] = hx(float.fromhex(row[2]) * k)
    d["name"] = c["name"] + "x%d" % k
    return d


def run_c03(run, scratch, seed, tier):
    import backtest_corr
    import gen_backtest
    bst = backtest_suite(run, scratch, seed, sizes(tier, 250, 4000), oracle_fns=[("C03 index recurrence", oracles.c03_index)])
    run.add_suite("backtest_runs", bst)
    run.cov["rule"] = bst["rule"]
    # metamorphic: fractional positions + size-proportional costs => the index does not depend on capital
    base = [c for c in gen_backtest.gen_cases(seed + 1, sizes(tier, 120, 1500))
            if not c["intpos"] and c["comm"][0] in ("none", "prop", "pershare") and c["tree"][2] is False]
    pairs = [(c, scale_case(c, 4)) for c in base]
    res = backtest_corr.run_cases([x for p in pairs for x in p], scratch)
    by = {r[0]["name"]: r for r in res}
    bad = 0
    for c, d in pairs:
        a, b = by[c["name"]][3], by[d["name"]][3]
        if not a or not b or a["steps"][-1]["status"][1] != "ok" or b["steps"][-1]["status"][1] != "ok":
            continue
        pa = [common.tok_val(t) for t in a["steps"][-1]["state"]["r hg_prices"]]
        pb = [common.tok_val(t) for t in b["steps"][-1]["state"]["r hg_prices"]]
        if any(not oracles.near(x, y) for x, y in zip(pa, pb)):
            bad += 1
            if bad <= 2:
                run.violation({"suite": "scale_pairs", "case": c, "scaled_case": d, "prices": pa, "prices_scaled": pb},
                              "index depends on the amount of capital: %s vs x4" % c["name"])
    run.add_suite("scale_pairs", {"evaluations": 2 * len(pairs), "distinct_nontrivial": len(pairs),
                                  "traces_validated_against_impl": sum(1 for r in res if r[1] != "diff"),
                                  "oracle_failures": bad,
                                  "rule": "fractional positions, commission none / proportional / per-share: the same backtest "
                                          "with capital and CapitalFlow amounts x4 must give the same root index (1e-9)",
                                  "samples": [{"name": c["name"]} for c, _ in pairs[:2]]})


PROPS["C03"] = {"props_file": "C03.v", "run": run_c03}


# ---------------------------------------------------------------- C08
def run_c08(run, scratch, seed, tier):
    st = suites.schedule_suite(run, scratch, seed, sizes(tier, 120, 2500), k_variants=(2 if tier == "quick" else 6))
    run.add_suite("schedule_suite", st)
    run.cov["rule"] = st["rule"]
    est = suites.engine_suite(run, scratch, seed, sizes(tier, 150, 3000))
    run.add_suite("engine_histories", est)


PROPS["C08"] = {"props_file": "C08.v", "run": run_c08}


# ---------------------------------------------------------------- C16
def run_c16(run, scratch, seed, tier):
    import gen_backtest
    import gen_engine
    bst = backtest_suite(run, scratch, seed, sizes(tier, 250, 5000), name="bankruptcy_paths",
                         oracle_fns=[("C16 bankruptcy", oracles.c16_bankruptcy)], gen=gen_backtest.gen_bankrupt_cases,
                         known=[("c16_nested_partial_liquidation", lambda c, ic, f: all(x.startswith("[K13") for x in f)),
                                ("c16_zero_value_not_closed", lambda c, ic, f: all(x.startswith("[K5") or x.startswith("[K13") for x in f)
                                 and any(x.startswith("[K5") for x in f))])
    run.add_suite("bankruptcy_paths", bst)
    run.cov["rule"] = ("leveraged / short weightings (flat and nested trees) with a price shock (x0.125 .. x8) on a random row, "
                       "so that value crosses zero, touches it or stays positive; " + bst["rule"])
    prof = gen_engine.Profile(big_loss=0.2, p_short=0.5, p_fi_root=0.15)
    est = suites.engine_suite(run, scratch, seed, sizes(tier, 200, 4000), profile=prof)
    run.add_suite("engine_histories", est)


PROPS["C16"] = {"props_file": "C16.v", "run": run_c16}


# ---------------------------------------------------------------- C17
def gen_fi_cases(seed, n):
    import random
    import gen_backtest
    rng = random.Random(seed * 13 + 1)
    return [gen_backtest.gen_fi_case(rng, "f%05d" % i) for i in range(n)]


def run_c17(run, scratch, seed, tier):
    import gen_engine
    bst = backtest_suite(run, scratch, seed, sizes(tier, 250, 4000), name="fi_suite",
                         oracle_fns=[("C17 fixed income", oracles.c17_fixed_income), ("C07 ledger (carry)", oracles.c07_ledger)],
                         gen=gen_fi_cases)
    run.add_suite("fi_suite", bst)
    run.cov["rule"] = ("FixedIncomeStrategy roots over mixes of the five security classes, irregular coupons, asymmetric "
                       "holding costs, notional schedules via SetNotional, long and short targets, close / roll tables; " + bst["rule"])
    prof = gen_engine.Profile(p_fi_root=0.8, p_bidoffer=0.5)
    est = suites.engine_suite(run, scratch, seed, sizes(tier, 200, 4000), profile=prof)
    run.add_suite("engine_histories_fi", est)


PROPS["C17"] = {"props_file": "C17.v", "run": run_c17}


# ---------------------------------------------------------------- C02
def run_c02(run, scratch, seed, tier):
    bst = backtest_suite(run, scratch, seed, sizes(tier, 300, 5000),
                         oracle_fns=[("C02 attribution", oracles.c02_attribution)])
    run.add_suite("backtest_runs", bst)
    run.cov["rule"] = bst["rule"]
    fst = backtest_suite(run, scratch, seed + 3, sizes(tier, 120, 2000), name="fi_suite",
                         oracle_fns=[("C02 attribution", oracles.c02_attribution)], gen=gen_fi_cases)
    run.add_suite("fi_suite", fst)
    est = suites.engine_suite(run, scratch, seed, sizes(tier, 150, 3000))
    run.add_suite("engine_histories", est)


PROPS["C02"] = {"props_file": "C02.v", "run": run_c02}


# ---------------------------------------------------------------- C14 / C15 / C06
def kernel_suite(run, scratch, seed, tier, label):
    out = json.loads(common.run_impl(scratch, "impl_kernels.py", json.dumps({"seed": seed, "n": sizes(tier, 40, 600)})))
    for f in out["failures"][:2]:
        run.violation({"suite": "kernel_postconditions", "failure": f}, "%s: %s" % (label, f["what"]))
    run.add_suite("kernel_postconditions", {
        "evaluations": out["evaluations"], "distinct_nontrivial": out["evaluations"], "oracle_failures": out["n_failures"],
        "traces_validated_against_impl": 0,
        "rule": "algos whose numerical kernel lies outside the model (WeighInvVol, WeighERC, WeighMeanVar, WeighRandomly, "
                "TargetVol on two calls with a changing selection, PTE_Rebalance, SelectRandomly, SelectRegex, LimitWeights) run on "
                "the real bt over random price panels; documented post-conditions recomputed with numpy over the documented window",
        "samples": [{"seed": seed}]})


def run_c14(run, scratch, seed, tier):
    bst = backtest_suite(run, scratch, seed, sizes(tier, 300, 5000), oracle_fns=[("C14 selection", oracles.c14_selection)])
    run.add_suite("backtest_runs", bst)
    run.cov["rule"] = "per-run trace of temp['selected'] / temp['stat'] compared with the model bit-for-bit; " + bst["rule"]
    kernel_suite(run, scratch, seed, tier, "C14")


def run_c15(run, scratch, seed, tier):
    bst = backtest_suite(run, scratch, seed, sizes(tier, 300, 5000), oracle_fns=[("C15 weights", oracles.c15_weights), ("C15 limit deltas", oracles.c15_limit_deltas)])
    run.add_suite("backtest_runs", bst)
    run.cov["rule"] = "per-run trace of temp['weights'] compared with the model bit-for-bit; " + bst["rule"]
    kernel_suite(run, scratch, seed, tier, "C15")


def run_c06(run, scratch, seed, tier):
    bst = backtest_suite(run, scratch, seed, sizes(tier, 300, 5000), oracle_fns=[("C06 rebalance", oracles.c06_rebalance), ("C06 rebalance over time", oracles.c06_rebalance_over_time)])
    run.add_suite("backtest_runs", bst)
    run.cov["rule"] = bst["rule"]
    import gen_engine
    prof = gen_engine.Profile(p_upd_false=0.4)
    est = suites.engine_suite(run, scratch, seed, sizes(tier, 200, 4000), profile=prof)
    run.add_suite("engine_histories", est)


PROPS["C14"] = {"props_file": "C14.v", "run": run_c14}
PROPS["C15"] = {"props_file": "C15.v", "run": run_c15}
PROPS["C06"] = {"props_file": "C06.v", "run": run_c06}


# ---------------------------------------------------------------- C04
def run_c04(run, scratch, seed, tier):
    st = suites.lookahead_suite(run, scratch, seed, sizes(tier, 250, 4000))
    run.add_suite("lookahead_pairs", st)
    run.cov["rule"] = st["rule"]
    bst = backtest_suite(run, scratch, seed, sizes(tier, 250, 4000))
    run.add_suite("backtest_runs", bst)
    diffs = list(run.last_diff_cases)
    fst = backtest_suite(run, scratch, seed + 3, sizes(tier, 80, 1500), name="fi_suite", gen=gen_fi_cases)
    run.add_suite("fi_suite", fst)
    diffs += run.last_diff_cases
    import gen_backtest
    # UpdateRisk reads unit-risk frames that carry their own date index: it must read the row of the current date
    rst = backtest_suite(run, scratch, seed + 5, sizes(tier, 100, 2000), name="risk_suite", gen=gen_backtest.gen_risk_cases)
    run.add_suite("risk_suite", rst)
    diffs += run.last_diff_cases
    if diffs:
        # a correspondence broke: look for an input on which the property itself fails, starting from the disagreeing runs
        run.add_suite("lookahead_search", suites.lookahead_search(run, scratch, seed, diffs))


PROPS["C04"] = {"props_file": "C04.v", "run": run_c04, "level": "other"}


# ---------------------------------------------------------------- C20
def run_c20(run, scratch, seed, tier):
    import gen_backtest
    rst = backtest_suite(run, scratch, seed, sizes(tier, 200, 4000), name="risk_suite",
                         oracle_fns=[("C20 risk", oracles.c20_risk)], gen=gen_backtest.gen_risk_cases)
    run.add_suite("risk_suite", rst)
    run.cov["rule"] = ("UpdateRisk over flat and nested trees with per-security multipliers, unit-risk frames on their own index "
                       "(missing columns count as zero), a one-instrument hedge of the measure, UpdateRisk again; " + rst["rule"])
    fst = backtest_suite(run, scratch, seed + 3, sizes(tier, 200, 3000), name="fi_suite",
                         oracle_fns=[("C20 close/roll", oracles.c20_risk)], gen=gen_fi_cases,
                         known=[("c20_lazy_child_not_closed", lambda c, ic, f: all(x.startswith("[K14") for x in f))])
    run.add_suite("fi_suite_close_roll", fst)
    out = json.loads(common.run_impl(scratch, "impl_hedge.py", json.dumps({"seed": seed, "n": sizes(tier, 60, 1000)})))
    for f in out["failures"][:2]:
        run.violation({"suite": "hedge_postconditions", "failure": f}, "C20: " + f["what"])
    run.add_suite("hedge_postconditions", {
        "evaluations": out["evaluations"], "distinct_nontrivial": out["evaluations"], "oracle_failures": out["n_failures"],
        "traces_validated_against_impl": 0,
        "rule": "HedgeRisks with 1-3 measures and as many / one more / one fewer instruments (np.linalg kernels are outside the "
                "model), unit-risk tables on different date indexes with time-varying values, multipliers: after hedging and a "
                "fresh UpdateRisk every measure is zero (square / over-determined) or the residual satisfies the normal equations",
        "samples": [{"seed": seed}]})


PROPS["C20"] = {"props_file": "C20.v", "run": run_c20}


# ---------------------------------------------------------------- C09
def run_c09(run, scratch, seed, tier):
    st = suites.nested_suite(run, scratch, seed, sizes(tier, 120, 2500))
    run.add_suite("nested_vs_standalone", st)
    run.cov["rule"] = st["rule"]


PROPS["C09"] = {"props_file": "C09.v", "run": run_c09}


# ---------------------------------------------------------------- C10
def run_c10(run, scratch, seed, tier):
    import shutil
    wst = suites.wellformed_suite(run, scratch, seed, sizes(tier, 250, 4000))
    wst["build"] = common.core_kind(scratch)
    run.add_suite("wellformed_runs", wst)
    run.cov["rule"] = wst["rule"]
    ist = suites.illformed_suite(run, scratch, seed, sizes(tier, 80, 800))
    ist["build"] = common.core_kind(scratch)
    run.add_suite("illformed_stream", ist)
    # the general generator too (its errors are legitimate: the model must agree on which error, where)
    bst = backtest_suite(run, scratch, seed + 1, sizes(tier, 120, 2000))
    run.add_suite("backtest_runs", bst)
    if tier == "thorough":
        cs = common.make_compiled_scratch()
        try:
            kind = common.core_kind(cs)
            if kind != "compiled":
                raise RuntimeError("the compiled scratch copy imports the interpreted core")
            wc = suites.wellformed_suite(run, cs, seed + 2, 1500, name="wellformed_runs_compiled")
            wc["build"] = kind
            run.add_suite("wellformed_runs_compiled", wc)
            icst = suites.illformed_suite(run, cs, seed + 2, 400, name="illformed_stream_compiled")
            icst["build"] = kind
            run.add_suite("illformed_stream_compiled", icst)
        finally:
            shutil.rmtree(cs, ignore_errors=True)
    else:
        run.notes.append("quick tier runs the interpreted build only; the thorough tier also builds the Cython extension from the "
                         "current tree and repeats both suites on it")


PROPS["C10"] = {"props_file": "C10.v", "run": run_c10}


# ---------------------------------------------------------------- C11
def run_c11(run, scratch, seed, tier):
    st = suites.isolation_suite(run, scratch, seed, sizes(tier, 36, 400),
                                hashseeds=(1, 4242) if tier == "quick" else (1, 4242, 31337))
    run.add_suite("isolation_sessions", st)
    run.cov["rule"] = st["rule"]
    run.notes.append("hash seeds, processes and object aliasing are runtime behaviour the pure model cannot exhibit: the theorems say that the "
                     "model's session is order-independent and run-once; the suite is what shows the implementation behaves like the model")


PROPS["C11"] = {"props_file": "C11.v", "run": run_c11, "level": "other"}


# ---------------------------------------------------------------- C18
def run_c18(run, scratch, seed, tier):
    st = suites.report_suite(run, scratch, seed, sizes(tier, 300, 5000))
    run.add_suite("reports", st)
    run.cov["rule"] = st["rule"]


PROPS["C18"] = {"props_file": "C18.v", "run": run_c18}


# ---------------------------------------------------------------- C19
def run_c19(run, scratch, seed, tier):
    st = suites.wiring_suite(run, scratch, seed, sizes(tier, 150, 2500))
    run.add_suite("wiring", st)
    run.cov["rule"] = st["rule"]
    bst = backtest_suite(run, scratch, seed + 1, sizes(tier, 100, 1500))      # lazily created string children everywhere
    run.add_suite("backtest_runs", bst)


PROPS["C19"] = {"props_file": "C19.v", "run": run_c19}

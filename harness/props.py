"""Per-property configuration: which theorem file, which suites, which oracles."""
import json

import common
import engine_corr
import oracles
import suites


def sizes(tier, quick, thorough):
    return quick if tier == "quick" else thorough


def kf_c01_bankruptcy_weights(case, ic, k, fails):
    """K10: only weight clauses fail, and the root's bankrupt flag turned on at this very step"""
    if not all(": weight " in f for f in fails):
        return False
    cur = ic["steps"][k]["state"].get("r scal", [])
    prev = ic["steps"][k - 1]["state"].get("r scal", [])
    return bool(cur) and bool(prev) and cur[-1] == "T" and prev[-1] == "F"


# ---------------------------------------------------------------- C01
def run_c01(run, scratch, seed, tier):
    n = sizes(tier, 300, 6000)
    st = suites.engine_suite(run, scratch, seed, n, oracle_fns=[("C01 balance sheet", oracles.c01_balance_sheet)],
                             known=[("c01_bankruptcy_date_weights", kf_c01_bankruptcy_weights)])
    run.add_suite("engine_histories", st)
    run.cov["rule"] = st["rule"]


PROPS = {
    "C01": {"props_file": "C01.v", "run": run_c01},
}


def replay(run, scratch, path, cfg):
    """re-run one stored case on the current tree"""
    obj = json.load(open(path))
    case = obj.get("case")
    if case is None:
        print("replay file carries no case:", obj.get("broken"))
        return 1
    r = engine_corr.run_cases([case], scratch)[0]
    print("correspondence:", r[1], json.dumps(r[2]))
    bad = r[1] == "diff"
    if r[3]:
        mults = oracles.mults_of_case(case)
        for k in range(1, len(r[3]["steps"])):
            f = oracles.c01_balance_sheet(case, r[3]["steps"][k]["state"], mults)
            if f and k in oracles.observed_steps(case, r[3]):
                print("oracle:", f[:3])
                bad = True
    return 1 if bad else 0

"""Backtest correspondence suite: whole bt.Backtest runs vs the model's [backtest]."""
import json
import os
import sys

sys.path.insert(0, os.path.dirname(os.path.abspath(__file__)))
import common  # noqa: E402
import gen_backtest  # noqa: E402


def run_cases(cases, scratch, chunk=100):
    results = []
    for i in range(0, len(cases), chunk):
        part = cases[i:i + chunk]
        impl_out = common.run_impl(scratch, "impl_backtest.py", json.dumps(part))
        model_out = common.run_model("\n".join(common.bt_case_to_sexp(c) for c in part))
        di, dm = common.parse_dump(impl_out), common.parse_dump(model_out)
        for c in part:
            if c["name"] not in di or c["name"] not in dm:
                results.append((c, "diff", {"what": "case missing from output"}, None, None))
                continue
            v, d = common.compare_case(di[c["name"]], dm[c["name"]])
            results.append((c, v, d, di[c["name"]], dm[c["name"]]))
    return results


def main():
    seed = int(sys.argv[1]) if len(sys.argv) > 1 else 1
    n = int(sys.argv[2]) if len(sys.argv) > 2 else 50
    scratch = common.make_scratch()
    try:
        cases = gen_backtest.gen_cases(seed, n)
        res = run_cases(cases, scratch)
        tally, groups, errs = {}, {}, {}
        for c, v, d, ic, mc in res:
            tally[v] = tally.get(v, 0) + 1
            if v != "equal":
                k = (v, d.get("what") or d.get("key", "").split(" ")[-1], str(d.get("impl"))[:50], str(d.get("model"))[:50])
                groups.setdefault(k, []).append(c["name"])
            if ic:
                st = ic["steps"][-1]["status"]
                k = st[2] if len(st) > 2 and st[1] == "err" else "completed"
                errs[k] = errs.get(k, 0) + 1
        print(tally)
        for k, names in sorted(groups.items(), key=lambda kv: -len(kv[1]))[:25]:
            print(len(names), k, names[:4])
        print("final status histogram (impl):", errs)
    finally:
        import shutil
        shutil.rmtree(scratch, ignore_errors=True)


if __name__ == "__main__":
    main()

"""Texts of the claimed checks (MANIFEST.json is generated from this)."""
COMMON_NOTE = ("Theorems are about the real-number instance of the model (bt's TOL idealised to 0); axioms: only those of "
               "Coq's standard library reported by Print Assumptions (classical reals, and Classical_Prop.classic where listed in the evidence); "
               "the model is hand-written and tied to /repo by the correspondence run of this check (bit-exact float instance via extraction); "
               "extraction, the OCaml driver and the Python harness are trusted; float rounding is not verified.")
CHECKS = {
    "C01": {"text": "Theorem (all trees, dates, paper behaviours): StrategyBase.update / SecurityBase.update establish the balance-sheet "
                    "predicate (value = cash + children, notional = sum |child notional|, security value = position x price x multiplier, "
                    "child weight = value / parent value) on every well-formed tree. Correspondence: raw private state after every operation "
                    "of generated histories, bit-exact against the float instance of the same model text; oracle on observed states.",
            "note": COMMON_NOTE + " WF-preservation by every operation and the bankruptcy-date weight clause are not yet theorems (the latter is known finding K10)."},
    "C12": {"text": "Theorems for every timestamp (no bound) and every index: month/day ranges, ISO (year, week) pairs equal iff same Monday-based week, "
                    "compare_dates true iff the period identifiers differ (day / ISO week / month / quarter / year), RunPeriod never fires on the synthetic row, "
                    "fires on interior dates exactly on period changes (begin and end-of-period modes), first/last dates by flag; RunOnce and RunAfterDays over "
                    "arbitrary call sequences; the last-date clause is refuted by a checked witness (known finding K11). Correspondence: calendar vs pandas over the "
                    "Timestamp range, exhaustive enumeration of flag triples x boundary-date subsets, random call sequences for the counting schedulers.",
            "note": COMMON_NOTE + " RunEveryNPeriods / RunOnDate / RunAfterDate are covered by correspondence and oracle only."},
    "C13": {"text": "Axiom-free theorems for every stack, result pattern and run_always placement, in both execution modes: which algos are invoked and in which "
                    "order (prefix up to the first False, then the later run_always=True algos), what the stack reports, that the two modes agree when nothing is marked, "
                    "Or invokes every branch once and reports the disjunction, Not inverts; instantiated on the interpreter for stacks of test doubles. "
                    "Correspondence: exhaustive truth tables (length <= 4/5, 6 kinds per slot, two runs) and random nested stacks on the real AlgoStack / Strategy.run, "
                    "plus whole backtests with Require / Or / Not / RunIfOutOfBounds compared through per-run temp traces.",
            "note": COMMON_NOTE + " RunIfOutOfBounds and the per-run temp reset are decided by correspondence, not yet by theorems."},
}
NOT_APPLICABLE = {}

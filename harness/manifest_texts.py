"""Texts of the claimed checks (MANIFEST.json is generated from this)."""
COMMON_NOTE = ("Theorems are about the real-number instance of the model (bt's TOL idealised to 0); axioms: only those of "
               "Coq's standard library reported by Print Assumptions (classical reals, and Classical_Prop.classic where listed in the evidence); "
               "the model is hand-written and tied to /repo by the correspondence run of this check (bit-exact float instance via extraction); "
               "extraction, the OCaml driver and the Python harness are trusted (every engine suite also cross-checks the extracted binary against the kernel's vm_compute of the same "
               "definitions on a sample of its cases); float rounding is not verified.")
CHECKS = {
    "C01": {"text": "Theorems (all declaration trees, data, operation sequences, dates, paper behaviours): construction establishes the well-formedness invariant, every "
                    "operation (update, adjust, allocate, transact, rebalance, close, flatten, property reads, lazily created children) preserves it, and on every "
                    "well-formed tree StrategyBase.update / SecurityBase.update establish the balance-sheet predicate (value = cash + children, notional = sum |child "
                    "notional|, security value = position x price x multiplier, child weight = value / parent value): hence the balance sheet holds after the update of "
                    "EVERY reachable state (the one exception, stated in the theorem: the update on which a root goes bankrupt with every position already flat leaves "
                    "the tree stale). Correspondence: raw private state after every operation of generated histories, bit-exact against the float instance of the same "
                    "model text; oracle on observed states.",
            "note": COMMON_NOTE + " Whole backtests: every stock algo of the model and every Or / Not / AlgoStack / run_always composition preserves well-formedness "
                    "(induction over the algo syntax), so do Strategy.run and Backtest.run; the state at the end of EVERY date of EVERY backtest (any declaration, "
                    "data, stacks) is well-formed and, when fresh, balanced at every node."},
    "C12": {"text": "Theorems for every timestamp (no bound) and every index: month/day ranges, ISO (year, week) pairs equal iff same Monday-based week, "
                    "compare_dates true iff the period identifiers differ (day / ISO week / month / quarter / year), RunPeriod never fires on the synthetic row, "
                    "fires on interior dates exactly on period changes (begin and end-of-period modes), first/last dates by flag; RunOnce and RunAfterDays over "
                    "arbitrary call sequences; the last-date clause is refuted by a checked witness (known finding K11). Correspondence: calendar vs pandas over the "
                    "Timestamp range, exhaustive enumeration of flag triples x boundary-date subsets, random call sequences for the counting schedulers.",
            "note": COMMON_NOTE + " RunOnDate / RunAfterDate (exactly on / strictly after), RunEveryNPeriods (once per distinct date; the k-th distinct date fires iff k = offset mod n) are theorems too. 'Never on a date outside the data': "
                    "RunPeriod as a function of the timestamp target.now (Algos.run_period_at) is False off the index and run_period at the date's row on it (theorems); "
                    "the off_index_dates suite asks implementation and model about stamps before, inside gaps of, intraday on and after generated indices."},
    "C13": {"text": "Axiom-free theorems for every stack, result pattern and run_always placement, in both execution modes: which algos are invoked and in which "
                    "order (prefix up to the first False, then the later run_always=True algos), what the stack reports, that the two modes agree when nothing is marked, "
                    "Or invokes every branch once and reports the disjunction, Not inverts; instantiated on the interpreter for stacks of test doubles. "
                    "Correspondence: exhaustive truth tables (length <= 4/5, 6 kinds per slot, two runs) and random nested stacks on the real AlgoStack / Strategy.run, "
                    "plus whole backtests with Require / Or / Not / RunIfOutOfBounds compared through per-run temp traces.",
            "note": COMMON_NOTE + " RunIfOutOfBounds (True iff some child with a target deviates relatively by more than the tolerance, on a fresh tree) and the per-run temp reset "
                    "(temp cleared, perm and stack untouched, nothing else in the tree changed) are theorems; a dedicated long/short out-of-bounds suite exercises negative targets."},
}
CHECKS["C05"] = {
    "text": "Theorems (any commission function unless stated): a zero amount does nothing; a missing or zero price is refused with an error; "
            "allocating exactly minus the value closes the position for every commission function and spread; fractional positions without costs: "
            "cost equals the amount exactly (either sign, any prior position); whole units without costs buying into a flat/long position: the quantity is a "
            "whole number, within the budget, and one more unit would not fit (the sizing search is followed through its break exit). The total / with-costs "
            "statement is false of the code (known findings K1, K2, K12 with witnesses). Correspondence: product grid of 9600 allocations + random dyadic points, "
            "bit-exact incl. which error is raised; budget / maximality / integrality / close-out oracle on every recorded allocation.",
    "note": COMMON_NOTE + " With non-zero costs and for short-side integer sizing only the correspondence and the oracle decide (no theorem yet)."}
CHECKS["C07"] = {
    "text": "Theorems: one executed trade of quantity q (market or custom price) adds q x price x multiplier plus the half-spread (or custom-price difference) to the "
            "security's outlay accumulator, moves the position by q, and asks the parent to book -(outlay + fee) on capital and +fee on its fee accumulator with "
            "fee = commission(q, price x multiplier), once; the parent books exactly that and its net flows are untouched. Correspondence: engine histories weighted "
            "to spreads/commissions/custom prices; per-trade booking oracle on before/after states; per-node per-date ledger oracle on whole backtests "
            "(cash change = flows - own securities' outlays - fees - capital passed to sub-strategies + swept carry).",
    "note": COMMON_NOTE + " Ledger theorems for a strategy of securities: one allocate(amount) changes cash by amount - recorded outlays - recorded fees and books the amount as a flow "
            "(transact: no flow), an update moves the outlay accumulator into the row without changing the sum. The per-date identity over nested trees (capital passed to "
            "sub-strategies, swept carry) is decided by the oracle on implementation histories plus correspondence."}
CHECKS["C03"] = {
    "text": "Theorems: a new strategy's index is 100; at every update price x (last value + net flows) = last price x value (market-value strategies), "
            "the index stays put on a zero base with zero value and the update refuses otherwise; a flow of any size and sign leaves the index unchanged when no "
            "P&L has accrued on the date, and the unrestricted statement is refuted by a checked witness (known finding K3); the index depends on value, last value "
            "and flows only through ratios (scale invariance of the formula). Correspondence: whole backtests incl. CapitalFlow schedules, bit-exact; recurrence "
            "oracle on the recorded rows; metamorphic pairs (capital x4 with fractional positions and size-proportional costs give the same index).",
    "note": COMMON_NOTE + " Scale invariance of whole runs is decided by the metamorphic pairs; only the formula-level invariance is a theorem."}
CHECKS["C08"] = {
    "text": "Theorems: a second StrategyBase.update of the same date returns the very same tree, for every well-formed tree of any depth (values, prices, weights, every "
            "history row, universe columns, paper copies not stepped again); the update of a node does not read the weight its parent gave it; re-running "
            "SecurityBase.update (all five classes) returns the very same record, and an update writes only the row of its own date in every history (append-only). Correspondence + oracle: histories replayed with duplicated updates and reads of every "
            "accessor placed after updates (final states equal), pairs 'read on a stale tree' vs 'explicit update then read' (same returned value, same state), rows "
            "before the clock compared between consecutive steps, all series accessors checked not to extend beyond the current date; a scenario family around "
            "securities left idle over date changes.",
    "note": COMMON_NOTE + " The tree-level theorem is over the reals; on floats the suite compares with the 1e-9 relation because coupons swept on the first update of a date "
            "re-associate a float sum. Freshness of reads (stale flag) is decided by the schedule suite."}
CHECKS["C02"] = {
    "text": "Theorems: a trade at the current (or a custom) price leaves 'parent cash + position marked at the current price' unchanged except for exactly the spread "
            "cost and the fee; every update makes each strategy's value its cash plus its children's values (so capital moved between a parent and a sub-strategy "
            "cancels). Trees of any depth: on a balanced tree the root's value is all the cash held anywhere in the tree plus position x price x multiplier over "
            "every security, so moving capital between a parent and its sub-strategies cannot change it; StrategyBase.update between two dates changes the root's value "
            "by exactly the parked carry it sweeps up plus the mark-to-market change of holdings whose positions and multipliers are the ones held before, and moves no "
            "other cash. Oracle on whole implementation backtests (market-value and fixed-income, nested, with user-written adjustments): day-by-day attribution "
            "V_t - V_{t-1} = sum pos_{t-1} (p_t - p_{t-1}) m + flows + non-flow adjustments + carry_{t-1} - fees_t - bid/offer paid_t from the recorded series; correspondence.",
    "note": COMMON_NOTE + " Strategy-level theorems: one allocate(amount) / transact(q) on a strategy of securities (any number of children traded, any commission, spreads, whole or "
            "fractional units incl. the sizing search) changes cash + sum(position x price x multiplier) by exactly the amount received minus recorded bid/offer minus recorded fees. "
            "The day-level attribution identity over whole nested trees (price moves, carry) is decided by the oracle + correspondence, not by one theorem."}
CHECKS["C16"] = {
    "text": "Theorems: after root.update the bankrupt flag is set iff it was set or the freshly summed value of a market-value root is negative (never for fixed income); "
            "the update of a non-root strategy never touches the flag; on a date whose update leaves the root flagged Backtest.run neither runs the algos nor updates again. "
            "Suite: leveraged/short weightings with price shocks through, onto and short of zero value (flat and nested); oracle: flag iff a recorded value is negative, "
            "all positions flat from that date, value and cash constant afterwards, no stack run afterwards, sub-strategies never flagged. Known findings K13, K5.",
    "note": COMMON_NOTE + " Theorem for flat strategies: the liquidation closes every security that has a value, for every commission function and spread (zero-value positions are left: K5). 'Every position is closed' is false of the code for nested trees with costs / whole units (K13) and zero-value children (K5); for flat trees it is decided by oracle + correspondence."}
CHECKS["C17"] = {
    "text": "Theorems: notional after an update is market value (Security) / position (FixedIncomeSecurity, CouponPayingSecurity) / zero (hedge classes); strategy notional "
            "= sum |child notional| and notional weights (balance-sheet theorem); carry = position x coupon - cost x |position| on the long/short side, parked for the "
            "parent; NaN coupon on an open position errors; the index moves additively by 100 x pnl / previous (or first) notional, error on zero notional with pnl. "
            "Suite: FixedIncomeStrategy backtests over all five classes with coupons, asymmetric costs, SetNotional schedules, close/roll tables; oracles on notional rows, "
            "index rows and the cash ledger (carry paid on the next date).",
    "note": COMMON_NOTE + " Rebalance-to-notional targets are decided by correspondence (trace of temp weights + positions), not by a theorem; FixedIncomeSecurity.fixed_income is False in bt (sized by market value): behaviour is modelled as is."}
CHECKS["C06"] = {
    "text": "Theorems: one rebalance allocation (weight - current weight) x base, with fractional positions and no costs, leaves the child's marked value at exactly "
            "w x parent value whatever the prior position, charging the parent exactly the amount; a zero target / non-target child is closed completely through the "
            "close-out shortcut (any commission). Correspondence: whole backtests (Rebalance, cash fractions via base scaling, sub-strategy targets, RebalanceOverTime, "
            "successive rebalances) and engine histories with update=False chains, bit-exact; oracle: after every Rebalance of a fractional cost-free run each targeted "
            "child sits at its weight, every other child is closed and the remainder is cash.",
    "note": COMMON_NOTE + " RebalanceOverTime: the step targets cur + (target - cur) / days_left walk to the target in n equal steps (theorem on the arithmetic; that each step is reached is the single-allocation theorem). The whole-tree statement (all children at once, sub-strategy targets, integer positions within one unit) is decided by correspondence + oracle, not by theorems."}
CHECKS["C14"] = {
    "text": "Theorems: the tradability filter shared by SelectAll / SelectThese / SelectWhere returns exactly the requested names with a present and (by default) positive current "
            "price, in order, and errors on a name outside the universe; hence with default flags nothing selected has a missing, zero or negative price; ranked selection: the "
            "ranking is a permutation of the candidates sorted by the statistic and the n kept are the n best (worst when ascending). Correspondence: per-run traces of "
            "temp['selected'] and temp['stat'] for every strategy of every generated backtest, bit-exact against the interpreter (SelectAll/These/HasData/N/Momentum/Where/Regex/Types/Active, "
            "SetStat, StatTotalReturn incl. lookback and lag windows); oracle: tradability, universe membership, top-n. SelectRandomly / SelectRegex: post-condition suite on the real code.",
    "note": COMMON_NOTE + " random.sample and re.search are oracles (post-conditions tested, not proved); ResolveOnTheRun is not modelled."}
CHECKS["C15"] = {
    "text": "Theorems: WeighEqually gives one entry per selected ticker, all equal, summing to one; LimitDeltas moves a target by at most the limit and leaves targets inside the "
            "band untouched; LimitWeights gives no weights when the cap is infeasible and otherwise respects the cap, keeps the tickers and preserves the total (under the "
            "stated per-round condition that the weights below the cap do not sum to zero). Correspondence: per-run traces of temp['weights'] (WeighEqually / Specified / Target, ScaleWeights, LimitDeltas, LimitWeights incl. ffn's input checks) "
            "bit-exact against the interpreter; oracle on the traces (documented weights). WeighInvVol / ERC / MeanVar / Randomly, TargetVol and PTE_Rebalance: documented "
            "post-conditions recomputed with numpy over the documented [now - lag - lookback, now - lag] window on the real code (this found and fixed the TargetVol defect).",
    "note": COMMON_NOTE + " ffn / sklearn / scipy kernels are oracles: their post-conditions are tested, not proved; ffn.limit_weights divides by the sum of the weights below the cap: when that sum is zero the total is not preserved (NaN in Python) — the theorem states the condition."}
CHECKS["C04"] = {
    "category": "other",
    "technique": "metamorphic perturbation of data dated after a cut (implementation and model) + model/implementation correspondence; partial machine-checked theorems (Coq/Rocq): engine-level no-look-ahead for trees of any depth, window functions of the algos",
    "text": "Partial theorems, axiom-free and for every number instance (so bit for bit on floats): (engine) SecurityBase.update and its coupon / holding-cost tails "
            "at row i commute with replacing prices, bid/offer, coupons and holding costs by any columns with the same row i; so does StrategyBase.update on a tree of "
            "any depth; hence any sequence of updates to dates <= t yields the same recorded numbers for any two data sets agreeing up to t; transact and allocate (sizing search "
            "included), allocate down a whole tree, flatten, root.update with the bankruptcy test, liquidation and nested refresh commute too; by induction on "
            "the nesting level so do the paper copies of sub-strategies, and Backtest.run's whole date loop — PROVIDED Strategy.run (the algos) commutes and keeps "
            "columns and clock, which is assumed (RUNS / RUNK; satisfied by bare StrategyBase trees), not proved: the engine adds no look-ahead of its own; (algos) the tradability filter reads only the current row of the "
            "universe, lookback windows never reach past the current row, and window "
            "data counts are functions of the data prefix. The whole-run statement over every stock algo is decided by (a) perturbation pairs on the implementation: every "
            "generated backtest is re-run with every supplied value dated after a random cut replaced, and all history rows and per-run temp traces up to the cut must be "
            "identical token for token; (b) the correspondence with the interpreter, which can only index data at rows <= now (market-value, nested, fixed-income and risk "
            "runs: UpdateRisk reads unit-risk frames by their own date index).",
    "note": COMMON_NOTE + " A whole-interpreter non-interference theorem is not proved; ffn / sklearn kernels are trusted not to read beyond their argument."}
CHECKS["C20"] = {
    "text": "Theorems: UpdateRisk records unit risk x position x multiplier on a security (0 when flat) and the sum of the children's risks on every strategy of the tree; "
            "the one-instrument hedge q = (1 / (unit risk x multiplier)) x (-risk) makes the hedged measure exactly zero, and without the multiplier in the Jacobian (the "
            "code before the repair) it does not (checked witness); SelectActive never returns a ticker recorded as closed or rolled; closing leaves no position. "
            "Correspondence: risk backtests (flat / nested, multipliers, own-index unit-risk tables, history depth), FI backtests with close / roll tables; oracles on risks "
            "and close dates; multi-measure / pseudo-inverse hedges: post-condition suite on the real code. Known finding K14.",
    "note": COMMON_NOTE + " np.linalg.inv / pinv are oracles: the k x k and least-squares cases are tested on the implementation, not proved; per-security risk history frames are not modelled."}
CHECKS["C09"] = {
    "text": "Theorems: the shadow (paper-trading) copy a sub-strategy is set up with is, field for field, the tree that building the same definition stand-alone with the "
            "default notional gives; stepping it on a date is exactly one stand-alone backtest step of that tree (update, run the stack, update, refresh) and, once the "
            "copy is flagged bankrupt, no step at all — as Backtest.run does; the child's recorded price and price row are the copy's price, and that price is what the "
            "parent writes into its universe column for the child (unique sibling names). Relational suite: generated nested backtests (calendar-gated children, any "
            "parent schedule incl. never funding a child, integer/fractional, commissions) where every child definition is also backtested stand-alone: child.prices = "
            "stand-alone prices = parent universe column, bit for bit on every date; every run is also compared with the model.",
    "note": COMMON_NOTE + " Over any list of dates the copy's trajectory is the fold of Backtest.run's loop body (plus a refresh that does nothing on a fresh tree), and Backtest.run's "
            "own loop is the fold of the same body (theorems). Partial: the nesting level of the copies inside the copy (paper_step_l) differs between the nested and the stand-alone "
            "run, and the stand-alone run's first update happens before its first date; that the two price series are equal row by row is carried by the suite. Children whose stack acts on the synthetic pre-start row are outside the property's quantifier (calendar-gated stacks) and the generator. "
            "A defect found while proving (bankrupt paper copies kept trading) was repaired."}
CHECKS["C10"] = {
    "text": "Theorems (ill-formed half, every input): an allocation at a missing or zero price, a missing price or coupon on an open position, duplicate ticker "
            "columns, a return on a zero base / zero notional (exact characterisation: the index is kept iff no P&L occurred, otherwise EZeroBase / EZeroNotl), a "
            "fixed-income strategy directly under a market-value parent (whatever the root), and a custom-price trade without bid/offer data each make the model "
            "return the matching error instead of a state. Well-formed half (decided on the implementation, not by a theorem): generated well-formed backtests must "
            "complete, record only finite numbers in every history row, and 13 report accessors must complete with finite numbers, on the interpreted build and "
            "(thorough tier) on the Cython build compiled from the current tree; an ill-formed stream (10 classes x random numbers + duplicate tickers) must raise "
            "exactly the expected error; all runs are also compared with the model bit for bit.",
    "note": COMMON_NOTE + " Completion / finiteness under the installed pandas / numpy is a property of the runtime libraries: it is sampled, not proved (the model's total "
            "functions say nothing about pandas). Known findings K1b (sizing search raises on ordinary numbers) and K15 (paper copy runs an ungated child stack on the synthetic row)."}
CHECKS["C11"] = {
    "category": "other",
    "technique": "model/implementation correspondence across processes, hash seeds and build/run schedules + machine-checked session theorems (Coq/Rocq)",
    "text": "Theorems (axiom-free, any number type): in the model of an interpreter session (objects = inputs + has_run + result, commands build / run in any "
            "order) a finished backtest asked to run again is unchanged, what the session holds for one backtest depends only on the commands addressed to it "
            "(any interleaving with other backtests, any order), and after build + run(s) it is the pure function `backtest` of that backtest's own inputs. "
            "Implementation tie: sessions with 2-4 backtests from ONE template and shared frame objects (original / perturbed data on the same tickers and dates / "
            "flipped position mode / identical twin), random valid interleavings incl. run-again, each session in three processes with different PYTHONHASHSEED and "
            "each backtest alone in a fresh process: every dump (all history rows, temp traces) must be bit-identical to the fresh-process run and agree with the "
            "model where it covers the template; deep fingerprints of the template, the frames and the additional data before / after must be unchanged. Templates "
            "include stateful algos and, with fixed seeds, SelectRandomly / WeighRandomly / WeighERC / WeighInvVol / WeighMeanVar / TargetVol.",
    "note": COMMON_NOTE + " Hash-seed dependence, aliasing and process-wide state are runtime behaviours that a pure Gallina model cannot exhibit; for them the sessions are a "
            "differential test (sampled), not a proof. The theorems carry the logical part: purity / run-once of the specification the implementation is compared with."}
CHECKS["C18"] = {
    "text": "Model: the reports as Gallina functions of the final tree's histories (Reports.v: members, weights, security weights, positions / outlays aggregated by "
            "ticker, Herfindahl index, turnover, transaction list with spread-inclusive prices, Result price). Theorems (real numbers, every tree / row): a member's "
            "weight times the root's value (notional) is the member's value; aggregation by ticker keeps every row's total; on every row whose recorded balance sheet "
            "holds, security weights plus all strategies' cash fractions sum to one; the running total of the trade series is the position on every date and the list "
            "contains exactly the non-zero trades. Correspondence: every report of generated runs (flat / nested with shared tickers / fixed income / no trades / shorts / "
            "spreads) bit for bit against the extracted report functions; independent recomputation from raw histories incl. quantity x price x multiplier = capital "
            "spent; round trip of the transaction list through ReplayTransactions (positions and values reproduced).",
    "note": COMMON_NOTE + " Turnover / HHI / Result.prices are tied by correspondence to definitional model functions (their 'stated formula' is the definition); the "
            "ReplayTransactions round trip is a relational test on implementation and model, not a theorem. Known finding K16 (fee on spread-inclusive price in replays); four "
            "report defects were repaired (no-securities transactions / turnover, bid-offer per ticker, multiplier)."}
CHECKS["C19"] = {
    "text": "Theorems (any number type, every declaration tree of any depth): the universe build gives a strategy is the data filtered to the tickers it declared "
            "(unfiltered when it declared nothing or its sub-strategies were attached later), with one column per sub-strategy; the position mode and commission "
            "function handed to the backtest reach every node construction creates (paper copies included) and every security created later by first use; a "
            "lazily created security reads the same price column from its strategy's filtered universe as an eagerly built one from the data (partial: the "
            "whole lazy = eager statement is decided relationally). Suites: trees of depth 1-3 assembled from lists / dicts / strings / lazy_add and eager Security "
            "objects / parent= attachment, with shared tickers; structure read from public attributes (parent, root, members, full names, sibling uniqueness, "
            "settings, universe columns) against the declared tree after construction and after the run; every case re-run with all lazy declarations made eager "
            "(histories agree, absent nodes are zero); duplicate sibling names must raise; every run bit for bit against the model.",
    "note": COMMON_NOTE + " In the model a node has no parent / root pointers (its position is its identity), so pointer consistency is a property of the implementation only and is sampled by the "
            "wiring suite; lazy = eager over whole runs is relational testing on both sides. A defect found here (paper copies' descendants pointing at a zombie root) was repaired."}
NOT_APPLICABLE = {}

"""Post-conditions of the algos whose numerical kernel is outside the model (ffn / sklearn / numpy /
random / re): run on the real bt with random data, checked against the documented statement computed
independently with numpy.  Input: {"seed": int, "n": int}; output: JSON {"evaluations", "failures": [...]}."""
import json
import random
import re
import sys
import warnings

import numpy as np
import pandas as pd

warnings.filterwarnings("ignore")
import bt  # noqa: E402
import bt.algos as algos  # noqa: E402


def make_target(rng, nrows, ntick):
    dts = pd.date_range("2019-11-01", periods=nrows, freq="B")
    cols = ["t%02d" % i for i in range(ntick)]
    data = {}
    for c in cols:
        p = 50.0 + rng.random() * 50
        col = []
        vol = rng.choice([0.003, 0.01, 0.02, 0.04])
        for _ in range(nrows):
            p = max(1.0, p * (1 + rng.gauss(0, vol)))
            col.append(p)
        data[c] = col
    df = pd.DataFrame(data, index=dts)
    s = bt.Strategy("s", [])
    s.setup(df)
    return s, df, cols


def window(df, now, lookback, lag):
    t0 = now - lag
    return df.loc[t0 - lookback: t0]


def run(seed, n):
    rng = random.Random(seed)
    fails, evals = [], 0

    def bad(msg, **kw):
        fails.append(dict(what=msg, **{k: (str(v)) for k, v in kw.items()}))
    for it in range(n):
        nrows, ntick = rng.randint(30, 70), rng.randint(2, 6)
        s, df, cols = make_target(rng, nrows, ntick)
        i = rng.randint(25, nrows - 1)
        now = df.index[i]
        s.update(now)
        lb = pd.DateOffset(days=rng.choice([10, 15, 20, 30]))
        lag = pd.DateOffset(days=rng.choice([0, 0, 1, 3, 5]))
        sel = rng.sample(cols, rng.randint(2, ntick))
        prc = window(df, now, lb, lag)[sel]
        rets = (prc / prc.shift(1) - 1)
        ctx = dict(seed=seed, it=it, now=now, lookback=lb.kwds, lag=lag.kwds, selected=sel)
        # ---- WeighInvVol
        evals += 1
        s.temp = {"selected": list(sel)}
        algos.WeighInvVol(lookback=lb, lag=lag)(s)
        w = pd.Series(s.temp["weights"]).astype(float)
        sd = rets.dropna().std(ddof=1)
        if (w < -1e-12).any() or abs(w.sum() - 1) > 1e-9:
            bad("WeighInvVol: weights not non-negative summing to one", weights=dict(w), **ctx)
        else:
            rc = (w * sd[w.index])
            if rc.max() - rc.min() > 1e-9 * max(1.0, rc.max()):
                bad("WeighInvVol: weight x volatility not equal over the documented window", rc=dict(rc), **ctx)
        # ---- WeighRandomly
        evals += 1
        lo, hi = rng.choice([(0.0, 1.0), (0.05, 0.6), (0.0, 0.8)])
        s.temp = {"selected": list(sel)}
        random.seed(seed + it)
        algos.WeighRandomly(bounds=(lo, hi), weight_sum=1)(s)
        w = s.temp["weights"]
        if w:
            v = np.array(list(w.values()))
            if (v < lo - 1e-12).any() or (v > hi + 1e-12).any() or abs(v.sum() - 1) > 1e-9 or set(w) != set(sel):
                bad("WeighRandomly: outside bounds / wrong sum / wrong tickers", weights=w, bounds=(lo, hi), **ctx)
        elif len(sel) * hi >= 1 >= len(sel) * lo:
            bad("WeighRandomly: empty although a solution exists", bounds=(lo, hi), **ctx)
        # ---- WeighERC / WeighMeanVar (post-conditions only)
        evals += 1
        s.temp = {"selected": list(sel)}
        try:
            algos.WeighERC(lookback=lb, lag=lag)(s)
            w = pd.Series(s.temp["weights"]).astype(float)
            if (w < -1e-9).any() or abs(w.sum() - 1) > 1e-6:
                bad("WeighERC: weights not non-negative summing to one", weights=dict(w), **ctx)
        except Exception as e:  # noqa: BLE001
            bad("WeighERC raised %r" % (e,), **ctx)
        s.temp = {"selected": list(sel)}
        try:
            algos.WeighMeanVar(lookback=lb, lag=lag, bounds=(0.0, 1.0))(s)
            w = pd.Series(s.temp["weights"]).astype(float)
            if (w < -1e-6).any() or (w > 1 + 1e-6).any() or abs(w.sum() - 1) > 1e-5:
                bad("WeighMeanVar: weights outside bounds or not summing to one", weights=dict(w), **ctx)
        except Exception as e:  # noqa: BLE001
            bad("WeighMeanVar raised %r" % (e,), **ctx)
        # ---- TargetVol, twice with a changing selection (ex-ante volatility equals the target on every call)
        evals += 1
        tgt = rng.choice([0.05, 0.1, 0.2])
        tv = algos.TargetVol(tgt, lookback=lb, lag=lag)
        sels = [sel, rng.sample(cols, rng.randint(2, ntick))]
        for call, ss in enumerate(sels):
            w0 = {k: rng.choice([0.2, 0.3, 0.5, -0.2, 1.0]) for k in ss}
            s.temp = {"weights": dict(w0)}
            tv(s)
            w1 = pd.Series(s.temp["weights"]).astype(float)
            p2 = window(df, now, lb, lag)[list(ss)]
            cov = (p2 / p2.shift(1) - 1).cov()
            vol = float(np.sqrt(w1[cov.columns].values @ cov.values @ w1[cov.columns].values * 252))
            if abs(vol - tgt) > 1e-9:
                bad("TargetVol: ex-ante volatility %r != target %r on call %d" % (vol, tgt, call), weights=dict(w1), **ctx)
        # ---- PTE_Rebalance
        evals += 1
        s2, df2, cols2 = s, df, cols
        tw = pd.DataFrame({c: [1.0 / len(sel) if c in sel else 0.0] * len(df) for c in cols}, index=df.index)
        cap = rng.choice([0.0005, 0.002, 0.01, 0.05])
        bt_s = bt.Strategy("p", [algos.RunOnce(), algos.SelectThese(sel), algos.WeighEqually(), algos.Rebalance()])
        b = bt.Backtest(bt_s, df.iloc[: i + 1], integer_positions=False, progress_bar=False)
        b.run()
        st = b.strategy
        res = algos.PTE_Rebalance(cap, tw, lookback=lb, lag=lag)(st)
        pos = st.positions.loc[now]
        cur = pos * df.loc[now, pos.index] / st.value
        d = pd.Series({c: (cur.get(c, 0.0) - tw.loc[now, c]) for c in list(cur.index) + [c for c in tw.columns if c not in cur.index]})
        p3 = window(df.iloc[: i + 1], now, lb, lag)[list(d.index)]
        cov3 = (p3 / p3.shift(1) - 1).cov()
        te = float(np.sqrt(d.values @ cov3.values @ d.values * 252))
        if not np.isnan(te) and bool(res) != (te > cap):
            bad("PTE_Rebalance returned %r but tracking-error volatility is %r vs cap %r" % (res, te, cap), **ctx)
        # ---- SelectRandomly / SelectRegex
        evals += 1
        k = rng.randint(1, ntick + 1)
        s.temp = {"selected": list(sel)}
        random.seed(seed * 7 + it)
        algos.SelectRandomly(n=k)(s)
        got = s.temp["selected"]
        if len(got) != min(k, len(sel)) or len(set(got)) != len(got) or not set(got) <= set(sel):
            bad("SelectRandomly: not a duplicate-free subset of the right size", got=got, n=k, **ctx)
        pat = rng.choice(["[13579]$", "^t0[0-2]$", "t0+[2-4]", "2|4"])
        s.temp = {"selected": list(sel)}
        algos.SelectRegex(pat)(s)
        if s.temp["selected"] != [x for x in sel if re.search(pat, x)]:
            bad("SelectRegex: wrong selection", got=s.temp["selected"], pattern=pat, **ctx)
        # ---- LimitWeights
        evals += 1
        ww = np.array([rng.random() + 0.05 for _ in sel])
        ww = ww / ww.sum()
        lim = rng.choice([0.2, 0.35, 0.5, 0.75])
        s.temp = {"weights": dict(zip(sel, ww))}
        algos.LimitWeights(lim)(s)
        out = s.temp["weights"]
        if lim < 1.0 / len(sel):
            if len(out) != 0:
                bad("LimitWeights: infeasible cap should give no weights", out=dict(out), limit=lim, **ctx)
        else:
            o = pd.Series(out).astype(float)
            if (o > lim + 1e-9).any() or abs(o.sum() - 1) > 1e-9:
                bad("LimitWeights: cap exceeded or total not preserved", out=dict(o), limit=lim, **ctx)
    return {"evaluations": evals, "failures": fails[:10], "n_failures": len(fails)}


if __name__ == "__main__":
    req = json.load(sys.stdin)
    json.dump(run(req["seed"], req["n"]), sys.stdout, default=str)

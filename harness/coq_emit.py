"""Engine cases as Gallina terms (for the per-run vm_compute cross-check of the extracted binary).
An independent path from the case description to the model's input: nothing here is shared with driver.ml."""


def fl(h):
    """hex float string (Python float.hex) -> Coq primitive-float literal"""
    if h.startswith("-"):
        return "(-%s)%%float" % h[1:]
    return "(%s)%%float" % h


def cell(h):
    return "None" if h == "nan" else "(Some %s)" % fl(h)


def lst(items):
    return "[" + "; ".join(items) + "]"


def nat(i):
    return "%d%%nat" % int(i)


def boolean(b):
    return "true" if b else "false"


def opt(f, x):
    return "None" if x is None else "(Some %s)" % f(x)


def frame(f):
    return lst("(%s, %s)" % (nat(k), lst(cell(c) for c in col)) for k, col in f)


CLASSES = {"sec": "CSec", "fi": "CFixedIncome", "coupon": "CCoupon", "hedge": "CHedge", "couponhedge": "CCouponHedge"}


def spec(t):
    if t[0] == "sec":
        return "(SpSec FNumI fstate %s %s %s %s %s)" % (nat(t[1]), CLASSES[t[2]], boolean(t[3]), fl(t[4]),
                                                       boolean(t[5] == "str" or t[5] is True))
    return "(SpStrat %s %s st0 %s)" % (nat(t[1]), boolean(t[2]), lst(spec(k) for k in t[3]))


def path(p):
    return lst(nat(k) for k in p)


def date(d):
    return "None" if d is None else "(Some %s)" % nat(d)


def op(o):
    k = o[0]
    if k == "update":
        return "(OUpdate FNumI %s)" % date(o[1])
    if k == "adjust":
        return "(OAdjust FNumI %s %s %s %s %s)" % (path(o[1]), fl(o[2]), boolean(o[3]), boolean(o[4]), fl(o[5]))
    if k == "allocate":
        return "(OAllocate FNumI %s %s %s %s)" % (path(o[1]), fl(o[2]), opt(nat, o[3]), boolean(o[4]))
    if k == "transact":
        return "(OTransact FNumI %s %s %s %s %s)" % (path(o[1]), fl(o[2]), opt(nat, o[3]), boolean(o[4]), opt(fl, o[5]))
    if k == "rebalance":
        return "(ORebalance FNumI %s %s %s %s %s)" % (path(o[1]), fl(o[2]), nat(o[3]), opt(fl, o[4]), boolean(o[5]))
    if k == "close":
        return "(OClose FNumI %s %s %s)" % (path(o[1]), nat(o[2]), boolean(o[3]))
    if k == "flatten":
        return "(OFlatten FNumI %s)" % path(o[1])
    if k == "read":
        return "(ORead FNumI %s %s)" % (path(o[1]), {"value": "RValue", "weight": "RWeight", "notl": "RNotl",
                                                   "price": "RPrice", "series": "RSeries"}[o[2]])
    raise ValueError(k)


def comm(c):
    k = c[0]
    if k == "none":
        return "(CmNone FNumI)"
    if k == "maxflat":
        return "(CmMaxFlat FNumI %s %s)" % (fl(c[1]), fl(c[2]))
    return "(%s FNumI %s)" % ({"flat": "CmFlat", "pershare": "CmPerShare", "prop": "CmProp"}[k], fl(c[1]))


def case_defs(c, k):
    """Gallina definitions d_k (digest, applied ops) for engine case c"""
    kw = "(mkKw (N:=FNumI) %s %s %s %s)" % tuple(opt(frame, c.get(x)) for x in ("bidoffer", "coupons", "cost_long", "cost_short"))
    return ("Definition r_%d := match f_build (mkData (N:=FNumI) %s %s %s) %s (f_comm %s) %s with\n"
            "  | Err _ => ([], 0%%nat)\n"
            "  | Ok tr => let '(tr', n) := run_keep f_paper_step %s tr in (digest tr', n)\n  end.\n"
            % (k, nat(c["nrows"]), frame(c["prices"]), kw, boolean(c["intpos"]), comm(c["comm"]), spec(c["tree"]),
               lst(op(o) for o in c["ops"])))


HEADER = """From Coq Require Import List Bool Arith PrimFloat.
Import ListNotations.
Require Import BT.Num BT.Base BT.Records BT.Engine BT.Reports BT.Ops BT.Algos BT.Digest BT.extract.Extract.
Definition st0 : fstate := mkAState false [] (empty_temp FNumI) [] [] false false [] [].
Definition same_cell (a b : option float) : bool :=
  match a, b with
  | None, None => true
  | Some x, Some y => PrimFloat.eqb x y || (negb (PrimFloat.eqb x x) && negb (PrimFloat.eqb y y))
  | _, _ => false
  end.
Fixpoint same_cells (a b : list (option float)) : bool :=
  match a, b with
  | [], [] => true
  | x :: a', y :: b' => same_cell x y && same_cells a' b'
  | _, _ => false
  end.
"""

"""Property statements as Python predicates over recorded *implementation* histories.
They are used to look for a concrete failing input once a proof or the correspondence
breaks, and to cross-check the theorem statements; a passing oracle is never counted as
evidence for a property."""
import math

from common import tok_val

TOL = 1e-9


def near(a, b, scale=1.0):
    # "nan" tokens and float NaNs are one value here: an identity between two NaNs holds, one NaN side does not
    a = float("nan") if a == "nan" else a
    b = float("nan") if b == "nan" else b
    if isinstance(a, str) or isinstance(b, str):
        return a == b
    if a != a or b != b:
        return a != a and b != b
    return abs(a - b) <= TOL * max(1.0, abs(a), abs(b), abs(scale))


class Node:
    def __init__(self, path):
        self.path = path
        self.f = {}
        self.kids = []

    def vals(self, key):
        return [tok_val(t) for t in self.f.get(key, [])]


S_SCAL = ["pos", "lastpos", "price", "value", "notl", "weight", "needupdate", "outlay", "bidoffer", "bopaid",
          "capital", "coupon", "hcost"]
G_SCAL = ["capital", "value", "notl", "weight", "price", "net_flows", "last_value", "last_notl", "last_price",
          "last_fee", "bopaid", "bankrupt"]


def build_tree(state):
    """state: {"<path> <field>": [tokens]} -> (root Node, {path: Node}, stale)"""
    nodes = {}
    for key, toks in state.items():
        path, field = key.split(" ")
        nodes.setdefault(path, Node(path)).f[field] = toks
    for path, n in nodes.items():
        kind = n.f.get("kind", ["?"])[0]
        n.kind = kind
        names = S_SCAL if kind == "S" else G_SCAL
        sc = n.vals("scal")
        n.s = dict(zip(names, sc))
        n.now = n.f.get("now", ["-"])[0]
    for path, n in nodes.items():
        if n.f.get("kind", ["?"])[0] == "G":
            for k in n.f.get("kids", []):
                c = nodes.get(path + "." + k)
                if c is not None:
                    n.kids.append(c)
    stale = state.get("r stale", ["F"])[0] == "T"
    return nodes.get("r"), nodes, stale


def spec_index(tree, path="r", out=None):
    """{path: spec} for the declared tree of a case"""
    out = {} if out is None else out
    out[path] = tree
    if tree[0] == "strat":
        for k in tree[3]:
            spec_index(k, "%s.%d" % (path, k[1]), out)
    return out


def mult_of(case, path, mults):
    return mults.get(path, 1.0)


def walk(n):
    yield n
    for k in n.kids:
        yield from walk(k)


def fnum(x):
    return x if isinstance(x, (int, float)) else float("nan")


def c01_balance_sheet(case, step_state, mults, check_weights=True):
    """-> list of failure strings for one observed (refreshed) implementation state"""
    root, nodes, stale = build_tree(step_state)
    fails = []
    if root is None or stale:
        return fails
    for n in walk(root):
        if n.kind == "G":
            tot = fnum(n.s["capital"]) + sum(fnum(k.s["value"]) for k in n.kids)
            if not near(n.s["value"], tot, tot):
                fails.append("%s: value %r != cash + children %r" % (n.path, n.s["value"], tot))
            nt = sum(abs(fnum(k.s["notl"])) for k in n.kids)
            if not near(n.s["notl"], nt, nt):
                fails.append("%s: notional %r != sum |child notional| %r" % (n.path, n.s["notl"], nt))
            fi = n.f["flags"][2] == "T"
            base = n.s["notl"] if fi else n.s["value"]
            if check_weights:
                for k in n.kids:
                    num = fnum(k.s["notl"] if fi else k.s["value"])
                    if isinstance(base, str) or base != base:
                        continue        # a NaN parent value: the quotient is not a number, nothing to compare
                    if abs(base) >= 1e-16:        # bt.core.is_zero: abs(x) < TOL = 1e-16
                        want = num / base
                    else:
                        want = 0.0
                    if not near(fnum(k.s["weight"]), want):
                        fails.append("%s: weight %r != %r" % (k.path, k.s["weight"], want))
            if n.now != "-":
                i = int(n.now)
                hv, hc, hn = n.vals("hg_values"), n.vals("hg_cash"), n.vals("hg_notls")
                if i < len(hv):
                    if not near(hv[i], n.s["value"]):
                        fails.append("%s: values row %r != value %r" % (n.path, hv[i], n.s["value"]))
                    if not near(hc[i], n.s["capital"]):
                        fails.append("%s: cash row %r != capital %r" % (n.path, hc[i], n.s["capital"]))
                    if not near(hn[i], n.s["notl"]):
                        fails.append("%s: notional row %r != notional %r" % (n.path, hn[i], n.s["notl"]))
        else:
            pos, price, val = n.s["pos"], n.s["price"], n.s["value"]
            m = mults.get(strip_paper(n.path), 1.0)
            if n.s["needupdate"] == "F":
                # skipped securities are flat
                if not (near(pos, 0.0) and near(val, 0.0)):
                    fails.append("%s: idle security not flat pos=%r value=%r" % (n.path, pos, val))
                continue
            if isinstance(price, str):   # nan
                if not (near(val, 0.0) and near(pos, 0.0)):
                    fails.append("%s: NaN price with pos=%r value=%r" % (n.path, pos, val))
            else:
                want = pos * price * m
                if not near(val, want, want):
                    fails.append("%s: value %r != pos*price*mult %r" % (n.path, val, want))
                if n.f.get("priced", ["T"])[0] == "T" and n.now != "-":
                    i = int(n.now)
                    hv, hp = n.vals("h_values"), n.vals("h_positions")
                    if i < len(hv):
                        if not near(hv[i], val):
                            fails.append("%s: value row %r != value %r" % (n.path, hv[i], val))
                        if not near(hp[i], pos):
                            fails.append("%s: position row %r != position %r" % (n.path, hp[i], pos))
    return fails


def strip_paper(path):
    """'r.3~.5' -> 'r.3.5' (the paper copy has the same declared children)"""
    return path.replace("~", "")


def mults_of_case(case):
    out = {}
    for path, spec in spec_index(case["tree"]).items():
        if spec[0] == "sec":
            out[path] = float.fromhex(spec[4]) if isinstance(spec[4], str) else float(spec[4])
    return out


def observed_steps(case, impl_case):
    """indices k (into impl steps; step 0 is BUILD) whose op refreshed the whole tree"""
    out = []
    for k, st in enumerate(impl_case["steps"]):
        if k == 0 or st["status"][1] != "ok":
            continue
        op = case["ops"][k - 1]
        if op[0] == "update":
            out.append(k)
        elif op[0] == "read" and op[2] in ("value", "weight", "notl"):
            # a read refreshes the tree only when the root was marked stale
            prev = impl_case["steps"][k - 1]["state"].get("r stale", ["F"])[0]
            if prev == "T":
                out.append(k)
    return out


def user_adjustments(case, nodes):
    """{path: {row: amount}} of explicit non-flow adjustments made by user-written algos, and the set of paths
    that receive outside money through their own stack (CapitalFlow, or a user adjust booked as a flow)"""
    specs = spec_index(case["tree"])
    nonflow, outside = {}, set()

    def flows_in(a):
        if a[0] == "capitalflow" or (a[0] == "useradjust" and a[2]):
            return True
        return any(flows_in(y) for x in a[1:] if isinstance(x, list)
                   for y in ([x] if x and isinstance(x[0], str) else x) if isinstance(y, list) and y and isinstance(y[0], str))
    for path, sp in specs.items():
        if sp[0] != "strat" or len(sp) <= 4:
            continue
        if any(flows_in(a) for a in sp[4]):
            outside.add(path)
        for a in sp[4]:
            if a[0] == "useradjust" and not a[2]:
                node = nodes.get(path)
                if node is None:
                    continue
                for key, toks in node.f.items():
                    if key.startswith("trace.") and key.endswith(".res") and toks[1] == "T" and toks[0] != "-":
                        d = nonflow.setdefault(path, {})
                        d[int(toks[0])] = d.get(int(toks[0]), 0.0) + float.fromhex(a[1])
    return nonflow, outside


# ---------------------------------------------------------------- C07
def c07_trade_booking(case, impl_case, comm_fee):
    """per direct trade on a security: the parent's capital moves by -(outlay + fee), its fee accumulator by the
    commission evaluated at (q, p x multiplier) (custom price: at that price), flows are untouched"""
    fails = []
    mults = mults_of_case(case)
    for k in range(1, len(impl_case["steps"])):
        st = impl_case["steps"][k]
        if st["status"][1] != "ok":
            continue
        op = case["ops"][k - 1]
        if op[0] != "transact" or op[3] is not None or not op[1]:
            continue
        path = "r" + "".join(".%d" % i for i in op[1])
        ppath = "r" + "".join(".%d" % i for i in op[1][:-1])
        before, after = impl_case["steps"][k - 1]["state"], st["state"]
        if path + " scal" not in before or path + " scal" not in after or after.get(path + " kind", ["?"])[0] != "S":
            continue
        b = [tok_val(t) for t in before[path + " scal"]]
        a = [tok_val(t) for t in after[path + " scal"]]
        pb_, pa_ = [tok_val(t) for t in before[ppath + " scal"]], [tok_val(t) for t in after[ppath + " scal"]]
        q = a[0] - b[0]
        if q == 0 or isinstance(a[2], str):
            continue
        # the security may have been brought up to date first (price of the parent's date)
        price, m = a[2], mults.get(strip_paper(path), 1.0)
        bo = a[8] if not isinstance(a[8], str) else 0.0
        if op[5] is None:
            spread = abs(q) * 0.5 * bo * m
            fee = comm_fee(case["comm"], q, price * m)
        else:
            cp = float.fromhex(op[5])
            spread = q * (cp - price) * m
            fee = comm_fee(case["comm"], q, cp * m)
        outlay = q * price * m + spread
        dcap = pa_[0] - pb_[0]
        dfee = pa_[9] - pb_[9]
        dflow = pa_[5] - pb_[5]
        # a date change inside the op (stale security) resets nothing on the parent: compare directly
        if not near(dcap, -(outlay + fee), outlay):
            fails.append("%s: trade q=%r moved parent cash by %r, expected %r" % (path, q, dcap, -(outlay + fee)))
        if not near(dfee, fee, fee):
            fails.append("%s: trade q=%r booked fee %r, expected %r" % (path, q, dfee, fee))
        if not near(dflow, 0.0):
            fails.append("%s: trade changed the parent's net flows by %r" % (path, dflow))
        tot_b = b[7] + sum(tok_val(t) for t in before[path + " h_outlays"])
        tot_a = a[7] + sum(tok_val(t) for t in after[path + " h_outlays"])
        if not near(tot_a - tot_b, outlay, max(abs(tot_a), abs(outlay))):
            fails.append("%s: recorded outlay moved by %r, expected %r" % (path, tot_a - tot_b, outlay))
    return fails


def c07_ledger(case, impl_case):
    """backtests (no explicit non-flow adjustments): per strategy node and date,
    cash_t - cash_{t-1} = flows_t - sum(own securities' outlays_t) - fees_t - sum(sub-strategies' flows_t)
                          + sum(own securities' (coupon - holding cost)_{t-1})"""
    fails = []
    state = impl_case["steps"][-1]["state"]
    root, nodes, _ = build_tree(state)
    if root is None:
        return fails
    nonflow, outside = user_adjustments(case, nodes)
    for n in walk(root):
        if n.kind != "G":
            continue
        # a sub-strategy with its own CapitalFlow receives outside money: its flows are not all passed down by n
        if any(k.kind == "G" and strip_paper(k.path) in outside for k in n.kids):
            continue
        cash, flows, fees = n.vals("hg_cash"), n.vals("hg_flows"), n.vals("hg_fees")
        for t in range(1, len(cash)):
            want = flows[t] - fees[t] + nonflow.get(strip_paper(n.path), {}).get(t, 0.0)
            for k in n.kids:
                if k.kind == "S":
                    want -= k.vals("h_outlays")[t]
                    if "h_coupons" in k.f:
                        want += k.vals("h_coupons")[t - 1] - k.vals("h_hcosts")[t - 1]
                else:
                    want -= k.vals("hg_flows")[t]
            got = cash[t] - cash[t - 1]
            if not near(got, want, max(abs(cash[t]), abs(cash[t - 1]))):
                fails.append("%s date %d: cash moved by %r, ledger says %r" % (n.path, t, got, want))
    return fails


# ---------------------------------------------------------------- C03
def c03_index(case, impl_case):
    """root of a finished backtest (market-value): price[0] = 100 and
    price[t] x (value[t-1] + flows[t]) = price[t-1] x value[t]"""
    fails = []
    state = impl_case["steps"][-1]["state"]
    root, nodes, _ = build_tree(state)
    if root is None or root.f["flags"][2] == "T":
        return fails
    pr, val, fl = root.vals("hg_prices"), root.vals("hg_values"), root.vals("hg_flows")
    if not near(pr[0], 100.0):
        fails.append("index starts at %r" % pr[0])
    for t in range(1, len(pr)):
        base = val[t - 1] + fl[t]
        if abs(base) < 1e-12:
            continue
        if not near(pr[t] * base, pr[t - 1] * val[t], pr[t - 1] * val[t]):
            fails.append("date %d: price %r x (%r + %r) != %r x %r" % (t, pr[t], val[t - 1], fl[t], pr[t - 1], val[t]))
    return fails


# ---------------------------------------------------------------- C16
def c16_bankruptcy(case, impl_case):
    """finished market-value backtest: flagged iff a recorded root value is negative; from that date on every
    security in the tree is flat, value and cash are constant, no stack runs; sub-strategies are never flagged"""
    fails = []
    state = impl_case["steps"][-1]["state"]
    root, nodes, _ = build_tree(state)
    if root is None or root.f["flags"][2] == "T":
        return fails
    vals, cash = root.vals("hg_values"), root.vals("hg_cash")
    # "below zero" as bt itself tests it: val < 0 and not is_zero(val), is_zero(x) = abs(x) < 1e-16
    neg = [t for t, v in enumerate(vals) if v < 0 and abs(v) >= 1e-16]
    flagged = root.s["bankrupt"] == "T"
    if flagged != bool(neg):
        fails.append("bankrupt flag %s but recorded values negative on rows %s" % (flagged, neg[:3]))
    for n in walk(root):
        if n is not root and n.kind == "G" and n.s["bankrupt"] == "T":
            fails.append("%s: a sub-strategy is flagged bankrupt" % n.path)
    if flagged and neg:
        t0 = neg[0] if False else None
    if flagged:
        # the date of the flag: first row from which the positions are all flat is at most the first negative row;
        # liquidation happens inside that date's update, so the recorded value of that date is post-liquidation
        first = None
        for t in range(len(vals)):
            if vals[t] < 0 and abs(vals[t]) >= 1e-16:
                first = t
                break
        if first is not None:
            for n in walk(root):
                if n.kind == "S" and n.f.get("priced", ["T"])[0] == "T":
                    pos = n.vals("h_positions")
                    prc_zero = False
                    hv = n.vals("h_values")
                    for t in range(first, len(pos)):
                        if abs(pos[t]) > 1e-9:
                            nested = n.path.count(".") >= 2
                            tag = "[K13 nested] " if nested else ("[K5 zero value] " if abs(hv[t]) < 1e-12 else "")
                            fails.append("%s%s: position %r still open on row %d after bankruptcy on row %d" % (tag, n.path, pos[t], t, first))
                            break
            for t in range(first + 1, len(vals)):
                if not near(vals[t], vals[first], vals[first]) or not near(cash[t], cash[first], cash[first]):
                    if any(f.startswith("[K13") or f.startswith("[K5") for f in fails):
                        break          # a consequence of the positions left open
                    fails.append("value/cash not constant after bankruptcy: row %d value %r cash %r vs row %d value %r cash %r"
                                 % (t, vals[t], cash[t], first, vals[first], cash[first]))
                    break
            tr = [k for k in root.f if k.startswith("trace.") and k.endswith(".res")]
            for k in tr:
                now = root.f[k][0]
                if now != "-" and int(now) > first:
                    fails.append("the stack ran on row %s after bankruptcy on row %d" % (now, first))
                    break
    return fails


# ---------------------------------------------------------------- C17
def c17_fixed_income(case, impl_case):
    """finished fixed-income backtest: notional rows per security class, strategy notional = sum |child|,
    additive index, Rebalance targets as fractions of the SetNotional base"""
    fails = []
    state = impl_case["steps"][-1]["state"]
    root, nodes, _ = build_tree(state)
    if root is None or root.f["flags"][2] != "T":
        return fails
    specs = spec_index(case["tree"])
    for n in walk(root):
        if n.kind == "S" and n.f.get("priced", ["T"])[0] == "T":
            sp = specs.get(strip_paper(n.path))
            cls = sp[2] if sp else "sec"
            notl, pos, val = n.vals("h_notls"), n.vals("h_positions"), n.vals("h_values")
            for t in range(len(notl)):
                want = {"sec": val[t], "fi": pos[t], "coupon": pos[t], "hedge": 0.0, "couponhedge": 0.0}[cls]
                if not near(notl[t], want, want):
                    fails.append("%s (%s) row %d: notional %r, expected %r" % (n.path, cls, t, notl[t], want))
                    break
        elif n.kind == "G":
            hn = n.vals("hg_notls")
            for t in range(len(hn)):
                tot = sum(abs(k.vals("h_notls")[t]) if k.kind == "S" else abs(k.vals("hg_notls")[t]) for k in n.kids
                          if (k.kind == "G" or k.f.get("priced", ["T"])[0] == "T"))
                if not near(hn[t], tot, tot):
                    fails.append("%s row %d: notional %r != sum |child notional| %r" % (n.path, t, hn[t], tot))
                    break
    # accrual: each date a coupon-paying security records position x coupon and the long / short holding cost on the
    # absolute position (nothing when flat or when no cost table was supplied); rows are data dates shifted by the
    # synthetic first row
    def table(key):
        return {t: col for t, col in (case.get(key) or [])}
    cpn, cl, cs = table("coupons"), table("cost_long"), table("cost_short")
    for n in walk(root):
        if n.kind != "S" or "h_coupons" not in n.f:
            continue
        sp = specs.get(strip_paper(n.path))
        if not sp or sp[2] not in ("coupon", "couponhedge"):
            continue
        tid = sp[1]
        pos, hc, hh = n.vals("h_positions"), n.vals("h_coupons"), n.vals("h_hcosts")
        for t in range(1, min(len(pos), len(hc), len(hh))):
            p_ = fnum(pos[t])
            if p_ != p_ or isinstance(hc[t], str) and hc[t] != "nan":
                break

            def cell(tab):
                col = tab.get(tid)
                if col is None or t - 1 >= len(col) or col[t - 1] == "nan":
                    return None
                return float.fromhex(col[t - 1])
            c_ = cell(cpn)
            if c_ is not None or abs(p_) < 1e-16:
                want_c = 0.0 if abs(p_) < 1e-16 and c_ is None else p_ * (c_ or 0.0)
                if not near(fnum(hc[t]), want_c, want_c):
                    fails.append("%s row %d: coupon income %r, expected position x coupon = %r" % (n.path, t, hc[t], want_c))
                    break
            k_ = cell(cl) if p_ > 0 else (cell(cs) if p_ < 0 else 0.0)
            if (p_ > 0 and tid not in cl) or (p_ < 0 and tid not in cs):
                k_ = 0.0
            if k_ is not None:
                want_h = abs(p_) * k_
                if not near(fnum(hh[t]), want_h, want_h):
                    fails.append("%s row %d: holding cost %r, expected |position| x cost = %r" % (n.path, t, hh[t], want_h))
                    break
    pr, val, fl, nt = root.vals("hg_prices"), root.vals("hg_values"), root.vals("hg_flows"), root.vals("hg_notls")
    for t in range(1, len(pr)):
        base = nt[t - 1] if abs(nt[t - 1]) > 1e-16 else nt[t]
        pnl = val[t] - val[t - 1] - fl[t]
        if abs(base) < 1e-16:
            continue
        want = pr[t - 1] + 100.0 * pnl / base
        if not near(pr[t], want, want):
            fails.append("index row %d: %r, expected %r (pnl %r, notional %r)" % (t, pr[t], want, pnl, base))
            break
    return fails


# ---------------------------------------------------------------- C02
def c02_attribution(case, impl_case):
    """root of a finished backtest: V_t - V_{t-1} = sum_sec pos_{t-1} (p_t - p_{t-1}) m + flows_t
       + sum_sec (coupon - holding cost)_{t-1} - sum_nodes fees_t - sum_sec bid/offer paid_t"""
    fails = []
    state = impl_case["steps"][-1]["state"]
    root, nodes, _ = build_tree(state)
    if root is None:
        return fails
    specs = spec_index(case["tree"])

    def has_flow_algo(a):
        if a[0] == "capitalflow":
            return True
        return any(has_flow_algo(y) for x in a[1:] if isinstance(x, list)
                   for y in ([x] if x and isinstance(x[0], str) else x) if isinstance(y, list) and y and isinstance(y[0], str))
    for path, sp in specs.items():
        if path != "r" and sp[0] == "strat" and len(sp) > 4 and any(has_flow_algo(a) for a in sp[4]):
            return fails          # outside money enters below the root: not visible in the root's flows
    # explicit non-flow adjustments made by user-written algos (last in their stack: executed iff the stack reports True)
    nonflow = {}
    for path, sp in specs.items():
        if sp[0] != "strat" or len(sp) <= 4:
            continue
        for a in sp[4]:
            if a[0] == "useradjust":
                if a[2]:                      # booked as a flow
                    if path != "r":
                        return fails
                    continue
                node = nodes.get(path)
                if node is None:
                    continue
                for key, toks in node.f.items():
                    if key.startswith("trace.") and key.endswith(".res") and toks[1] == "T" and toks[0] != "-":
                        nonflow[int(toks[0])] = nonflow.get(int(toks[0]), 0.0) + float.fromhex(a[1])
    prices = {k: [float("nan") if x == "nan" else float.fromhex(x) for x in col] for k, col in case["prices"]}
    prices = {k: [float("nan")] + col for k, col in prices.items()}      # the synthetic first row
    mults = mults_of_case(case)
    vals, flows = root.vals("hg_values"), root.vals("hg_flows")
    secs = [n for n in walk(root) if n.kind == "S" and n.f.get("priced", ["T"])[0] == "T"]
    strats = [n for n in walk(root) if n.kind == "G"]
    for t in range(1, len(vals)):
        want = flows[t] + nonflow.get(t, 0.0)
        ok = True
        for s_ in secs:
            sid = int(s_.path.split(".")[-1])
            pos = s_.vals("h_positions")[t - 1]
            if pos != 0:
                p1, p0 = prices[sid][t], prices[sid][t - 1]
                if p1 != p1 or p0 != p0:
                    ok = False
                    break
                want += pos * (p1 - p0) * mults.get(strip_paper(s_.path), 1.0)
            if "h_coupons" in s_.f:
                want += s_.vals("h_coupons")[t - 1] - s_.vals("h_hcosts")[t - 1]
            if "h_bopaid" in s_.f:
                want -= s_.vals("h_bopaid")[t]
        if not ok:
            continue
        for g_ in strats:
            want -= g_.vals("hg_fees")[t]
        got = vals[t] - vals[t - 1]
        if not near(got, want, max(abs(vals[t]), abs(vals[t - 1]))):
            fails.append("date %d: value moved by %r, attribution gives %r" % (t, got, want))
    return fails


# ---------------------------------------------------------------- C14 / C15 / C06 on the per-run temp traces
def flat_algos(stack):
    out = []
    for a in stack:
        if a[0] == "stack":
            out += flat_algos(a[1])
        elif a[0] == "always":
            out += flat_algos([a[2]])
        else:
            out.append(a)
    return out


def all_algos(stack):
    """every algo of a stack at any depth, composites (stack / always / or / not) and their members included"""
    out = []
    for a in stack:
        out.append(a)
        if a[0] in ("stack", "or"):
            out += all_algos(a[1])
        elif a[0] == "always":
            out += all_algos([a[2]])
        elif a[0] == "not":
            out += all_algos([a[1]])
    return out


SELECTORS = ("selectall", "selectthese", "hasdata", "selectn", "selectwhere", "selectregex", "selecttypes", "selectactive")


def node_traces(n):
    """[(row, result, selected ids | None, [(id, weight)] | None, {id: stat} | None)]"""
    out = []
    j = 0
    while "trace.%d.res" % j in n.f:
        now, res = n.f["trace.%d.res" % j]
        sel = [int(x) for x in n.f["trace.%d.selected" % j]] if "trace.%d.selected" % j in n.f else None
        w = None
        if "trace.%d.weights" % j in n.f:
            t = n.f["trace.%d.weights" % j]
            w = [(int(t[i]), tok_val(t[i + 1])) for i in range(0, len(t), 2)]
        st = None
        if "trace.%d.stat" % j in n.f:
            t = n.f["trace.%d.stat" % j]
            st = {int(t[i]): tok_val(t[i + 1]) for i in range(0, len(t), 2)}
        out.append((None if now == "-" else int(now), res == "T", sel, w, st))
        j += 1
    return out


def price_at(case, nodes, path, kid, row):
    """current price of child id [kid] of the strategy at [path] on [row]: data column or the child strategy's index"""
    sub = nodes.get("%s.%d" % (path, kid))
    if sub is not None and sub.kind == "G":
        return sub.vals("hg_prices")[row]
    for k, col in case["prices"]:
        if k == kid:
            if row == 0:
                return float("nan")
            x = col[row - 1]
            return float("nan") if x == "nan" else float.fromhex(x)
    return None


def c14_selection(case, impl_case):
    fails = []
    state = impl_case["steps"][-1]["state"]
    root, nodes, _ = build_tree(state)
    if root is None:
        return fails
    specs = spec_index(case["tree"])
    for n in walk(root):
        sp = specs.get(n.path)
        if n.kind != "G" or sp is None or len(sp) < 5 or "~" in n.path:
            continue
        fl = flat_algos(sp[4])
        sels = [a for a in fl if a[0] in SELECTORS]
        if not sels or any(a[0] in ("not", "or") for a in fl):
            continue
        with_setstat = any(a[0] == "setstat" for a in fl)      # only the ranking clauses are checked for these stacks
        default = all(not (a[0] in ("selectall",) and (a[1] or a[2])) and
                      not (a[0] in ("selectthese", "selectwhere") and (a[2] or a[3])) and
                      not (a[0] == "hasdata" and (a[4] or a[5])) for a in sels) and \
            any(a[0] in ("selectall", "selectthese", "selectwhere", "hasdata") for a in sels)
        declared = [k[1] for k in sp[3]]
        universe = set(declared) if declared else {k for k, _ in case["prices"]}
        for row, res, sel, w, st in node_traces(n):
            if row is None or sel is None:
                continue
            if len(set(sel)) != len(sel):
                fails.append("%s row %d: duplicates in selected %s" % (n.path, row, sel))
            for k in ([] if with_setstat else sel):
                if k not in universe:
                    fails.append("%s row %d: selected %d is outside the strategy's universe %s" % (n.path, row, k, sorted(universe)))
                    break
                if default:
                    p = price_at(case, nodes, n.path, k, row)
                    if p is None or p != p or p <= 0:
                        fails.append("%s row %d: selected %d although its current price is %r" % (n.path, row, k, p))
                        break
            # StatTotalReturn: the statistic of a data column is its total return over the documented interval
            # [now - lag - lookback, now - lag]: last / first price of the rows of the data (synthetic first row included)
            # that fall in it
            trs = [a for a in fl if a[0] == "totalreturn"]
            if st is not None and len(trs) == 1 and not with_setstat and int(trs[0][1]) == 0 and int(trs[0][3]) == 0:
                day = 86400
                alld = [case["dates"][0] - day] + list(case["dates"])
                t0 = alld[row] - int(trs[0][4]) * day
                lo = t0 - int(trs[0][2]) * day
                rows = [r for r, d_ in enumerate(alld) if lo <= d_ <= t0]
                pcols = {k: col for k, col in case["prices"]}
                if rows:
                    for k, v in st.items():
                        if k not in pcols:
                            continue

                        def px(r):
                            if r == 0 or pcols[k][r - 1] == "nan":
                                return float("nan")
                            return float.fromhex(pcols[k][r - 1])
                        a0, a1 = px(rows[0]), px(rows[-1])
                        if a0 != a0 or a1 != a1:
                            want = float("nan")
                        elif a0 == 0:                      # IEEE division, as numpy does it
                            want = float("nan") if a1 == 0 else (float("inf") if a1 > 0 else float("-inf"))
                        else:
                            want = a1 / a0 - 1
                        got = fnum(v)
                        if want != want and got != got:
                            continue
                        if want == got:
                            continue
                        if want != want or got != got or abs(want) == float("inf") or abs(got - want) > 1e-9 * max(1.0, abs(want)):
                            fails.append("%s row %d: total return of %d is %r, over [now - lag - lookback, now - lag] it is %r"
                                         % (n.path, row, k, v, want))
                            break
            last = sels[-1]
            eligible = None
            if last[0] == "selectn" and last[4]:
                # filter_selected: the candidates are the tickers selected so far; derivable when one plain selector precedes
                prior = sels[:-1]
                if len(prior) == 1 and prior[0][0] == "selectall" and not prior[0][1] and not prior[0][2]:
                    base = sorted(universe)
                elif len(prior) == 1 and prior[0][0] == "selectthese" and not prior[0][2] and not prior[0][3]:
                    base = [k for k in prior[0][1] if k in universe]
                else:
                    base = None
                if base is not None:
                    eligible = set()
                    for k in base:
                        p = price_at(case, nodes, n.path, k, row)
                        if p is not None and p == p and p > 0:
                            eligible.add(k)
            if last[0] == "selectn" and st is not None and (not last[4] or eligible is not None):
                cand = {k: v for k, v in st.items() if not isinstance(v, str) and (eligible is None or k in eligible)}
                chosen = [k for k in sel if k in cand]
                rest = [k for k in cand if k not in sel]
                desc = bool(last[2])
                for a in chosen:
                    for b in rest:
                        if (cand[a] < cand[b] - 1e-12) if desc else (cand[a] > cand[b] + 1e-12):
                            fails.append("%s row %d: %d (stat %r) selected over %d (stat %r)" % (n.path, row, a, cand[a], b, cand[b]))
                            break
                nn = float.fromhex(last[1])
                keep = int(nn) if nn >= 1 else int(nn * len(cand))
                want = min(keep, len(cand))
                if last[3] and len(cand) < keep:
                    want = 0
                if len(sel) != want:
                    fails.append("%s row %d: SelectN kept %d of %d candidates, expected %d" % (n.path, row, len(sel), len(cand), want))
    return fails


def c15_weights(case, impl_case):
    fails = []
    state = impl_case["steps"][-1]["state"]
    root, nodes, _ = build_tree(state)
    if root is None:
        return fails
    specs = spec_index(case["tree"])
    adata = {k: a for k, a in case.get("adata", [])}
    dates = [case["dates"][0] - 86400] + list(case["dates"])
    for n in walk(root):
        sp = specs.get(n.path)
        if n.kind != "G" or sp is None or len(sp) < 5 or "~" in n.path:
            continue
        fl = flat_algos(sp[4])
        if any(a[0] in ("limitdeltas", "rebalanceovertime", "closedead", "not", "or") for a in fl):
            continue
        ws = [a for a in fl if a[0] in ("weighequally", "weighspecified", "weightarget", "scale", "limitweights")]
        if not ws or ws[0][0] == "scale":
            continue
        for row, res, sel, w, st in node_traces(n):
            if row is None or w is None or not res:
                continue
            got = dict(w)
            base = ws[0]
            if base[0] == "weighequally":
                if sel is None:
                    continue
                exp = {k: 1.0 / len(sel) for k in sel} if sel else {}
            elif base[0] == "weighspecified":
                exp = {k: float.fromhex(x) for k, x in base[1]}
            else:
                fr = adata.get(base[1])
                if fr is None or dates[row] not in fr[1]:
                    continue
                r = fr[1].index(dates[row])
                exp = {k: float.fromhex(col[r]) for k, col in fr[2] if col[r] != "nan"}
            skip = False
            for a in ws[1:]:
                if a[0] == "scale":
                    exp = {k: float.fromhex(a[1]) * v for k, v in exp.items()}
                elif a[0] == "limitweights":
                    lim = float.fromhex(a[1])
                    if not exp:
                        pass
                    elif lim < 1.0 / len(exp):
                        exp = {}
                    else:
                        tot = sum(exp.values())
                        if abs(round(tot, 1) - 1.0) > 1e-12:
                            skip = True
                        elif any(v > lim + 1e-9 for v in got.values()) or abs(sum(got.values()) - tot) > 1e-9:
                            fails.append("%s row %d: LimitWeights(%r) gave %s from %s" % (n.path, row, lim, got, exp))
                        skip = True
                else:
                    skip = True
            if skip:
                continue
            if set(got) != set(exp) or any(not near(got[k], exp[k]) for k in exp):
                fails.append("%s row %d: weights %s, documented %s" % (n.path, row, got, exp))
    return fails


def c13_out_of_bounds(case, impl_case):
    """'RunIfOutOfBounds is True exactly when some held target deviates from its weight by more than the tolerance', on
    the books of gen_oob_case: [SelectThese, WeighSpecified, Or(calendar gate, RunIfOutOfBounds(tol)), Rebalance] on a
    flat strategy.  The weight RunIfOutOfBounds sees on a date is yesterday's position at today's price over yesterday's
    cash plus those; the stack's result is the Or of the gate and of that test."""
    import time
    fails = []
    tree = case["tree"]
    if tree[0] != "strat" or len(tree) < 5 or len(tree[4]) != 4:
        return fails
    st_ = tree[4]
    if st_[0][0] != "selectthese" or st_[1][0] != "weighspecified" or st_[2][0] != "or" or st_[3][0] != "rebalance":
        return fails
    gate = st_[2][1]
    if len(gate) != 2 or gate[1][0] != "outofbounds" or gate[0][0] not in ("runonce", "runperiod"):
        return fails
    if gate[0][0] == "runperiod" and list(gate[0][2:5]) not in ([True, False, False], [1, 0, 0]):
        return fails
    tol = float.fromhex(gate[1][1])
    targets = {k: float.fromhex(x) for k, x in st_[1][1]}
    declared = {k[1] for k in tree[3]}
    state = impl_case["steps"][-1]["state"]
    root, nodes, _ = build_tree(state)
    if root is None or any(k.kind != "S" for k in root.kids):
        return fails
    pcols = {k: col for k, col in case["prices"]}
    alld = [case["dates"][0] - 86400] + list(case["dates"])
    cash = root.vals("hg_cash")

    def pid(ts_):
        g = time.gmtime(ts_)
        return (g.tm_year, g.tm_mon) if gate[0][1] == "monthly" else (g.tm_year,) if gate[0][1] == "yearly" else None
    first_run = None
    for row, res, sel, w, st in node_traces(root):
        if row is None or row < 1:
            continue
        if first_run is None:
            first_run = row
        if row >= len(alld) - 1 and gate[0][0] == "runperiod":
            continue                      # the last date only honours its flag (K11): outside this clause
        if gate[0][0] == "runonce":
            g_exp = row == first_run
        else:
            if pid(alld[row]) is None:
                return fails
            g_exp = True if row == 1 else pid(alld[row]) != pid(alld[row - 1])
        # the children that exist when the stack runs: declared ones, and lazily created ones once they have traded
        vpre, wcur, ok = fnum(cash[row - 1]), {}, True
        for k in root.kids:
            kid = int(k.path.split(".")[-1])
            pos = k.vals("h_positions")
            col = pcols.get(kid)
            if col is None or col[row - 1] == "nan":
                ok = False
                break
            exists = kid in declared or any(fnum(x) != 0 for x in pos[:row])
            val = fnum(pos[row - 1]) * float.fromhex(col[row - 1])
            vpre += val
            if exists:
                wcur[kid] = val
        if not ok or vpre != vpre or abs(vpre) < 1e-9:
            continue
        devs = [abs((wcur[k] / vpre - targets[k]) / targets[k]) for k in wcur if k in targets and targets[k] != 0]
        if any(abs(d_ - tol) < 1e-7 for d_ in devs):
            continue                      # on the edge of the band: rounding decides
        exp = g_exp or any(d_ > tol for d_ in devs)
        if bool(res) != exp:
            fails.append("row %d: the stack reported %s; calendar gate %s, deviations from the targets %s against the tolerance %r"
                         % (row, res, g_exp, [round(d_, 6) for d_ in devs], tol))
            break
    return fails


def c15_limit_deltas(case, impl_case):
    """'per-period weight changes no larger than the limit': a flat strategy of plain securities, fractional positions,
    no costs, no flows, LimitDeltas(scalar) as the last weighting step before Rebalance: on every date the stack ran, no
    child's weight (held before or targeted now) moves by more than the limit from where the date's prices had put it"""
    fails = []
    if case["intpos"] or case["comm"][0] != "none" or case.get("bidoffer"):
        return fails
    state = impl_case["steps"][-1]["state"]
    root, nodes, _ = build_tree(state)
    if root is None:
        return fails
    specs = spec_index(case["tree"])
    pcols = {k: col for k, col in case["prices"]}
    for n in walk(root):
        sp = specs.get(n.path)
        if n.kind != "G" or sp is None or len(sp) < 5 or "~" in n.path or n.f["flags"][2] == "T" or n.path != "r":
            continue
        if any(k.kind != "S" for k in n.kids):
            continue
        every = all_algos(sp[4])
        if any(a[0] in ("capitalflow", "useradjust", "rebalanceovertime", "closedead", "not", "or", "always") for a in every):
            continue
        fl = flat_algos(sp[4])
        if len(fl) < 2 or fl[-1][0] != "rebalance" or fl[-2][0] != "limitdeltas" or fl[-2][2]:
            continue
        if sum(1 for a in fl if a[0] == "limitdeltas") != 1:
            continue
        lim = abs(float.fromhex(fl[-2][1]))
        vals, cash = n.vals("hg_values"), n.vals("hg_cash")
        for row, res, sel, w, st in node_traces(n):
            if row is None or row < 1 or not res or w is None:
                continue
            pre, post, ok = {}, {}, True
            vpre = fnum(cash[row - 1])
            for k in n.kids:
                kid = int(k.path.split(".")[-1])
                col = pcols.get(kid)
                pos = k.vals("h_positions")
                if col is None or col[row - 1] == "nan" or row >= len(pos):
                    if row < len(pos) and (fnum(pos[row]) != 0 or fnum(pos[row - 1]) != 0):
                        ok = False
                    continue
                p = float.fromhex(col[row - 1])
                pre[kid] = fnum(pos[row - 1]) * p
                post[kid] = fnum(pos[row]) * p
                vpre += pre[kid]
            if not ok or vpre != vpre or abs(vpre) < 1e-9 or abs(fnum(vals[row]) - vpre) > 1e-6 * max(1.0, abs(vpre)):
                continue          # a NaN price on a held child, a flow, or costs after all: outside this clause
            for kid in post:
                d_ = post[kid] / vpre - pre[kid] / vpre
                if abs(d_) > lim + 1e-9:
                    fails.append("%s row %d: the weight of child %d moved by %r, LimitDeltas allows %r" % (n.path, row, kid, d_, lim))
                    break
            else:
                # when the targets of the date are known (WeighSpecified, or the dated row of WeighTarget, right before
                # LimitDeltas): every child moves towards its target (0 when not targeted) by exactly the clipped difference
                src = fl[-3] if len(fl) >= 3 else None
                tgt = None
                if src is not None and src[0] == "weighspecified":
                    tgt = {k: float.fromhex(x) for k, x in src[1]}
                elif src is not None and src[0] == "weightarget":
                    fr = {k: a for k, a in case.get("adata", [])}.get(src[1])
                    alld = [case["dates"][0] - 86400] + list(case["dates"])
                    if fr is not None and alld[row] in fr[1]:
                        r_ = fr[1].index(alld[row])
                        tgt = {k: float.fromhex(col[r_]) for k, col in fr[2] if col[r_] != "nan"}
                if tgt is not None and all(k in post for k in tgt):
                    for kid in post:
                        w0 = pre[kid] / vpre
                        want = max(-lim, min(lim, tgt.get(kid, 0.0) - w0))
                        d_ = post[kid] / vpre - w0
                        if abs(d_ - want) > 1e-9:
                            fails.append("%s row %d: child %d moved from weight %r by %r; towards its target %r within the limit %r it is %r"
                                         % (n.path, row, kid, w0, d_, tgt.get(kid, 0.0), lim, want))
                            break
            if fails:
                break
    return fails


def c06_rebalance(case, impl_case):
    """fractional positions, no costs: after Rebalance every targeted child sits at its weight, every other child is
    closed, the remainder is cash"""
    fails = []
    if case["intpos"] or case["comm"][0] != "none" or case.get("bidoffer"):
        return fails
    state = impl_case["steps"][-1]["state"]
    root, nodes, _ = build_tree(state)
    if root is None:
        return fails
    specs = spec_index(case["tree"])
    for n in walk(root):
        sp = specs.get(n.path)
        if n.kind != "G" or sp is None or len(sp) < 5 or "~" in n.path or n.f["flags"][2] == "T":
            continue
        fl = flat_algos(sp[4])
        if not fl or fl[-1][0] != "rebalance" or any(a[0] in ("rebalanceovertime", "useradjust") for a in all_algos(sp[4])):
            continue
        # children that trade or receive flows later on the same date change the weights again (the flow may sit inside
        # an Or / Not / run_always wrapper)
        if any(k.kind == "G" for k in n.kids) and any(
                any(a[0] in ("capitalflow", "useradjust") for a in all_algos(specs[strip_paper(k.path)][4]))
                for k in n.kids if k.kind == "G" and len(specs.get(strip_paper(k.path), [])) > 4):
            continue
        vals, cash = n.vals("hg_values"), n.vals("hg_cash")
        for row, res, sel, w, st in node_traces(n):
            if row is None or w is None or not res or abs(vals[row]) < 1e-9:
                continue
            tgt = dict(w)
            tot = 0.0
            for k in n.kids:
                kid = int(k.path.split(".")[-1])
                v = k.vals("h_values")[row] if k.kind == "S" else k.vals("hg_values")[row]
                if k.kind == "S" and k.f.get("priced", ["T"])[0] != "T":
                    continue
                wt = v / vals[row]
                want = tgt.get(kid, 0.0)
                if abs(wt - want) > 1e-9:
                    fails.append("%s row %d: child %d sits at weight %r, target %r" % (n.path, row, kid, wt, want))
                tot += wt
            if abs(cash[row] / vals[row] - (1 - sum(tgt.values()))) > 1e-9 and all(
                    any(int(k.path.split(".")[-1]) == t for k in n.kids) for t in tgt):
                fails.append("%s row %d: cash fraction %r, expected %r" % (n.path, row, cash[row] / vals[row], 1 - sum(tgt.values())))
    return fails


# ---------------------------------------------------------------- C20
def c06_rebalance_over_time(case, impl_case):
    """'RebalanceOverTime reaches the same targets in n equal steps': a flat root of plain securities, fractional positions,
    no costs, no flows, static WeighSpecified targets (possibly rescaled) and run_always(RebalanceOverTime(n)) as the last
    algo: on the n-th run after the last date on which targets arrived (none arriving in between) every targeted child
    sits exactly at its target and every other child is closed"""
    fails = []
    if case["intpos"] or case["comm"][0] != "none" or case.get("bidoffer"):
        return fails
    tree = case["tree"]
    if tree[0] != "strat" or len(tree) < 5 or tree[2]:
        return fails
    every = all_algos(tree[4])
    if any(a[0] in ("capitalflow", "useradjust", "limitdeltas", "limitweights", "closedead", "or", "not", "rebalance", "weightarget",
                    "weighequally", "setnotional") for a in every):
        return fails
    top = tree[4]
    if not top or top[-1][0] != "always" or not top[-1][1] or top[-1][2][0] != "rebalanceovertime":
        return fails
    ws = [a for a in every if a[0] == "weighspecified"]
    if len(ws) != 1 or sum(1 for a in every if a[0] == "rebalanceovertime") != 1:
        return fails
    n_steps = int(round(float.fromhex(top[-1][2][1])))
    W = {k: float.fromhex(x) for k, x in ws[0][1]}
    for a in every:
        if a[0] == "scale":
            W = {k: v * float.fromhex(a[1]) for k, v in W.items()}
    state = impl_case["steps"][-1]["state"]
    root, nodes, _ = build_tree(state)
    if root is None or any(k.kind != "S" for k in root.kids):
        return fails
    runs = [(row, res) for row, res, sel, w, st in node_traces(root) if row is not None]
    vals = root.vals("hg_values")
    pcols = {k: col for k, col in case["prices"]}
    for j, (row, res) in enumerate(runs):
        if not res or j + n_steps - 1 >= len(runs):
            continue
        if any(r2 for _, r2 in runs[j + 1:j + n_steps]):
            continue                                  # fresh targets arrive before the schedule ends: judged from the later arrival
        if any(runs[j + i][0] != row + i for i in range(n_steps)):
            continue
        end = row + n_steps - 1
        v = fnum(vals[end])
        if v != v or abs(v) < 1e-9:
            continue
        for k in root.kids:
            kid = int(k.path.split(".")[-1])
            col = pcols.get(kid)
            pos = k.vals("h_positions")
            if col is None or end >= len(pos) or col[end - 1] == "nan":
                break
            wt = fnum(pos[end]) * float.fromhex(col[end - 1]) / v
            want = W.get(kid, 0.0)
            if abs(wt - want) > 1e-9:
                fails.append("row %d, step %d of %d after the targets of row %d: child %d sits at weight %r, target %r"
                             % (end, n_steps, n_steps, row, kid, wt, want))
                break
        if fails:
            break
    return fails


def c20_risk(case, impl_case):
    fails = []
    state = impl_case["steps"][-1]["state"]
    root, nodes, _ = build_tree(state)
    if root is None:
        return fails
    risk_data = [a for k, a in case.get("adata", []) if k == 0 and a[0] == "risk"]
    mults = mults_of_case(case)
    if risk_data:
        frames = {m: (ix, {k: col for k, col in cols}) for m, ix, cols in risk_data[0][1]}
        last_ts = case["dates"][-1]
        for n in walk(root):
            if "risk" not in n.f or "~" in n.path:
                continue
            t = n.f["risk"]
            rk = {int(t[i]): tok_val(t[i + 1]) for i in range(0, len(t), 2)}
            for m, r in rk.items():
                if n.kind == "S":
                    ix, cols = frames[m]
                    sid = int(n.path.split(".")[-1])
                    unit = float.fromhex(cols[sid][ix.index(last_ts)]) if sid in cols and last_ts in ix else 0.0
                    want = 0.0 if abs(n.s["pos"]) < 1e-16 else unit * n.s["pos"] * mults.get(strip_paper(n.path), 1.0)
                    # the record is as of the last UpdateRisk; positions only change through the hedge in between
                    trs = node_traces(root)
                    if not near(r, want, want) and trs and trs[-1][1] and trs[-1][0] == len(case["dates"]):
                        fails.append("%s: risk %r, expected unit risk x position x multiplier = %r" % (n.path, r, want))
                else:
                    tot = 0.0
                    for k in n.kids:
                        if "risk" in k.f:
                            tk = k.f["risk"]
                            tot += dict((int(tk[i]), tok_val(tk[i + 1])) for i in range(0, len(tk), 2)).get(m, 0.0)
                    if not near(r, tot, max(abs(x) for x in [tot, 1.0])):
                        fails.append("%s: risk %r != sum over children %r" % (n.path, r, tot))
        # after HedgeRisks and a second UpdateRisk the hedged measure is zero
        specs = spec_index(case["tree"])
        fl = flat_algos(specs["r"][4])
        tr = node_traces(root)
        if any(a[0] == "hedgerisk1" for a in fl) and tr and tr[-1][1] and tr[-1][0] == len(case["dates"]) and "risk" in root.f:
            t = root.f["risk"]
            gross = sum(abs(dict((int(k.f["risk"][i]), tok_val(k.f["risk"][i + 1])) for i in range(0, len(k.f["risk"]), 2)).get(1, 0.0))
                        for k in walk(root) if k.kind == "S" and "risk" in k.f)
            r = tok_val(t[1])
            if abs(r) > 1e-9 * max(1.0, gross):
                fails.append("root risk after hedging is %r (gross %r)" % (r, gross))
    # ClosePositionsAfterDates + SelectActive: no position once the close date has passed and the stack has run
    specs = spec_index(case["tree"])
    fl = flat_algos(specs["r"][4]) if len(specs["r"]) > 4 else []
    closes = [a for a in fl if a[0] == "closeafter"]
    # (only when the weights are derived from the selection: WeighSpecified / WeighTarget ignore SelectActive)
    if closes and any(a[0] == "selectactive" for a in fl) and fl.index(closes[0]) <= 1 and \
            any(a[0] == "weighequally" for a in fl) and not any(a[0] in ("weighspecified", "weightarget", "rollafter") for a in fl):
        table = dict([a for k, a in case.get("adata", []) if k == closes[0][1]][0][1])
        dates = [case["dates"][0] - 86400] + list(case["dates"])
        # rows on which the close algo certainly executed: the run got at least as far as the weighting algos
        ran = [row for row, res, sel, w, st in node_traces(root) if row is not None and (res or w is not None)]
        for n in root.kids:
            if n.kind != "S":
                continue
            sid = int(n.path.split(".")[-1])
            if sid not in table:
                continue
            first = [row for row in ran if dates[row] >= table[sid]]
            if not first:
                continue
            pos = n.vals("h_positions")
            for row in range(first[0], len(pos)):
                if abs(pos[row]) > 1e-9:
                    lazy = bool(specs.get(n.path, [0] * 6)[5])
                    fails.append("%s%s: position %r on row %d although its close date passed on row %d"
                                 % ("[K14 lazy child] " if lazy and row == first[0] else "", n.path, pos[row], row, first[0]))
                    break
    return fails


# ---------------------------------------------------------------- C18: reports vs node histories
def c18_reports(case, impl_case, extra):
    """every report of the finished backtest recomputed from the raw node histories of the same run"""
    state = impl_case["steps"][-1]["state"]
    root, nodes, _ = build_tree(state)
    if root is None:
        return []
    fails = []
    rid = case["tree"][1]
    mults = mults_of_case(case)

    def nm(i):
        return "n%03d" % int(i)
    members = []          # (full name, Node) in Node.members order, paper copies excluded

    def visit(n, full):
        members.append((full, n))
        for k in n.kids:
            visit(k, full + ">" + nm(k.path.split(".")[-1]))
    visit(root, nm(rid))
    fi = bool(case["tree"][2])
    rv = {k[3:]: [tok_val(t) for t in v] for k, v in extra.items() if k.startswith("RV ")}
    rt = sorted(((int(k[3:]), v) for k, v in extra.items() if k.startswith("RT ")), key=lambda kv: kv[0])

    def hist(n, what):
        if n.kind == "S":
            return n.vals({"values": "h_values", "notls": "h_notls", "positions": "h_positions", "outlays": "h_outlays"}[what])
        return n.vals({"values": "hg_values", "notls": "hg_notls", "cash": "hg_cash", "prices": "hg_prices"}[what])
    base = hist(root, "notls" if fi else "values")
    nrows = len(base)

    def fin(x):
        return isinstance(x, float) and not (math.isnan(x) or math.isinf(x))
    # ---- component weights: value (notional) over the root's
    cols = {k[len("weights:"):]: v for k, v in rv.items() if k.startswith("weights:")}
    if "REP weights" in extra and extra["REP weights"][0] == "ok":
        if list(cols) != [f for f, _ in members]:
            fails.append("weights: columns %s are not the members %s" % (list(cols)[:6], [f for f, _ in members][:6]))
        for full, n in members:
            w = cols.get(full)
            h = hist(n, "notls" if fi else "values")
            if w is None:
                continue
            for i in range(nrows):
                if fin(base[i]) and base[i] != 0 and fin(w[i]) and not near(w[i] * base[i], h[i], base[i]):
                    fails.append("weights: %s row %d: weight %r x root %r != node %r" % (full, i, w[i], base[i], h[i]))
                    break
    # ---- security weights: same-named securities aggregated; with cash fractions they sum to one
    secs = [(f, n) for f, n in members if n.kind == "S"]
    strats = [(f, n) for f, n in members if n.kind == "G"]
    by_name = {}
    for f, n in secs:
        by_name.setdefault(f.split(">")[-1], []).append(n)
    sw = {k[len("sweights:"):]: v for k, v in rv.items() if k.startswith("sweights:")}
    if "REP security_weights" in extra and extra["REP security_weights"][0] == "ok":
        if sorted(sw) != sorted(by_name):
            fails.append("security_weights: columns %s, securities %s" % (sorted(sw), sorted(by_name)))
        for name, ns in by_name.items():
            w = sw.get(name)
            if w is None:
                continue
            for i in range(nrows):
                tot = sum(hist(n, "notls" if fi else "values")[i] for n in ns)
                if fin(base[i]) and base[i] != 0 and fin(w[i]) and not near(w[i] * base[i], tot, base[i]):
                    fails.append("security_weights: %s row %d: %r x root %r != sum of same-named securities %r" % (name, i, w[i], base[i], tot))
                    break
        if not fi:
            for i in range(nrows):
                if not fin(base[i]) or base[i] == 0 or not all(fin(sw[k][i]) for k in sw):
                    continue
                tot = sum(sw[k][i] for k in sw) + sum(hist(n, "cash")[i] for _, n in strats) / base[i]
                if abs(tot - 1.0) > 1e-9 * max(1.0, sum(abs(sw[k][i]) for k in sw)):
                    fails.append("security weights + cash fractions sum to %r on row %d" % (tot, i))
                    break
    # ---- positions per ticker
    pos = {k[len("positions:"):]: v for k, v in rv.items() if k.startswith("positions:")}
    agg_pos = {name: [sum(hist(n, "positions")[i] for n in ns) for i in range(nrows)] for name, ns in by_name.items()}
    if "REP positions" in extra and extra["REP positions"][0] == "ok":
        if sorted(pos) != sorted(by_name):
            fails.append("positions: columns %s, securities %s" % (sorted(pos), sorted(by_name)))
        for name in by_name:
            if name in pos and any(not near(a, b) for a, b in zip(pos[name], agg_pos[name])):
                fails.append("positions: %s is not the sum of the positions of the securities of that name" % name)
    # ---- transactions: quantities cumulate to the positions; prices are execution prices, spread included
    if "REP result_get_transactions" in extra and extra["REP result_get_transactions"][0] == "ok":
        cum = {name: [0.0] * nrows for name in by_name}
        last = (-1, "")
        for k, toks in rt:
            row, name, q, p = int(toks[0]), toks[1], tok_val(toks[2]), tok_val(toks[3])
            if (row, name) <= last:
                fails.append("transactions: not sorted by (date, security) at entry %d" % k)
            last = (row, name)
            if name not in cum:
                fails.append("transactions: unknown security %s" % name)
                continue
            if q == 0:
                fails.append("transactions: zero quantity listed for %s on row %d" % (name, row))
            for i in range(row, nrows):
                cum[name][i] += q
            ns = by_name[name]
            ms = {mult_of(case, n.path, mults) for n in ns}
            out_tot = sum(hist(n, "outlays")[row] for n in ns)
            if len(ms) == 1 and fin(p) and fin(out_tot):
                m = ms.pop()
                if not near(p * q * m, out_tot, out_tot):
                    fails.append("transactions: %s row %d: quantity %r x price %r x multiplier %r = %r but the capital spent on the trade (outlays, spread included) is %r"
                                 % (name, row, q, p, m, p * q * m, out_tot))
        for name in by_name:
            for i in range(nrows):
                if not near(cum[name][i], agg_pos[name][i], max(abs(x) for x in agg_pos[name]) if agg_pos[name] else 1.0):
                    fails.append("transactions: quantities of %s cumulate to %r on row %d, recorded position %r" % (name, cum[name][i], i, agg_pos[name][i]))
                    break
    # ---- herfindahl index, turnover, result price
    if "hhi:-" in rv and sw:
        for i in range(nrows):
            if all(fin(sw[k][i]) for k in sw):
                want = sum(sw[k][i] ** 2 for k in sw)
                if not near(rv["hhi:-"][i], want):
                    fails.append("herfindahl_index row %d: %r, sum of squared security weights %r" % (i, rv["hhi:-"][i], want))
                    break
    if "turnover:-" in rv:
        vals = hist(root, "values")
        for i in range(nrows):
            outs = [sum(hist(n, "outlays")[i] for n in ns) for ns in by_name.values()]
            p, ng = sum(o for o in outs if o >= 0), abs(sum(o for o in outs if o < 0))
            if fin(vals[i]) and vals[i] != 0:
                want = min(p, ng) / vals[i]
                if fin(rv["turnover:-"][i]) and not near(rv["turnover:-"][i], want):
                    fails.append("turnover row %d: %r, min(buys, sells) / NAV = %r" % (i, rv["turnover:-"][i], want))
                    break
                if not fin(rv["turnover:-"][i]):
                    fails.append("turnover row %d is %r, min(buys, sells) / NAV = %r" % (i, rv["turnover:-"][i], want))
                    break
    if "resprice:-" in rv:
        if any(not near(a, b) for a, b in zip(rv["resprice:-"], hist(root, "prices"))) or len(rv["resprice:-"]) != nrows:
            fails.append("Result.prices is not the strategy's index")
    for k, v in extra.items():
        if k.startswith("REP ") and v[0] != "ok":
            fails.append("report %s raised %s" % (k[4:], " ".join(v[1:])))
    return fails


# ---------------------------------------------------------------- C01 on recorded histories
def c01_recorded_rows(case, impl_case):
    """every recorded row of every strategy (paper copies included): value = cash + the children's recorded values, and a
    security's recorded value is its recorded position x the data price x multiplier (0 on a missing price)"""
    state = impl_case["steps"][-1]["state"]
    root, nodes, _ = build_tree(state)
    if root is None:
        return []
    fails = []
    mults = mults_of_case(case)
    prices = {int(t): [tok_val(x) for x in col] for t, col in case["prices"]}
    for path, n in nodes.items():
        if n.kind == "G":
            vals, cash = n.vals("hg_values"), n.vals("hg_cash")
            kids = [k.vals("h_values") if k.kind == "S" else k.vals("hg_values") for k in n.kids]
            scale = max([abs(v) for v in vals if isinstance(v, float)] + [1.0])
            for i in range(len(vals)):
                tot = cash[i] + sum(k[i] for k in kids if i < len(k))
                if isinstance(vals[i], float) and abs(vals[i] - tot) > 1e-9 * scale:
                    fails.append("%s row %d: recorded value %r != recorded cash %r + children's recorded values %r"
                                 % (path, i, vals[i], cash[i], tot - cash[i]))
                    break
        else:
            tid = int(path.split(".")[-1].rstrip("~"))
            pos, vals = n.vals("h_positions"), n.vals("h_values")
            px = prices.get(tid)
            m = mult_of(case, strip_paper(path), mults)
            if px is None:
                continue
            for i in range(1, len(vals)):              # row 0 is the synthetic row
                p = px[i - 1] if i - 1 < len(px) else "nan"
                want = 0.0 if (p == "nan" or pos[i] == 0) else pos[i] * p * m
                if isinstance(vals[i], float) and abs(vals[i] - want) > 1e-9 * max(1.0, abs(want)):
                    fails.append("%s row %d: recorded value %r != recorded position %r x price %r x multiplier %r" % (path, i, vals[i], pos[i], p, m))
                    break
    return fails

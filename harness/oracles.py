"""Property statements as Python predicates over recorded *implementation* histories.
They are used to look for a concrete failing input once a proof or the correspondence
breaks, and to cross-check the theorem statements; a passing oracle is never counted as
evidence for a property."""
import math

from common import tok_val

TOL = 1e-9


def near(a, b, scale=1.0):
    if isinstance(a, str) or isinstance(b, str):
        return a == b
    return abs(a - b) <= TOL * max(1.0, abs(a), abs(b), abs(scale))


class Node:
    def __init__(self, path):
        self.path = path
        self.f = {}
        self.kids = []

    def vals(self, key):
        return [tok_val(t) for t in self.f.get(key, [])]


S_SCAL = ["pos", "lastpos", "price", "value", "notl", "weight", "needupdate", "outlay", "bidoffer", "bopaid",
          "capital", "coupon", "hcost"]
G_SCAL = ["capital", "value", "notl", "weight", "price", "net_flows", "last_value", "last_notl", "last_price",
          "last_fee", "bopaid", "bankrupt"]


def build_tree(state):
    """state: {"<path> <field>": [tokens]} -> (root Node, {path: Node}, stale)"""
    nodes = {}
    for key, toks in state.items():
        path, field = key.split(" ")
        nodes.setdefault(path, Node(path)).f[field] = toks
    for path, n in nodes.items():
        kind = n.f.get("kind", ["?"])[0]
        n.kind = kind
        names = S_SCAL if kind == "S" else G_SCAL
        sc = n.vals("scal")
        n.s = dict(zip(names, sc))
        n.now = n.f.get("now", ["-"])[0]
    for path, n in nodes.items():
        if n.f.get("kind", ["?"])[0] == "G":
            for k in n.f.get("kids", []):
                c = nodes.get(path + "." + k)
                if c is not None:
                    n.kids.append(c)
    stale = state.get("r stale", ["F"])[0] == "T"
    return nodes.get("r"), nodes, stale


def spec_index(tree, path="r", out=None):
    """{path: spec} for the declared tree of a case"""
    out = {} if out is None else out
    out[path] = tree
    if tree[0] == "strat":
        for k in tree[3]:
            spec_index(k, "%s.%d" % (path, k[1]), out)
    return out


def mult_of(case, path, mults):
    return mults.get(path, 1.0)


def walk(n):
    yield n
    for k in n.kids:
        yield from walk(k)


def fnum(x):
    return x if isinstance(x, (int, float)) else float("nan")


def c01_balance_sheet(case, step_state, mults, check_weights=True):
    """-> list of failure strings for one observed (refreshed) implementation state"""
    root, nodes, stale = build_tree(step_state)
    fails = []
    if root is None or stale:
        return fails
    for n in walk(root):
        if n.kind == "G":
            tot = n.s["capital"] + sum(fnum(k.s["value"]) for k in n.kids)
            if not near(n.s["value"], tot, tot):
                fails.append("%s: value %r != cash + children %r" % (n.path, n.s["value"], tot))
            nt = sum(abs(fnum(k.s["notl"])) for k in n.kids)
            if not near(n.s["notl"], nt, nt):
                fails.append("%s: notional %r != sum |child notional| %r" % (n.path, n.s["notl"], nt))
            fi = n.f["flags"][2] == "T"
            base = n.s["notl"] if fi else n.s["value"]
            if check_weights:
                for k in n.kids:
                    num = fnum(k.s["notl"] if fi else k.s["value"])
                    if abs(base) > 1e-12:
                        want = num / base
                    else:
                        want = 0.0
                    if not near(fnum(k.s["weight"]), want):
                        fails.append("%s: weight %r != %r" % (k.path, k.s["weight"], want))
            if n.now != "-":
                i = int(n.now)
                hv, hc, hn = n.vals("hg_values"), n.vals("hg_cash"), n.vals("hg_notls")
                if i < len(hv):
                    if not near(hv[i], n.s["value"]):
                        fails.append("%s: values row %r != value %r" % (n.path, hv[i], n.s["value"]))
                    if not near(hc[i], n.s["capital"]):
                        fails.append("%s: cash row %r != capital %r" % (n.path, hc[i], n.s["capital"]))
                    if not near(hn[i], n.s["notl"]):
                        fails.append("%s: notional row %r != notional %r" % (n.path, hn[i], n.s["notl"]))
        else:
            pos, price, val = n.s["pos"], n.s["price"], n.s["value"]
            m = mults.get(strip_paper(n.path), 1.0)
            if n.s["needupdate"] == "F":
                # skipped securities are flat
                if not (near(pos, 0.0) and near(val, 0.0)):
                    fails.append("%s: idle security not flat pos=%r value=%r" % (n.path, pos, val))
                continue
            if isinstance(price, str):   # nan
                if not (near(val, 0.0) and near(pos, 0.0)):
                    fails.append("%s: NaN price with pos=%r value=%r" % (n.path, pos, val))
            else:
                want = pos * price * m
                if not near(val, want, want):
                    fails.append("%s: value %r != pos*price*mult %r" % (n.path, val, want))
                if n.f.get("priced", ["T"])[0] == "T" and n.now != "-":
                    i = int(n.now)
                    hv, hp = n.vals("h_values"), n.vals("h_positions")
                    if i < len(hv):
                        if not near(hv[i], val):
                            fails.append("%s: value row %r != value %r" % (n.path, hv[i], val))
                        if not near(hp[i], pos):
                            fails.append("%s: position row %r != position %r" % (n.path, hp[i], pos))
    return fails


def strip_paper(path):
    """'r.3~.5' -> 'r.3.5' (the paper copy has the same declared children)"""
    return path.replace("~", "")


def mults_of_case(case):
    out = {}
    for path, spec in spec_index(case["tree"]).items():
        if spec[0] == "sec":
            out[path] = float.fromhex(spec[4]) if isinstance(spec[4], str) else float(spec[4])
    return out


def observed_steps(case, impl_case):
    """indices k (into impl steps; step 0 is BUILD) whose op refreshed the whole tree"""
    out = []
    for k, st in enumerate(impl_case["steps"]):
        if k == 0 or st["status"][1] != "ok":
            continue
        op = case["ops"][k - 1]
        if op[0] == "update":
            out.append(k)
        elif op[0] == "read" and op[2] in ("value", "weight", "notl"):
            # a read refreshes the tree only when the root was marked stale
            prev = impl_case["steps"][k - 1]["state"].get("r stale", ["F"])[0]
            if prev == "T":
                out.append(k)
    return out

"""Correspondence suites.  Each returns statistics for the evidence file and reports
disagreements / oracle failures through the Run object."""
import json
import os
import sys

HERE = os.path.dirname(os.path.abspath(__file__))
sys.path.insert(0, HERE)
import common  # noqa: E402
import engine_corr  # noqa: E402
import gen_engine  # noqa: E402
import oracles  # noqa: E402


def case_digest(c):
    return json.dumps([c["tree"], c["ops"], c["comm"], c["intpos"]], sort_keys=True)


def engine_suite(run, scratch, seed, n, oracle_fns=(), profile=None, name="engine_histories", known=(), keep=False):
    """random operation histories; raw state compared after every op; oracles on observed states.
    oracle_fns: list of (label, fn(case, state, mults) -> [failure strings])"""
    cases = engine_corr.prune_invalid(gen_engine.gen_cases(seed, n, profile), seed)
    corpus_dir = os.path.join(common.VERIF, "corpus", name)
    if os.path.isdir(corpus_dir):
        for f in sorted(os.listdir(corpus_dir)):
            if f.endswith(".json"):
                c = json.load(open(os.path.join(corpus_dir, f)))
                c["name"] = "corpus_" + f[:-5]
                cases.insert(0, c)
    res = engine_corr.run_cases(cases, scratch)
    tally = {"equal": 0, "drift": 0, "diff": 0}
    ops_hist, err_hist, nontrivial, oracle_evals, oracle_fails = {}, {}, set(), 0, 0
    steps_total = 0
    first_diff = None
    for c, v, d, ic, mc in res:
        tally[v] = tally.get(v, 0) + 1
        if ic:
            nst = len(ic["steps"]) - 1
            steps_total += max(0, nst)
            st = ic["steps"][-1]["status"]
            k = st[2] if len(st) > 2 and st[1] == "err" else "completed"
            err_hist[k] = err_hist.get(k, 0) + 1
            traded = any(o[0] in ("allocate", "transact", "rebalance", "close", "flatten") for o in c["ops"][:nst])
            if traded and nst >= 4:
                nontrivial.add(case_digest(c))
        for o in c["ops"]:
            ops_hist[o[0]] = ops_hist.get(o[0], 0) + 1
        if v == "diff" and first_diff is None:
            first_diff = (c, d)
        if ic and oracle_fns:
            mults = oracles.mults_of_case(c)
            for k in oracles.observed_steps(c, ic):
                for label, fn in oracle_fns:
                    oracle_evals += 1
                    fails = fn(c, ic["steps"][k]["state"], mults)
                    if fails:
                        hit = [kid for kid, kf in known if kf(c, ic, k, fails)]
                        if hit:
                            for h in hit:
                                run.known_seen.add(h)
                            continue
                        oracle_fails += 1
                        if oracle_fails <= 3:
                            small = dict(c)
                            small["ops"] = c["ops"][:k]
                            run.violation({"suite": name, "case": small, "step": k, "oracle": label, "failures": fails[:6]},
                                          "%s oracle fails on implementation history %s at op %d: %s"
                                          % (label, c["name"], k - 1, fails[0]))
    if tally["diff"]:
        c, d = first_diff

        def bad(cand):
            return engine_corr.run_cases([cand], scratch)[0][1] == "diff"
        small = engine_corr.shrink(c, scratch, bad)
        r = engine_corr.run_cases([small], scratch)[0]
        # is there a property-level failure on the (shrunk) implementation history?
        found = False
        if r[3] and oracle_fns:
            mults = oracles.mults_of_case(small)
            for k in range(1, len(r[3]["steps"])):
                for label, fn in oracle_fns:
                    if fn(small, r[3]["steps"][k]["state"], mults):
                        found = True
        run.violation({"suite": name, "case": small, "difference": r[2], "n_disagreeing_cases": tally["diff"],
                       "broken": "correspondence %s (model Engine.v/Ops.v vs bt/core.py)" % name},
                      "correspondence %s: implementation and model disagree on %d of %d histories; minimal: %s"
                      % (name, tally["diff"], len(cases), json.dumps(r[2])[:300]),
                      found_input=True if found else None)
    samples = [{"name": c["name"], "tree": c["tree"], "ops": c["ops"][:8], "comm": c["comm"], "intpos": c["intpos"]}
               for c in cases[:2]]
    # the extracted binary against the kernel's own evaluation of the model, on a sample of this run's cases
    import vmx
    vm = vmx.crosscheck(cases[:12])
    if not vm["coqc_ok"] or vm["equal"] != vm["cases"]:
        run.violation({"suite": name, "vm_crosscheck": vm,
                       "broken": "cross-check of the extracted binary (extraction, OCaml, driver.ml) against vm_compute of the same definitions"},
                      "the extracted model binary and the kernel's vm_compute disagree on %s (or cases.v did not compile: %s)"
                      % (vm["differing"], vm["stderr"][-200:]), found_input=False)
    return {"_kept": [(c, ic) for c, v, d, ic, mc in res if ic] if keep else None, "vm_crosscheck": vm,
            "evaluations": len(cases), "distinct_nontrivial": len(nontrivial),
            "traces_validated_against_impl": tally["equal"] + tally["drift"], "bit_drift": tally["drift"],
            "disagreements": tally["diff"], "ops_executed": steps_total, "op_histogram": ops_hist,
            "final_status_histogram": err_hist, "oracle_evaluations": oracle_evals, "oracle_failures": oracle_fails,
            "rule": "seeded random trees (flat/nested, shared tickers, lazy children, 5 security classes, FI and MV "
                    "roots), dyadic price grids with NaN/zero/negative cells, spreads, coupons, 5 commission families; "
                    "op histories pruned against the model to be mostly valid; non-trivial = distinct (tree, ops, "
                    "settings) with >= 4 executed ops including a trade",
            "samples": samples}


def backtest_suite(run, scratch, seed, n, name="backtest_runs", oracle_fns=(), known=(), gen=None, keep=False):
    """whole backtests (random stock-algo stacks, flat / nested / fixed-income trees); final raw state of every
    node incl. all history rows, the paper copies and the per-run temp traces compared with the model"""
    import backtest_corr
    import gen_backtest
    cases = (gen or gen_backtest.gen_cases)(seed, n)
    corpus_dir = os.path.join(common.VERIF, "corpus", name)
    if os.path.isdir(corpus_dir):
        for f in sorted(os.listdir(corpus_dir)):
            if f.endswith(".json"):
                c = json.load(open(os.path.join(corpus_dir, f)))
                c["name"] = "corpus_" + f[:-5]
                cases.insert(0, c)
    res = backtest_corr.run_cases(cases, scratch)
    tally = {"equal": 0, "drift": 0, "diff": 0}
    err_hist, algo_hist, nontrivial = {}, {}, set()
    first_diff = None
    oracle_evals = oracle_fails = 0
    for c, v, d, ic, mc in res:
        tally[v] = tally.get(v, 0) + 1
        if ic:
            st = ic["steps"][-1]["status"]
            k = st[2] if len(st) > 2 and st[1] == "err" else "completed"
            err_hist[k] = err_hist.get(k, 0) + 1
            if k == "completed":
                state = ic["steps"][-1]["state"]
                if any(key.endswith(" h_outlays") and any(common.tok_val(t) != 0 for t in toks) for key, toks in state.items()):
                    nontrivial.add(json.dumps([c["tree"], c["dates"][:3]]))
                for label, fn in oracle_fns:
                    oracle_evals += 1
                    fails = fn(c, ic)
                    if fails:
                        hit = [kid for kid, kf in known if kf(c, ic, fails)]
                        if hit:
                            for h in hit:
                                run.known_seen.add(h)
                            continue
                        oracle_fails += 1
                        if oracle_fails <= 3:
                            run.violation({"suite": name, "case": c, "oracle": label, "failures": fails[:6]},
                                          "%s oracle fails on backtest %s: %s" % (label, c["name"], fails[0]))

        def walk(t):
            if t[0] == "strat":
                for a in t[4]:
                    algo_hist[a[0]] = algo_hist.get(a[0], 0) + 1
                for k in t[3]:
                    walk(k)
        walk(c["tree"])
        if v == "diff" and first_diff is None:
            first_diff = (c, d)
    if tally["diff"]:
        c, d = first_diff
        run.violation({"suite": name, "case": c, "difference": d, "n_disagreeing_cases": tally["diff"],
                       "broken": "correspondence %s (model Algos.v/Engine.v vs bt/algos.py, bt/backtest.py, bt/core.py)" % name},
                      "correspondence %s: implementation and model disagree on %d of %d backtests; first: %s %s"
                      % (name, tally["diff"], len(cases), c["name"], json.dumps(d)[:300]))
    run.last_diff_cases = [c for c, v, d, ic, mc in res if v == "diff"]
    return {"evaluations": len(cases), "distinct_nontrivial": len(nontrivial),
            "traces_validated_against_impl": tally["equal"] + tally["drift"], "bit_drift": tally["drift"],
            "disagreements": tally["diff"], "final_status_histogram": err_hist, "algo_histogram": algo_hist,
            "oracle_evaluations": oracle_evals, "oracle_failures": oracle_fails,
            "rule": "seeded random backtests: 6-24 dates on real calendars (year ends, ISO week 53, leap day, gaps), "
                    "2-6 tickers with late listings / NaN gaps / zero prices, flat, nested (parent allocating between "
                    "sub-strategies with lazy string children) and fixed-income trees, stacks assembled from the stock "
                    "algos, 5 commission families, spreads, integer/fractional; non-trivial = completed run with at "
                    "least one trade, distinct by (tree, first dates)",
            "samples": [{"name": c["name"], "tree": c["tree"], "dates": c["dates"][:4]} for c in cases[:2]]}


# ---------------------------------------------------------------- C05: allocation grid
def comm_fee(comm, q, p):
    k = comm[0]
    if k == "none":
        return 0.0
    a = float.fromhex(comm[1])
    if k == "flat":
        return a
    if k == "pershare":
        return abs(q) * a
    if k == "prop":
        return abs(q) * p * a
    b = float.fromhex(comm[2])
    return max(a, abs(q) * b)


def alloc_cases(seed, tier):
    import itertools
    import random
    from gen_engine import hx
    rng = random.Random(seed)
    prices = [1.0, 12.5, 37.5, 100.0, 0.25]
    mults = [1.0, 10.0]
    priors = [0.0, 40.0, -40.0, 7.5]
    comms = [["none"], ["flat", hx(2.0)], ["pershare", hx(0.015625)], ["prop", hx(0.0078125)], ["maxflat", hx(1.0), hx(0.0078125)]]
    spreads = [0.0, 0.5]
    amounts = [0.0, 1.0, 37.0, 500.0, 14246.0, 100000.25, -1.0, -37.0, -500.0, -6439.0, -100000.25, 3.0]
    grid = list(itertools.product(prices, mults, priors, [True, False], comms, spreads, amounts))
    if tier == "quick":
        rng.shuffle(grid)
        grid = grid[:1800]
    for _ in range(600 if tier == "quick" else 40000):
        grid.append((rng.randint(1, 1600) / 8.0, rng.choice(mults), rng.choice([0.0, 0.0, float(rng.randint(-300, 300))]),
                     rng.random() < 0.5, rng.choice(comms), rng.choice([0.0, 0.25, 1.0]),
                     rng.randint(-800000, 800000) / 4.0))
    cases = []
    for i, (p, m, prior, ip, comm, sp, amt) in enumerate(grid):
        if sp >= p:
            sp = p / 4
        ops = [["adjust", [], hx(1e7), True, True, hx(0.0)], ["update", 0]]
        if prior != 0.0:
            ops.append(["transact", [1], hx(prior), None, True, None])
            ops.append(["update", 0])
        # exact close-out amounts now and then, and amounts just beside them (relative distance 2^-14 .. 2^-40):
        # only the exact amount takes the close-out shortcut
        if prior != 0.0 and i % 11 == 0:
            amt = -(prior * p * m)
        elif prior != 0.0 and i % 11 == 5:
            amt = -(prior * p * m) * (1.0 + rng.choice([1, -1]) * 2.0 ** -rng.choice([14, 18, 22, 30, 40]))
        ops.append(["allocate", [1], hx(amt), None, True])
        ops.append(["update", 0])
        cases.append({"name": "a%06d" % i, "nrows": 2, "intpos": ip, "comm": comm, "prices": [[1, [hx(p), hx(p)]]],
                      "bidoffer": [[1, [hx(sp), hx(sp)]]] if sp else None, "coupons": None, "cost_long": None,
                      "cost_short": None, "tree": ["strat", 9, False, [["sec", 1, "sec", False, hx(m), False]]],
                      "ops": ops, "_meta": {"p": p, "m": m, "prior": prior, "ip": ip, "sp": sp, "amt": amt}})
    return cases


def c05_oracle(c, ic):
    """the property statement on one recorded allocation; -> (failure text or None, classification tag)"""
    me = c["_meta"]
    p, m, prior, ip, sp, amt = me["p"], me["m"], me["prior"], me["ip"], me["sp"], me["amt"]
    k = len(c["ops"]) - 1           # step index of the allocate op (steps[0] is BUILD)
    if len(ic["steps"]) <= k:
        return None, "setup-error"
    st = ic["steps"][k]["status"]
    um = p * m

    def cost(q):
        return q * p * m + abs(q) * 0.5 * sp * m + comm_fee(c["comm"], q, p * m)
    per_unit = cost(1.0) - um if c["comm"][0] not in ("flat", "maxflat") else abs(0.5 * sp * m) + (comm_fee(c["comm"], 1e9, um) / 1e9)
    sane = per_unit < um
    if st[1] == "err":
        if st[2] in ("ESizingDiverged", "ESizingStuck", "ESizingLoop"):
            return ("allocate(%r) raises %s (price %r, mult %r, prior %r, integer %r, comm %r, spread %r)"
                    % (amt, st[2], p, m, prior, ip, c["comm"], sp)), ("K1" if sane else "insane-fee")
        return "allocate raised %s" % st[2], "error"
    state = ic["steps"][k]["state"]
    pos = common.tok_val(state["r.1 scal"][0])
    q = pos - prior
    tol = 1e-7 + 1e-9 * abs(amt)
    if amt == 0.0:
        return (None if q == 0 else "zero amount traded %r" % q), "zero"
    if abs(amt + prior * p * m) <= 1e-12 and prior != 0.0:
        return (None if abs(pos) < 1e-12 else "close-out left position %r" % pos), "closeout"
    if ip and abs(q - round(q)) > 1e-9:
        return "whole-unit position traded a fractional quantity %r" % q, "integrality"
    if q == 0:
        # nothing traded: is that the largest admissible quantity?
        if ip:
            unit = 1.0 if amt > 0 else -1.0
            if amt > 0 and cost(1.0) <= amt + tol:
                return "nothing bought although one unit costs %r <= %r" % (cost(1.0), amt), "not-maximal"
            if amt < 0:
                return "nothing sold although %r must be raised" % (-amt), "K2"
            return None, "none-affordable"
        if amt > 0 and comm_fee(c["comm"], 1e-9, um) >= amt - 1e-12:
            return None, "fixed-fee-exceeds-amount"      # no positive quantity fits: doing nothing is right
        return "fractional position did not trade for amount %r" % amt, "not-traded"
    cq = cost(q)
    if cq > amt + tol:
        tag = "K12" if abs(q + prior) < 1e-9 and prior != 0.0 else "over-budget"
        return "cost %r exceeds the amount %r (q=%r)" % (cq, amt, q), tag
    if not ip:
        if abs(cq - amt) > tol:
            return "fractional: cost %r != amount %r" % (cq, amt), "not-exact"
        return None, "exact"
    # integer: the largest quantity within the rule
    if cost(q + 1.0) <= amt + 1e-12 and not (abs(q + 1.0 + prior) < 1e-9):
        return "one more unit still fits: cost(q+1)=%r <= %r (q=%r)" % (cost(q + 1.0), amt, q), "not-maximal"
    return None, "maximal"


def alloc_suite(run, scratch, seed, tier, known_tags=("K1", "K2", "K12")):
    cases = alloc_cases(seed, tier)
    res = engine_corr.run_cases(cases, scratch, chunk=400)
    tally, tags = {"equal": 0, "drift": 0, "diff": 0}, {}
    first_diff = None
    fails = 0
    for c, v, d, ic, mc in res:
        tally[v] = tally.get(v, 0) + 1
        if v == "diff" and first_diff is None:
            first_diff = (c, d)
        if ic:
            msg, tag = c05_oracle(c, ic)
            tags[tag] = tags.get(tag, 0) + 1
            if msg:
                if tag in known_tags:
                    run.known_seen.add("c05_" + tag)
                    continue
                if tag == "insane-fee":
                    continue     # outside the property's quantifier (cost per unit not below the unit price)
                fails += 1
                if fails <= 3:
                    cc = {k: v for k, v in c.items() if k != "_meta"}
                    run.violation({"suite": "alloc_grid", "case": cc, "meta": c["_meta"], "oracle": "C05 budget", "failures": [msg]},
                                  "C05 oracle fails on the implementation: " + msg)
    if tally["diff"]:
        c, d = first_diff
        cc = {k: v for k, v in c.items() if k != "_meta"}
        run.violation({"suite": "alloc_grid", "case": cc, "difference": d, "n_disagreeing_cases": tally["diff"],
                       "broken": "correspondence alloc_grid (Engine.sec_allocate vs SecurityBase.allocate)"},
                      "correspondence alloc_grid: implementation and model disagree on %d of %d allocations; first: %s"
                      % (tally["diff"], len(cases), json.dumps(d)[:300]))
    return {"evaluations": len(cases), "distinct_nontrivial": len({json.dumps(c["_meta"], sort_keys=True) for c in cases if c["_meta"]["amt"] != 0}),
            "traces_validated_against_impl": tally["equal"] + tally["drift"], "bit_drift": tally["drift"],
            "disagreements": tally["diff"], "outcome_histogram": tags, "oracle_failures": fails,
            "rule": "product grid prices x multipliers x prior positions (flat/long/short/fractional) x integer|fractional x "
                    "5 fee kinds x spreads x amounts of both signs (quick: 1800 sampled + 600 random dyadic points; thorough: "
                    "all 9600 + 40000 random); exact close-out amounts mixed in; non-trivial = non-zero amount",
            "samples": [{k: v for k, v in c.items() if k != "_meta"} for c in cases[:1]]}


# ---------------------------------------------------------------- C08: schedules of redundant updates / reads
def _final_state(ic):
    return ic["steps"][-1]["state"] if ic and ic["steps"] else None


def _same_state(a, b):
    """observable equality (relation R); an idle (flat, skipped) security's private clock, cached price and
    spread are not observables: reading its price merely brings them up to date earlier"""
    if a is None or b is None or set(a) != set(b):
        return False, "keys"
    idle = {k.split(" ")[0] for k in a if k.endswith(" scal") and a[k][6:7] == ["F"] and b[k][6:7] == ["F"]
            and a.get(k.split(" ")[0] + " kind") == ["S"]}
    for k in a:
        node, fld = k.split(" ")
        if node in idle and fld in ("now", "scal"):
            if fld == "scal":
                ia, ib = [a[k][i] for i in (0, 3, 4, 5)], [b[k][i] for i in (0, 3, 4, 5)]
                if any(common.close(x, y) < 0 for x, y in zip(ia, ib)):
                    return False, k
            continue
        # relation R (1e-9): re-association of float sums (e.g. coupons swept on the first update of a date)
        # legitimately moves the last bits
        if len(a[k]) != len(b[k]) or any(common.close(x, y) < 0 for x, y in zip(a[k], b[k])):
            return False, k
    return True, None


def idle_cases(rng, n):
    """histories built around a security that is traded, closed, left idle over one or more date changes and
    then read (all accessors) while a trade elsewhere is pending"""
    from gen_engine import hx, dy
    out = []
    for i in range(n):
        nrows = rng.randint(4, 7)
        fi = rng.random() < 0.6
        clsA = rng.choice(["coupon", "couponhedge", "fi"]) if fi else rng.choice(["sec", "sec", "coupon"])
        clsB = rng.choice(["coupon", "sec", "fi"]) if fi else "sec"
        tree = ["strat", 1, fi, [["sec", 2, clsA, True, hx(1.0), False], ["sec", 3, clsB, True, hx(rng.choice([1.0, 2.0])), False]]]
        prices = [[2, [hx(dy(rng, 20, 60, 8)) for _ in range(nrows)]], [3, [hx(dy(rng, 20, 60, 8)) for _ in range(nrows)]]]
        coupons = [[2, [hx(dy(rng, 0, 1, 16)) for _ in range(nrows)]], [3, [hx(dy(rng, 0, 1, 16)) for _ in range(nrows)]]]
        ops = [["adjust", [], hx(100000.0), True, True, hx(0.0)], ["update", 0],
               ["transact", [], hx(float(rng.randint(10, 200))), 2, True, None], ["update", 0],
               ["close", [], 2, True], ["update", 0]]
        row = 0
        for _ in range(rng.randint(1, 3)):
            row = min(nrows - 1, row + 1)
            ops.append(["update", row])
        ops.append(["transact", [], hx(float(rng.randint(10, 100))), 3, True, None])        # pending change
        ops.append(["read", [2], rng.choice(["series", "series", "price", "value"])])
        if rng.random() < 0.5:
            ops.append(["transact", [], hx(float(rng.randint(5, 50))), 2, True, None])
        ops.append(["update", row])
        out.append({"name": "idle%04d" % i, "nrows": nrows, "intpos": rng.random() < 0.5, "comm": ["none"], "prices": prices,
                    "bidoffer": None, "coupons": coupons, "cost_long": None, "cost_short": None, "tree": tree, "ops": ops})
    return out


def schedule_suite(run, scratch, seed, n, k_variants=3):
    """(a) duplicate updates and reads placed right after an update never change the final state;
       (b) a read on a stale tree returns what it returns after an explicit update, and leaves the same state;
       (c) rows before the current date never change; (d) no accessor hands out rows after the current date"""
    import copy
    import random
    rng = random.Random(seed * 31 + 7)
    bases = engine_corr.prune_invalid(gen_engine.gen_cases(seed + 5, n, gen_engine.Profile(p_bad=0.0, p_upd_false=0.2, p_fi_root=0.45)), seed, keep_err=0.0)
    bases = bases + idle_cases(rng, max(20, n // 4))
    base_all = [dict(c, dump="all") for c in bases]
    res0 = engine_corr.run_cases(base_all, scratch)
    stale_after = {}
    for r in res0:
        if r[3]:
            stale_after[r[0]["name"]] = [st["state"].get("r stale", ["F"])[0] == "T" and st["status"][1] == "ok"
                                         for st in r[3]["steps"]]
    variants, links = [], []
    for c in bases:
        nodes = gen_engine.paths_of(c["tree"])
        eager = [p for p, s in nodes if not (s[0] == "sec" and s[5])]
        for v in range(k_variants):
            d = copy.deepcopy(c)
            ops, row = [], None
            for op in c["ops"]:
                ops.append(op)
                if op[0] == "update" and isinstance(op[1], int) and op[1] < c["nrows"]:
                    row = op[1]
                    if rng.random() < 0.6:
                        for _ in range(rng.randint(1, 3)):
                            ops.append(["update", row])
                            if rng.random() < 0.7:
                                ops.append(["read", rng.choice(eager), rng.choice(["value", "weight", "notl", "price", "series"])])
            d["ops"] = ops
            d["name"] = "%s_dup%d" % (c["name"], v)
            d["dump"] = "last"
            variants.append(d)
            links.append(("dup", c["name"], d["name"]))
        # (b): a pair differing by one explicit update before a read, placed where the implementation's tree is stale
        st = stale_after.get(c["name"], [])
        cand = [i for i in range(2, len(c["ops"])) if i + 1 < len(st) and st[i + 1]]
        if cand:
            i = rng.choice(cand)
            row = max([op[1] for op in c["ops"][:i + 1] if op[0] == "update" and isinstance(op[1], int)] or [0])
            secs = [p for p, sp in nodes if sp[0] == "sec" and not sp[5]]
            tgt = rng.choice(secs) if secs and rng.random() < 0.6 else rng.choice(eager)
            rd = ["read", tgt, rng.choice(["value", "weight", "notl", "series", "series"])]
            a, b = copy.deepcopy(c), copy.deepcopy(c)
            a["ops"] = c["ops"][:i + 1] + [rd] + c["ops"][i + 1:]
            b["ops"] = c["ops"][:i + 1] + [["update", row], rd] + c["ops"][i + 1:]
            a["name"], b["name"] = c["name"] + "_rdA", c["name"] + "_rdB"
            variants += [a, b]
            links.append(("read", a["name"], b["name"], i + 1))
    res = res0 + engine_corr.run_cases(variants, scratch)
    by = {r[0]["name"]: r for r in res}
    tally = {"equal": 0, "drift": 0, "diff": 0}
    first_diff = None
    for r in res:
        tally[r[1]] += 1
        if r[1] == "diff" and first_diff is None:
            first_diff = r
    fails = []
    for ln in links:
        if ln[0] == "dup":
            a, b = by[ln[1]], by[ln[2]]
            if not a[3] or not b[3]:
                continue
            if a[3]["steps"][-1]["status"][1] != "ok" or b[3]["steps"][-1]["status"][1] != "ok":
                if a[3]["steps"][-1]["status"][1:] != b[3]["steps"][-1]["status"][1:]:
                    fails.append((b[0], "redundant updates/reads change the outcome: %s vs %s"
                                  % (a[3]["steps"][-1]["status"], b[3]["steps"][-1]["status"])))
                continue
            fa, fb = _final_state(a[3]), _final_state(b[3])
            ok, key = _same_state(fa, fb)
            if not ok:
                fails.append((b[0], "redundant updates/reads change the final state (%s)" % key))
        else:
            a, b, k = by[ln[1]], by[ln[2]], ln[3]
            if not a[3] or not b[3] or len(a[3]["steps"]) <= k + 1 or len(b[3]["steps"]) <= k + 2:
                continue
            ra, rb = a[3]["steps"][k + 1]["status"], b[3]["steps"][k + 2]["status"]
            if ra[1] == "ok" and rb[1] == "ok":
                if common.close(ra[2], rb[2]) < 0:
                    fails.append((a[0], "a read on a stale tree returns %s, after an explicit update %s" % (ra[2], rb[2])))
                if ra[2] == "0x0p+0" and a[0]["ops"][k][2] == "series":
                    fails.append((a[0], "an accessor hands out rows beyond the current date"))
                ok, key = _same_state(a[3]["steps"][k + 1]["state"], b[3]["steps"][k + 2]["state"])
                if not ok:
                    fails.append((a[0], "state after a read differs from state after update+read (%s)" % key))
    # (c) append-only: rows before the clock never change (implementation histories of the base runs)
    for c in bases:
        ic = by[c["name"]][3]
        if not ic:
            continue
        for k in range(2, len(ic["steps"])):
            prev, cur = ic["steps"][k - 1]["state"], ic["steps"][k]["state"]
            now = prev.get("r now", ["-"])[0]
            now2 = cur.get("r now", ["-"])[0]
            if now == "-" or now2 == "-" or int(now2) < int(now):
                continue
            lim = int(now)
            for key, toks in cur.items():
                fld = key.split(" ")[1]
                if (fld.startswith("h_") or fld.startswith("hg_")) and key in prev:
                    if any(common.close(x, y) < 0 for x, y in zip(prev[key][:lim], toks[:lim])):
                        fails.append((dict(c, ops=c["ops"][:k]), "a row before the current date changed: %s" % key))
                        break
            # (d) the series read op
            st = ic["steps"][k]["status"]
            if c["ops"][k - 1][0] == "read" and c["ops"][k - 1][2] == "series" and st[1] == "ok" and common.tok_val(st[2]) == 0.0:
                fails.append((dict(c, ops=c["ops"][:k]), "an accessor hands out rows beyond the current date"))
    for cc, msg in fails[:3]:
        run.violation({"suite": "schedule_suite", "case": {k: v for k, v in cc.items()}, "failures": [msg]},
                      "C08 oracle fails on the implementation: " + msg)
    if first_diff is not None:
        c, v, d, ic, mc = first_diff
        run.violation({"suite": "schedule_suite", "case": c, "difference": d, "n_disagreeing_cases": tally["diff"],
                       "broken": "correspondence schedule_suite (Engine.v/Ops.v vs bt/core.py)"},
                      "correspondence schedule_suite: implementation and model disagree on %d of %d histories; first: %s"
                      % (tally["diff"], len(res), json.dumps(d)[:300]))
    return {"evaluations": len(res), "distinct_nontrivial": len(variants),
            "traces_validated_against_impl": tally["equal"] + tally["drift"], "bit_drift": tally["drift"],
            "disagreements": tally["diff"], "oracle_failures": len(fails), "bases": len(bases),
            "rule": "each base history replayed with duplicated updates and reads (value, weight, notional, price, series "
                    "lengths) placed right after updates: final states must be identical; pairs 'read on a stale tree' vs "
                    "'explicit update then read': returned values and states identical; rows before the clock compared "
                    "between consecutive steps; non-trivial = every variant",
            "samples": [{"name": v["name"], "ops": v["ops"][:10]} for v in variants[:2]]}


# ---------------------------------------------------------------- C04: no look-ahead (perturbation pairs)
def perturb_after(case, cut, rng):
    """a copy of the backtest whose every supplied data value dated after row [cut] (0-based over the data dates)
    is replaced by something else (still well-formed); dates, structure and everything up to the cut are untouched"""
    import copy
    from gen_engine import hx
    d = copy.deepcopy(case)
    tcut = case["dates"][cut]

    def garble(x, kind):
        if x == "nan":
            return x if rng.random() < 0.7 else hx(rng.randint(1, 400) / 4.0)
        v = float.fromhex(x)
        if kind == "price":
            return hx(max(0.25, v * rng.choice([0.5, 0.75, 1.25, 2.0]) + rng.randint(-8, 8) / 8.0))
        if kind == "bool":
            return hx(1.0 - v) if v in (0.0, 1.0) else hx(v + 1.0)
        return hx(v * rng.choice([0.5, 2.0, -1.0]) + rng.randint(-4, 4) / 16.0)
    for key, kind in (("prices", "price"), ("bidoffer", "pos"), ("coupons", "num"), ("cost_long", "pos"), ("cost_short", "pos")):
        if d.get(key):
            for col in d[key]:
                col[1] = [x if r <= cut else (garble(x, "price") if kind == "price" else hx(abs(float.fromhex(garble(x, "num")))))
                          for r, x in enumerate(col[1])]
    for k, a in d.get("adata", []):
        if a[0] == "frame":
            idx = a[1]
            for col in a[2]:
                vals = set(col[1])
                kind = "bool" if vals <= {hx(0.0), hx(1.0), "nan"} else "num"
                col[1] = [x if idx[r] <= tcut else garble(x, kind) for r, x in enumerate(col[1])]
        elif a[0] == "trans":
            # blotter rows stamped after the cut: other quantities and prices (never zero / NaN)
            for row in a[1]:
                if row[0] > tcut:
                    row[2] = hx(float.fromhex(row[2]) * rng.choice([0.5, 2.0, -1.0]) + rng.choice([-3.0, 1.0, 4.0]))
                    row[3] = garble(row[3], "price")
        elif a[0] == "risk":
            for m, idx, cols in a[1]:
                for col in cols:
                    col[1] = [x if idx[r] <= tcut else garble(x, "num") for r, x in enumerate(col[1])]
        elif a[0] in ("dates", "roll"):
            # close / roll dates after the cut move to another date after the cut; roll factors change too
            later = [x for x in case["dates"] if x > tcut]
            for row in a[1]:
                if row[1] > tcut and later:
                    row[1] = rng.choice(later)
                    if a[0] == "roll":
                        row[3] = hx(rng.choice([0.25, 1.5, 3.0]))
    d["name"] = case["name"] + "_p%d" % cut
    return d


def lookahead_suite(run, scratch, seed, n):
    import random
    import gen_backtest
    rng = random.Random(seed * 101 + 9)
    cases = gen_backtest.gen_cases(seed + 11, n)
    pairs = []
    for c in cases:
        cut = rng.randint(1, len(c["dates"]) - 2)
        pairs.append((dict(c, dump_on_error=True), dict(perturb_after(c, cut, rng), dump_on_error=True), cut))
    bad, compared, nontrivial = run_lookahead_pairs(run, scratch, pairs, "lookahead_pairs")
    return {"evaluations": 2 * len(pairs), "distinct_nontrivial": nontrivial, "traces_validated_against_impl": compared,
            "oracle_failures": bad,
            "rule": "each generated backtest is run twice on the implementation: as is, and with every price, signal, stat, "
                    "target weight, notional, bid/offer, coupon and cost value dated after a random cut replaced; all history "
                    "rows and all per-run temp traces up to the cut must be identical token for token; non-trivial = pairs with "
                    "an open position before the cut",
            "samples": [{"name": a["name"], "cut_row": cut, "tree": a["tree"]} for a, b, cut in pairs[:2]]}


def lookahead_search(run, scratch, seed, cases, per_case=40):
    """the search for a failing input after a correspondence broke: every backtest on which model and implementation
    disagree is perturbed after several cuts and run on the implementation alone"""
    import random
    rng = random.Random(seed * 7 + 1)
    pairs = []
    for c in cases[:12]:
        n = len(c["dates"])
        cuts = list(range(1, n - 1))
        rng.shuffle(cuts)
        for cut in sorted(cuts[:per_case]):
            b = perturb_after(c, cut, rng)
            pairs.append((dict(c, name=c["name"] + "_s%d" % cut, dump_on_error=True),
                          dict(b, name=c["name"] + "_s%dp" % cut, dump_on_error=True), cut))
    if not pairs:
        return {"evaluations": 0, "distinct_nontrivial": 0, "traces_validated_against_impl": 0, "oracle_failures": 0,
                "rule": "no disagreeing backtest to search from", "samples": []}
    bad, compared, nontrivial = run_lookahead_pairs(run, scratch, pairs, "lookahead_search")
    return {"evaluations": 2 * len(pairs), "distinct_nontrivial": nontrivial, "traces_validated_against_impl": compared,
            "oracle_failures": bad,
            "rule": "targeted search after a broken correspondence: the disagreeing backtests, perturbed after up to %d cuts each" % per_case,
            "samples": [{"name": a["name"], "cut_row": cut} for a, b, cut in pairs[:2]]}


def run_lookahead_pairs(run, scratch, pairs, suite_name):
    flat = [x for a, b, _ in pairs for x in (a, b)]
    out = []
    for i in range(0, len(flat), 120):
        out.append(common.parse_dump(common.run_impl(scratch, "impl_backtest.py", json.dumps(flat[i:i + 120]))))
    dumps = {}
    for o in out:
        dumps.update(o)
    bad, compared, nontrivial = 0, 0, 0
    for a, b, cut in pairs:
        da, db = dumps.get(a["name"]), dumps.get(b["name"])
        if not da or not db or not da["steps"] or not db["steps"]:
            continue
        sa, sb = da["steps"][-1]["state"], db["steps"][-1]["state"]
        if not sa or not sb:
            continue
        lim = cut + 2          # rows 0..cut+1 of the run (row 0 is synthetic, row r+1 is data date r)
        compared += 1
        diff = None
        def zero_prefix(toks):
            return all((not tok_nonzero(t)) and t != "nan" for t in toks[:lim])
        for key in sorted(set(sa) | set(sb)):
            fld = key.split(" ")[1]
            if fld.startswith("h_") or fld.startswith("hg_") or fld.startswith("ucol."):
                if key not in sa or key not in sb:
                    # a security created lazily after the cut exists in one run only: it must have no history before
                    only = sa.get(key, sb.get(key))
                    if fld.startswith("ucol.") or fld == "hg_prices" or zero_prefix(only):
                        continue
                    diff = (key, sa.get(key, [])[:lim], sb.get(key, [])[:lim])
                    break
                if sa[key][:lim] != sb[key][:lim]:
                    diff = (key, sa[key][:lim], sb[key][:lim])
                    break
            elif key in sa and fld.startswith("trace.") and fld.endswith(".res") and sa[key][0] != "-" and int(sa[key][0]) < lim:
                base = key[:-4]
                for suffix in (".res", ".selected", ".weights", ".stat"):
                    if sa.get(base + suffix) != sb.get(base + suffix):
                        diff = (base + suffix, sa.get(base + suffix), sb.get(base + suffix))
                        break
                if diff:
                    break
        if any(x != y for k2 in sa if k2.endswith(" h_positions") for x, y in zip(sa[k2][:lim], [0] * lim) if tok_nonzero(x)):
            nontrivial += 1
        if diff:
            bad += 1
            if bad <= 2:
                run.violation({"suite": suite_name, "case": a, "perturbed_case": b, "cut_row": cut,
                               "first_difference": {"key": diff[0], "original": diff[1], "perturbed": diff[2]}},
                              "results up to data date %d of %s change when only later data is changed (%s)"
                              % (cut, a["name"], diff[0]))
    return bad, compared, nontrivial


def tok_nonzero(t):
    v = common.tok_val(t)
    return isinstance(v, float) and v != 0.0


# ---------------------------------------------------------------- C09: nested index vs stand-alone index
def deep_nested_case(rng, name):
    """root -> mid -> leaves -> securities; every stack gated by a calendar scheduler; commissions / whole units / spreads"""
    import gen_backtest
    from gen_engine import hx, dy
    n = rng.randint(8, 18)
    dates = gen_backtest.gen_dates(rng, n)
    nt = rng.randint(2, 4)
    tickers = list(range(1, nt + 1))
    prices = [[t, gen_backtest.gen_price_col(rng, n, p_nan=0.0)] for t in tickers]
    leaves = []
    for j in range(rng.randint(1, 2)):
        sub = rng.sample(tickers, rng.randint(1, nt))
        leaves.append(["strat", 10 + j, False, [["sec", t, "sec", False, hx(1.0), "str"] for t in sub],
                       [["runperiod", rng.choice(["daily", "weekly", "monthly"]), True, False, False],
                        ["selectall", False, False], ["weighequally"], ["rebalance"]]])
    lw = [[k[1], hx(rng.choice([0.25, 0.5, 0.375]))] for k in leaves]
    mid = ["strat", 20, False, leaves, [["runperiod", rng.choice(["daily", "weekly"]), True, False, False],
                                         ["weighspecified", lw], ["rebalance"]]]
    root = ["strat", 30, False, [mid], [rng.choice([["runonce"], ["runperiod", "weekly", True, False, False]]),
                                        ["weighspecified", [[20, hx(rng.choice([0.25, 0.5, 1.0]))]]], ["rebalance"]]]
    comm = rng.choice([["none"], ["flat", hx(dy(rng, 1, 4, 4))], ["prop", hx(0.001953125)], ["pershare", hx(0.015625)]])
    bidoffer = [[t, [hx(dy(rng, 0, 1, 8)) for _ in range(n)]] for t in tickers] if rng.random() < 0.3 else None
    return {"name": name, "dates": dates, "intpos": rng.random() < 0.5, "comm": comm, "prices": prices, "bidoffer": bidoffer,
            "coupons": None, "cost_long": None, "cost_short": None, "adata": [], "capital": hx(float(rng.choice([100000, 1000000]))),
            "tree": root, "pyseed": 0}


def nested_suite(run, scratch, seed, n):
    import backtest_corr
    import gen_backtest
    import oracles as O
    import random
    rng = random.Random(seed * 37 + 2)
    cases, pairs = [], []
    tries = 0
    while len(pairs) < n and tries < 20 * n:
        tries += 1
        c = gen_backtest.gen_case(rng, "n%05d" % tries)
        t = c["tree"]
        if t[0] != "strat" or t[2] or not any(k[0] == "strat" for k in t[3]):
            continue
        subs = []
        for k in t[3]:
            if k[0] != "strat":
                continue
            fl = O.flat_algos(k[4])
            # inside the property's quantifier: deterministic, gated by a calendar scheduler, no run_always algo
            if k[4] and k[4][0][0] == "runperiod" and not any(a[0] == "always" for a in k[4]) and \
                    not any(a[0] in ("useradjust", "capitalflow") for a in fl):
                subs.append(k)
        if not subs:
            continue
        cases.append(c)
        for k in subs:
            alone = dict(c)
            alone["tree"] = k
            alone["capital"] = (1000000.0).hex()
            alone["name"] = "%s_alone%d" % (c["name"], k[1])
            cases.append(alone)
            pairs.append((c["name"], k[1], alone["name"]))
    # three-level trees: the compared child is itself a parent (settings must reach its own sub-strategies)
    deep = 0
    while deep < max(10, n // 4):
        tries += 1
        c = deep_nested_case(rng, "n%05d" % tries)
        cases.append(c)
        mid = c["tree"][3][0]
        alone = dict(c)
        alone["tree"] = mid
        alone["capital"] = (1000000.0).hex()
        alone["name"] = "%s_alone%d" % (c["name"], mid[1])
        cases.append(alone)
        pairs.append((c["name"], mid[1], alone["name"]))
        deep += 1
    res = backtest_corr.run_cases(cases, scratch)
    by = {r[0]["name"]: r for r in res}
    tally = {"equal": 0, "drift": 0, "diff": 0}
    first_diff = None
    for r in res:
        tally[r[1]] += 1
        if r[1] == "diff" and first_diff is None:
            first_diff = r
    bad, compared, moved = 0, 0, 0
    for nested_name, kid, alone_name in pairs:
        a, b = by[nested_name][3], by[alone_name][3]
        if not a or not b or a["steps"][-1]["status"][1] != "ok" or b["steps"][-1]["status"][1] != "ok":
            continue
        sa, sb = a["steps"][-1]["state"], b["steps"][-1]["state"]
        pn, ps = sa.get("r.%d hg_prices" % kid), sb.get("r hg_prices")
        pu = sa.get("r ucol.%d" % kid)
        if pn is None or ps is None:
            continue
        compared += 1
        if any(common.tok_val(x) != 100.0 for x in ps):
            moved += 1
        msg = None
        if any(common.close(x, y) != 0 for x, y in zip(pn, ps)):
            msg = "the sub-strategy's index differs from its stand-alone index"
        elif pu is not None and any(common.close(x, y) != 0 for x, y in zip(pu[1:], pn[1:])):
            msg = "the parent's universe column for the child differs from the child's index"
        if msg:
            bad += 1
            if bad <= 2:
                run.violation({"suite": "nested_vs_standalone", "case": by[nested_name][0], "standalone_case": by[alone_name][0],
                               "child": kid, "nested_prices": pn, "standalone_prices": ps, "parent_universe_column": pu},
                              "%s (%s child %d)" % (msg, nested_name, kid))
    if first_diff is not None:
        c, v, d, ic, mc = first_diff
        run.violation({"suite": "nested_vs_standalone", "case": c, "difference": d, "n_disagreeing_cases": tally["diff"],
                       "broken": "correspondence nested_vs_standalone (Algos.v / Engine.v paper copies vs bt)"},
                      "correspondence nested_vs_standalone: implementation and model disagree on %d of %d runs; first: %s %s"
                      % (tally["diff"], len(res), c["name"], json.dumps(d)[:300]))
    return {"evaluations": len(cases), "distinct_nontrivial": moved, "traces_validated_against_impl": tally["equal"] + tally["drift"],
            "bit_drift": tally["drift"], "disagreements": tally["diff"], "pairs_compared": compared, "oracle_failures": bad,
            "rule": "nested backtests whose sub-strategies are deterministic and gated by a calendar scheduler (no run_always algo); "
                    "each sub-strategy definition is also backtested alone on the same data and settings with the default capital; the "
                    "child's recorded index, the parent's universe column for it and the stand-alone index must be identical bit "
                    "for bit, whatever and whenever the parent allocates; all four runs also checked against the model; non-trivial = "
                    "pairs whose index actually moves",
            "samples": [{"nested": p[0], "child": p[1]} for p in pairs[:3]]}


# ---------------------------------------------------------------- C10: completion / finiteness, ill-formed stream
EXTRA_PREFIXES = ("REP ", "RV ", "RT ", "ERRAT ")


def split_extra(ic):
    """take the report / error-date lines out of an implementation dump (the model has no such keys)"""
    extra = {}
    for st in ic["steps"]:
        for key in list(st["state"]):
            if key.startswith(EXTRA_PREFIXES):
                extra[key] = st["state"].pop(key)
    return extra


NONFINITE = ("nan", "inf", "-inf")


def nonfinite_histories(state):
    """recorded numbers that are not finite: every history row of every node (securities: values, positions,
    notionals, outlays; strategies: prices, values, notionals, cash, fees, flows, universe columns of children)"""
    out = []
    for key, toks in state.items():
        f = key.split(" ")[1]
        if f.startswith(("h_", "hg_", "ucol.")):
            if any(t in NONFINITE for t in toks):
                out.append(key)
    return out


def wellformed_suite(run, scratch, seed, n, name="wellformed_runs"):
    import gen_backtest
    cases = gen_backtest.gen_wellformed_cases(seed, n)
    for c in cases:
        c["report_error_date"] = True
    tally = {"equal": 0, "drift": 0, "diff": 0}
    hist, rep_hist = {}, {}
    first_diff = None
    nontrivial = set()
    bad = 0
    for i in range(0, len(cases), 100):
        part = cases[i:i + 100]
        di = common.parse_dump(common.run_impl(scratch, "impl_reports.py", json.dumps(part)))
        dm = common.parse_dump(common.run_model("\n".join(common.bt_case_to_sexp(c) for c in part)))
        for c in part:
            ic, mc = di.get(c["name"]), dm.get(c["name"])
            if ic is None or mc is None:
                tally["diff"] += 1
                first_diff = first_diff or (c, {"what": "case missing from output"})
                continue
            extra = split_extra(ic)
            v, d = common.compare_case(ic, mc)
            tally[v] += 1
            if v == "diff" and first_diff is None:
                first_diff = (c, d)
            st = ic["steps"][-1]["status"]
            k = st[2] if len(st) > 2 and st[1] == "err" else "completed"
            hist[k] = hist.get(k, 0) + 1
            fails = []
            if k != "completed":
                nested = any(x[0] == "strat" for x in c["tree"][3])
                at = extra.get("ERRAT now", ["?"])[0]
                if k in ("ESizingDiverged", "ESizingStuck", "ESizingLoop"):
                    run.known_seen.add("c10_K1_sizing")
                    continue
                if k == "EBadPrice" and nested and at == str(c["dates"][0] - 86400):
                    run.known_seen.add("c10_K15_synthetic_row")
                    continue
                fails.append("a well-formed backtest raised %s (tree date %s)" % (k, at))
            else:
                state = ic["steps"][-1]["state"]
                if any(key.endswith(" h_outlays") and any(common.tok_val(t) != 0 for t in toks) for key, toks in state.items()):
                    nontrivial.add(json.dumps([c["tree"], c["dates"][:3]]))
                nf = nonfinite_histories(state)
                if nf:
                    fails.append("non-finite numbers recorded in %s" % ", ".join(nf[:4]))
                for key, toks in sorted(extra.items()):
                    if key.startswith("REP "):
                        rk = key[4:] + ":" + " ".join(toks)
                        rep_hist[rk] = rep_hist.get(rk, 0) + 1
                        if toks[0] != "ok":
                            fails.append("report %s raised %s" % (key[4:], " ".join(toks[1:])))
                    elif key.startswith(("RV ", "RT ")) and any(t in NONFINITE for t in toks):
                        fails.append("report %s holds non-finite numbers" % key.split(" ")[1])
            if fails:
                bad += 1
                if bad <= 3:
                    run.violation({"suite": name, "case": c, "failures": fails[:6]},
                                  "C10: %s (%s)" % (fails[0], c["name"]))
    if first_diff is not None:
        c, d = first_diff
        run.violation({"suite": name, "case": c, "difference": d, "n_disagreeing_cases": tally["diff"],
                       "broken": "correspondence %s (model Algos.v/Engine.v vs bt)" % name},
                      "correspondence %s: implementation and model disagree on %d of %d backtests; first: %s %s"
                      % (name, tally["diff"], len(cases), c["name"], json.dumps(d)[:300]))
    return {"evaluations": len(cases), "distinct_nontrivial": len(nontrivial),
            "traces_validated_against_impl": tally["equal"] + tally["drift"], "bit_drift": tally["drift"],
            "disagreements": tally["diff"], "final_status_histogram": hist, "report_status_histogram": rep_hist,
            "oracle_failures": bad,
            "rule": "seeded random well-formed backtests: increasing unique dates on real calendars, 2-6 tickers with finite positive prices from "
                    "their listing date on, flat / lazily declared / nested trees (children funded on the first date), stock-algo stacks "
                    "(selection only of listed tickers, long/short weights of total size <= 1, no user bookings, no empty look-back "
                    "windows), five commission families, spreads, integer / fractional; each run must complete, every history row of every "
                    "node must be finite, and 13 report accessors (weights, security_weights, positions, outlays, herfindahl_index, "
                    "turnover, Result, Result.prices / stats / display / get_weights / get_security_weights / get_transactions) must "
                    "complete with finite numbers; every run is also compared with the model",
            "samples": [{"name": c["name"], "tree": c["tree"], "dates": c["dates"][:4]} for c in cases[:2]]}


def illformed_cases(seed, n):
    """(case, expected error, class label); engine-format histories, one ill-formed situation each"""
    import random
    from gen_engine import hx, dy, NAN
    rng = random.Random(seed * 101 + 7)
    out = []

    def col(nrows, nan_at=None, zero_at=None):
        p = dy(rng, 5, 120, 8)
        c = []
        for r in range(nrows):
            p = max(0.5, p + dy(rng, -3, 3, 8))
            c.append(NAN if r == nan_at else hx(0.0) if r == zero_at else hx(p))
        return c

    def base(name, tree, prices, ops, **kw):
        c = {"name": name, "nrows": len(prices[0][1]), "intpos": rng.random() < 0.5,
             "comm": rng.choice([["none"], ["flat", hx(2.0)], ["prop", hx(0.001953125)]]),
             "prices": prices, "bidoffer": None, "coupons": None, "cost_long": None, "cost_short": None,
             "tree": tree, "ops": ops}
        c.update(kw)
        return c
    kinds = ["trade_nan", "trade_zero", "nan_open", "nan_coupon", "zero_base", "zero_notl", "fi_child", "custom_nobo",
             "transact_nan", "fi_grandchild"]
    for i in range(n):
        kind = kinds[i % len(kinds)]
        name = "x%05d" % i
        nrows = rng.randint(3, 6)
        r = rng.randint(1, nrows - 1)
        cap = float(rng.choice([1000, 10000, 100000]))
        amt = dy(rng, cap / 16, cap / 2, 4) * rng.choice([1, 1, -1])
        start = [["adjust", [], hx(cap), True, True, hx(0.0)], ["update", 0]]
        if kind in ("trade_nan", "trade_zero"):
            prices = [[1, col(nrows, nan_at=r if kind == "trade_nan" else None, zero_at=r if kind == "trade_zero" else None)],
                      [2, col(nrows)]]
            tree = ["strat", 3, False, [["sec", 1, "sec", False, hx(1.0), rng.random() < 0.3], ["sec", 2, "sec", False, hx(1.0), False]]]
            ops = start + [["allocate", [], hx(amt / 2), 2, True], ["update", r], ["allocate", [], hx(amt), 1, rng.random() < 0.7]]
            out.append((base(name, tree, prices, ops), "EBadPrice", kind))
        elif kind == "nan_open":
            prices = [[1, col(nrows, nan_at=r)], [2, col(nrows)]]
            tree = ["strat", 3, False, [["sec", 1, "sec", False, hx(1.0), False], ["sec", 2, "sec", False, hx(1.0), False]]]
            ops = start + [["update", r - 1], ["transact", [], hx(float(rng.choice([-5, 3, 10]))), 1, True, None], ["update", r]]
            out.append((base(name, tree, prices, ops), "ENanPriceOpen", kind))
        elif kind == "nan_coupon":
            prices = [[1, col(nrows)], [2, col(nrows)]]
            cps = [[1, [NAN if k == r else hx(dy(rng, 0, 1, 16)) for k in range(nrows)]], [2, [hx(0.0)] * nrows]]
            cls = rng.choice(["coupon", "couponhedge"])
            tree = ["strat", 3, True, [["sec", 1, cls, True, hx(1.0), False], ["sec", 2, "sec", False, hx(1.0), False]]]
            ops = start + [["update", r - 1], ["transact", [], hx(float(rng.choice([-5, 3, 10]))), 1, True, None], ["update", r]]
            out.append((base(name, tree, prices, ops, coupons=cps), "ENanCouponOpen", kind))
        elif kind == "zero_base":
            # an unfunded sub-strategy trades: a fee (or a price move) on a zero base
            prices = [[1, col(nrows)], [2, col(nrows)]]
            tree = ["strat", 4, False, [["strat", 3, False, [["sec", 1, "sec", False, hx(1.0), False]]], ["sec", 2, "sec", False, hx(1.0), False]]]
            ops = start + [["transact", [3], hx(float(rng.choice([-5, 3, 10]))), 1, False, None], ["update", min(r, nrows - 1)],
                           ["read", [3], "price"]]
            c = base(name, tree, prices, ops)
            c["comm"] = ["flat", hx(2.0)]
            out.append((c, "EZeroBase", kind))
        elif kind == "zero_notl":
            prices = [[1, col(nrows)], [2, col(nrows)]]
            tree = ["strat", 3, True, [["sec", 1, "hedge", False, hx(1.0), False], ["sec", 2, "fi", False, hx(1.0), False]]]
            # a hedge position carries no notional: P&L on zero notional
            ops = [["adjust", [], hx(cap), True, True, hx(0.0)], ["update", 0],
                   ["transact", [], hx(float(rng.choice([-5, 3, 10]))), 1, True, None], ["update", r], ["read", [], "price"]]
            c = base(name, tree, prices, ops)
            c["comm"] = ["flat", hx(2.0)]
            out.append((c, "EZeroNotl", kind))
        elif kind == "transact_nan":
            # a quantity trade that opens a position on a date without a price: refused at the refresh that follows
            prices = [[1, col(nrows, nan_at=r)], [2, col(nrows)]]
            fi = rng.random() < 0.5
            tree = ["strat", 3, fi, [["sec", 1, "sec", False, hx(1.0), False], ["sec", 2, "sec", False, hx(1.0), False]]]
            ops = start + [["update", r], ["transact", [], hx(float(rng.choice([-5, 3, 10]))), 1, True, None], ["read", [], "value"]]
            out.append((base(name, tree, prices, ops), "ENanPriceOpen", kind))
        elif kind == "fi_grandchild":
            # the nesting rule is about the direct parent, whatever the root is
            prices = [[1, col(nrows)], [2, col(nrows)]]
            rootfi = rng.random() < 0.7
            tree = ["strat", 5, rootfi, [["strat", 4, False, [["strat", 3, True, [["sec", 1, "fi", False, hx(1.0), False]]]]],
                                         ["sec", 2, "sec", False, hx(1.0), False]]]
            out.append((base(name, tree, prices, start), "EFiChild", kind))
        elif kind == "fi_child":
            prices = [[1, col(nrows)], [2, col(nrows)]]
            tree = ["strat", 4, False, [["strat", 3, True, [["sec", 1, "fi", False, hx(1.0), False]]], ["sec", 2, "sec", False, hx(1.0), False]]]
            out.append((base(name, tree, prices, start), "EFiChild", kind))
        else:
            prices = [[1, col(nrows)], [2, col(nrows)]]
            tree = ["strat", 3, False, [["sec", 1, "sec", False, hx(1.0), False], ["sec", 2, "sec", False, hx(1.0), False]]]
            ops = start + [["update", r], ["transact", [1], hx(float(rng.choice([-5, 3, 10]))), None, True, hx(dy(rng, 1, 100, 8))]]
            out.append((base(name, tree, prices, ops), "ECustomNoBidoffer", kind))
    return out


def illformed_suite(run, scratch, seed, n, name="illformed_stream"):
    import engine_corr
    import backtest_corr
    triples = illformed_cases(seed, n)
    res = engine_corr.run_cases([t[0] for t in triples], scratch)
    tally = {"equal": 0, "drift": 0, "diff": 0}
    per_class, bad = {}, 0
    first_diff = None
    for (c, want, kind), (_, v, d, ic, mc) in zip(triples, res):
        tally[v] += 1
        if v == "diff" and first_diff is None:
            first_diff = (c, d)
        got = "missing"
        if ic:
            errs = [st["status"][2] for st in ic["steps"] if len(st["status"]) > 2 and st["status"][1] == "err"]
            got = errs[0] if errs else "no-error"
        per_class.setdefault(kind, {}).setdefault(got, 0)
        per_class[kind][got] += 1
        if got != want:
            bad += 1
            if bad <= 3:
                run.violation({"suite": name, "case": c, "class": kind, "expected": want, "got": got},
                              "C10: ill-formed situation '%s' did not raise %s (got %s) in %s" % (kind, want, got, c["name"]))
    # duplicate tickers: Backtest construction
    import gen_backtest
    import random
    rng = random.Random(seed + 5)
    dups = []
    for i in range(max(4, n // 10)):
        c = gen_backtest.gen_wellformed_case(rng, "xd%04d" % i)
        j = rng.randrange(len(c["prices"]))
        c["prices"].insert(rng.randrange(len(c["prices"]) + 1), [c["prices"][j][0], list(c["prices"][j][1])])
        dups.append(c)
    dres = backtest_corr.run_cases(dups, scratch)
    for c, v, d, ic, mc in dres:
        tally[v] += 1
        if v == "diff" and first_diff is None:
            first_diff = (c, d)
        st = ic["steps"][-1]["status"] if ic else ["?", "?", "missing"]
        got = st[2] if len(st) > 2 and st[1] == "err" else "no-error"
        per_class.setdefault("dup_tickers", {}).setdefault(got, 0)
        per_class["dup_tickers"][got] += 1
        if got != "EDupColumn":
            bad += 1
            if bad <= 3:
                run.violation({"suite": name, "case": c, "class": "dup_tickers", "expected": "EDupColumn", "got": got},
                              "C10: duplicate tickers did not raise (got %s) in %s" % (got, c["name"]))
    if first_diff is not None:
        c, d = first_diff
        run.violation({"suite": name, "case": c, "difference": d, "n_disagreeing_cases": tally["diff"],
                       "broken": "correspondence %s (model Engine.v/Ops.v vs bt/core.py)" % name},
                      "correspondence %s: implementation and model disagree on %d cases; first: %s %s"
                      % (name, tally["diff"], c["name"], json.dumps(d)[:300]))
    return {"evaluations": len(triples) + len(dups), "distinct_nontrivial": len(triples) + len(dups),
            "traces_validated_against_impl": tally["equal"] + tally["drift"], "bit_drift": tally["drift"],
            "disagreements": tally["diff"], "error_class_histogram": per_class, "oracle_failures": bad,
            "rule": "one ill-formed situation per history with random numbers around it: allocation at a missing / zero price, missing price "
                    "or coupon on an open position, P&L on a zero base (unfunded sub-strategy paying a fee) or zero notional (hedge-only "
                    "fixed-income book), fixed-income strategy under a market-value parent, custom-price trade without bid/offer data, "
                    "duplicate ticker columns handed to Backtest: the implementation must raise exactly that error, and the model must agree "
                    "state for state up to the failing operation",
            "samples": [{"class": t[2], "expected": t[1], "ops": t[0]["ops"]} for t in triples[:2]]}


# ---------------------------------------------------------------- C11: isolation / repeatability / input immutability
def gen_kernel_case(rng, name, force_w=None):
    """flat strategies using the algos whose kernels are outside the model (random / ffn / sklearn / scipy)"""
    import gen_backtest
    from gen_engine import hx
    n = rng.randint(30, 45)
    t = 946684800 + 86400 * rng.randint(0, 8000)
    dates = []
    while len(dates) < n:                       # consecutive business days: every look-back window below has >= 8 rows
        if (t // 86400 + 3) % 7 < 5:
            dates.append(t)
        t += 86400
    nt = rng.randint(3, 5)
    tickers = list(range(1, nt + 1))
    prices = [[t, gen_backtest.gen_price_col(rng, n, p_nan=0.0)] for t in tickers]
    sched = rng.choice([["runperiod", "weekly", False, False, False], ["runperiod", "monthly", False, False, True],
                        ["everyn", rng.randint(3, 6), 0]])
    st = [["runafterdate", dates[22]], sched]
    st.append(rng.choice([["selectall", False, False], ["selectthese", rng.sample(tickers, nt - 1), False, False]]))
    if rng.random() < 0.35:
        st.append(["selectrandomly", rng.randint(2, nt - 1)])
    w = rng.choice(["weigherc"] * 3 + ["weighinvvol"] * 2 + ["weighmeanvar"] * 2 + ["weighrandomly"] * 2 + ["weighequally"])
    w = force_w or w
    if w == "weighrandomly":
        st.append(["weighrandomly", hx(0.0), hx(0.75)])
    elif w == "weighequally":
        st.append(["weighequally"])
    else:
        st.append([w, rng.choice([15, 20, 25])])
    if rng.random() < 0.3:
        st.append(["targetvol", hx(rng.choice([0.1, 0.2])), 20])
    if rng.random() < 0.3:
        st.append(["limitdeltas", hx(0.125), []])
    st.append(["rebalance"])
    kids = [["sec", t, "sec", False, hx(1.0), "str"] for t in tickers] if rng.random() < 0.5 else []
    comm = rng.choice([["none"], ["flat", hx(1.5)], ["prop", hx(0.001953125)]])
    return {"name": name, "dates": dates, "intpos": rng.random() < 0.5, "comm": comm, "prices": prices,
            "bidoffer": None, "coupons": None, "cost_long": None, "cost_short": None, "adata": [],
            "capital": hx(float(rng.choice([100000, 1000000]))), "tree": ["strat", nt + 2, False, kids, st],
            "pyseed": rng.randint(0, 1000), "kernel": True}


def perturb_prices(rng, prices):
    from gen_engine import hx
    out = []
    for t, col in prices:
        new = []
        for r, c in enumerate(col):
            if c == "nan" or r < 1:
                new.append(c)
            else:
                v = float.fromhex(c)
                new.append(hx(v * rng.choice([0.9375, 0.96875, 1.0, 1.03125, 1.0625, 1.125])) if v != 0 else c)
        out.append([t, new])
    return out


def isolation_sessions(seed, n):
    import random
    import gen_backtest
    rng = random.Random(seed * 53 + 11)
    sessions = []
    for i in range(n):
        u = rng.random()
        forced = ["weigherc", "weighinvvol", "weighmeanvar", "weighrandomly"]
        if i < 2 * len(forced):
            # every session set contains each kernel-backed weighing algo at least twice (state kept at class or module
            # level by one of them shows only when two backtests of one process use it)
            c = gen_kernel_case(rng, "i%04d" % i, force_w=forced[i % len(forced)])
        elif u < 0.35:
            c = gen_kernel_case(rng, "i%04d" % i)
        elif u < 0.55:
            c = gen_backtest.gen_fi_case(rng, "i%04d" % i)
        else:
            c = gen_backtest.gen_case(rng, "i%04d" % i)
        frames = {"d0": c["prices"], "d1": perturb_prices(rng, c["prices"])}
        base = {"intpos": c["intpos"], "comm": c["comm"], "capital": c["capital"], "pyseed": c.get("pyseed", 0)}
        runs = {"a": dict(base, frame="d0"), "b": dict(base, frame="d1")}
        if rng.random() < 0.6:
            runs["c"] = dict(base, frame="d0", intpos=not c["intpos"])
        if rng.random() < 0.4:
            runs["d"] = dict(base, frame="d0")             # a twin of a: same inputs, must give the same result
        s = {k: c.get(k) for k in ("dates", "adata", "bidoffer", "coupons", "cost_long", "cost_short")}
        s.update({"name": c["name"], "template": c["tree"], "frames": frames, "runs": runs, "kernel": bool(c.get("kernel"))})
        s["adata"] = s["adata"] or []
        sessions.append(s)
    return sessions


def random_script(rng, ids):
    """a valid interleaving: every backtest is built before it is run; one finished backtest is asked to run again"""
    pending = {i: ["build", "run"] for i in ids}
    script = []
    while pending:
        i = rng.choice(sorted(pending))
        script.append([pending[i].pop(0), i])
        if not pending[i]:
            del pending[i]
        if rng.random() < 0.25:
            done = [x for x in ids if ["run", x] in script and ["rerun", x] not in script]
            if done:
                script.append(["rerun", rng.choice(done)])
    if not any(k == "rerun" for k, _ in script):
        script.append(["rerun", rng.choice(sorted(ids))])
    return script


def isolation_suite(run, scratch, seed, n, hashseeds=(1, 4242)):
    import random
    from concurrent.futures import ThreadPoolExecutor
    rng = random.Random(seed * 59 + 3)
    sessions = isolation_sessions(seed, n)
    jobs = []          # (label, session name, hashseed, request)
    for s in sessions:
        ids = sorted(s["runs"])
        for rid in ids:
            ref = dict(s, runs={rid: s["runs"][rid]}, script=[["build", rid], ["run", rid]])
            jobs.append(("ref:" + rid, s["name"], "0", ref))
        for k, hs in enumerate(("0",) + tuple(str(h) for h in hashseeds)):
            jobs.append(("sess%d" % k, s["name"], hs, dict(s, script=random_script(rng, ids))))

    def work(job):
        label, name, hs, req = job
        try:
            out = common.run_impl(scratch, "impl_isolation.py", json.dumps({"sessions": [req]}), hashseed=hs, timeout=900)
            return common.parse_dump(out)
        except Exception as e:  # noqa: BLE001
            return {"__error__": str(e)[-600:]}
    with ThreadPoolExecutor(max_workers=14) as ex:
        outs = list(ex.map(work, jobs))
    res = {}
    for job, o in zip(jobs, outs):
        res[(job[1], job[0])] = (job, o)
    # model side for the templates the model covers
    model_cases = []
    for s in sessions:
        if s["kernel"]:
            continue
        for rid, r in s["runs"].items():
            model_cases.append({"name": "%s:%s" % (s["name"], rid), "dates": s["dates"], "intpos": r["intpos"], "comm": r["comm"],
                                "prices": s["frames"][r["frame"]], "bidoffer": s.get("bidoffer"), "coupons": s.get("coupons"),
                                "cost_long": s.get("cost_long"), "cost_short": s.get("cost_short"), "adata": s["adata"],
                                "capital": r["capital"], "tree": s["template"], "pyseed": r.get("pyseed", 0)})
    dm = {}
    for i in range(0, len(model_cases), 100):
        dm.update(common.parse_dump(common.run_model("\n".join(common.bt_case_to_sexp(c) for c in model_cases[i:i + 100]))))
    stats = {"sessions": len(sessions), "processes": len(jobs), "runs_compared": 0, "model_compared": 0, "model_diff": 0,
             "input_fingerprints": 0, "reruns": 0, "completed_refs": 0, "kernel_sessions": sum(1 for s in sessions if s["kernel"]),
             "twin_pairs": 0, "status": {}}
    bad = 0

    def viol(s, what, detail):
        nonlocal bad
        bad += 1
        if bad <= 3:
            run.violation({"suite": "isolation_sessions", "session": s, "detail": detail}, "C11: %s (%s)" % (what, s["name"]))
    first_model_diff = None
    for s in sessions:
        name = s["name"]
        refs = {}
        for rid in s["runs"]:
            job, o = res[(name, "ref:" + rid)]
            if "__error__" in o:
                viol(s, "the harness process for a single backtest failed", o["__error__"])
                continue
            refs[rid] = o.get("%s:%s" % (name, rid))
            st = refs[rid]["steps"][-1]["status"]
            k = st[2] if len(st) > 2 and st[1] == "err" else "completed"
            stats["status"][k] = stats["status"].get(k, 0) + 1
            if k == "completed":
                stats["completed_refs"] += 1
            mc = dm.get("%s:%s" % (name, rid))
            if mc is not None:
                v, d = common.compare_case(refs[rid], mc)
                stats["model_compared"] += 1
                if v == "diff":
                    stats["model_diff"] += 1
                    if first_model_diff is None:
                        first_model_diff = (s, rid, d)
            fp = o.get("%s:inputs" % name)
            if fp:
                for key, toks in fp["steps"][-1]["state"].items():
                    if key.startswith("FP "):
                        stats["input_fingerprints"] += 1
                        if toks[0] != "same":
                            viol(s, "constructing / running a backtest modified its input %s" % key[3:], {"run": rid, "diff": " ".join(toks[1:])[:400]})
        if "a" in refs and "d" in refs and refs["a"] and refs["d"]:
            stats["twin_pairs"] += 1
            v, d = common.compare_case(refs["a"], refs["d"])
            if v != "equal":
                viol(s, "two fresh processes with the same inputs and seeds give different results", {"difference": d})
        for k in range(1 + len(hashseeds)):
            job, o = res[(name, "sess%d" % k)]
            if "__error__" in o:
                viol(s, "the harness process for the session failed", o["__error__"])
                continue
            for rid in s["runs"]:
                got = o.get("%s:%s" % (name, rid))
                if got is None or refs.get(rid) is None:
                    continue
                stats["runs_compared"] += 1
                v, d = common.compare_case(refs[rid], got)
                if v != "equal":
                    viol(s, "backtest %s of a session (hash seed %s, script %s) differs from the same backtest run alone in a fresh process"
                         % (rid, job[2], json.dumps(job[3]["script"])), {"run": rid, "hashseed": job[2], "script": job[3]["script"], "difference": d})
            fp = o.get("%s:inputs" % name)
            if fp:
                for key, toks in fp["steps"][-1]["state"].items():
                    if key.startswith("FP "):
                        stats["input_fingerprints"] += 1
                        if toks[0] != "same":
                            viol(s, "constructing / running backtests modified the shared input %s" % key[3:],
                                 {"script": job[3]["script"], "diff": " ".join(toks[1:])[:400]})
                    elif key.startswith("RERUN "):
                        stats["reruns"] += 1
                        if toks[0] != "same":
                            viol(s, "asking finished backtest %s to run again changed it" % key[6:], {"script": job[3]["script"]})
    if first_model_diff is not None:
        s, rid, d = first_model_diff
        run.violation({"suite": "isolation_sessions", "session": s, "run": rid, "difference": d,
                       "broken": "correspondence isolation_sessions (model Algos.v backtest vs bt.Backtest)"},
                      "correspondence isolation_sessions: implementation and model disagree on %d runs; first: %s:%s %s"
                      % (stats["model_diff"], s["name"], rid, json.dumps(d)[:300]))
    stats.update({"evaluations": stats["runs_compared"] + stats["model_compared"], "distinct_nontrivial": stats["completed_refs"],
                  "traces_validated_against_impl": stats["model_compared"] - stats["model_diff"], "oracle_failures": bad,
                  "rule": "sessions: one strategy template (general / fixed-income generator incl. stateful algos, or a flat strategy with "
                          "SelectRandomly / WeighRandomly / WeighERC / WeighInvVol / WeighMeanVar / TargetVol) and shared frame objects; 2-4 "
                          "backtests per session on the original data, on perturbed data with the same tickers and dates, with flipped "
                          "position mode, and a twin with identical inputs; random valid build/run interleavings incl. run-again; each "
                          "session executed in three processes (PYTHONHASHSEED 0 and two others, different scripts) and each backtest "
                          "alone in a fresh process: all dumps (every history row, per-run temp traces) must be bit-identical to the "
                          "fresh-process run, which is compared with the model where the model covers the template; deep fingerprints of "
                          "template, frames and additional data before/after must be unchanged; random seeds are fixed before each run",
                  "samples": [{"name": s["name"], "template": s["template"], "runs": s["runs"]} for s in sessions[:2]]})
    return stats


# ---------------------------------------------------------------- C18: reports
def replay_case_of(c, ic, extra):
    """the backtest that replays the transaction list of a finished run through ReplayTransactions: a flat strategy holding
    every traded ticker, same data / costs / position mode; None when the run is outside the round-trip's scope"""
    from gen_engine import hx
    rt = sorted(((int(k[3:]), v) for k, v in extra.items() if k.startswith("RT ")), key=lambda kv: kv[0])
    if not rt:
        return None
    tree = c["tree"]
    nested = any(k[0] == "strat" for k in tree[3])
    if tree[2]:
        return None                                   # fixed-income books: notional-based, different round trip
    if nested and c["comm"] != ["none"]:
        return None                                   # fees are charged per sub-strategy trade, the list is per ticker
    js = json.dumps(tree)
    if '"capitalflow"' in js or '"useradjust"' in js:
        return None                                   # external flows / user bookings are not transactions
    mults = {}

    def walk(t):
        if t[0] == "sec":
            mults.setdefault(t[1], t[4])
        else:
            for k in t[3]:
                walk(k)
    walk(tree)
    ids = sorted({int(v[1][1:]) for _, v in rt})
    if any(v[3] == "nan" for _, v in rt):
        return None
    if len({json.dumps([k[4] for k in ks]) for ks in [[t for t in _secs(tree) if t[1] == i] for i in ids]}) and \
            any(len({t[4] for t in _secs(tree) if t[1] == i}) > 1 for i in ids):
        return None                                   # one ticker with different multipliers in different sub-strategies
    dates = [c["dates"][0] - 86400] + list(c["dates"])
    txs = [[dates[int(v[0])], int(v[1][1:]), v[2], v[3]] for _, v in rt]
    kids = [["sec", i, "sec", False, mults.get(i, hx(1.0)), False] for i in ids]
    n = len(c["dates"])
    bo = c.get("bidoffer") or [[t, [hx(0.0)] * n] for t, _ in c["prices"]]
    r = dict(c)
    r.update({"name": c["name"] + "_replay", "tree": ["strat", tree[1], False, kids, [["replay", 900]]],
              "adata": [[900, ["trans", txs]]], "bidoffer": bo, "reports": True})
    return r


def _secs(t):
    if t[0] == "sec":
        return [t]
    out = []
    for k in t[3]:
        out += _secs(k)
    return out


def reports_and_histories(side):
    """reading while running legitimately advances the clocks of idle securities (the model is not read): for such runs
    compare what the property is about, the reports and the recorded histories"""
    return {"build": side["build"], "steps": [
        {"status": st["status"],
         "state": {k: v for k, v in st["state"].items()
                   if k.startswith(("RV ", "RT ")) or k.endswith(".stat") or k.split(" ")[1].startswith(("h_", "hg_", "ucol."))}}
        for st in side["steps"]]}


def report_suite(run, scratch, seed, n, name="reports"):
    import gen_backtest
    import oracles as O
    half = n // 2
    cases = gen_backtest.gen_cases(seed, half) + gen_backtest.gen_wellformed_cases(seed + 1, n - half, prefix="v")
    for k, c in enumerate(cases):
        c["reports"] = True
        c["peek"] = (k % 2 == 1)      # every other run is also read while it runs (root.positions / outlays after each root stack call)
    tally = {"equal": 0, "drift": 0, "diff": 0}
    first_diff = None
    completed, bad, nontrivial = 0, 0, set()
    shapes = {"flat": 0, "nested": 0, "shared_ticker": 0, "no_trades": 0, "shorts": 0, "bidoffer": 0, "fixed_income": 0}
    replays, originals = [], {}
    for i in range(0, len(cases), 100):
        part = cases[i:i + 100]
        di = common.parse_dump(common.run_impl(scratch, "impl_reports.py", json.dumps(part)))
        dm = common.parse_dump(common.run_model("\n".join(common.bt_case_to_sexp(c) for c in part)))
        for c in part:
            ic, mc = di.get(c["name"]), dm.get(c["name"])
            if ic is None or mc is None:
                tally["diff"] += 1
                first_diff = first_diff or (c, {"what": "case missing from output"})
                continue
            extra = {}
            for st in ic["steps"]:
                for key in list(st["state"]):
                    if key.startswith(("REP ", "ERRAT ")):
                        extra[key] = st["state"].pop(key)
                    elif key.startswith(("RV ", "RT ")):
                        extra[key] = st["state"][key]          # kept: compared with the model's reports
            ic2, mc2 = ic, mc
            if c.get("peek"):
                ic2, mc2 = reports_and_histories(ic), reports_and_histories(mc)
            v, d = common.compare_case(ic2, mc2)
            tally[v] += 1
            if v == "diff" and first_diff is None:
                first_diff = (c, d)
            if ic["steps"][-1]["status"][1] != "ok":
                continue
            completed += 1
            state = ic["steps"][-1]["state"]
            nested = any(k[0] == "strat" for k in c["tree"][3])
            shapes["nested" if nested else "flat"] += 1
            shapes["fixed_income"] += 1 if c["tree"][2] else 0
            shapes["bidoffer"] += 1 if c.get("bidoffer") else 0
            secpaths = [key.split(" ")[0] for key in state if key.endswith(" h_positions") and "~" not in key]
            names = [p.split(".")[-1] for p in secpaths]
            shapes["shared_ticker"] += 1 if len(set(names)) < len(names) else 0
            ntr = sum(1 for k in extra if k.startswith("RT "))
            shapes["no_trades"] += 1 if ntr == 0 else 0
            shapes["shorts"] += 1 if any(any(common.tok_val(t) < 0 for t in state[p + " h_positions"]) for p in secpaths) else 0
            if ntr:
                nontrivial.add(json.dumps([c["tree"], c["dates"][:3]]))
            fails = O.c18_reports(c, ic, extra)
            if fails:
                bad += 1
                if bad <= 3:
                    run.violation({"suite": name, "case": c, "failures": fails[:6]}, "C18: %s (%s)" % (fails[0], c["name"]))
            r = replay_case_of(c, ic, extra)
            if r is not None and len(replays) < max(20, n // 3):
                replays.append(r)
                originals[r["name"]] = (c, ic, extra)
    # ---- round trip through ReplayTransactions
    import backtest_corr
    rres = backtest_corr.run_cases([dict(r, reports=False) for r in replays], scratch) if replays else []
    rt_ok = rt_bad = 0
    for r, v, d, ric, rmc in rres:
        tally[v] += 1
        if v == "diff" and first_diff is None:
            first_diff = (r, d)
        c, ic, extra = originals[r["name"]]
        if not ric or ric["steps"][-1]["status"][1] != "ok":
            st = ric["steps"][-1]["status"] if ric else ["?"]
            rt_bad += 1
            if rt_bad <= 2:
                run.violation({"suite": name + "_replay", "case": c, "replay_case": r, "status": st},
                              "C18: replaying the transaction list of %s raised %s" % (c["name"], " ".join(st[1:])))
            continue
        so, sr = ic["steps"][-1]["state"], ric["steps"][-1]["state"]
        msg = None
        for key, toks in extra.items():
            if key.startswith("RV positions:"):
                tid = int(key[len("RV positions:n"):])
                got = sr.get("r.%d h_positions" % tid) or ["0x0.0p+0"] * len(toks)     # never traded: not in the replay tree
                if any(common.close(a, b) < 0 for a, b in zip(toks, got)):
                    msg = "positions of n%03d are not reproduced" % tid
        # values: relative 1e-9, and absolutely 1e-9 x the size of the book (a book wound down to float dust is not
        # compared digit by digit)
        vscale = 1e-9 * max([1.0] + [abs(common.tok_val(t)) for t in so["r hg_values"] if isinstance(common.tok_val(t), float)])

        def vdiff(a, b):
            va, vb = common.tok_val(a), common.tok_val(b)
            if isinstance(va, float) and isinstance(vb, float) and abs(va - vb) <= vscale:
                return False
            return common.close(a, b) < 0
        if msg is None and any(vdiff(a, b) for a, b in zip(so["r hg_values"], sr["r hg_values"])):
            k = [vdiff(a, b) for a, b in zip(so["r hg_values"], sr["r hg_values"])].index(True)
            msg = "values are not reproduced (row %d: %s vs %s)" % (k, common.tok_val(so["r hg_values"][k]), common.tok_val(sr["r hg_values"][k]))
        if msg and msg.startswith("values"):
            # K17: a same-day round trip in one security (net trade zero) costs spread / fees but is invisible to a
            # list derived from position differences
            hidden = False
            for key, toks in so.items():
                if key.endswith(" h_outlays") and "~" not in key:
                    pos = [common.tok_val(t) for t in so[key[:-len("h_outlays")] + "h_positions"]]
                    out = [common.tok_val(t) for t in toks]
                    if any(out[k] != 0 and pos[k] == (pos[k - 1] if k else 0.0) for k in range(len(out))):
                        hidden = True
            if hidden:
                run.known_seen.add("c18_K17_round_trip_not_listed")
                rt_ok += 1
                continue
        if msg and msg.startswith("values") and '"replay"' in json.dumps(c["tree"]):
            # K18: the run itself executed a blotter with several rows of one security booked on one date; the list
            # it reports has one row per security and date
            alld = [c["dates"][0] - 86400] + list(c["dates"])
            booked = {}
            for _, a in c.get("adata", []):
                if a[0] == "trans":
                    for row in a[1]:
                        day = next((dd for dd in alld if dd >= row[0]), None)
                        if day is not None and day != alld[0]:
                            booked[(day, row[1])] = booked.get((day, row[1]), 0) + 1
            if any(v_ > 1 for v_ in booked.values()):
                run.known_seen.add("c18_K18_same_day_trades_merged")
                rt_ok += 1
                continue
        if msg and msg.startswith("values") and c.get("bidoffer"):
            # K18, second form: same-named securities in different sub-strategies traded in opposite directions on one
            # date; the list nets them per ticker, so the replay pays the spread on the net quantity only
            moves = {}
            for key, toks in so.items():
                if key.endswith(" h_positions") and "~" not in key:
                    tid = key.split(" ")[0].split(".")[-1]
                    pos = [common.tok_val(t) for t in toks]
                    for k in range(len(pos)):
                        d_ = pos[k] - (pos[k - 1] if k else 0.0)
                        if d_ != 0:
                            moves.setdefault((tid, k), []).append(d_)
            if any(min(v_) < 0 < max(v_) for v_ in moves.values()):
                run.known_seen.add("c18_K18_same_day_trades_merged")
                rt_ok += 1
                continue
        if msg and msg.startswith("values") and c.get("bidoffer") and c["comm"][0] in ("prop", "maxflat"):
            # K16: the original charges the fee on the mid price, the replay on the spread-inclusive custom price
            run.known_seen.add("c18_K16_fee_on_custom_price")
            rt_ok += 1
            continue
        if msg:
            rt_bad += 1
            if rt_bad <= 2:
                run.violation({"suite": name + "_replay", "case": c, "replay_case": r},
                              "C18: replaying the transaction list of %s through ReplayTransactions: %s" % (c["name"], msg))
        else:
            rt_ok += 1
    if first_diff is not None:
        c, d = first_diff
        run.violation({"suite": name, "case": c, "difference": d, "n_disagreeing_cases": tally["diff"],
                       "broken": "correspondence %s (model Reports.v / Algos.v vs bt/backtest.py, bt/core.py)" % name},
                      "correspondence %s: implementation and model disagree on %d of %d backtests / reports; first: %s %s"
                      % (name, tally["diff"], len(cases) + len(replays), c["name"], json.dumps(d)[:300]))
    return {"evaluations": len(cases) + len(replays), "distinct_nontrivial": len(nontrivial), "completed_runs": completed,
            "traces_validated_against_impl": tally["equal"] + tally["drift"], "bit_drift": tally["drift"], "disagreements": tally["diff"],
            "oracle_failures": bad, "shape_histogram": shapes, "round_trips": {"attempted": len(replays), "reproduced": rt_ok, "failed": rt_bad},
            "rule": "general and well-formed random backtests (flat / nested with tickers shared by sub-strategies / fixed-income, runs without "
                    "trades, shorts, spreads on or off); every other run is also read while it runs (root.positions / outlays after each root "
                    "stack call, as a monitoring algo would); after each run 13 report accessors are evaluated; weights, security weights, positions, "
                    "outlays, Herfindahl index, turnover, Result.prices and the transaction list are compared bit for bit with the model's "
                    "report functions (Reports.v) applied to the model's final tree, and recomputed independently from the raw node histories "
                    "(weights x root = node value, security weights + cash fractions = 1, positions per ticker, cumulated quantities = positions, "
                    "quantity x price x multiplier = capital spent incl. spread, stated turnover / HHI formulas); transaction lists of flat runs "
                    "(and nested runs without fees) are replayed through ReplayTransactions in a flat strategy: positions and values must be "
                    "reproduced; non-trivial = completed run with at least one transaction",
            "samples": [{"name": c["name"], "tree": c["tree"], "dates": c["dates"][:4]} for c in cases[:2]]}


# ---------------------------------------------------------------- C19: wiring, universe scoping, lazy children, settings
def wiring_oracle(c, nodes_pre, nodes_post):
    """structure after construction / after the run against the declared tree (property statement, public attributes)"""
    fails = []

    def nm(i):
        return "n%03d" % int(i)
    data_cols = [nm(t) for t, _ in c["prices"]]
    spec_by_full = {}

    def walk(t, full):
        spec_by_full[full] = t
        if t[0] == "strat":
            for k in t[3]:
                walk(k, full + ">" + nm(k[1]))
    walk(c["tree"], nm(c["tree"][1]))
    top = nm(c["tree"][1])
    for label, nodes in (("after construction", nodes_pre), ("after the run", nodes_post)):
        by_full = {n["full"]: n for n in nodes}
        if len(by_full) != len(nodes):
            fails.append("%s: two nodes share the full name %s" % (label, [n["full"] for n in nodes if [m["full"] for m in nodes].count(n["full"]) > 1][:1]))
        for n in nodes:
            want_full = n["name"] if n["full"] == top else n["parent"] + ">" + n["name"]
            if n["full"] != want_full:
                fails.append("%s: full name %s is not parent>name (%s)" % (label, n["full"], want_full))
            if n["root"] != top:
                fails.append("%s: root of %s is %s, not %s" % (label, n["full"], n["root"], top))
            if n["full"] != top and (n["parent"] not in by_full or n["name"] not in by_full[n["parent"]]["children"]):
                fails.append("%s: %s is not registered among the children of its parent %s" % (label, n["full"], n["parent"]))
            if len(set(n["children"])) != len(n["children"]) or set(n["children"]) & set(n.get("lazy", [])):
                fails.append("%s: sibling names under %s are not unique" % (label, n["full"]))

            def pre(m):
                out = [m["full"]]
                for k in m["children"]:
                    if m["full"] + ">" + k in by_full:
                        out += pre(by_full[m["full"] + ">" + k])
                return out
            if n["members"] != pre(n):
                fails.append("%s: members of %s are %s, the structure says %s" % (label, n["full"], n["members"][:6], pre(n)[:6]))
            if n["intpos"] != bool(c["intpos"]):
                fails.append("%s: integer_positions of %s is %s, the backtest was asked for %s" % (label, n["full"], n["intpos"], bool(c["intpos"])))
            if n["kind"] == "G" and not n.get("comm_ok", True):
                fails.append("%s: %s does not use the backtest's commission function" % (label, n["full"]))
        # every declared eager node exists; lazily declared ones exist or are still pending
        for full, t in spec_by_full.items():
            if full in by_full:
                continue
            par = full.rsplit(">", 1)[0]
            lazy_decl = t[0] == "sec" and t[5] in ("str", True)
            if not (lazy_decl and par in by_full and (label == "after the run" or full.rsplit(">", 1)[1] in by_full[par].get("lazy", []))):
                fails.append("%s: declared node %s is missing" % (label, full))
    # universe scoping (needs a current date: after the run)
    for n in nodes_post:
        if n["kind"] != "G" or n["full"] not in spec_by_full:
            continue
        t = spec_by_full[n["full"]]
        how = t[5] if len(t) > 5 else "list"
        declared = [nm(k[1]) for k in t[3] if k[0] == "sec"]
        subs = [nm(k[1]) for k in t[3] if k[0] == "strat"]
        if t[3] and how != "late":
            want_t = [x for x in data_cols if x in declared]
        else:
            want_t = list(data_cols)
        got = n.get("univ", [])
        if got and got[0].startswith("<"):
            continue                      # the node has no current date yet (a run that stopped early): nothing to read
        got_t = [x for x in got if x not in subs]
        if got_t != want_t:
            fails.append("universe of %s holds tickers %s, declared %s" % (n["full"], got_t, want_t))
        if sorted(x for x in got if x in subs) != sorted(subs):
            fails.append("universe of %s has sub-strategy columns %s, sub-strategies %s" % (n["full"], [x for x in got if x in subs], subs))
    return fails


def eager_twin(c):
    """the same tree with every lazily declared security (string / lazy_add) constructed up front"""
    def conv(t):
        if t[0] == "sec":
            return ["sec", t[1], t[2], t[3], t[4], False]
        return [t[0], t[1], t[2], [conv(k) for k in t[3]]] + list(t[4:])
    r = dict(c)
    r["tree"] = conv(c["tree"])
    r["name"] = c["name"] + "_eager"
    return r


def wiring_suite(run, scratch, seed, n):
    import gen_backtest
    import random
    cases = gen_backtest.gen_wiring_cases(seed, n)
    twins = [eager_twin(c) for c in cases]
    allc = cases + twins
    tally = {"equal": 0, "drift": 0, "diff": 0}
    first_diff = None
    di, dm = {}, {}
    for i in range(0, len(allc), 100):
        part = allc[i:i + 100]
        di.update(common.parse_dump(common.run_impl(scratch, "impl_wiring.py", json.dumps(part))))
        dm.update(common.parse_dump(common.run_model("\n".join(common.bt_case_to_sexp(c) for c in part))))
    structs = {}
    hist, hows, depth3 = {}, {}, 0
    bad = 0
    for c in allc:
        ic, mc = di.get(c["name"]), dm.get(c["name"])
        if ic is None or mc is None:
            tally["diff"] += 1
            first_diff = first_diff or (c, {"what": "case missing from output"})
            continue
        st = ic["steps"][-1]["state"]
        w = {k: json.loads(st.pop(k)[0]) for k in ("WJSON pre", "WJSON post") if k in st}
        structs[c["name"]] = w
        v, d = common.compare_case(ic, mc)
        tally[v] += 1
        if v == "diff" and first_diff is None:
            first_diff = (c, d)
        s = ic["steps"][-1]["status"]
        k = s[2] if len(s) > 2 and s[1] == "err" else "completed"
        hist[k] = hist.get(k, 0) + 1

        def count(t, dep):
            nonlocal depth3
            if t[0] == "strat":
                h = t[5] if len(t) > 5 else "list"
                hows[h] = hows.get(h, 0) + 1
                if dep >= 2:
                    depth3 += 1
                for kk in t[3]:
                    count(kk, dep + 1)
        if not c["name"].endswith("_eager"):
            count(c["tree"], 0)
        if len(w) == 2:
            fails = wiring_oracle(c, w["WJSON pre"], w["WJSON post"])
            if fails:
                bad += 1
                if bad <= 3:
                    run.violation({"suite": "wiring", "case": c, "failures": fails[:6]}, "C19: %s (%s)" % (fails[0], c["name"]))
    # lazy vs eager: same histories (children are created in another order, so totals may differ in the last bits)
    pairs = moved = lz_bad = 0
    for c in cases:
        a, b = di.get(c["name"]), di.get(c["name"] + "_eager")
        if not a or not b:
            continue
        sa, sb = a["steps"][-1], b["steps"][-1]
        if sa["status"][1] != "ok" or sb["status"][1] != "ok":
            if sa["status"] != sb["status"]:
                lz_bad += 1
                if lz_bad <= 2:
                    run.violation({"suite": "lazy_vs_eager", "case": c, "lazy_status": sa["status"], "eager_status": sb["status"]},
                                  "C19: lazily declared children: run ends with %s, with the same securities constructed up front %s (%s)"
                                  % (" ".join(sa["status"][1:]), " ".join(sb["status"][1:]), c["name"]))
            continue
        # a lazily created child joins its parent's children after the ones constructed up front, so sums over the
        # children run in another order and totals differ in the last bits; with whole-unit positions one such bit can
        # move a floor() by one unit.  Whole-unit runs are therefore compared only when the children ended up in the
        # same order in both runs; fractional runs are compared with a tolerance of 1e-9 x the root value.
        same_order = all(sa["state"].get(k_) == v_ for k_, v_ in sb["state"].items() if k_.endswith(" kids") and "~" not in k_)
        if c["intpos"] and not same_order:
            continue
        pairs += 1
        msg = None
        scale = max([abs(common.tok_val(t)) for t in sb["state"].get("r hg_values", [])] + [1.0])

        def differs(x, y):
            vx, vy = common.tok_val(x), common.tok_val(y)
            if isinstance(vx, float) and isinstance(vy, float):
                return not (vx == vy or abs(vx - vy) <= 1e-9 * scale)
            return vx != vy
        for key, tb in sb["state"].items():
            f = key.split(" ")[1]
            if not f.startswith(("h_", "hg_")) or "~" in key:
                continue
            ta = sa["state"].get(key)
            if ta is None:
                if any(common.tok_val(t) != 0 for t in tb):
                    msg = "%s exists only in the eager run and is not zero" % key
                continue
            if any(common.tok_val(t) != 0 for t in tb) and f == "h_positions":
                moved += 1
            if any(differs(x, y) for x, y in zip(ta, tb)):
                j = [differs(x, y) for x, y in zip(ta, tb)].index(True)
                msg = "%s row %d: lazy %s, eager %s" % (key, j, common.tok_val(ta[j]), common.tok_val(tb[j]))
                break
        if msg:
            lz_bad += 1
            if lz_bad <= 2:
                run.violation({"suite": "lazy_vs_eager", "case": c, "eager_case": eager_twin(c)},
                              "C19: a lazily created security does not behave like one constructed up front: %s (%s)" % (msg, c["name"]))
    # duplicate sibling names must be refused
    rng = random.Random(seed + 9)
    dups = []
    for i in range(max(6, n // 10)):
        c = gen_backtest.gen_wiring_case(rng, "td%04d" % i)

        def strat_nodes(t):
            out = [t] if t[0] == "strat" and t[3] else []
            if t[0] == "strat":
                for k in t[3]:
                    out += strat_nodes(k)
            return out
        tgt = rng.choice(strat_nodes(c["tree"]) or [c["tree"]])
        if not tgt[3] or (len(tgt) > 5 and tgt[5] == "dict"):
            continue
        k = rng.choice(tgt[3])
        dup = json.loads(json.dumps(k))
        if dup[0] == "sec":
            # forms that bt refuses: an eager object twice, a name given twice as a string, an eager object then the string
            first = rng.choice(["eager", "str"])
            k[5] = False if first == "eager" else "str"
            dup[5] = False if first == "eager" and rng.random() < 0.5 else "str"
        tgt[3].append(dup)
        dups.append(c)
    import backtest_corr
    dres = backtest_corr.run_cases(dups, scratch) if dups else []
    dup_hist = {}
    for c, v, d, ic, mc in dres:
        tally[v] += 1
        if v == "diff" and first_diff is None:
            first_diff = (c, d)
        s = ic["steps"][-1]["status"] if ic else ["?", "?", "missing"]
        got = s[2] if len(s) > 2 and s[1] == "err" else "no-error"
        dup_hist[got] = dup_hist.get(got, 0) + 1
        if got != "EDupChild":
            bad += 1
            if bad <= 3:
                run.violation({"suite": "wiring_duplicates", "case": c, "got": got},
                              "C19: duplicate sibling names were not refused (got %s) in %s" % (got, c["name"]))
    if first_diff is not None:
        c, d = first_diff
        run.violation({"suite": "wiring", "case": c, "difference": d, "n_disagreeing_cases": tally["diff"],
                       "broken": "correspondence wiring (model Ops.v build / create_child, Algos.v vs bt/core.py)"},
                      "correspondence wiring: implementation and model disagree on %d of %d runs; first: %s %s"
                      % (tally["diff"], len(allc) + len(dups), c["name"], json.dumps(d)[:300]))
    return {"evaluations": len(allc) + len(dups), "distinct_nontrivial": moved, "traces_validated_against_impl": tally["equal"] + tally["drift"],
            "bit_drift": tally["drift"], "disagreements": tally["diff"], "final_status_histogram": hist, "construction_histogram": hows,
            "strategies_at_depth_3": depth3, "lazy_eager_pairs": pairs, "lazy_eager_failures": lz_bad, "duplicate_cases": dup_hist,
            "oracle_failures": bad,
            "rule": "trees of depth 1-3 assembled from lists, dicts (names from keys), strings, lazy_add / eager Security objects and sub-strategies "
                    "attached later with parent=, tickers shared between sub-strategies, strategies that declare no ticker; stacks that act on the "
                    "universe (SelectAll sees sub-strategy columns); structure (parent, root, members, full names, sibling uniqueness, settings) read "
                    "from public attributes after construction and after the run, universe columns after the run, against the declared tree; "
                    "every case also with all lazily declared securities constructed up front (histories must agree, absent nodes must be zero); "
                    "duplicate sibling names in the forms bt refuses must raise; all runs also compared with the model; non-trivial = security "
                    "histories with a position in the lazy/eager comparison",
            "samples": [{"name": c["name"], "tree": c["tree"]} for c in cases[:2]]}

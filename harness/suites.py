"""Correspondence suites.  Each returns statistics for the evidence file and reports
disagreements / oracle failures through the Run object."""
import json
import os
import sys

HERE = os.path.dirname(os.path.abspath(__file__))
sys.path.insert(0, HERE)
import common  # noqa: E402
import engine_corr  # noqa: E402
import gen_engine  # noqa: E402
import oracles  # noqa: E402


def case_digest(c):
    return json.dumps([c["tree"], c["ops"], c["comm"], c["intpos"]], sort_keys=True)


def engine_suite(run, scratch, seed, n, oracle_fns=(), profile=None, name="engine_histories", known=(), keep=False):
    """random operation histories; raw state compared after every op; oracles on observed states.
    oracle_fns: list of (label, fn(case, state, mults) -> [failure strings])"""
    cases = engine_corr.prune_invalid(gen_engine.gen_cases(seed, n, profile), seed)
    corpus_dir = os.path.join(common.VERIF, "corpus", name)
    if os.path.isdir(corpus_dir):
        for f in sorted(os.listdir(corpus_dir)):
            if f.endswith(".json"):
                c = json.load(open(os.path.join(corpus_dir, f)))
                c["name"] = "corpus_" + f[:-5]
                cases.insert(0, c)
    res = engine_corr.run_cases(cases, scratch)
    tally = {"equal": 0, "drift": 0, "diff": 0}
    ops_hist, err_hist, nontrivial, oracle_evals, oracle_fails = {}, {}, set(), 0, 0
    steps_total = 0
    first_diff = None
    for c, v, d, ic, mc in res:
        tally[v] = tally.get(v, 0) + 1
        if ic:
            nst = len(ic["steps"]) - 1
            steps_total += max(0, nst)
            st = ic["steps"][-1]["status"]
            k = st[2] if len(st) > 2 and st[1] == "err" else "completed"
            err_hist[k] = err_hist.get(k, 0) + 1
            traded = any(o[0] in ("allocate", "transact", "rebalance", "close", "flatten") for o in c["ops"][:nst])
            if traded and nst >= 4:
                nontrivial.add(case_digest(c))
        for o in c["ops"]:
            ops_hist[o[0]] = ops_hist.get(o[0], 0) + 1
        if v == "diff" and first_diff is None:
            first_diff = (c, d)
        if ic and oracle_fns:
            mults = oracles.mults_of_case(c)
            for k in oracles.observed_steps(c, ic):
                for label, fn in oracle_fns:
                    oracle_evals += 1
                    fails = fn(c, ic["steps"][k]["state"], mults)
                    if fails:
                        hit = [kid for kid, kf in known if kf(c, ic, k, fails)]
                        if hit:
                            for h in hit:
                                run.known_seen.add(h)
                            continue
                        oracle_fails += 1
                        if oracle_fails <= 3:
                            small = dict(c)
                            small["ops"] = c["ops"][:k]
                            run.violation({"suite": name, "case": small, "step": k, "oracle": label, "failures": fails[:6]},
                                          "%s oracle fails on implementation history %s at op %d: %s"
                                          % (label, c["name"], k - 1, fails[0]))
    if tally["diff"]:
        c, d = first_diff

        def bad(cand):
            return engine_corr.run_cases([cand], scratch)[0][1] == "diff"
        small = engine_corr.shrink(c, scratch, bad)
        r = engine_corr.run_cases([small], scratch)[0]
        # is there a property-level failure on the (shrunk) implementation history?
        found = False
        if r[3] and oracle_fns:
            mults = oracles.mults_of_case(small)
            for k in range(1, len(r[3]["steps"])):
                for label, fn in oracle_fns:
                    if fn(small, r[3]["steps"][k]["state"], mults):
                        found = True
        run.violation({"suite": name, "case": small, "difference": r[2], "n_disagreeing_cases": tally["diff"],
                       "broken": "correspondence %s (model Engine.v/Ops.v vs bt/core.py)" % name},
                      "correspondence %s: implementation and model disagree on %d of %d histories; minimal: %s"
                      % (name, tally["diff"], len(cases), json.dumps(r[2])[:300]),
                      found_input=found or True)
    samples = [{"name": c["name"], "tree": c["tree"], "ops": c["ops"][:8], "comm": c["comm"], "intpos": c["intpos"]}
               for c in cases[:2]]
    return {"_kept": [(c, ic) for c, v, d, ic, mc in res if ic] if keep else None,
            "evaluations": len(cases), "distinct_nontrivial": len(nontrivial),
            "traces_validated_against_impl": tally["equal"] + tally["drift"], "bit_drift": tally["drift"],
            "disagreements": tally["diff"], "ops_executed": steps_total, "op_histogram": ops_hist,
            "final_status_histogram": err_hist, "oracle_evaluations": oracle_evals, "oracle_failures": oracle_fails,
            "rule": "seeded random trees (flat/nested, shared tickers, lazy children, 5 security classes, FI and MV "
                    "roots), dyadic price grids with NaN/zero/negative cells, spreads, coupons, 5 commission families; "
                    "op histories pruned against the model to be mostly valid; non-trivial = distinct (tree, ops, "
                    "settings) with >= 4 executed ops including a trade",
            "samples": samples}


def backtest_suite(run, scratch, seed, n, name="backtest_runs", oracle_fns=(), known=(), gen=None, keep=False):
    """whole backtests (random stock-algo stacks, flat / nested / fixed-income trees); final raw state of every
    node incl. all history rows, the paper copies and the per-run temp traces compared with the model"""
    import backtest_corr
    import gen_backtest
    cases = (gen or gen_backtest.gen_cases)(seed, n)
    corpus_dir = os.path.join(common.VERIF, "corpus", name)
    if os.path.isdir(corpus_dir):
        for f in sorted(os.listdir(corpus_dir)):
            if f.endswith(".json"):
                c = json.load(open(os.path.join(corpus_dir, f)))
                c["name"] = "corpus_" + f[:-5]
                cases.insert(0, c)
    res = backtest_corr.run_cases(cases, scratch)
    tally = {"equal": 0, "drift": 0, "diff": 0}
    err_hist, algo_hist, nontrivial = {}, {}, set()
    first_diff = None
    oracle_evals = oracle_fails = 0
    for c, v, d, ic, mc in res:
        tally[v] = tally.get(v, 0) + 1
        if ic:
            st = ic["steps"][-1]["status"]
            k = st[2] if len(st) > 2 and st[1] == "err" else "completed"
            err_hist[k] = err_hist.get(k, 0) + 1
            if k == "completed":
                state = ic["steps"][-1]["state"]
                if any(key.endswith(" h_outlays") and any(common.tok_val(t) != 0 for t in toks) for key, toks in state.items()):
                    nontrivial.add(json.dumps([c["tree"], c["dates"][:3]]))
                for label, fn in oracle_fns:
                    oracle_evals += 1
                    fails = fn(c, ic)
                    if fails:
                        hit = [kid for kid, kf in known if kf(c, ic, fails)]
                        if hit:
                            for h in hit:
                                run.known_seen.add(h)
                            continue
                        oracle_fails += 1
                        if oracle_fails <= 3:
                            run.violation({"suite": name, "case": c, "oracle": label, "failures": fails[:6]},
                                          "%s oracle fails on backtest %s: %s" % (label, c["name"], fails[0]))

        def walk(t):
            if t[0] == "strat":
                for a in t[4]:
                    algo_hist[a[0]] = algo_hist.get(a[0], 0) + 1
                for k in t[3]:
                    walk(k)
        walk(c["tree"])
        if v == "diff" and first_diff is None:
            first_diff = (c, d)
    if tally["diff"]:
        c, d = first_diff
        run.violation({"suite": name, "case": c, "difference": d, "n_disagreeing_cases": tally["diff"],
                       "broken": "correspondence %s (model Algos.v/Engine.v vs bt/algos.py, bt/backtest.py, bt/core.py)" % name},
                      "correspondence %s: implementation and model disagree on %d of %d backtests; first: %s %s"
                      % (name, tally["diff"], len(cases), c["name"], json.dumps(d)[:300]))
    return {"evaluations": len(cases), "distinct_nontrivial": len(nontrivial),
            "traces_validated_against_impl": tally["equal"] + tally["drift"], "bit_drift": tally["drift"],
            "disagreements": tally["diff"], "final_status_histogram": err_hist, "algo_histogram": algo_hist,
            "oracle_evaluations": oracle_evals, "oracle_failures": oracle_fails,
            "rule": "seeded random backtests: 6-24 dates on real calendars (year ends, ISO week 53, leap day, gaps), "
                    "2-6 tickers with late listings / NaN gaps / zero prices, flat, nested (parent allocating between "
                    "sub-strategies with lazy string children) and fixed-income trees, stacks assembled from the stock "
                    "algos, 5 commission families, spreads, integer/fractional; non-trivial = completed run with at "
                    "least one trade, distinct by (tree, first dates)",
            "samples": [{"name": c["name"], "tree": c["tree"], "dates": c["dates"][:4]} for c in cases[:2]]}


# ---------------------------------------------------------------- C05: allocation grid
def comm_fee(comm, q, p):
    k = comm[0]
    if k == "none":
        return 0.0
    a = float.fromhex(comm[1])
    if k == "flat":
        return a
    if k == "pershare":
        return abs(q) * a
    if k == "prop":
        return abs(q) * p * a
    b = float.fromhex(comm[2])
    return max(a, abs(q) * b)


def alloc_cases(seed, tier):
    import itertools
    import random
    from gen_engine import hx
    rng = random.Random(seed)
    prices = [1.0, 12.5, 37.5, 100.0, 0.25]
    mults = [1.0, 10.0]
    priors = [0.0, 40.0, -40.0, 7.5]
    comms = [["none"], ["flat", hx(2.0)], ["pershare", hx(0.015625)], ["prop", hx(0.0078125)], ["maxflat", hx(1.0), hx(0.0078125)]]
    spreads = [0.0, 0.5]
    amounts = [0.0, 1.0, 37.0, 500.0, 14246.0, 100000.25, -1.0, -37.0, -500.0, -6439.0, -100000.25, 3.0]
    grid = list(itertools.product(prices, mults, priors, [True, False], comms, spreads, amounts))
    if tier == "quick":
        rng.shuffle(grid)
        grid = grid[:1800]
    for _ in range(600 if tier == "quick" else 40000):
        grid.append((rng.randint(1, 1600) / 8.0, rng.choice(mults), rng.choice([0.0, 0.0, float(rng.randint(-300, 300))]),
                     rng.random() < 0.5, rng.choice(comms), rng.choice([0.0, 0.25, 1.0]),
                     rng.randint(-800000, 800000) / 4.0))
    cases = []
    for i, (p, m, prior, ip, comm, sp, amt) in enumerate(grid):
        if sp >= p:
            sp = p / 4
        ops = [["adjust", [], hx(1e7), True, True, hx(0.0)], ["update", 0]]
        if prior != 0.0:
            ops.append(["transact", [1], hx(prior), None, True, None])
            ops.append(["update", 0])
        # exact close-out amounts now and then
        if prior != 0.0 and i % 11 == 0:
            amt = -(prior * p * m)
        ops.append(["allocate", [1], hx(amt), None, True])
        ops.append(["update", 0])
        cases.append({"name": "a%06d" % i, "nrows": 2, "intpos": ip, "comm": comm, "prices": [[1, [hx(p), hx(p)]]],
                      "bidoffer": [[1, [hx(sp), hx(sp)]]] if sp else None, "coupons": None, "cost_long": None,
                      "cost_short": None, "tree": ["strat", 9, False, [["sec", 1, "sec", False, hx(m), False]]],
                      "ops": ops, "_meta": {"p": p, "m": m, "prior": prior, "ip": ip, "sp": sp, "amt": amt}})
    return cases


def c05_oracle(c, ic):
    """the property statement on one recorded allocation; -> (failure text or None, classification tag)"""
    me = c["_meta"]
    p, m, prior, ip, sp, amt = me["p"], me["m"], me["prior"], me["ip"], me["sp"], me["amt"]
    k = len(c["ops"]) - 1           # step index of the allocate op (steps[0] is BUILD)
    if len(ic["steps"]) <= k:
        return None, "setup-error"
    st = ic["steps"][k]["status"]
    um = p * m

    def cost(q):
        return q * p * m + abs(q) * 0.5 * sp * m + comm_fee(c["comm"], q, p * m)
    per_unit = cost(1.0) - um if c["comm"][0] not in ("flat", "maxflat") else abs(0.5 * sp * m) + (comm_fee(c["comm"], 1e9, um) / 1e9)
    sane = per_unit < um
    if st[1] == "err":
        if st[2] in ("ESizingDiverged", "ESizingStuck", "ESizingLoop"):
            return ("allocate(%r) raises %s (price %r, mult %r, prior %r, integer %r, comm %r, spread %r)"
                    % (amt, st[2], p, m, prior, ip, c["comm"], sp)), ("K1" if sane else "insane-fee")
        return "allocate raised %s" % st[2], "error"
    state = ic["steps"][k]["state"]
    pos = common.tok_val(state["r.1 scal"][0])
    q = pos - prior
    tol = 1e-7 + 1e-9 * abs(amt)
    if amt == 0.0:
        return (None if q == 0 else "zero amount traded %r" % q), "zero"
    if abs(amt + prior * p * m) <= 1e-12 and prior != 0.0:
        return (None if abs(pos) < 1e-12 else "close-out left position %r" % pos), "closeout"
    if ip and abs(q - round(q)) > 1e-9:
        return "whole-unit position traded a fractional quantity %r" % q, "integrality"
    if q == 0:
        # nothing traded: is that the largest admissible quantity?
        if ip:
            unit = 1.0 if amt > 0 else -1.0
            if amt > 0 and cost(1.0) <= amt + tol:
                return "nothing bought although one unit costs %r <= %r" % (cost(1.0), amt), "not-maximal"
            if amt < 0:
                return "nothing sold although %r must be raised" % (-amt), "K2"
            return None, "none-affordable"
        if amt > 0 and comm_fee(c["comm"], 1e-9, um) >= amt - 1e-12:
            return None, "fixed-fee-exceeds-amount"      # no positive quantity fits: doing nothing is right
        return "fractional position did not trade for amount %r" % amt, "not-traded"
    cq = cost(q)
    if cq > amt + tol:
        tag = "K12" if abs(q + prior) < 1e-9 and prior != 0.0 else "over-budget"
        return "cost %r exceeds the amount %r (q=%r)" % (cq, amt, q), tag
    if not ip:
        if abs(cq - amt) > tol:
            return "fractional: cost %r != amount %r" % (cq, amt), "not-exact"
        return None, "exact"
    # integer: the largest quantity within the rule
    if cost(q + 1.0) <= amt + 1e-12 and not (abs(q + 1.0 + prior) < 1e-9):
        return "one more unit still fits: cost(q+1)=%r <= %r (q=%r)" % (cost(q + 1.0), amt, q), "not-maximal"
    return None, "maximal"


def alloc_suite(run, scratch, seed, tier, known_tags=("K1", "K2", "K12")):
    cases = alloc_cases(seed, tier)
    res = engine_corr.run_cases(cases, scratch, chunk=400)
    tally, tags = {"equal": 0, "drift": 0, "diff": 0}, {}
    first_diff = None
    fails = 0
    for c, v, d, ic, mc in res:
        tally[v] = tally.get(v, 0) + 1
        if v == "diff" and first_diff is None:
            first_diff = (c, d)
        if ic:
            msg, tag = c05_oracle(c, ic)
            tags[tag] = tags.get(tag, 0) + 1
            if msg:
                if tag in known_tags:
                    run.known_seen.add("c05_" + tag)
                    continue
                if tag == "insane-fee":
                    continue     # outside the property's quantifier (cost per unit not below the unit price)
                fails += 1
                if fails <= 3:
                    cc = {k: v for k, v in c.items() if k != "_meta"}
                    run.violation({"suite": "alloc_grid", "case": cc, "meta": c["_meta"], "oracle": "C05 budget", "failures": [msg]},
                                  "C05 oracle fails on the implementation: " + msg)
    if tally["diff"]:
        c, d = first_diff
        cc = {k: v for k, v in c.items() if k != "_meta"}
        run.violation({"suite": "alloc_grid", "case": cc, "difference": d, "n_disagreeing_cases": tally["diff"],
                       "broken": "correspondence alloc_grid (Engine.sec_allocate vs SecurityBase.allocate)"},
                      "correspondence alloc_grid: implementation and model disagree on %d of %d allocations; first: %s"
                      % (tally["diff"], len(cases), json.dumps(d)[:300]))
    return {"evaluations": len(cases), "distinct_nontrivial": len({json.dumps(c["_meta"], sort_keys=True) for c in cases if c["_meta"]["amt"] != 0}),
            "traces_validated_against_impl": tally["equal"] + tally["drift"], "bit_drift": tally["drift"],
            "disagreements": tally["diff"], "outcome_histogram": tags, "oracle_failures": fails,
            "rule": "product grid prices x multipliers x prior positions (flat/long/short/fractional) x integer|fractional x "
                    "5 fee kinds x spreads x amounts of both signs (quick: 1800 sampled + 600 random dyadic points; thorough: "
                    "all 9600 + 40000 random); exact close-out amounts mixed in; non-trivial = non-zero amount",
            "samples": [{k: v for k, v in c.items() if k != "_meta"} for c in cases[:1]]}

"""Correspondence suites.  Each returns statistics for the evidence file and reports
disagreements / oracle failures through the Run object."""
import json
import os
import sys

HERE = os.path.dirname(os.path.abspath(__file__))
sys.path.insert(0, HERE)
import common  # noqa: E402
import engine_corr  # noqa: E402
import gen_engine  # noqa: E402
import oracles  # noqa: E402


def case_digest(c):
    return json.dumps([c["tree"], c["ops"], c["comm"], c["intpos"]], sort_keys=True)


def engine_suite(run, scratch, seed, n, oracle_fns=(), profile=None, name="engine_histories", known=()):
    """random operation histories; raw state compared after every op; oracles on observed states.
    oracle_fns: list of (label, fn(case, state, mults) -> [failure strings])"""
    cases = engine_corr.prune_invalid(gen_engine.gen_cases(seed, n, profile), seed)
    corpus_dir = os.path.join(common.VERIF, "corpus", name)
    if os.path.isdir(corpus_dir):
        for f in sorted(os.listdir(corpus_dir)):
            if f.endswith(".json"):
                c = json.load(open(os.path.join(corpus_dir, f)))
                c["name"] = "corpus_" + f[:-5]
                cases.insert(0, c)
    res = engine_corr.run_cases(cases, scratch)
    tally = {"equal": 0, "drift": 0, "diff": 0}
    ops_hist, err_hist, nontrivial, oracle_evals, oracle_fails = {}, {}, set(), 0, 0
    steps_total = 0
    first_diff = None
    for c, v, d, ic, mc in res:
        tally[v] = tally.get(v, 0) + 1
        if ic:
            nst = len(ic["steps"]) - 1
            steps_total += max(0, nst)
            st = ic["steps"][-1]["status"]
            k = st[2] if len(st) > 2 and st[1] == "err" else "completed"
            err_hist[k] = err_hist.get(k, 0) + 1
            traded = any(o[0] in ("allocate", "transact", "rebalance", "close", "flatten") for o in c["ops"][:nst])
            if traded and nst >= 4:
                nontrivial.add(case_digest(c))
        for o in c["ops"]:
            ops_hist[o[0]] = ops_hist.get(o[0], 0) + 1
        if v == "diff" and first_diff is None:
            first_diff = (c, d)
        if ic and oracle_fns:
            mults = oracles.mults_of_case(c)
            for k in oracles.observed_steps(c, ic):
                for label, fn in oracle_fns:
                    oracle_evals += 1
                    fails = fn(c, ic["steps"][k]["state"], mults)
                    if fails:
                        hit = [kid for kid, kf in known if kf(c, ic, k, fails)]
                        if hit:
                            for h in hit:
                                run.known_seen.add(h)
                            continue
                        oracle_fails += 1
                        if oracle_fails <= 3:
                            small = dict(c)
                            small["ops"] = c["ops"][:k]
                            run.violation({"suite": name, "case": small, "step": k, "oracle": label, "failures": fails[:6]},
                                          "%s oracle fails on implementation history %s at op %d: %s"
                                          % (label, c["name"], k - 1, fails[0]))
    if tally["diff"]:
        c, d = first_diff

        def bad(cand):
            return engine_corr.run_cases([cand], scratch)[0][1] == "diff"
        small = engine_corr.shrink(c, scratch, bad)
        r = engine_corr.run_cases([small], scratch)[0]
        # is there a property-level failure on the (shrunk) implementation history?
        found = False
        if r[3] and oracle_fns:
            mults = oracles.mults_of_case(small)
            for k in range(1, len(r[3]["steps"])):
                for label, fn in oracle_fns:
                    if fn(small, r[3]["steps"][k]["state"], mults):
                        found = True
        run.violation({"suite": name, "case": small, "difference": r[2], "n_disagreeing_cases": tally["diff"],
                       "broken": "correspondence %s (model Engine.v/Ops.v vs bt/core.py)" % name},
                      "correspondence %s: implementation and model disagree on %d of %d histories; minimal: %s"
                      % (name, tally["diff"], len(cases), json.dumps(r[2])[:300]),
                      found_input=found or True)
    samples = [{"name": c["name"], "tree": c["tree"], "ops": c["ops"][:8], "comm": c["comm"], "intpos": c["intpos"]}
               for c in cases[:2]]
    return {"evaluations": len(cases), "distinct_nontrivial": len(nontrivial),
            "traces_validated_against_impl": tally["equal"] + tally["drift"], "bit_drift": tally["drift"],
            "disagreements": tally["diff"], "ops_executed": steps_total, "op_histogram": ops_hist,
            "final_status_histogram": err_hist, "oracle_evaluations": oracle_evals, "oracle_failures": oracle_fails,
            "rule": "seeded random trees (flat/nested, shared tickers, lazy children, 5 security classes, FI and MV "
                    "roots), dyadic price grids with NaN/zero/negative cells, spreads, coupons, 5 commission families; "
                    "op histories pruned against the model to be mostly valid; non-trivial = distinct (tree, ops, "
                    "settings) with >= 4 executed ops including a trade",
            "samples": samples}

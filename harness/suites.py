"""Correspondence suites.  Each returns statistics for the evidence file and reports
disagreements / oracle failures through the Run object."""
import json
import os
import sys

HERE = os.path.dirname(os.path.abspath(__file__))
sys.path.insert(0, HERE)
import common  # noqa: E402
import engine_corr  # noqa: E402
import gen_engine  # noqa: E402
import oracles  # noqa: E402


def case_digest(c):
    return json.dumps([c["tree"], c["ops"], c["comm"], c["intpos"]], sort_keys=True)


def engine_suite(run, scratch, seed, n, oracle_fns=(), profile=None, name="engine_histories", known=()):
    """random operation histories; raw state compared after every op; oracles on observed states.
    oracle_fns: list of (label, fn(case, state, mults) -> [failure strings])"""
    cases = engine_corr.prune_invalid(gen_engine.gen_cases(seed, n, profile), seed)
    corpus_dir = os.path.join(common.VERIF, "corpus", name)
    if os.path.isdir(corpus_dir):
        for f in sorted(os.listdir(corpus_dir)):
            if f.endswith(".json"):
                c = json.load(open(os.path.join(corpus_dir, f)))
                c["name"] = "corpus_" + f[:-5]
                cases.insert(0, c)
    res = engine_corr.run_cases(cases, scratch)
    tally = {"equal": 0, "drift": 0, "diff": 0}
    ops_hist, err_hist, nontrivial, oracle_evals, oracle_fails = {}, {}, set(), 0, 0
    steps_total = 0
    first_diff = None
    for c, v, d, ic, mc in res:
        tally[v] = tally.get(v, 0) + 1
        if ic:
            nst = len(ic["steps"]) - 1
            steps_total += max(0, nst)
            st = ic["steps"][-1]["status"]
            k = st[2] if len(st) > 2 and st[1] == "err" else "completed"
            err_hist[k] = err_hist.get(k, 0) + 1
            traded = any(o[0] in ("allocate", "transact", "rebalance", "close", "flatten") for o in c["ops"][:nst])
            if traded and nst >= 4:
                nontrivial.add(case_digest(c))
        for o in c["ops"]:
            ops_hist[o[0]] = ops_hist.get(o[0], 0) + 1
        if v == "diff" and first_diff is None:
            first_diff = (c, d)
        if ic and oracle_fns:
            mults = oracles.mults_of_case(c)
            for k in oracles.observed_steps(c, ic):
                for label, fn in oracle_fns:
                    oracle_evals += 1
                    fails = fn(c, ic["steps"][k]["state"], mults)
                    if fails:
                        hit = [kid for kid, kf in known if kf(c, ic, k, fails)]
                        if hit:
                            for h in hit:
                                run.known_seen.add(h)
                            continue
                        oracle_fails += 1
                        if oracle_fails <= 3:
                            small = dict(c)
                            small["ops"] = c["ops"][:k]
                            run.violation({"suite": name, "case": small, "step": k, "oracle": label, "failures": fails[:6]},
                                          "%s oracle fails on implementation history %s at op %d: %s"
                                          % (label, c["name"], k - 1, fails[0]))
    if tally["diff"]:
        c, d = first_diff

        def bad(cand):
            return engine_corr.run_cases([cand], scratch)[0][1] == "diff"
        small = engine_corr.shrink(c, scratch, bad)
        r = engine_corr.run_cases([small], scratch)[0]
        # is there a property-level failure on the (shrunk) implementation history?
        found = False
        if r[3] and oracle_fns:
            mults = oracles.mults_of_case(small)
            for k in range(1, len(r[3]["steps"])):
                for label, fn in oracle_fns:
                    if fn(small, r[3]["steps"][k]["state"], mults):
                        found = True
        run.violation({"suite": name, "case": small, "difference": r[2], "n_disagreeing_cases": tally["diff"],
                       "broken": "correspondence %s (model Engine.v/Ops.v vs bt/core.py)" % name},
                      "correspondence %s: implementation and model disagree on %d of %d histories; minimal: %s"
                      % (name, tally["diff"], len(cases), json.dumps(r[2])[:300]),
                      found_input=found or True)
    samples = [{"name": c["name"], "tree": c["tree"], "ops": c["ops"][:8], "comm": c["comm"], "intpos": c["intpos"]}
               for c in cases[:2]]
    return {"evaluations": len(cases), "distinct_nontrivial": len(nontrivial),
            "traces_validated_against_impl": tally["equal"] + tally["drift"], "bit_drift": tally["drift"],
            "disagreements": tally["diff"], "ops_executed": steps_total, "op_histogram": ops_hist,
            "final_status_histogram": err_hist, "oracle_evaluations": oracle_evals, "oracle_failures": oracle_fails,
            "rule": "seeded random trees (flat/nested, shared tickers, lazy children, 5 security classes, FI and MV "
                    "roots), dyadic price grids with NaN/zero/negative cells, spreads, coupons, 5 commission families; "
                    "op histories pruned against the model to be mostly valid; non-trivial = distinct (tree, ops, "
                    "settings) with >= 4 executed ops including a trade",
            "samples": samples}


def backtest_suite(run, scratch, seed, n, name="backtest_runs", oracle_fns=(), known=(), gen=None):
    """whole backtests (random stock-algo stacks, flat / nested / fixed-income trees); final raw state of every
    node incl. all history rows, the paper copies and the per-run temp traces compared with the model"""
    import backtest_corr
    import gen_backtest
    cases = (gen or gen_backtest.gen_cases)(seed, n)
    corpus_dir = os.path.join(common.VERIF, "corpus", name)
    if os.path.isdir(corpus_dir):
        for f in sorted(os.listdir(corpus_dir)):
            if f.endswith(".json"):
                c = json.load(open(os.path.join(corpus_dir, f)))
                c["name"] = "corpus_" + f[:-5]
                cases.insert(0, c)
    res = backtest_corr.run_cases(cases, scratch)
    tally = {"equal": 0, "drift": 0, "diff": 0}
    err_hist, algo_hist, nontrivial = {}, {}, set()
    first_diff = None
    oracle_evals = oracle_fails = 0
    for c, v, d, ic, mc in res:
        tally[v] = tally.get(v, 0) + 1
        if ic:
            st = ic["steps"][-1]["status"]
            k = st[2] if len(st) > 2 and st[1] == "err" else "completed"
            err_hist[k] = err_hist.get(k, 0) + 1
            if k == "completed":
                state = ic["steps"][-1]["state"]
                if any(key.endswith(" h_outlays") and any(common.tok_val(t) != 0 for t in toks) for key, toks in state.items()):
                    nontrivial.add(json.dumps([c["tree"], c["dates"][:3]]))
                for label, fn in oracle_fns:
                    oracle_evals += 1
                    fails = fn(c, ic)
                    if fails:
                        hit = [kid for kid, kf in known if kf(c, ic, fails)]
                        if hit:
                            for h in hit:
                                run.known_seen.add(h)
                            continue
                        oracle_fails += 1
                        if oracle_fails <= 3:
                            run.violation({"suite": name, "case": c, "oracle": label, "failures": fails[:6]},
                                          "%s oracle fails on backtest %s: %s" % (label, c["name"], fails[0]))

        def walk(t):
            if t[0] == "strat":
                for a in t[4]:
                    algo_hist[a[0]] = algo_hist.get(a[0], 0) + 1
                for k in t[3]:
                    walk(k)
        walk(c["tree"])
        if v == "diff" and first_diff is None:
            first_diff = (c, d)
    if tally["diff"]:
        c, d = first_diff
        run.violation({"suite": name, "case": c, "difference": d, "n_disagreeing_cases": tally["diff"],
                       "broken": "correspondence %s (model Algos.v/Engine.v vs bt/algos.py, bt/backtest.py, bt/core.py)" % name},
                      "correspondence %s: implementation and model disagree on %d of %d backtests; first: %s %s"
                      % (name, tally["diff"], len(cases), c["name"], json.dumps(d)[:300]))
    return {"evaluations": len(cases), "distinct_nontrivial": len(nontrivial),
            "traces_validated_against_impl": tally["equal"] + tally["drift"], "bit_drift": tally["drift"],
            "disagreements": tally["diff"], "final_status_histogram": err_hist, "algo_histogram": algo_hist,
            "oracle_evaluations": oracle_evals, "oracle_failures": oracle_fails,
            "rule": "seeded random backtests: 6-24 dates on real calendars (year ends, ISO week 53, leap day, gaps), "
                    "2-6 tickers with late listings / NaN gaps / zero prices, flat, nested (parent allocating between "
                    "sub-strategies with lazy string children) and fixed-income trees, stacks assembled from the stock "
                    "algos, 5 commission families, spreads, integer/fractional; non-trivial = completed run with at "
                    "least one trade, distinct by (tree, first dates)",
            "samples": [{"name": c["name"], "tree": c["tree"], "dates": c["dates"][:4]} for c in cases[:2]]}

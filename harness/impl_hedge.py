"""HedgeRisks with several measures / instruments (the linear solve is outside the model): run on the real bt,
post-condition: after hedging and a fresh UpdateRisk every hedged measure is zero (square case, or more instruments
than measures with the pseudo-inverse); with fewer instruments the residual satisfies the normal equations.
Input {"seed", "n"}; output JSON."""
import json
import random
import sys
import warnings

import numpy as np
import pandas as pd

warnings.filterwarnings("ignore")
import bt  # noqa: E402
import bt.algos as algos  # noqa: E402


def run(seed, n):
    rng = random.Random(seed)
    fails, evals = [], 0
    for it in range(n):
        nd = rng.randint(6, 12)
        dts = pd.date_range("2020-01-%02d" % rng.randint(1, 9), periods=nd, freq="B")
        nm = rng.randint(1, 3)
        shape = rng.choice(["square", "square", "over", "under"]) if nm > 1 else rng.choice(["square", "over"])
        nh = nm if shape == "square" else (nm + 1 if shape == "over" else nm - 1)
        body = ["b%d" % i for i in range(rng.randint(1, 3))]
        hedges = ["h%d" % i for i in range(nh)]
        cols = body + hedges
        data = pd.DataFrame({c: [50 + rng.random() * 50 for _ in range(nd)] for c in cols}, index=dts)
        measures = ["m%d" % i for i in range(nm)]
        ur = {}
        for m in measures:
            # every measure's table has its own index: some start earlier, so row numbers differ between tables
            extra = rng.randint(0, 3)
            ix = pd.bdate_range(end=dts[-1], periods=nd + extra)
            ur[m] = pd.DataFrame({c: [rng.choice([-2, -1, 1, 2, 3]) + rng.random() + 0.05 * j for j in range(len(ix))]
                                  for c in cols if rng.random() < 0.9 or c in hedges}, index=ix)
        mult = {c: rng.choice([1.0, 1.0, 2.0, 0.5]) for c in cols}
        kids = [bt.Security(c, multiplier=mult[c]) for c in cols]
        pseudo = shape != "square"
        stack = [algos.RunDaily(run_on_last_date=True), algos.WeighSpecified(**{c: 0.5 / len(body) for c in body}), algos.Rebalance()] + \
                [algos.UpdateRisk(m) for m in measures] + [algos.SelectThese(hedges), algos.HedgeRisks(measures, pseudo=pseudo)] + \
                [algos.UpdateRisk(m) for m in measures]
        s = bt.Strategy("s", stack, children=kids)
        b = bt.Backtest(s, data, integer_positions=False, additional_data={"unit_risk": ur}, progress_bar=False)
        evals += 1
        try:
            b.run()
        except Exception as e:  # noqa: BLE001
            if "Singular" in str(e):
                continue
            fails.append({"what": "raised %r" % (e,), "seed": seed, "it": it})
            continue
        st = b.strategy
        now = st.now
        if st.bankrupt:
            continue          # liquidated: the stack (and UpdateRisk) did not run on the last date
        gross = sum(abs(ur[m][c].loc[now] * st[c].position * mult[c]) for m in measures for c in cols if c in ur[m] and c in st.children)
        risk = np.array([st.risk[m] for m in measures])
        if shape in ("square", "over"):
            if np.abs(risk).max() > 1e-7 * max(1.0, gross):
                fails.append({"what": "after HedgeRisks (%s, %d measures, %d instruments) the risk is %s (gross %r)"
                                      % (shape, nm, nh, risk.tolist(), gross), "seed": seed, "it": it})
        else:
            J = np.array([[(ur[m][h].loc[now] if h in ur[m] else 0.0) * mult[h] for m in measures] for h in hedges])
            g = J @ risk
            if np.abs(g).max() > 1e-6 * max(1.0, gross) * max(1.0, np.abs(J).max()):
                fails.append({"what": "least-squares hedge: residual risk %s is not orthogonal to the instruments (J r = %s)"
                                      % (risk.tolist(), g.tolist()), "seed": seed, "it": it})
    return {"evaluations": evals, "failures": fails[:10], "n_failures": len(fails)}


if __name__ == "__main__":
    req = json.load(sys.stdin)
    json.dump(run(req["seed"], req["n"]), sys.stdout, default=str)

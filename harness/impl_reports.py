"""Implementation side of the report suites (C10, C18): runs the backtest like impl_backtest.py, dumps the raw
node state, then evaluates every report accessor of the finished Backtest / Result and prints

  REP <report> ok | err <class>
  RV  <report>:<column> <hex floats, one per row>        (numeric reports, all rows incl. the synthetic one)
  RT  <k> <row> <security> <quantity> <price>             (transaction list, in order; row of the data index)

Reports: Backtest.weights / security_weights / positions / herfindahl_index / turnover, Result.prices,
Result.get_transactions / get_weights / get_security_weights, Result.stats, Result.display (stdout swallowed),
Strategy.outlays."""
import contextlib
import io
import json
import sys
import warnings

import numpy as np
import pandas as pd

warnings.filterwarnings("ignore")
import bt  # noqa: E402
from impl_engine import classify, pf, install_trace  # noqa: E402
import impl_backtest  # noqa: E402


def emit_frame(out, label, df):
    if isinstance(df, pd.Series):
        out.append("RV %s:- %s" % (label, " ".join(pf(v) for v in df.values)))
        return
    for col in df.columns:
        out.append("RV %s:%s %s" % (label, str(col), " ".join(pf(v) for v in df[col].values)))


def reports(b, out):
    def rep(name, fn, emit=None):
        try:
            with contextlib.redirect_stdout(io.StringIO()):
                v = fn()
        except Exception as e:  # noqa: BLE001
            out.append("REP %s err %s" % (name, classify(e)))
            return None
        out.append("REP %s ok" % name)
        if emit is not None:
            emit(v)
        return v
    rep("weights", lambda: b.weights, lambda v: emit_frame(out, "weights", v))
    rep("security_weights", lambda: b.security_weights, lambda v: emit_frame(out, "sweights", v))
    rep("positions", lambda: b.positions, lambda v: emit_frame(out, "positions", v))
    rep("outlays", lambda: b.strategy.outlays, lambda v: emit_frame(out, "outlays", v))
    rep("herfindahl_index", lambda: b.herfindahl_index, lambda v: emit_frame(out, "hhi", v))
    rep("turnover", lambda: b.turnover, lambda v: emit_frame(out, "turnover", v))
    res = rep("result", lambda: bt.backtest.Result(b))
    if res is not None:
        rep("result_prices", lambda: res.prices, lambda v: emit_frame(out, "resprice", v.iloc[:, 0]))
        rep("result_stats", lambda: res.stats)
        rep("result_display", lambda: res.display())
        rep("result_get_weights", lambda: res.get_weights())
        rep("result_get_security_weights", lambda: res.get_security_weights())

        def emit_tr(t):
            rows = {d: i for i, d in enumerate(b.strategy.data.index)}
            for k, ((d, s), row) in enumerate(t.iterrows()):
                out.append("RT %d %d %s %s %s" % (k, rows[d], s, pf(row["quantity"]), pf(row["price"])))
        rep("result_get_transactions", lambda: res.get_transactions(), emit_tr)


PEEK = [False]


def install_peek():
    """a monitoring read, as a user's algo would do it: after every top-level stack call of a root strategy the
    harness reads root.positions / root.outlays (public accessors; reading must be transparent, C08)"""
    import bt.core as core
    orig = core.AlgoStack.__call__

    def wrapped(self, target):
        res = orig(self, target)
        if PEEK[0] and getattr(target, "stack", None) is self and target.parent is target:
            try:
                target.positions
                target.outlays
            except Exception:  # noqa: BLE001
                pass
        return res
    wrapped._verif_wrapped = True
    core.AlgoStack.__call__ = wrapped


def main():
    install_trace()
    install_peek()
    cases = json.load(sys.stdin)
    out = []
    for c in cases:
        PEEK[0] = bool(c.get("peek"))
        impl_backtest.run_case(c, out, extra=reports)
    sys.stdout.write("\n".join(out) + "\n")


if __name__ == "__main__":
    main()
